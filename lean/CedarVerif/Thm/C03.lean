import CedarVerif.Lemmas.TypecheckSound
/-
C03 — strict validation is sound (and not vacuous).

Model: `Cedar.typeOf` (Cedar/Validation/Typecheck.lean), the mirror of `SingleEnvTypechecker::typecheck` for strict and
permissive mode, tied to the Rust typechecker by the differential run of `./check C03` (per policy and request
environment, both modes, plus the impossible-policy flag).

FULL STATEMENT: `typeOf_sound` below (a `def … : Prop`, all expressions).
PROVED: `typeOf_sound_partial` — the same statement for the expressions of `Cedar.InFragment`
(Lemmas/TypecheckDefs.lean), for BOTH modes:
    literals (incl. entity uids), `principal` `action` `resource` `context`, `&&`, `||`, `!`, `if` (at least one branch
    syntactically of boolean / long / string kind, so that the least upper bound is one of the branch types or Bool),
    unary `-`, `+ - *`, `==` (incl. the `False` typing of disjoint entity types and the singleton typing of literal
    operands), `like`, `is`, `has` and `.` on records and on entities (required / optional attributes, capabilities from
    `has`, entities absent from the store: `has` on an entity is typed Bool — not True — unless guarded).
NOT in the proved fragment (covered by the differential run against Rust and by the implementation-level soundness
search of harness/src/c03.rs only): `< <=`, `in`, `isEmpty`, `contains*`, `hasTag`/`getTag`, set / record literals,
extension calls, template slots, unknowns; `if` whose two branches are both of set / record / entity kind.
`strict_implies_permissive` is NOT proved: both modes are modelled and compared with Rust,
and the implication is checked on the implementation for every generated policy.

The invariant has the two clauses the Rust rules need (DESIGN.md App. E): a capability *holds* if its guard
(`e has a`, `e.hasTag(k)`) is true OR fails with a permitted error; and the output capabilities of an expression typed
`True` hold unconditionally.
-/
namespace Cedar.C03
open Cedar

/-- template slots are bound to uids of the slot types of the environment -/
def SlotsMatch (env : RequestEnv) (sl : SlotEnv) : Prop :=
  (∀ t, env.principalSlot = some t → ∃ u, sl.lookup .principal = some u ∧ u.ty = t) ∧
  (∀ t, env.resourceSlot = some t → ∃ u, sl.lookup .resource = some u ∧ u.ty = t)

/-- FULL STATEMENT (every expression the model types).  If `typeOf e caps = ok (τ, caps')` in the environment of a
request that — like the store — conforms to the schema (Conformance.lean), and `caps` hold, then `e` evaluates to a
value of type `τ` or fails with an entity / overflow / extension error only — never a type error, a missing attribute
or tag, or an unknown function; if the value is `true` then `caps'` hold; and if `τ = True` then `caps'` hold
unconditionally. -/
def typeOf_sound : Prop :=
  ∀ (m : ValidationMode) (s : Schema) (env : RequestEnv) (w : World),
    SchemaWF s → EnvMatches s env w.q → ConformsRequest s w.q → StoreConforms s w.es → SlotsMatch env w.sl →
    ∀ (e : Expr) (caps : Capabilities) (τ : CedarType) (c' : Capabilities),
      typeOf m s env e caps = .ok (τ, c') → CapsHold w caps →
      TySound w e τ c' ∧ (τ = .bool .tt → CapsHold w c')

/-- `typeOf_sound` for the expressions of `InFragment` (both validation modes). -/
theorem typeOf_sound_partial (m : ValidationMode) (s : Schema) (env : RequestEnv) (w : World)
    (hWF : SchemaWF s) (henv : EnvMatches s env w.q) (hreq : ConformsRequest s w.q) (hst : StoreConforms s w.es)
    (e : Expr) (hf : InFragment e = true) (caps : Capabilities) (τ : CedarType) (c' : Capabilities)
    (h : typeOf m s env e caps = .ok (τ, c')) (hc : CapsHold w caps) :
    TySound w e τ c' ∧ (τ = .bool .tt → CapsHold w c') :=
  typeOf_sound_aux hWF henv hreq hst e hf caps τ c' h hc

/-- the static types of the fragment mention single entity types only, and never `Never` -/
theorem typeOf_types_wellformed (m : ValidationMode) (s : Schema) (env : RequestEnv) (q : Request)
    (hWF : SchemaWF s) (henv : EnvMatches s env q) (e : Expr) (hf : InFragment e = true)
    (caps : Capabilities) (τ : CedarType) (c' : Capabilities) (h : typeOf m s env e caps = .ok (τ, c')) : τ.mono = true :=
  typeOf_mono hWF henv e hf caps τ c' h

/-- Corollary: a policy condition (of the fragment) that the typechecker does not reject in the environment of a
conformant request evaluates to a boolean, or fails with a permitted error — never with a type error or a missing
attribute. -/
theorem accepted_boolean_or_permitted_error (m : ValidationMode) (s : Schema) (env : RequestEnv) (w : World)
    (hWF : SchemaWF s) (henv : EnvMatches s env w.q) (hreq : ConformsRequest s w.q) (hst : StoreConforms s w.es)
    (e : Expr) (hf : InFragment e = true) (v : Verdict) (hv : checkEnv m s env e = some v) (hne : v ≠ .fail) :
    (∃ b, w.eval e = .ok (.prim (.bool b))) ∨ (∃ err, w.eval e = .error err ∧ Permitted err) := by
  unfold checkEnv at hv
  cases hE : expectOneOf (typeOf m s env e []) [boolT] with
  | error err =>
    rw [hE] at hv
    cases err <;> simp at hv
    exact (hne hv.symm).elim
  | ok p =>
    obtain ⟨τ, c'⟩ := p
    obtain ⟨ht, hs⟩ := expectOneOf_ok hE
    have hs' := (typeOf_sound_partial m s env w hWF henv hreq hst e hf [] τ c' ht (capsHold_nil w)).1
    rcases hs'.bool_cases (subtype_bool hs) with he | ⟨b, hb, _, _⟩
    · exact Or.inr he
    · exact Or.inl ⟨b, hb⟩

/-- Corollary: a condition typed `False` in the request's environment (the per-environment ingredient of the
impossible-policy warning) is never satisfied. -/
theorem typed_false_never_satisfied (m : ValidationMode) (s : Schema) (env : RequestEnv) (w : World)
    (hWF : SchemaWF s) (henv : EnvMatches s env w.q) (hreq : ConformsRequest s w.q) (hst : StoreConforms s w.es)
    (e : Expr) (hf : InFragment e = true) (hv : checkEnv m s env e = some .ff) :
    w.eval e ≠ .ok (.prim (.bool true)) := by
  unfold checkEnv at hv
  cases hE : expectOneOf (typeOf m s env e []) [boolT] with
  | error err => rw [hE] at hv; cases err <;> simp at hv
  | ok p =>
    obtain ⟨τ, c'⟩ := p
    rw [hE] at hv
    obtain ⟨ht, hs⟩ := expectOneOf_ok hE
    have hτ : τ = .bool .ff := by
      rcases subtype_bool hs with rfl | ⟨bt, rfl⟩
      · simp at hv
      · cases bt <;> simp at hv
        rfl
    subst hτ
    have hs' := (typeOf_sound_partial m s env w hWF henv hreq hst e hf [] _ c' ht (capsHold_nil w)).1
    intro htrue
    rcases hs' with ⟨err, he, _⟩ | ⟨v, hv', hi, _⟩
    · rw [htrue] at he; cases he
    · rw [htrue] at hv'; cases hv'; cases hi

/-- Corollary: a policy whose every environment is typed `False` (the impossible-policy rule) is not satisfied by any
conformant request whose environment is one of them. -/
theorem impossible_policy_never_satisfied (m : ValidationMode) (s : Schema) (pu ru : SlotUse) (w : World) (env : RequestEnv)
    (hWF : SchemaWF s) (henv : EnvMatches s env w.q) (hreq : ConformsRequest s w.q) (hst : StoreConforms s w.es)
    (e : Expr) (hf : InFragment e = true) (vs : List (RequestEnv × Verdict))
    (hvs : vs.all (fun p => checkEnv m s p.1 e == some p.2) = true) (himp : impossible vs = true)
    (hmem : ∃ v, (env, v) ∈ vs) : w.eval e ≠ .ok (.prim (.bool true)) := by
  obtain ⟨v, hm⟩ := hmem
  have h1 := List.all_eq_true.mp hvs _ hm
  have h2 := List.all_eq_true.mp himp _ hm
  simp only [beq_iff_eq] at h1 h2
  rw [h2] at h1
  exact typed_false_never_satisfied m s env w hWF henv hreq hst e hf h1

/-! ### non-vacuity: the documented guard idioms are typed, near misses are rejected -/

def exUser : EntityTypeEntry :=
  { attrs := [("active", false, .bool .anyBool), ("age", false, .long), ("name", true, .string),
              ("prefs", true, .record [("n", true, .long), ("theme", false, .string)] false)],
    isOpen := false, tags := none, descendants := [], enumIds := none }
def exView : ActionEntry :=
  { principals := ["User"], resources := ["User"], context := .record [("flag", false, .bool .anyBool), ("level", true, .long)] false,
    descendants := [], ancestors := [], attrs := [] }
def exSchema : Schema := { ets := [("User", exUser)], acts := [(⟨"Action", "view"⟩, exView)] }
def exEnv : RequestEnv :=
  { principal := "User", action := ⟨"Action", "view"⟩, resource := "User", context := exView.context,
    principalSlot := none, resourceSlot := none }

def principal : Expr := .var .principal
def context : Expr := .var .context

/-- `principal has active && principal.active` -/
def guardAnd : Expr := .and (.hasAttr principal "active") (.getAttr principal "active")
/-- `if context has flag then context.flag else false` -/
def guardIf : Expr := .ite (.hasAttr context "flag") (.getAttr context "flag") (.lit (.bool false))
/-- `principal has age && (principal.age + principal.prefs.n) has …` simplified: `principal has age && !(context has flag && context.flag)` -/
def guardNested : Expr :=
  .and (.hasAttr principal "age") (.unaryApp .not (.and (.hasAttr context "flag") (.getAttr context "flag")))
/-- `principal has age && principal.age + 1 == 19` -/
def guardArith : Expr :=
  .and (.hasAttr principal "age") (.binaryApp .eq (.binaryApp .add (.getAttr principal "age") (.lit (.int 1))) (.lit (.int 19)))
/-- `principal.prefs has theme && principal.prefs.theme like "d*" && principal is User` -/
def guardRecord : Expr :=
  .and (.hasAttr (.getAttr principal "prefs") "theme")
    (.and (.like (.getAttr (.getAttr principal "prefs") "theme") [.char 'd', .star]) (.is principal "User"))
/-- near misses -/
def missOr : Expr := .or (.hasAttr principal "active") (.getAttr principal "active")
def missElse : Expr := .ite (.hasAttr principal "active") (.lit (.bool true)) (.getAttr principal "active")
def missNot : Expr := .and (.unaryApp .not (.hasAttr principal "active")) (.getAttr principal "active")
def missOrder : Expr := .and (.getAttr principal "active") (.hasAttr principal "active")
def missOther : Expr := .and (.hasAttr principal "age") (.getAttr principal "active")

example : InFragment guardAnd = true ∧ InFragment guardIf = true ∧ InFragment guardNested = true := by decide
example : checkEnv .strict exSchema exEnv guardAnd = some .bool := by decide +kernel
example : checkEnv .strict exSchema exEnv guardIf = some .bool := by decide +kernel
example : checkEnv .strict exSchema exEnv guardNested = some .bool := by decide +kernel
example : InFragment guardArith = true ∧ InFragment guardRecord = true := by decide
example : checkEnv .strict exSchema exEnv guardArith = some .bool := by decide +kernel
example : checkEnv .strict exSchema exEnv guardRecord = some .bool := by decide +kernel
example : checkEnv .strict exSchema exEnv (.binaryApp .eq (.lit (.int 1)) (.lit (.int 2))) = some .ff := by decide +kernel
example : checkEnv .permissive exSchema exEnv guardAnd = some .bool := by decide +kernel
example : checkEnv .strict exSchema exEnv missOr = some .fail := by decide +kernel
example : checkEnv .strict exSchema exEnv missElse = some .fail := by decide +kernel
example : checkEnv .strict exSchema exEnv missNot = some .fail := by decide +kernel
example : checkEnv .strict exSchema exEnv missOrder = some .fail := by decide +kernel
example : checkEnv .strict exSchema exEnv missOther = some .fail := by decide +kernel
/-- a required attribute of a closed record is typed `True`; of an entity (which may be absent) only `Bool` -/
example : checkEnv .strict exSchema exEnv (.hasAttr context "level") = some .tt := by decide +kernel
example : checkEnv .strict exSchema exEnv (.hasAttr principal "name") = some .bool := by decide +kernel
example : checkEnv .strict exSchema exEnv (.hasAttr context "nope") = some .ff := by decide +kernel
/-- the `||` rule keeps the capabilities of a right operand typed `True` -/
example : checkEnv .strict exSchema exEnv
    (.and (.or (.hasAttr principal "active") (.hasAttr context "level")) (.lit (.bool true))) = some .tt := by decide +kernel

end Cedar.C03
