import CedarVerif.Lemmas.TypecheckSound
import CedarVerif.Lemmas.TypecheckSound2
import CedarVerif.Lemmas.TypecheckPolicy
import CedarVerif.Lemmas.TypecheckSIP
import CedarVerif.Lemmas.TypecheckSIP2
import CedarVerif.Lemmas.TypecheckPSound
import CedarVerif.Lemmas.TypecheckPFull
import CedarVerif.Thm.C11
/-
C03 — strict validation is sound (and not vacuous).

Model: `Cedar.typeOf` (Cedar/Validation/Typecheck.lean), the mirror of `SingleEnvTypechecker::typecheck` for strict and
permissive mode, tied to the Rust typechecker by the differential run of `./check C03` (per policy and request
environment, both modes, plus the impossible-policy flag).

FULL STATEMENT: `typeOf_sound` below (a `def … : Prop`, all expressions, both modes); `PermissiveSoundFull` is its permissive half.
BOTH HALVES ARE PROVED: strict `typeOf_sound_strict`, permissive `permissive_sound_full` (premises: distinct record-literal keys,
slots linked in the environment, and — permissive only — `SchemaND`).

PROVED (0): `typeOf_sound_strict` — THE FULL STATEMENT WITH `m := .strict`, for every expression all of whose slots have a
type in the environment (`SlotsLinked`); it is (1) plus `inFragment2_of` (distinct record keys + linked slots ⇒ fragment).
PROVED (1): `typeOf_sound_partial2` — the statement for STRICT mode and every expression of `Cedar.C03.InFragment2 env`
(= `InFragmentM .strict env`, Lemmas/TypecheckDefs2.lean), i.e. ALL constructs:
    literals (incl. entity uids), `principal` `action` `resource` `context`, template slots (in an environment linked for
    that slot), `&&`, `||`, `!`, `if` WITH ARBITRARY BRANCHES (every instance of either branch type is an instance of the
    least upper bound: `lub_inst_l`, `lub_inst_r`), unary `-`, `+ - *`, `==`, `<` `<=` (longs and the datetime / duration
    overloads), `like`, `is`, `has` and `.` on records and entities (required / optional attributes, capabilities, absent
    entities), `hasTag` / `getTag` (capabilities as for optional attributes), set literals, `contains` `containsAll`
    `containsAny` `isEmpty`, record literals (distinct keys — Rust's `ExprKind::Record` is a map), `in` (entity in entity,
    entity in set of entities; the `False` typing of entity types not related by `descendants`; the action-literal special
    cases typed `True` / `False` from the action hierarchy), extension function calls (constructors and methods: a value of
    the result type or an `ext` error); `unknown` vacuously (the model does not type it).
  Additional premises w.r.t. the first fragment: `SchemaWF2` (the entity-type table is a map, action uids have an action
  type, `ancestors` / `descendants` of the action hierarchy are inverse — all true of every schema Rust constructs) and
  `ActionsPresent` (the store holds the schema's action entities — `Entities::from_entities(.., schema)` adds them; without
  it `action in Action::"group"`, typed `True`, evaluates to `false` on a store that lacks the action entity).
  Policy level: `strict_validation_sound` (templates) and `strict_validation_sound_static` — acceptance by `checkPolicy`
  in all environments ⇒ boolean or permitted error on every conformant request (its environment is among those checked).
PROVED (2): `typeOf_sound_partialM` — the statement for BOTH modes on `InFragmentM m env`; for PERMISSIVE mode this is every
    construct as in (1), except that an `if` (typechecked in both branches) has a syntactically flat branch (boolean / long /
    string kind) and a set literal is non-empty with syntactically flat elements.
    (`typeOf_sound_partial`, the first fragment `Cedar.InFragment` for both modes, is kept; it needs `SchemaWF` only.)
PROVED (3), PERMISSIVE MODE WITH NON-FLAT JOINS: `typeOf_sound_permissive_partial` — the statement for `m := .permissive` on
    `InFragmentP env` (Lemmas/TypecheckPSound.lean): the fragment of (2) closed under
      * `if` typechecked in both branches with ARBITRARY branch types, joined by the permissive least upper bound — a union of
        entity types (`User ⊔ Group`), `AnyEntity`, a record join (width / depth subtyping, dropped attributes, open records) —
        where the `then` branch is a literal, `principal`, `action`, `resource`, a slot or a flat expression (`ndBase`);
      * set literals of such elements with arbitrary element types (`[principal, resource]`) and `[]` (typed `Set<Never>`);
      * `==` (typed Bool, or False on disjoint unions), `contains` `containsAll` `containsAny` `isEmpty` `&&` `||` `!` over these.
    The proof invariant there is "the static type is not `Never`" instead of `mono`.
  `instance_of_lub` (the subtyping lemma, both modes): every value of either argument of `lub m` is a value of the bound;
    `InstanceOfType` already interprets every type only permissive mode produces and was not extended.  The left half needs
    distinct record keys inside the left type (`ndTy`): `lubAttrsPermissive` drops entries, `Attrs.find?` finds the first one.
  Each permissive-only rule is also shown sound on its own for arbitrary operand types (Lemmas/TypecheckPRules.lean:
    `permissive_ite_join_sound`, `permissive_set_literal_inst`, `typesDisjoint_sound`, `is_union_sound`).
  Policy level: `permissive_validation_sound_partial`, `permissive_validation_sound_static_partial`,
    `impossible_policy_never_satisfied_static_permissive`; examples `exJoinEq`, `exSetMixed`, `exPermissivePolicy` are accepted
    by permissive mode, rejected by strict mode, and evaluate to booleans on the conformant `ex2World`.
  No permissive typing rule of the model was found unsound.
PROVED (4), THE FULL PERMISSIVE STATEMENT: `permissive_sound_full : PermissiveSoundFull` (= `typeOf_sound_permissive`;
    induction `soundPF`, Lemmas/TypecheckPFull.lean; rules on arbitrary operand types, Lemmas/TypecheckPUnion.lean): EVERY expression
    with distinct record-literal keys and linked slots, no restriction on the static types of sub-expressions:
      * joins (`if`, set literals) of arbitrary types, also when a branch / element is an attribute access, a record literal or a join;
      * `has` / `.` on an operand typed with an entity-type union (`(if c then principal else resource).name`) or a joined (open)
        record: `lubAttrs_find_mem` — an attribute of `lubAttrs s l` is an attribute of every member type, at least as required, with a
        subtype, so a `StoreConforms` entity of ANY member type respects it; `mayHaveAttr_union_false` for the `False` typing of `has`;
      * `hasTag` / `getTag` on a union (`tagTypes` of the members, joined by `lubAll`), `in` on unions / `AnyEntity` / sets of these /
        `Set<Never>` (`anyDescendantOf` false ⇒ no member pair is related), `is` on unions and `AnyEntity`, `<` `<=`.
    Type invariant (`typeOf_ndTy`, `OkTy`): the types `typeOf` yields have distinct record keys everywhere inside and `Never` only as
    the element type of a set (so `Never`-typed expressions — whose capabilities would be unconstrained — do not arise).
    Additional premise `SchemaND s`: the record types the schema declares (entity shapes, tag types, contexts, nested) have distinct
    keys.  Rust's `Attributes` is a `BTreeMap`, so every `ValidatorSchema` satisfies it; the MODEL represents attributes as lists, and
    with a duplicate key `lubAttrsPermissive` may keep an entry `Attrs.find?` does not see (`instance_of_lub`, left half).
  Policy level, no fragment: `permissive_validation_sound`, `permissive_validation_sound_static`,
    `impossible_policy_never_satisfied_permissive`; example `exUnionCond` (outside `InFragmentP`, rejected by strict mode) is accepted,
    evaluates to `true` on `ex2World`, and instantiates every premise (`ex2_schemaND`).
  No permissive typing rule of the model was found unsound.
NOT covered by (4): a slot in an environment that has no type for it (Rust types it `AnyEntity`; such a slot does not occur:
`link_request_env` gives every slot of the policy a type; see `SlotsBound` / `SlotsLinked`); record literals with duplicate keys
(not representable in Rust: `Expr::record` rejects them); `unknown` (outside the model).
`strict_implies_permissive` (full statement: a `def … : Prop`) is PROVED as `strict_implies_permissive_strict` — with the
SAME type and capabilities in both modes — for every expression of the strict fragment `InFragment2` (every construct), under
`SchemaWF3` (the record types the schema declares are closed with distinct keys; the action table is a map), and at policy
level as `strict_accepted_policy_permissive_accepted` (`checkPolicy` strict accepted ⇒ `checkPolicy` permissive gives the
same verdicts).  Without `SchemaWF3`, `strict_implies_permissive_partial` covers the expressions whose least upper bounds
have a flat side (`SIPFragment`).  NOT proved: schemas with open or duplicate-key record types (partial-schema
validation).  Both modes are modelled and compared with Rust, and the implication is checked on the implementation for
every generated policy.

The invariant has the two clauses the Rust rules need (DESIGN.md App. E): a capability *holds* if its guard
(`e has a`, `e.hasTag(k)`) is true OR fails with a permitted error; and the output capabilities of an expression typed
`True` hold unconditionally.
-/
namespace Cedar.C03
open Cedar

/-- template slots are bound (the policy is linked), to uids of the slot types of the environment where it has any -/
def SlotsBound (env : RequestEnv) (sl : SlotEnv) : Prop :=
  (∃ u, sl.lookup .principal = some u ∧ ∀ t, env.principalSlot = some t → u.ty = t) ∧
  (∃ u, sl.lookup .resource = some u ∧ ∀ t, env.resourceSlot = some t → u.ty = t)

theorem SlotsBound.slotsMatch {env : RequestEnv} {sl : SlotEnv} (h : SlotsBound env sl) : SlotsMatch env sl := by
  obtain ⟨⟨u, hu, hut⟩, ⟨v, hv, hvt⟩⟩ := h
  exact ⟨fun t ht => ⟨u, hu, hut t ht⟩, fun t ht => ⟨v, hv, hvt t ht⟩⟩

/-- FULL STATEMENT (every expression the model types, both modes).  If `typeOf e caps = ok (τ, caps')` in the environment
of a request that — like the store — conforms to the schema (Conformance.lean), the store holds the schema's action
entities, the slots are bound, and `caps` hold, then `e` evaluates to a value of type `τ` or fails with an
entity / overflow / extension error only — never a type error, a missing attribute or tag; if the value is `true` then
`caps'` hold; and if `τ = True` then `caps'` hold unconditionally.
(Premises `SchemaWF2`, `ActionsPresent`, `SlotsBound`, `RecordKeysDistinct` were added while proving `in`, slots and record
literals: without them the statement is false — see the header.) -/
def typeOf_sound : Prop :=
  ∀ (m : ValidationMode) (s : Schema) (env : RequestEnv) (w : World),
    SchemaWF2 s → EnvMatches s env w.q → ConformsRequest s w.q → StoreConforms s w.es → ActionsPresent s w.es →
    SlotsBound env w.sl →
    ∀ (e : Expr) (caps : Capabilities) (τ : CedarType) (c' : Capabilities), RecordKeysDistinct e = true →
      typeOf m s env e caps = .ok (τ, c') → CapsHold w caps →
      TySound w e τ c' ∧ (τ = .bool .tt → CapsHold w c')

/-- `typeOf_sound` in BOTH modes for the expressions of `InFragmentM m env` (strict: every construct; permissive: every
construct, but an `if` has a syntactically flat branch and a set literal is non-empty with syntactically flat elements). -/
theorem typeOf_sound_partialM (m : ValidationMode) (s : Schema) (env : RequestEnv) (w : World)
    (hWF : SchemaWF2 s) (henv : EnvMatches s env w.q) (hreq : ConformsRequest s w.q) (hst : StoreConforms s w.es)
    (hact : ActionsPresent s w.es) (hsl : SlotsMatch env w.sl)
    (e : Expr) (hf : InFragmentM m env e = true) (caps : Capabilities) (τ : CedarType) (c' : Capabilities)
    (h : typeOf m s env e caps = .ok (τ, c')) (hc : CapsHold w caps) :
    TySound w e τ c' ∧ (τ = .bool .tt → CapsHold w c') :=
  (soundM hWF henv e hf caps τ c' h).2 ⟨hreq, hst, hsl, hact⟩ hc

/-- Corollary (both modes): a condition that the typechecker does not reject in the environment of a conformant request
evaluates to a boolean, or fails with a permitted error. -/
theorem accepted_boolean_or_permitted_errorM (m : ValidationMode) (s : Schema) (env : RequestEnv) (w : World)
    (hWF : SchemaWF2 s) (henv : EnvMatches s env w.q) (hreq : ConformsRequest s w.q) (hst : StoreConforms s w.es)
    (hact : ActionsPresent s w.es) (hsl : SlotsMatch env w.sl)
    (e : Expr) (hf : InFragmentM m env e = true) (v : Verdict) (hv : checkEnv m s env e = some v) (hne : v ≠ .fail) :
    (∃ b, w.eval e = .ok (.prim (.bool b))) ∨ (∃ err, w.eval e = .error err ∧ Permitted err) := by
  unfold checkEnv at hv
  cases hE : expectOneOf (typeOf m s env e []) [boolT] with
  | error err =>
    rw [hE] at hv
    cases err <;> simp at hv
    exact (hne hv.symm).elim
  | ok p =>
    obtain ⟨τ, c'⟩ := p
    obtain ⟨ht, hs⟩ := expectOneOf_ok hE
    have hs' := (typeOf_sound_partialM m s env w hWF henv hreq hst hact hsl e hf [] τ c' ht (capsHold_nil w)).1
    rcases hs'.bool_cases (subtype_bool hs) with he | ⟨b, hb, _, _⟩
    · exact Or.inr he
    · exact Or.inl ⟨b, hb⟩

/-- `typeOf_sound` in STRICT mode for the expressions of `InFragment2 env`: every construct except `unknown`
(slots: in environments linked for them; record literals: distinct keys). -/
theorem typeOf_sound_partial2 (s : Schema) (env : RequestEnv) (w : World)
    (hWF : SchemaWF2 s) (henv : EnvMatches s env w.q) (hreq : ConformsRequest s w.q) (hst : StoreConforms s w.es)
    (hact : ActionsPresent s w.es) (hsl : SlotsMatch env w.sl)
    (e : Expr) (hf : InFragment2 env e = true) (caps : Capabilities) (τ : CedarType) (c' : Capabilities)
    (h : typeOf .strict s env e caps = .ok (τ, c')) (hc : CapsHold w caps) :
    TySound w e τ c' ∧ (τ = .bool .tt → CapsHold w c') :=
  (sound2 hWF henv e hf caps τ c' h).2 ⟨hreq, hst, hsl, hact⟩ hc

/-- THE FULL STATEMENT IN STRICT MODE: `typeOf_sound` with `m := .strict`, for every expression all of whose slots have a
type in the environment (`SlotsLinked`; `link_request_env` guarantees it for the environments the typechecker builds). -/
theorem typeOf_sound_strict (s : Schema) (env : RequestEnv) (w : World)
    (hWF : SchemaWF2 s) (henv : EnvMatches s env w.q) (hreq : ConformsRequest s w.q) (hst : StoreConforms s w.es)
    (hact : ActionsPresent s w.es) (hsl : SlotsBound env w.sl)
    (e : Expr) (caps : Capabilities) (τ : CedarType) (c' : Capabilities) (hk : RecordKeysDistinct e = true)
    (hlinked : SlotsLinked env e = true)
    (h : typeOf .strict s env e caps = .ok (τ, c')) (hc : CapsHold w caps) :
    TySound w e τ c' ∧ (τ = .bool .tt → CapsHold w c') :=
  typeOf_sound_partial2 s env w hWF henv hreq hst hact hsl.slotsMatch e (inFragment2_of env e hk hlinked) caps τ c' h hc

/-- the static types of the second fragment mention single entity types only, and never `Never` / `AnyEntity` -/
theorem typeOf_types_wellformed2 (s : Schema) (env : RequestEnv) (q : Request)
    (hWF : SchemaWF2 s) (henv : EnvMatches s env q) (e : Expr) (hf : InFragment2 env e = true)
    (caps : Capabilities) (τ : CedarType) (c' : Capabilities) (h : typeOf .strict s env e caps = .ok (τ, c')) : τ.mono = true :=
  (sound2 (w := ⟨q, [], []⟩) hWF henv e hf caps τ c' h).1

/-- Corollary (second fragment): a policy condition that the strict typechecker does not reject in the environment of a
conformant request evaluates to a boolean, or fails with a permitted error. -/
theorem accepted_boolean_or_permitted_error2 (s : Schema) (env : RequestEnv) (w : World)
    (hWF : SchemaWF2 s) (henv : EnvMatches s env w.q) (hreq : ConformsRequest s w.q) (hst : StoreConforms s w.es)
    (hact : ActionsPresent s w.es) (hsl : SlotsMatch env w.sl)
    (e : Expr) (hf : InFragment2 env e = true) (v : Verdict) (hv : checkEnv .strict s env e = some v) (hne : v ≠ .fail) :
    (∃ b, w.eval e = .ok (.prim (.bool b))) ∨ (∃ err, w.eval e = .error err ∧ Permitted err) := by
  unfold checkEnv at hv
  cases hE : expectOneOf (typeOf .strict s env e []) [boolT] with
  | error err =>
    rw [hE] at hv
    cases err <;> simp at hv
    exact (hne hv.symm).elim
  | ok p =>
    obtain ⟨τ, c'⟩ := p
    obtain ⟨ht, hs⟩ := expectOneOf_ok hE
    have hs' := (typeOf_sound_partial2 s env w hWF henv hreq hst hact hsl e hf [] τ c' ht (capsHold_nil w)).1
    rcases hs'.bool_cases (subtype_bool hs) with he | ⟨b, hb, _, _⟩
    · exact Or.inr he
    · exact Or.inl ⟨b, hb⟩

/-- Corollary (second fragment): a condition typed `False` in the request's environment is never satisfied. -/
theorem typed_false_never_satisfied2 (s : Schema) (env : RequestEnv) (w : World)
    (hWF : SchemaWF2 s) (henv : EnvMatches s env w.q) (hreq : ConformsRequest s w.q) (hst : StoreConforms s w.es)
    (hact : ActionsPresent s w.es) (hsl : SlotsMatch env w.sl)
    (e : Expr) (hf : InFragment2 env e = true) (hv : checkEnv .strict s env e = some .ff) :
    w.eval e ≠ .ok (.prim (.bool true)) := by
  unfold checkEnv at hv
  cases hE : expectOneOf (typeOf .strict s env e []) [boolT] with
  | error err => rw [hE] at hv; cases err <;> simp at hv
  | ok p =>
    obtain ⟨τ, c'⟩ := p
    rw [hE] at hv
    obtain ⟨ht, hs⟩ := expectOneOf_ok hE
    have hτ : τ = .bool .ff := by
      rcases subtype_bool hs with rfl | ⟨bt, rfl⟩
      · simp at hv
      · cases bt <;> simp at hv
        rfl
    subst hτ
    have hs' := (typeOf_sound_partial2 s env w hWF henv hreq hst hact hsl e hf [] _ c' ht (capsHold_nil w)).1
    intro htrue
    rcases hs' with ⟨err, he, _⟩ | ⟨v, hv', hi, _⟩
    · rw [htrue] at he; cases he
    · rw [htrue] at hv'; cases hv'; cases hi

/-- Corollary (second fragment): a policy whose every environment is typed `False` (the impossible-policy rule) is not
satisfied by any conformant request whose environment is one of them. -/
theorem impossible_policy_never_satisfied2 (s : Schema) (w : World) (env : RequestEnv)
    (hWF : SchemaWF2 s) (henv : EnvMatches s env w.q) (hreq : ConformsRequest s w.q) (hst : StoreConforms s w.es)
    (hact : ActionsPresent s w.es) (hsl : SlotsMatch env w.sl)
    (e : Expr) (hf : InFragment2 env e = true) (vs : List (RequestEnv × Verdict))
    (hvs : vs.all (fun p => checkEnv .strict s p.1 e == some p.2) = true) (himp : impossible vs = true)
    (hmem : ∃ v, (env, v) ∈ vs) : w.eval e ≠ .ok (.prim (.bool true)) := by
  obtain ⟨v, hm⟩ := hmem
  have h1 := List.all_eq_true.mp hvs _ hm
  have h2 := List.all_eq_true.mp himp _ hm
  simp only [beq_iff_eq] at h1 h2
  rw [h2] at h1
  exact typed_false_never_satisfied2 s env w hWF henv hreq hst hact hsl e hf h1

/-- `typeOf_sound` for the expressions of `InFragment` (both validation modes). -/
theorem typeOf_sound_partial (m : ValidationMode) (s : Schema) (env : RequestEnv) (w : World)
    (hWF : SchemaWF s) (henv : EnvMatches s env w.q) (hreq : ConformsRequest s w.q) (hst : StoreConforms s w.es)
    (e : Expr) (hf : InFragment e = true) (caps : Capabilities) (τ : CedarType) (c' : Capabilities)
    (h : typeOf m s env e caps = .ok (τ, c')) (hc : CapsHold w caps) :
    TySound w e τ c' ∧ (τ = .bool .tt → CapsHold w c') :=
  typeOf_sound_aux hWF henv hreq hst e hf caps τ c' h hc

/-- the static types of the fragment mention single entity types only, and never `Never` -/
theorem typeOf_types_wellformed (m : ValidationMode) (s : Schema) (env : RequestEnv) (q : Request)
    (hWF : SchemaWF s) (henv : EnvMatches s env q) (e : Expr) (hf : InFragment e = true)
    (caps : Capabilities) (τ : CedarType) (c' : Capabilities) (h : typeOf m s env e caps = .ok (τ, c')) : τ.mono = true :=
  typeOf_mono hWF henv e hf caps τ c' h

/-- Corollary: a policy condition (of the fragment) that the typechecker does not reject in the environment of a
conformant request evaluates to a boolean, or fails with a permitted error — never with a type error or a missing
attribute. -/
theorem accepted_boolean_or_permitted_error (m : ValidationMode) (s : Schema) (env : RequestEnv) (w : World)
    (hWF : SchemaWF s) (henv : EnvMatches s env w.q) (hreq : ConformsRequest s w.q) (hst : StoreConforms s w.es)
    (e : Expr) (hf : InFragment e = true) (v : Verdict) (hv : checkEnv m s env e = some v) (hne : v ≠ .fail) :
    (∃ b, w.eval e = .ok (.prim (.bool b))) ∨ (∃ err, w.eval e = .error err ∧ Permitted err) := by
  unfold checkEnv at hv
  cases hE : expectOneOf (typeOf m s env e []) [boolT] with
  | error err =>
    rw [hE] at hv
    cases err <;> simp at hv
    exact (hne hv.symm).elim
  | ok p =>
    obtain ⟨τ, c'⟩ := p
    obtain ⟨ht, hs⟩ := expectOneOf_ok hE
    have hs' := (typeOf_sound_partial m s env w hWF henv hreq hst e hf [] τ c' ht (capsHold_nil w)).1
    rcases hs'.bool_cases (subtype_bool hs) with he | ⟨b, hb, _, _⟩
    · exact Or.inr he
    · exact Or.inl ⟨b, hb⟩

/-- Corollary: a condition typed `False` in the request's environment (the per-environment ingredient of the
impossible-policy warning) is never satisfied. -/
theorem typed_false_never_satisfied (m : ValidationMode) (s : Schema) (env : RequestEnv) (w : World)
    (hWF : SchemaWF s) (henv : EnvMatches s env w.q) (hreq : ConformsRequest s w.q) (hst : StoreConforms s w.es)
    (e : Expr) (hf : InFragment e = true) (hv : checkEnv m s env e = some .ff) :
    w.eval e ≠ .ok (.prim (.bool true)) := by
  unfold checkEnv at hv
  cases hE : expectOneOf (typeOf m s env e []) [boolT] with
  | error err => rw [hE] at hv; cases err <;> simp at hv
  | ok p =>
    obtain ⟨τ, c'⟩ := p
    rw [hE] at hv
    obtain ⟨ht, hs⟩ := expectOneOf_ok hE
    have hτ : τ = .bool .ff := by
      rcases subtype_bool hs with rfl | ⟨bt, rfl⟩
      · simp at hv
      · cases bt <;> simp at hv
        rfl
    subst hτ
    have hs' := (typeOf_sound_partial m s env w hWF henv hreq hst e hf [] _ c' ht (capsHold_nil w)).1
    intro htrue
    rcases hs' with ⟨err, he, _⟩ | ⟨v, hv', hi, _⟩
    · rw [htrue] at he; cases he
    · rw [htrue] at hv'; cases hv'; cases hi

/-- Corollary: a policy whose every environment is typed `False` (the impossible-policy rule) is not satisfied by any
conformant request whose environment is one of them. -/
theorem impossible_policy_never_satisfied (m : ValidationMode) (s : Schema) (pu ru : SlotUse) (w : World) (env : RequestEnv)
    (hWF : SchemaWF s) (henv : EnvMatches s env w.q) (hreq : ConformsRequest s w.q) (hst : StoreConforms s w.es)
    (e : Expr) (hf : InFragment e = true) (vs : List (RequestEnv × Verdict))
    (hvs : vs.all (fun p => checkEnv m s p.1 e == some p.2) = true) (himp : impossible vs = true)
    (hmem : ∃ v, (env, v) ∈ vs) : w.eval e ≠ .ok (.prim (.bool true)) := by
  obtain ⟨v, hm⟩ := hmem
  have h1 := List.all_eq_true.mp hvs _ hm
  have h2 := List.all_eq_true.mp himp _ hm
  simp only [beq_iff_eq] at h1 h2
  rw [h2] at h1
  exact typed_false_never_satisfied m s env w hWF henv hreq hst e hf h1

/-! ### non-vacuity: the documented guard idioms are typed, near misses are rejected -/

def exUser : EntityTypeEntry :=
  { attrs := [("active", false, .bool .anyBool), ("age", false, .long), ("name", true, .string),
              ("prefs", true, .record [("n", true, .long), ("theme", false, .string)] false)],
    isOpen := false, tags := none, descendants := [], enumIds := none }
def exView : ActionEntry :=
  { principals := ["User"], resources := ["User"], context := .record [("flag", false, .bool .anyBool), ("level", true, .long)] false,
    descendants := [], ancestors := [], attrs := [] }
def exSchema : Schema := { ets := [("User", exUser)], acts := [(⟨"Action", "view"⟩, exView)] }
def exEnv : RequestEnv :=
  { principal := "User", action := ⟨"Action", "view"⟩, resource := "User", context := exView.context,
    principalSlot := none, resourceSlot := none }

def principal : Expr := .var .principal
def context : Expr := .var .context

/-- `principal has active && principal.active` -/
def guardAnd : Expr := .and (.hasAttr principal "active") (.getAttr principal "active")
/-- `if context has flag then context.flag else false` -/
def guardIf : Expr := .ite (.hasAttr context "flag") (.getAttr context "flag") (.lit (.bool false))
/-- `principal has age && (principal.age + principal.prefs.n) has …` simplified: `principal has age && !(context has flag && context.flag)` -/
def guardNested : Expr :=
  .and (.hasAttr principal "age") (.unaryApp .not (.and (.hasAttr context "flag") (.getAttr context "flag")))
/-- `principal has age && principal.age + 1 == 19` -/
def guardArith : Expr :=
  .and (.hasAttr principal "age") (.binaryApp .eq (.binaryApp .add (.getAttr principal "age") (.lit (.int 1))) (.lit (.int 19)))
/-- `principal.prefs has theme && principal.prefs.theme like "d*" && principal is User` -/
def guardRecord : Expr :=
  .and (.hasAttr (.getAttr principal "prefs") "theme")
    (.and (.like (.getAttr (.getAttr principal "prefs") "theme") [.char 'd', .star]) (.is principal "User"))
/-- near misses -/
def missOr : Expr := .or (.hasAttr principal "active") (.getAttr principal "active")
def missElse : Expr := .ite (.hasAttr principal "active") (.lit (.bool true)) (.getAttr principal "active")
def missNot : Expr := .and (.unaryApp .not (.hasAttr principal "active")) (.getAttr principal "active")
def missOrder : Expr := .and (.getAttr principal "active") (.hasAttr principal "active")
def missOther : Expr := .and (.hasAttr principal "age") (.getAttr principal "active")

example : InFragment guardAnd = true ∧ InFragment guardIf = true ∧ InFragment guardNested = true := by decide
example : checkEnv .strict exSchema exEnv guardAnd = some .bool := by decide +kernel
example : checkEnv .strict exSchema exEnv guardIf = some .bool := by decide +kernel
example : checkEnv .strict exSchema exEnv guardNested = some .bool := by decide +kernel
example : InFragment guardArith = true ∧ InFragment guardRecord = true := by decide
example : checkEnv .strict exSchema exEnv guardArith = some .bool := by decide +kernel
example : checkEnv .strict exSchema exEnv guardRecord = some .bool := by decide +kernel
example : checkEnv .strict exSchema exEnv (.binaryApp .eq (.lit (.int 1)) (.lit (.int 2))) = some .ff := by decide +kernel
example : checkEnv .permissive exSchema exEnv guardAnd = some .bool := by decide +kernel
example : checkEnv .strict exSchema exEnv missOr = some .fail := by decide +kernel
example : checkEnv .strict exSchema exEnv missElse = some .fail := by decide +kernel
example : checkEnv .strict exSchema exEnv missNot = some .fail := by decide +kernel
example : checkEnv .strict exSchema exEnv missOrder = some .fail := by decide +kernel
example : checkEnv .strict exSchema exEnv missOther = some .fail := by decide +kernel
/-- a required attribute of a closed record is typed `True`; of an entity (which may be absent) only `Bool` -/
example : checkEnv .strict exSchema exEnv (.hasAttr context "level") = some .tt := by decide +kernel
example : checkEnv .strict exSchema exEnv (.hasAttr principal "name") = some .bool := by decide +kernel
example : checkEnv .strict exSchema exEnv (.hasAttr context "nope") = some .ff := by decide +kernel
/-- the `||` rule keeps the capabilities of a right operand typed `True` -/
example : checkEnv .strict exSchema exEnv
    (.and (.or (.hasAttr principal "active") (.hasAttr context "level")) (.lit (.bool true))) = some .tt := by decide +kernel


/-- POLICY LEVEL (policies and templates): if the strict typechecker accepts the condition in every request environment
(`checkPolicy … = some vs`, `accepted vs`), then in every world whose request environment is one of them, evaluation
yields a boolean or fails with an entity / overflow / extension error only. -/
theorem strict_validation_sound (s : Schema) (pu ru : SlotUse) (cond : Expr) (vs : List (RequestEnv × Verdict))
    (w : World) (env : RequestEnv)
    (hWF : SchemaWF2 s) (hmem : env ∈ s.envs pu ru) (henv : EnvMatches s env w.q) (hreq : ConformsRequest s w.q)
    (hst : StoreConforms s w.es) (hact : ActionsPresent s w.es) (hsl : SlotsMatch env w.sl)
    (hf : InFragment2 env cond = true)
    (hcp : checkPolicy .strict s pu ru cond = some vs) (hacc : accepted vs = true) :
    (∃ b, w.eval cond = .ok (.prim (.bool b))) ∨ (∃ err, w.eval cond = .error err ∧ Permitted err) := by
  obtain ⟨v, hv, hvm⟩ := checkPolicy_mem hcp hmem
  have hne : v ≠ .fail := by
    have := List.all_eq_true.mp hacc _ hvm
    simpa using this
  exact accepted_boolean_or_permitted_error2 s env w hWF henv hreq hst hact hsl cond hf v hv hne

/-- POLICY LEVEL (static policies): a slot-free condition accepted by the strict typechecker evaluates, on EVERY conformant
request and store, to a boolean or fails with a permitted error — the request's environment is among those typechecked
(`conformant_request_env`). -/
theorem strict_validation_sound_static (s : Schema) (cond : Expr) (vs : List (RequestEnv × Verdict)) (w : World)
    (hWF : SchemaWF2 s) (hreq : ConformsRequest s w.q) (hst : StoreConforms s w.es) (hact : ActionsPresent s w.es)
    (hf : ∀ env, InFragment2 env cond = true)
    (hcp : checkPolicy .strict s .absent .absent cond = some vs) (hacc : accepted vs = true) :
    (∃ b, w.eval cond = .ok (.prim (.bool b))) ∨ (∃ err, w.eval cond = .error err ∧ Permitted err) := by
  obtain ⟨env, hmem, henv, hp, hr⟩ := conformant_request_env hreq
  have hsl : SlotsMatch env w.sl := ⟨fun t ht => (by rw [hp] at ht; cases ht), fun t ht => (by rw [hr] at ht; cases ht)⟩
  exact strict_validation_sound s .absent .absent cond vs w env hWF hmem henv hreq hst hact hsl (hf env) hcp hacc

/-- POLICY LEVEL: a static policy flagged impossible (every environment typed `False`) is satisfied by no conformant request -/
theorem impossible_policy_never_satisfied_static (s : Schema) (cond : Expr) (vs : List (RequestEnv × Verdict)) (w : World)
    (hWF : SchemaWF2 s) (hreq : ConformsRequest s w.q) (hst : StoreConforms s w.es) (hact : ActionsPresent s w.es)
    (hf : ∀ env, InFragment2 env cond = true)
    (hcp : checkPolicy .strict s .absent .absent cond = some vs) (himp : impossible vs = true) :
    w.eval cond ≠ .ok (.prim (.bool true)) := by
  obtain ⟨env, hmem, henv, hp, hr⟩ := conformant_request_env hreq
  have hsl : SlotsMatch env w.sl := ⟨fun t ht => (by rw [hp] at ht; cases ht), fun t ht => (by rw [hr] at ht; cases ht)⟩
  obtain ⟨v, hv, hvm⟩ := checkPolicy_mem hcp hmem
  have hff : v = .ff := by
    have := List.all_eq_true.mp himp _ hvm
    simpa using this
  subst hff
  exact typed_false_never_satisfied2 s env w hWF henv hreq hst hact hsl cond (hf env) hv

/-! ### strict acceptance implies permissive acceptance -/

/-- FULL STATEMENT: whatever the strict typechecker accepts, the permissive one accepts, with a supertype -/
def strict_implies_permissive : Prop :=
  ∀ (s : Schema) (env : RequestEnv) (e : Expr) (caps : Capabilities) (τ : CedarType) (c : Capabilities),
    typeOf .strict s env e caps = .ok (τ, c) →
    ∃ τ' c', typeOf .permissive s env e caps = .ok (τ', c') ∧ isSubtype .permissive τ τ' = true

/-- `strict_implies_permissive` — with the SAME type and capabilities — for the expressions of `InFragment2` that are in
`SIPFragment` (Lemmas/TypecheckSIP.lean): every construct, but an `if` that is typechecked in both branches has a
syntactically flat branch (boolean / long / string kind) and the elements of a set literal are syntactically flat, so
that every least upper bound has a flat side, where the two modes agree (`lub_flat_modes`).  NOT proved: `if` / set
literals joining record, set or entity types (the strict and permissive `lub` of such types would have to be related). -/
theorem strict_implies_permissive_partial (s : Schema) (env : RequestEnv) (q : Request)
    (hWF : SchemaWF2 s) (henv : EnvMatches s env q) (e : Expr) (hf : InFragment2 env e = true) (hs : SIPFragment e = true)
    (caps : Capabilities) (τ : CedarType) (c : Capabilities) (h : typeOf .strict s env e caps = .ok (τ, c)) :
    typeOf .permissive s env e caps = .ok (τ, c) :=
  sip hWF henv e hf hs caps _ h

/-- `strict_implies_permissive` — with the SAME type and capabilities — for EVERY expression of the strict fragment
`InFragment2` (every construct; distinct record keys; linked slots), given that the record types the schema declares are
closed with distinct keys (`SchemaWF3`): the types strict typing assigns are then "good" (`GoodTy`: single entity types,
closed records with distinct keys), and on good types the permissive least upper bound is the strict one whenever the
latter exists (`lub_strict_perm`: where permissive but not strict subtyping holds — a required attribute against an
optional one — the strict bound does not exist, `subtype_gap`). -/
theorem strict_implies_permissive_strict (s : Schema) (env : RequestEnv) (q : Request)
    (hWF : SchemaWF3 s) (henv : EnvMatches s env q) (e : Expr) (hf : InFragment2 env e = true)
    (caps : Capabilities) (τ : CedarType) (c : Capabilities) (h : typeOf .strict s env e caps = .ok (τ, c)) :
    typeOf .permissive s env e caps = .ok (τ, c) :=
  sipG hWF henv e hf caps _ h

/-- the instance of the full statement `strict_implies_permissive` that this gives -/
theorem strict_implies_permissive_strict_sub (s : Schema) (env : RequestEnv) (q : Request)
    (hWF : SchemaWF3 s) (henv : EnvMatches s env q) (e : Expr) (hf : InFragment2 env e = true)
    (caps : Capabilities) (τ : CedarType) (c : Capabilities) (h : typeOf .strict s env e caps = .ok (τ, c)) :
    ∃ τ' c', typeOf .permissive s env e caps = .ok (τ', c') ∧ isSubtype .permissive τ τ' = true := by
  have hm := (sound2 (w := ⟨q, [], []⟩) hWF.toSchemaWF2 henv e hf caps τ c h).1
  have hc := typeOf_cn hWF henv e hf caps τ c h
  exact ⟨τ, c, strict_implies_permissive_strict s env q hWF henv e hf caps τ c h,
    isSubtype_strict_perm' (isSubtype_refl_good τ ⟨hm, hc⟩)⟩

/-- POLICY LEVEL: a policy or template that the strict typechecker accepts in every environment is accepted by the
permissive typechecker in every environment, with the same verdicts -/
theorem strict_accepted_policy_permissive_accepted (s : Schema) (pu ru : SlotUse) (cond : Expr)
    (vs : List (RequestEnv × Verdict)) (hWF : SchemaWF3 s) (hf : ∀ env, env ∈ s.envs pu ru → InFragment2 env cond = true)
    (hcp : checkPolicy .strict s pu ru cond = some vs) (hacc : accepted vs = true) :
    checkPolicy .permissive s pu ru cond = some vs := by
  unfold checkPolicy at hcp ⊢
  refine option_mapM_congr hcp (fun env henv y hy hmem => ?_)
  obtain ⟨q, hq⟩ := env_of_envs hWF henv
  cases hc : checkEnv .strict s env cond with
  | none => rw [hc] at hy; cases hy
  | some v =>
    rw [hc] at hy
    simp only [Option.map_some, Option.some.injEq] at hy
    subst hy
    have hne : v ≠ .fail := by
      have := List.all_eq_true.mp hacc _ hmem
      simpa using this
    -- same verdict in permissive mode
    have hp : checkEnv .permissive s env cond = some v := by
      unfold checkEnv at hc ⊢
      cases hE : expectOneOf (typeOf .strict s env cond []) [boolT] with
      | error err =>
        rw [hE] at hc
        cases err <;> simp at hc
        exact (hne hc.symm).elim
      | ok p =>
        rw [hE] at hc
        rw [(sipG hWF hq cond (hf env henv) []).expect _ _ hE]
        exact hc
    rw [hp]; rfl

/-- Corollary: a verdict other than `fail` of the strict typechecker in an environment is the permissive verdict too -/
theorem strict_accepted_implies_permissive_accepted (s : Schema) (env : RequestEnv) (q : Request)
    (hWF : SchemaWF2 s) (henv : EnvMatches s env q) (e : Expr) (hf : InFragment2 env e = true) (hs : SIPFragment e = true)
    (v : Verdict) (hv : checkEnv .strict s env e = some v) (hne : v ≠ .fail) : checkEnv .permissive s env e = some v := by
  unfold checkEnv at hv ⊢
  cases hE : expectOneOf (typeOf .strict s env e []) [boolT] with
  | error err =>
    rw [hE] at hv
    cases err <;> simp at hv
    exact (hne hv.symm).elim
  | ok p =>
    rw [hE] at hv
    rw [(sip hWF henv e hf hs []).expect _ _ hE]
    exact hv

/-! ### non-vacuity of the second fragment: ALL hypotheses of `typeOf_sound_partial2` instantiated

`entity Group; entity User in [Group] { age?: Long, name: String } tags String;
 action read; action view in [read] appliesTo { principal: User, resource: Group, context: { level: Long } };` -/

def ex2User : EntityTypeEntry :=
  { attrs := [("age", false, .long), ("name", true, .string)], isOpen := false, tags := some .string, descendants := [], enumIds := none }
def ex2Group : EntityTypeEntry :=
  { attrs := [], isOpen := false, tags := none, descendants := ["User"], enumIds := none }
def ex2Read : ActionEntry :=
  { principals := [], resources := [], context := .record [] false, descendants := [⟨"Action", "view"⟩], ancestors := [], attrs := [] }
def ex2View : ActionEntry :=
  { principals := ["User"], resources := ["Group"], context := .record [("level", true, .long)] false,
    descendants := [], ancestors := [⟨"Action", "read"⟩], attrs := [] }
def ex2Schema : Schema :=
  { ets := [("Group", ex2Group), ("User", ex2User)], acts := [(⟨"Action", "read"⟩, ex2Read), (⟨"Action", "view"⟩, ex2View)] }
/-- the environment of `view`, linked for `?principal` -/
def ex2Env : RequestEnv :=
  { principal := "User", action := ⟨"Action", "view"⟩, resource := "Group", context := ex2View.context,
    principalSlot := some "User", resourceSlot := none }
def ex2World : World :=
  { q := { principal := ⟨"User", "alice"⟩, action := ⟨"Action", "view"⟩, resource := ⟨"Group", "admins"⟩,
           context := [("level", .prim (.int 3))] },
    es := [(⟨"User", "alice"⟩, { attrs := [("name", .prim (.string "Alice"))], ancestors := [⟨"Group", "admins"⟩],
                                 tags := [("team", .prim (.string "blue"))] }),
           (⟨"Group", "admins"⟩, { attrs := [], ancestors := [], tags := [] }),
           (⟨"Action", "read"⟩, { attrs := [], ancestors := [], tags := [] }),
           (⟨"Action", "view"⟩, { attrs := [], ancestors := [⟨"Action", "read"⟩], tags := [] })],
    sl := [(.principal, ⟨"User", "alice"⟩)] }

def ex2Team : Expr := .lit (.string "team")
/-- `principal in resource && action in Action::"read" && ?principal == principal
    && principal.hasTag("team") && principal.getTag("team") like "b*"
    && context.level < 5 && [1, 2, 3].contains(context.level) && !([resource].isEmpty())
    && (if principal has age then principal.age else 0) <= 3 && {a: 1, b: "x"}.a == 1
    && decimal("1.5").lessThan(decimal("2.0")) && !(resource in principal)` -/
def ex2Cond : Expr :=
  .and (.binaryApp .mem principal (.var .resource))
  (.and (.binaryApp .mem (.var .action) (.lit (.entityUID ⟨"Action", "read"⟩)))
  (.and (.binaryApp .eq (.slot .principal) principal)
  (.and (.binaryApp .hasTag principal ex2Team)
  (.and (.like (.binaryApp .getTag principal ex2Team) [.char 'b', .star])
  (.and (.binaryApp .less (.getAttr context "level") (.lit (.int 5)))
  (.and (.binaryApp .contains (.set [.lit (.int 1), .lit (.int 2), .lit (.int 3)]) (.getAttr context "level"))
  (.and (.unaryApp .not (.unaryApp .isEmpty (.set [.var .resource])))
  (.and (.binaryApp .lessEq (.ite (.hasAttr principal "age") (.getAttr principal "age") (.lit (.int 0))) (.lit (.int 3)))
  (.and (.binaryApp .eq (.getAttr (.record [("a", .lit (.int 1)), ("b", .lit (.string "x"))]) "a") (.lit (.int 1)))
  (.and (.call "lessThan" [.call "decimal" [.lit (.string "1.5")], .call "decimal" [.lit (.string "2.0")]])
        (.unaryApp .not (.binaryApp .mem (.var .resource) principal))))))))))))

theorem ex2_schemaWF : SchemaWF2 ex2Schema where
  et_mono := by
    intro T et h
    have hm := entityType?_mem' h
    simp only [ex2Schema, List.mem_cons, Prod.mk.injEq, List.not_mem_nil, or_false] at hm
    rcases hm with ⟨rfl, rfl⟩ | ⟨rfl, rfl⟩
    · exact ⟨rfl, fun t ht => by simp [ex2Group] at ht⟩
    · exact ⟨rfl, fun t ht => by simp [ex2User] at ht; subst ht; rfl⟩
  act_wf := by
    intro u a h
    have hm := action?_mem h
    simp only [ex2Schema, List.mem_cons, Prod.mk.injEq, List.not_mem_nil, or_false] at hm
    rcases hm with ⟨rfl, rfl⟩ | ⟨rfl, rfl⟩ <;> exact ⟨rfl, rfl⟩
  no_action_etype := by
    intro T hT
    cases h : ex2Schema.entityType? T with
    | none => rfl
    | some et =>
      have hm := entityType?_mem' h
      simp only [ex2Schema, List.mem_cons, Prod.mk.injEq, List.not_mem_nil, or_false] at hm
      rcases hm with ⟨rfl, _⟩ | ⟨rfl, _⟩ <;> exact absurd hT (by decide)
  ets_map := by
    intro p hp
    simp only [ex2Schema, List.mem_cons, List.not_mem_nil, or_false] at hp
    rcases hp with rfl | rfl <;> rfl
  act_type := by
    intro u a h
    have hm := action?_mem h
    simp only [ex2Schema, List.mem_cons, Prod.mk.injEq, List.not_mem_nil, or_false] at hm
    rcases hm with ⟨rfl, _⟩ | ⟨rfl, _⟩ <;> decide
  act_anc_desc := by
    intro u a h p hp
    have hm := action?_mem h
    simp only [ex2Schema, List.mem_cons, Prod.mk.injEq, List.not_mem_nil, or_false] at hm
    rcases hm with ⟨rfl, rfl⟩ | ⟨rfl, rfl⟩
    · simp [ex2Read] at hp
    · simp only [ex2View, List.mem_cons, List.not_mem_nil, or_false] at hp
      subst hp
      exact ⟨ex2Read, rfl, by simp [ex2Read]⟩
  act_desc_anc := by
    intro u a h d hd
    have hm := action?_mem h
    simp only [ex2Schema, List.mem_cons, Prod.mk.injEq, List.not_mem_nil, or_false] at hm
    rcases hm with ⟨rfl, rfl⟩ | ⟨rfl, rfl⟩
    · simp only [ex2Read, List.mem_cons, List.not_mem_nil, or_false] at hd
      subst hd
      exact ⟨ex2View, rfl, by simp [ex2View]⟩
    · simp [ex2View] at hd

theorem ex2_envMatches : EnvMatches ex2Schema ex2Env ex2World.q := ⟨rfl, rfl, rfl, ex2View, rfl, rfl⟩

theorem ex2_request : ConformsRequest ex2Schema ex2World.q :=
  (Cedar.C11.checkRequest_iff _ _).mp ((ok_iff_isOkB _).mpr (by decide +kernel))

theorem ex2_store : StoreConforms ex2Schema ex2World.es := by
  intro uid d h
  have hm := entities_find?_mem h
  simp only [ex2World, List.mem_cons, Prod.mk.injEq, List.not_mem_nil, or_false] at hm
  rcases hm with ⟨rfl, rfl⟩ | ⟨rfl, rfl⟩ | ⟨rfl, rfl⟩ | ⟨rfl, rfl⟩ <;>
    exact (Cedar.C11.checkEntity_iff ex2Schema (by decide +kernel) _ _).mp ((ok_iff_isOkB _).mpr (by decide +kernel))

theorem ex2_actions : ActionsPresent ex2Schema ex2World.es := by
  intro u a h
  have hm := action?_mem h
  simp only [ex2Schema, List.mem_cons, Prod.mk.injEq, List.not_mem_nil, or_false] at hm
  rcases hm with ⟨rfl, _⟩ | ⟨rfl, _⟩ <;> exact ⟨_, rfl⟩

theorem ex2_slots : SlotsMatch ex2Env ex2World.sl :=
  ⟨fun t ht => ⟨⟨"User", "alice"⟩, rfl, by cases ht; rfl⟩, fun t ht => by cases ht⟩

example : InFragment2 ex2Env ex2Cond = true := by decide +kernel
example : checkEnv .strict ex2Schema ex2Env ex2Cond = some .bool := by decide +kernel
/-- `e` evaluates to `true` (as a `Bool`: `Value` has no decidable equality) -/
def evalsToTrue (w : World) (e : Expr) : Bool :=
  match w.eval e with
  | .ok (.prim (.bool true)) => true
  | _ => false
/-- the condition is satisfied by the request … -/
example : evalsToTrue ex2World ex2Cond = true := by decide +kernel
/-- … and every premise of the soundness theorem (schema well-formedness, environment, conformance of request and store,
action entities, slots, capabilities) holds for it -/
example : (∃ b, ex2World.eval ex2Cond = .ok (.prim (.bool b))) ∨ (∃ err, ex2World.eval ex2Cond = .error err ∧ Permitted err) :=
  accepted_boolean_or_permitted_error2 ex2Schema ex2Env ex2World ex2_schemaWF ex2_envMatches ex2_request ex2_store
    ex2_actions ex2_slots ex2Cond (by decide +kernel) .bool (by decide +kernel) (by decide)
/-- the policy-level theorem on a slot-free condition: `checkPolicy` lists the single environment of the schema -/
def ex2Static : Expr :=
  .and (.binaryApp .mem principal (.var .resource))
  (.and (.binaryApp .hasTag principal ex2Team) (.like (.binaryApp .getTag principal ex2Team) [.char 'b', .star]))
example : (∃ b, ex2World.eval ex2Static = .ok (.prim (.bool b))) ∨ (∃ err, ex2World.eval ex2Static = .error err ∧ Permitted err) :=
  strict_validation_sound_static ex2Schema ex2Static
    [(⟨"User", ⟨"Action", "view"⟩, "Group", ex2View.context, none, none⟩, .bool)] ex2World ex2_schemaWF ex2_request ex2_store ex2_actions
    (fun _ => rfl) rfl rfl
/-- strict ⇒ permissive on a condition with an `if` (flat else-branch) and a set literal of flat elements -/
def ex2Sip : Expr :=
  .and ex2Static
  (.and (.binaryApp .contains (.set [.lit (.int 1), .lit (.int 2)]) (.getAttr context "level"))
        (.binaryApp .lessEq (.ite (.hasAttr principal "age") (.getAttr principal "age") (.lit (.int 0))) (.lit (.int 3))))
example : SIPFragment ex2Sip = true := by decide +kernel
example : checkEnv .permissive ex2Schema ex2Env ex2Sip = some .bool :=
  strict_accepted_implies_permissive_accepted ex2Schema ex2Env ex2World.q ex2_schemaWF ex2_envMatches ex2Sip (by decide +kernel)
    (by decide +kernel) .bool (by decide +kernel) (by decide)
/-- the both-modes theorem instantiated in permissive mode -/
example : (∃ b, ex2World.eval ex2Sip = .ok (.prim (.bool b))) ∨ (∃ err, ex2World.eval ex2Sip = .error err ∧ Permitted err) :=
  accepted_boolean_or_permitted_errorM .permissive ex2Schema ex2Env ex2World ex2_schemaWF ex2_envMatches ex2_request ex2_store
    ex2_actions ex2_slots ex2Sip (by decide +kernel) .bool (by decide +kernel) (by decide)
theorem ex2_schemaWF3 : SchemaWF3 ex2Schema where
  toSchemaWF2 := ex2_schemaWF
  et_cn := by
    intro T et h
    have hm := entityType?_mem' h
    simp only [ex2Schema, List.mem_cons, Prod.mk.injEq, List.not_mem_nil, or_false] at hm
    rcases hm with ⟨rfl, rfl⟩ | ⟨rfl, rfl⟩
    · exact ⟨rfl, fun t ht => by simp [ex2Group] at ht⟩
    · exact ⟨rfl, fun t ht => by simp [ex2User] at ht; subst ht; rfl⟩
  act_cn := by
    intro u a h
    have hm := action?_mem h
    simp only [ex2Schema, List.mem_cons, Prod.mk.injEq, List.not_mem_nil, or_false] at hm
    rcases hm with ⟨rfl, rfl⟩ | ⟨rfl, rfl⟩ <;> decide
  acts_map := by
    intro p hp
    simp only [ex2Schema, List.mem_cons, List.not_mem_nil, or_false] at hp
    rcases hp with rfl | rfl <;> rfl

/-- strict ⇒ permissive at policy level on a condition whose `if`s join record types (`{x: True}` with `{x: False}`) and
set types — outside `SIPFragment`, inside the strict fragment -/
def ex2NonFlat : Expr :=
  .and (.getAttr (.ite (.binaryApp .less (.getAttr context "level") (.lit (.int 5)))
                       (.record [("x", .lit (.bool true))]) (.record [("x", .lit (.bool false))])) "x")
       (.binaryApp .contains (.ite (.binaryApp .less (.getAttr context "level") (.lit (.int 5)))
                                   (.set [principal]) (.set [principal, principal])) principal)
example : SIPFragment ex2NonFlat = false := by decide +kernel
example : checkPolicy .permissive ex2Schema .absent .absent ex2NonFlat =
    some [(⟨"User", ⟨"Action", "view"⟩, "Group", ex2View.context, none, none⟩, .bool)] :=
  strict_accepted_policy_permissive_accepted ex2Schema .absent .absent ex2NonFlat _ ex2_schemaWF3 (fun _ _ => rfl) rfl rfl

/-- `False` from the hierarchy: a `Group` is never in a `User`; `True` from the action hierarchy: `view` is in `read` -/
example : checkEnv .strict ex2Schema ex2Env (.binaryApp .mem (.var .resource) principal) = some .ff := by decide +kernel
example : checkEnv .strict ex2Schema ex2Env (.binaryApp .mem (.var .action) (.lit (.entityUID ⟨"Action", "read"⟩))) = some .tt := by
  decide +kernel
/-- an unguarded `getTag` and a set literal of mixed types are rejected in strict mode -/
example : checkEnv .strict ex2Schema ex2Env (.like (.binaryApp .getTag principal ex2Team) [.star]) = some .fail := by decide +kernel
example : checkEnv .strict ex2Schema ex2Env (.unaryApp .isEmpty (.set [.lit (.int 1), .lit (.string "x")])) = some .fail := by
  decide +kernel

/-! ### PERMISSIVE mode: non-flat joins (entity-type unions, record joins, `Set<Never>`) -/

/-- FULL STATEMENT for permissive mode (PROVED: `permissive_sound_full`): `typeOf_sound` with `m := .permissive` for every
expression with distinct record keys and linked slots.  Premise `SchemaND` (the record types the schema declares have
distinct keys everywhere inside — Rust's `Attributes` is a `BTreeMap`, so every schema Rust constructs satisfies it) was
added while proving the join rules: with a duplicate key in a schema record type the model's `lubAttrsPermissive` may keep
an entry that `Attrs.find?` does not see. -/
def PermissiveSoundFull : Prop :=
  ∀ (s : Schema) (env : RequestEnv) (w : World),
    SchemaWF2 s → SchemaND s → EnvMatches s env w.q → ConformsRequest s w.q → StoreConforms s w.es → ActionsPresent s w.es →
    SlotsBound env w.sl →
    ∀ (e : Expr) (caps : Capabilities) (τ : CedarType) (c' : Capabilities), RecordKeysDistinct e = true →
      SlotsLinked env e = true →
      typeOf .permissive s env e caps = .ok (τ, c') → CapsHold w caps →
      TySound w e τ c' ∧ (τ = .bool .tt → CapsHold w c')

/-- THE FULL STATEMENT IN PERMISSIVE MODE: every expression (distinct record-literal keys, linked slots), no restriction on
the static types of sub-expressions — `if` / set literals joining arbitrary types, `has` `.` `hasTag` `getTag` `in` `is` `<`
on operands typed with an entity-type union, `AnyEntity` or a joined (open) record type. -/
theorem typeOf_sound_permissive (s : Schema) (env : RequestEnv) (w : World)
    (hWF : SchemaWF2 s) (hND : SchemaND s) (henv : EnvMatches s env w.q) (hreq : ConformsRequest s w.q)
    (hst : StoreConforms s w.es) (hact : ActionsPresent s w.es) (hsl : SlotsMatch env w.sl)
    (e : Expr) (caps : Capabilities) (τ : CedarType) (c' : Capabilities) (hk : RecordKeysDistinct e = true)
    (hlinked : SlotsLinked env e = true)
    (h : typeOf .permissive s env e caps = .ok (τ, c')) (hc : CapsHold w caps) :
    TySound w e τ c' ∧ (τ = .bool .tt → CapsHold w c') :=
  (soundPF hWF hND henv e hk hlinked caps τ c' h).2 ⟨hreq, hst, hsl, hact⟩ hc

theorem permissive_sound_full : PermissiveSoundFull :=
  fun s env w hWF hND henv hreq hst hact hsl e caps τ c' hk hlinked h hc =>
    typeOf_sound_permissive s env w hWF hND henv hreq hst hact hsl.slotsMatch e caps τ c' hk hlinked h hc

/-- `typeOf` yields types with distinct record keys everywhere inside (and `Never` only as a set element type), permissive
mode: what the left half of `instance_of_lub` needs of a `then` branch / a set element. -/
theorem typeOf_ndTy (s : Schema) (env : RequestEnv) (q : Request) (hWF : SchemaWF2 s) (hND : SchemaND s)
    (henv : EnvMatches s env q) (e : Expr) (hk : RecordKeysDistinct e = true) (hlinked : SlotsLinked env e = true)
    (caps : Capabilities) (τ : CedarType) (c' : Capabilities) (h : typeOf .permissive s env e caps = .ok (τ, c')) :
    ndTy τ = true ∧ τ ≠ .never :=
  have hok := (soundPF (w := ⟨q, [], []⟩) hWF hND henv e hk hlinked caps τ c' h).1
  ⟨hok.1, hok.ne_never⟩

/-- … and strict mode (there the types are those of permissive mode, `strict_implies_permissive_strict`) -/
theorem typeOf_ndTy_strict (s : Schema) (env : RequestEnv) (q : Request) (hWF : SchemaWF3 s) (hND : SchemaND s)
    (henv : EnvMatches s env q) (e : Expr) (hk : RecordKeysDistinct e = true) (hlinked : SlotsLinked env e = true)
    (caps : Capabilities) (τ : CedarType) (c' : Capabilities) (h : typeOf .strict s env e caps = .ok (τ, c')) :
    ndTy τ = true ∧ τ ≠ .never :=
  typeOf_ndTy s env q hWF.toSchemaWF2 hND henv e hk hlinked caps τ c'
    (sipG hWF henv e (inFragment2_of env e hk hlinked) caps _ h)

/-- SUBTYPING LEMMA (both modes): every value of either argument of `lub m` is a value of the least upper bound — for the
permissive bound too: unions of entity types, `AnyEntity`, records joined with width / depth subtyping (dropped attributes,
open records), `Set<Never>`.  `InstanceOfType` needed no extension.  The left half needs distinct record keys inside the
left type (`ndTy`; `Attributes` is a `BTreeMap` in Rust): with a duplicate key the model's bound may keep the second entry. -/
theorem instance_of_lub (m : ValidationMode) {v : Value} {τ1 τ2 τ : CedarType} (h : lub m τ1 τ2 = some τ) :
    (ndTy τ1 = true → InstanceOfType v τ1 → InstanceOfType v τ) ∧ (InstanceOfType v τ2 → InstanceOfType v τ) :=
  ⟨fun hnd hi => instance_of_lub_l hnd h hi, fun hi => instance_of_lub_r h hi⟩

/-- the permissive bound of `User` and `Group` is their union, and `alice` is a value of it -/
example : InstanceOfType (.prim (.entityUID ⟨"User", "alice"⟩)) (.entity ["Group", "User"]) :=
  (instance_of_lub .permissive (τ1 := .entity ["User"]) (τ2 := .entity ["Group"]) rfl).1 rfl
    (.entity _ _ (by simp))

/-- `typeOf_sound` in PERMISSIVE mode for the expressions of `InFragmentP env` (Lemmas/TypecheckPSound.lean): the
permissive fragment of `typeOf_sound_partialM` closed under
  * `if` typechecked in both branches with ARBITRARY branch types (joined by the permissive least upper bound: an
    entity-type union, a record join, …), the `then` branch being of an evident kind (`ndBase`: a literal, `principal`,
    `action`, `resource`, a slot, or a flat expression);
  * set literals of such elements with ARBITRARY element types (`[principal, resource]`), and `[]` (typed `Set<Never>`);
  * `==`, `contains`, `containsAll`, `containsAny`, `isEmpty`, `&&`, `||`, `!` over operands of the fragment. -/
theorem typeOf_sound_permissive_partial (s : Schema) (env : RequestEnv) (w : World)
    (hWF : SchemaWF2 s) (henv : EnvMatches s env w.q) (hreq : ConformsRequest s w.q) (hst : StoreConforms s w.es)
    (hact : ActionsPresent s w.es) (hsl : SlotsMatch env w.sl)
    (e : Expr) (hf : InFragmentP env e = true) (caps : Capabilities) (τ : CedarType) (c' : Capabilities)
    (h : typeOf .permissive s env e caps = .ok (τ, c')) (hc : CapsHold w caps) :
    TySound w e τ c' ∧ (τ = .bool .tt → CapsHold w c') :=
  (soundP hWF henv e hf caps τ c' h).2 ⟨hreq, hst, hsl, hact⟩ hc

/-- Corollary (permissive): a condition the permissive typechecker does not reject in the environment of a conformant
request evaluates to a boolean, or fails with a permitted error. -/
theorem accepted_boolean_or_permitted_errorP (s : Schema) (env : RequestEnv) (w : World)
    (hWF : SchemaWF2 s) (henv : EnvMatches s env w.q) (hreq : ConformsRequest s w.q) (hst : StoreConforms s w.es)
    (hact : ActionsPresent s w.es) (hsl : SlotsMatch env w.sl)
    (e : Expr) (hf : InFragmentP env e = true) (v : Verdict) (hv : checkEnv .permissive s env e = some v) (hne : v ≠ .fail) :
    (∃ b, w.eval e = .ok (.prim (.bool b))) ∨ (∃ err, w.eval e = .error err ∧ Permitted err) := by
  unfold checkEnv at hv
  cases hE : expectOneOf (typeOf .permissive s env e []) [boolT] with
  | error err =>
    rw [hE] at hv
    cases err <;> simp at hv
    exact (hne hv.symm).elim
  | ok p =>
    obtain ⟨τ, c'⟩ := p
    obtain ⟨ht, hs⟩ := expectOneOf_ok hE
    have hs' := (typeOf_sound_permissive_partial s env w hWF henv hreq hst hact hsl e hf [] τ c' ht (capsHold_nil w)).1
    rcases hs'.bool_cases (subtype_bool hs) with he | ⟨b, hb, _, _⟩
    · exact Or.inr he
    · exact Or.inl ⟨b, hb⟩

/-- Corollary (permissive): a condition typed `False` in the request's environment is never satisfied. -/
theorem typed_false_never_satisfiedP (s : Schema) (env : RequestEnv) (w : World)
    (hWF : SchemaWF2 s) (henv : EnvMatches s env w.q) (hreq : ConformsRequest s w.q) (hst : StoreConforms s w.es)
    (hact : ActionsPresent s w.es) (hsl : SlotsMatch env w.sl)
    (e : Expr) (hf : InFragmentP env e = true) (hv : checkEnv .permissive s env e = some .ff) :
    w.eval e ≠ .ok (.prim (.bool true)) := by
  unfold checkEnv at hv
  cases hE : expectOneOf (typeOf .permissive s env e []) [boolT] with
  | error err => rw [hE] at hv; cases err <;> simp at hv
  | ok p =>
    obtain ⟨τ, c'⟩ := p
    rw [hE] at hv
    obtain ⟨ht, hs⟩ := expectOneOf_ok hE
    have hτ : τ = .bool .ff := by
      rcases subtype_bool hs with rfl | ⟨bt, rfl⟩
      · simp at hv
      · cases bt <;> simp at hv
        rfl
    subst hτ
    have hs' := (typeOf_sound_permissive_partial s env w hWF henv hreq hst hact hsl e hf [] _ c' ht (capsHold_nil w)).1
    intro htrue
    rcases hs' with ⟨err, he, _⟩ | ⟨v, hv', hi, _⟩
    · rw [htrue] at he; cases he
    · rw [htrue] at hv'; cases hv'; cases hi

/-- POLICY LEVEL, permissive (policies and templates): if the permissive typechecker accepts the condition in every request
environment, then in every world whose request environment is one of them evaluation yields a boolean or fails with an
entity / overflow / extension error only. -/
theorem permissive_validation_sound_partial (s : Schema) (pu ru : SlotUse) (cond : Expr) (vs : List (RequestEnv × Verdict))
    (w : World) (env : RequestEnv)
    (hWF : SchemaWF2 s) (hmem : env ∈ s.envs pu ru) (henv : EnvMatches s env w.q) (hreq : ConformsRequest s w.q)
    (hst : StoreConforms s w.es) (hact : ActionsPresent s w.es) (hsl : SlotsMatch env w.sl)
    (hf : InFragmentP env cond = true)
    (hcp : checkPolicy .permissive s pu ru cond = some vs) (hacc : accepted vs = true) :
    (∃ b, w.eval cond = .ok (.prim (.bool b))) ∨ (∃ err, w.eval cond = .error err ∧ Permitted err) := by
  obtain ⟨v, hv, hvm⟩ := checkPolicy_mem hcp hmem
  have hne : v ≠ .fail := by
    have := List.all_eq_true.mp hacc _ hvm
    simpa using this
  exact accepted_boolean_or_permitted_errorP s env w hWF henv hreq hst hact hsl cond hf v hv hne

/-- POLICY LEVEL, permissive (static policies): on EVERY conformant request and store. -/
theorem permissive_validation_sound_static_partial (s : Schema) (cond : Expr) (vs : List (RequestEnv × Verdict)) (w : World)
    (hWF : SchemaWF2 s) (hreq : ConformsRequest s w.q) (hst : StoreConforms s w.es) (hact : ActionsPresent s w.es)
    (hf : ∀ env, InFragmentP env cond = true)
    (hcp : checkPolicy .permissive s .absent .absent cond = some vs) (hacc : accepted vs = true) :
    (∃ b, w.eval cond = .ok (.prim (.bool b))) ∨ (∃ err, w.eval cond = .error err ∧ Permitted err) := by
  obtain ⟨env, hmem, henv, hp, hr⟩ := conformant_request_env hreq
  have hsl : SlotsMatch env w.sl := ⟨fun t ht => (by rw [hp] at ht; cases ht), fun t ht => (by rw [hr] at ht; cases ht)⟩
  exact permissive_validation_sound_partial s .absent .absent cond vs w env hWF hmem henv hreq hst hact hsl (hf env) hcp hacc

/-- POLICY LEVEL, permissive: a static policy flagged impossible is satisfied by no conformant request -/
theorem impossible_policy_never_satisfied_static_permissive (s : Schema) (cond : Expr) (vs : List (RequestEnv × Verdict))
    (w : World) (hWF : SchemaWF2 s) (hreq : ConformsRequest s w.q) (hst : StoreConforms s w.es) (hact : ActionsPresent s w.es)
    (hf : ∀ env, InFragmentP env cond = true)
    (hcp : checkPolicy .permissive s .absent .absent cond = some vs) (himp : impossible vs = true) :
    w.eval cond ≠ .ok (.prim (.bool true)) := by
  obtain ⟨env, hmem, henv, hp, hr⟩ := conformant_request_env hreq
  have hsl : SlotsMatch env w.sl := ⟨fun t ht => (by rw [hp] at ht; cases ht), fun t ht => (by rw [hr] at ht; cases ht)⟩
  obtain ⟨v, hv, hvm⟩ := checkPolicy_mem hcp hmem
  have hff : v = .ff := by
    have := List.all_eq_true.mp himp _ hvm
    simpa using this
  subst hff
  exact typed_false_never_satisfiedP s env w hWF henv hreq hst hact hsl cond (hf env) hv

/-- Corollary (permissive, every expression): a condition the permissive typechecker does not reject in the environment of a
conformant request evaluates to a boolean, or fails with a permitted error. -/
theorem accepted_boolean_or_permitted_error_permissive (s : Schema) (env : RequestEnv) (w : World)
    (hWF : SchemaWF2 s) (hND : SchemaND s) (henv : EnvMatches s env w.q) (hreq : ConformsRequest s w.q)
    (hst : StoreConforms s w.es) (hact : ActionsPresent s w.es) (hsl : SlotsMatch env w.sl)
    (e : Expr) (hk : RecordKeysDistinct e = true) (hlinked : SlotsLinked env e = true)
    (v : Verdict) (hv : checkEnv .permissive s env e = some v) (hne : v ≠ .fail) :
    (∃ b, w.eval e = .ok (.prim (.bool b))) ∨ (∃ err, w.eval e = .error err ∧ Permitted err) := by
  unfold checkEnv at hv
  cases hE : expectOneOf (typeOf .permissive s env e []) [boolT] with
  | error err =>
    rw [hE] at hv
    cases err <;> simp at hv
    exact (hne hv.symm).elim
  | ok p =>
    obtain ⟨τ, c'⟩ := p
    obtain ⟨ht, hs⟩ := expectOneOf_ok hE
    have hs' := (typeOf_sound_permissive s env w hWF hND henv hreq hst hact hsl e [] τ c' hk hlinked ht (capsHold_nil w)).1
    rcases hs'.bool_cases (subtype_bool hs) with he | ⟨b, hb, _, _⟩
    · exact Or.inr he
    · exact Or.inl ⟨b, hb⟩

/-- Corollary (permissive, every expression): a condition typed `False` in the request's environment is never satisfied. -/
theorem typed_false_never_satisfied_permissive (s : Schema) (env : RequestEnv) (w : World)
    (hWF : SchemaWF2 s) (hND : SchemaND s) (henv : EnvMatches s env w.q) (hreq : ConformsRequest s w.q)
    (hst : StoreConforms s w.es) (hact : ActionsPresent s w.es) (hsl : SlotsMatch env w.sl)
    (e : Expr) (hk : RecordKeysDistinct e = true) (hlinked : SlotsLinked env e = true)
    (hv : checkEnv .permissive s env e = some .ff) :
    w.eval e ≠ .ok (.prim (.bool true)) := by
  unfold checkEnv at hv
  cases hE : expectOneOf (typeOf .permissive s env e []) [boolT] with
  | error err => rw [hE] at hv; cases err <;> simp at hv
  | ok p =>
    obtain ⟨τ, c'⟩ := p
    rw [hE] at hv
    obtain ⟨ht, hs⟩ := expectOneOf_ok hE
    have hτ : τ = .bool .ff := by
      rcases subtype_bool hs with rfl | ⟨bt, rfl⟩
      · simp at hv
      · cases bt <;> simp at hv
        rfl
    subst hτ
    have hs' := (typeOf_sound_permissive s env w hWF hND henv hreq hst hact hsl e [] _ c' hk hlinked ht (capsHold_nil w)).1
    intro htrue
    rcases hs' with ⟨err, he, _⟩ | ⟨v, hv', hi, _⟩
    · rw [htrue] at he; cases he
    · rw [htrue] at hv'; cases hv'; cases hi

/-- POLICY LEVEL, PERMISSIVE MODE, NO FRAGMENT (policies and templates): if the permissive typechecker accepts the condition
in every request environment, then in every world whose request environment is one of them (with the policy's slots linked
in it) evaluation yields a boolean or fails with an entity / overflow / extension error only. -/
theorem permissive_validation_sound (s : Schema) (pu ru : SlotUse) (cond : Expr) (vs : List (RequestEnv × Verdict))
    (w : World) (env : RequestEnv)
    (hWF : SchemaWF2 s) (hND : SchemaND s) (hmem : env ∈ s.envs pu ru) (henv : EnvMatches s env w.q)
    (hreq : ConformsRequest s w.q) (hst : StoreConforms s w.es) (hact : ActionsPresent s w.es) (hsl : SlotsMatch env w.sl)
    (hk : RecordKeysDistinct cond = true) (hlinked : SlotsLinked env cond = true)
    (hcp : checkPolicy .permissive s pu ru cond = some vs) (hacc : accepted vs = true) :
    (∃ b, w.eval cond = .ok (.prim (.bool b))) ∨ (∃ err, w.eval cond = .error err ∧ Permitted err) := by
  obtain ⟨v, hv, hvm⟩ := checkPolicy_mem hcp hmem
  have hne : v ≠ .fail := by
    have := List.all_eq_true.mp hacc _ hvm
    simpa using this
  exact accepted_boolean_or_permitted_error_permissive s env w hWF hND henv hreq hst hact hsl cond hk hlinked v hv hne

/-- POLICY LEVEL, permissive, static policies (no slots): on EVERY conformant request and store. -/
theorem permissive_validation_sound_static (s : Schema) (cond : Expr) (vs : List (RequestEnv × Verdict)) (w : World)
    (hWF : SchemaWF2 s) (hND : SchemaND s) (hreq : ConformsRequest s w.q) (hst : StoreConforms s w.es)
    (hact : ActionsPresent s w.es) (hk : RecordKeysDistinct cond = true) (hlinked : ∀ env, SlotsLinked env cond = true)
    (hcp : checkPolicy .permissive s .absent .absent cond = some vs) (hacc : accepted vs = true) :
    (∃ b, w.eval cond = .ok (.prim (.bool b))) ∨ (∃ err, w.eval cond = .error err ∧ Permitted err) := by
  obtain ⟨env, hmem, henv, hp, hr⟩ := conformant_request_env hreq
  have hsl : SlotsMatch env w.sl := ⟨fun t ht => (by rw [hp] at ht; cases ht), fun t ht => (by rw [hr] at ht; cases ht)⟩
  exact permissive_validation_sound s .absent .absent cond vs w env hWF hND hmem henv hreq hst hact hsl hk (hlinked env) hcp hacc

/-- POLICY LEVEL, permissive, no fragment: a static policy flagged impossible is satisfied by no conformant request -/
theorem impossible_policy_never_satisfied_permissive (s : Schema) (cond : Expr) (vs : List (RequestEnv × Verdict))
    (w : World) (hWF : SchemaWF2 s) (hND : SchemaND s) (hreq : ConformsRequest s w.q) (hst : StoreConforms s w.es)
    (hact : ActionsPresent s w.es) (hk : RecordKeysDistinct cond = true) (hlinked : ∀ env, SlotsLinked env cond = true)
    (hcp : checkPolicy .permissive s .absent .absent cond = some vs) (himp : impossible vs = true) :
    w.eval cond ≠ .ok (.prim (.bool true)) := by
  obtain ⟨env, hmem, henv, hp, hr⟩ := conformant_request_env hreq
  have hsl : SlotsMatch env w.sl := ⟨fun t ht => (by rw [hp] at ht; cases ht), fun t ht => (by rw [hr] at ht; cases ht)⟩
  obtain ⟨v, hv, hvm⟩ := checkPolicy_mem hcp hmem
  have hff : v = .ff := by
    have := List.all_eq_true.mp himp _ hvm
    simpa using this
  subst hff
  exact typed_false_never_satisfied_permissive s env w hWF hND henv hreq hst hact hsl cond hk (hlinked env) hv

/-! #### non-vacuity: policies that PERMISSIVE mode accepts and STRICT mode rejects -/

def evalsToBool (w : World) (e : Expr) : Option Bool :=
  match w.eval e with
  | .ok (.prim (.bool b)) => some b
  | _ => none

/-- `(if principal has age then principal else resource) == resource`: the `if` joins `User` and `Group` -/
def exJoinEq : Expr := .binaryApp .eq (.ite (.hasAttr principal "age") principal (.var .resource)) (.var .resource)
/-- `[principal, resource].contains(principal)`: a set literal of two entity types -/
def exSetMixed : Expr := .binaryApp .contains (.set [principal, .var .resource]) principal
/-- `principal in resource && ((if … ) == resource || [principal, resource].contains(principal)) && [].isEmpty()` -/
def exPermissivePolicy : Expr :=
  .and (.binaryApp .mem principal (.var .resource))
    (.and (.or exJoinEq exSetMixed) (.unaryApp .isEmpty (.set [])))

example : checkEnv .strict ex2Schema ex2Env exJoinEq = some .fail := by decide +kernel
example : checkEnv .permissive ex2Schema ex2Env exJoinEq = some .bool := by decide +kernel
example : checkEnv .strict ex2Schema ex2Env exSetMixed = some .fail := by decide +kernel
example : checkEnv .permissive ex2Schema ex2Env exSetMixed = some .bool := by decide +kernel
example : checkEnv .strict ex2Schema ex2Env exPermissivePolicy = some .fail := by decide +kernel
example : checkEnv .permissive ex2Schema ex2Env exPermissivePolicy = some .bool := by decide +kernel
/-- outside the old permissive fragment, inside the new one -/
example : InFragmentM .permissive ex2Env exJoinEq = false ∧ InFragmentM .permissive ex2Env exSetMixed = false ∧
    InFragmentP ex2Env exJoinEq = true ∧ InFragmentP ex2Env exSetMixed = true ∧ InFragmentP ex2Env exPermissivePolicy = true := by
  decide +kernel
/-- the evaluation results on the conformant request / store `ex2World` are booleans -/
example : evalsToBool ex2World exJoinEq = some true := by decide +kernel
example : evalsToBool ex2World exSetMixed = some true := by decide +kernel
example : evalsToBool ex2World exPermissivePolicy = some true := by decide +kernel
/-- … as the theorem says, all its premises instantiated -/
example : (∃ b, ex2World.eval exPermissivePolicy = .ok (.prim (.bool b))) ∨
    (∃ err, ex2World.eval exPermissivePolicy = .error err ∧ Permitted err) :=
  accepted_boolean_or_permitted_errorP ex2Schema ex2Env ex2World ex2_schemaWF ex2_envMatches ex2_request ex2_store
    ex2_actions ex2_slots exPermissivePolicy (by decide +kernel) .bool (by decide +kernel) (by decide)
/-- policy level, every environment of the schema -/
example : (∃ b, ex2World.eval exJoinEq = .ok (.prim (.bool b))) ∨ (∃ err, ex2World.eval exJoinEq = .error err ∧ Permitted err) :=
  permissive_validation_sound_static_partial ex2Schema exJoinEq
    [(⟨"User", ⟨"Action", "view"⟩, "Group", ex2View.context, none, none⟩, .bool)] ex2World ex2_schemaWF ex2_request ex2_store ex2_actions
    (fun _ => rfl) rfl rfl

/-! #### non-vacuity of the full permissive theorem: access and membership on UNION-typed operands -/

theorem ex2_schemaND : SchemaND ex2Schema where
  et_nd := by
    intro T et h
    have hm := entityType?_mem' h
    simp only [ex2Schema, List.mem_cons, Prod.mk.injEq, List.not_mem_nil, or_false] at hm
    rcases hm with ⟨rfl, rfl⟩ | ⟨rfl, rfl⟩
    · exact ⟨by decide, fun t ht => by simp [ex2Group] at ht⟩
    · exact ⟨by decide, fun t ht => by simp [ex2User] at ht; subst ht; rfl⟩
  act_nd := by
    intro u a h
    have hm := action?_mem h
    simp only [ex2Schema, List.mem_cons, Prod.mk.injEq, List.not_mem_nil, or_false] at hm
    rcases hm with ⟨rfl, rfl⟩ | ⟨rfl, rfl⟩ <;> decide

/-- `principal ⊔ resource` : `User ⊔ Group` -/
def exPR : Expr := .ite (.hasAttr principal "name") principal (.var .resource)
/-- `(if … then principal else resource) has name && (…) is User && (…) in resource && (…).hasTag("team")
    && (…).getTag("team") like "b*" && (if … then {a: principal, b: 1} else {a: resource}).a in [principal, resource]
    && [if … then [] else [1]].isEmpty() == false` -/
def exUnionCond : Expr :=
  .and (.hasAttr exPR "name")
  (.and (.is exPR "User")
  (.and (.binaryApp .mem exPR (.var .resource))
  (.and (.binaryApp .hasTag exPR ex2Team)
  (.and (.like (.binaryApp .getTag exPR ex2Team) [.char 'b', .star])
  (.and (.binaryApp .mem
          (.getAttr (.ite (.hasAttr principal "name") (.record [("a", principal), ("b", .lit (.int 1))])
                          (.record [("a", .var .resource)])) "a")
          (.set [principal, .var .resource]))
        (.binaryApp .eq (.unaryApp .isEmpty (.set [.ite (.hasAttr principal "name") (.set []) (.set [.lit (.int 1)])]))
          (.lit (.bool false))))))))

example : checkEnv .strict ex2Schema ex2Env exUnionCond = some .fail := by decide +kernel
example : checkEnv .permissive ex2Schema ex2Env exUnionCond = some .bool := by decide +kernel
/-- outside the fragment of the previous round -/
example : InFragmentP ex2Env exUnionCond = false := by decide +kernel
example : evalsToBool ex2World exUnionCond = some true := by decide +kernel
/-- the full theorem, all its premises instantiated -/
example : (∃ b, ex2World.eval exUnionCond = .ok (.prim (.bool b))) ∨
    (∃ err, ex2World.eval exUnionCond = .error err ∧ Permitted err) :=
  accepted_boolean_or_permitted_error_permissive ex2Schema ex2Env ex2World ex2_schemaWF ex2_schemaND ex2_envMatches ex2_request
    ex2_store ex2_actions ex2_slots exUnionCond (by decide +kernel) (by decide +kernel) .bool (by decide +kernel) (by decide)
/-- policy level, every environment of the schema, no fragment -/
example : (∃ b, ex2World.eval exUnionCond = .ok (.prim (.bool b))) ∨
    (∃ err, ex2World.eval exUnionCond = .error err ∧ Permitted err) :=
  permissive_validation_sound_static ex2Schema exUnionCond
    [(⟨"User", ⟨"Action", "view"⟩, "Group", ex2View.context, none, none⟩, .bool)] ex2World ex2_schemaWF ex2_schemaND ex2_request
    ex2_store ex2_actions (by decide +kernel) (fun _ => rfl) rfl rfl

end Cedar.C03
