import CedarVerif.Lemmas.TpeViews
import CedarVerif.Lemmas.TpeQuery
import CedarVerif.Lemmas.TpeSound4
import CedarVerif.Lemmas.TpeDecision
import CedarVerif.Lemmas.TpeQuerySound
import CedarVerif.Lemmas.TpeValidTotal
import CedarVerif.Thm.C03
/-
C14 — type-aware partial evaluation and permission queries are sound.  Property theorems only
(helpers: Lemmas/Tpe*.lean).  Model: Cedar/Tpe.lean (`Residual`, `interpret`, `Tpe.Response`, views, `reauthorize`, queries).

`interpret` soundness, status:
  * `interpret_sound` (= `InterpretSoundFull`, PROVED): for EVERY residual — all arms of `interpret`: variables, `&&` `||`
    with the `<error-free> && false` rule, `if`, unary and all twelve binary operators incl. `in` (entity / entity set, known
    or unknown ancestors) and `getTag` / `hasTag` (tags `None` ≠ empty), `.` / `has`, `like`, `is`, extension calls, set and
    record constructors — on every completion, given only `TypeSafe req es r`: no node of the INPUT residual raises a type
    error on the completion (semantic consequence of validation; guarded by short-circuiting like the typechecker's
    capabilities).  No hypothesis mentions `interpret`, `canError` or the residuals produced.
  * `can_error_analysis_sound` (PROVED): the mirrored `can_error_assuming_well_formed` is sound on type-safe residuals —
    the former hypothesis `ErrFreeSound` is discharged; `interpret_keeps_typeSafe`: the output is type-safe again, which
    is what makes re-interpretation (C15) compositional.
  * `interpret_sound_partial` (kept): the older formulation over `Frag`, now with every constructor, carrying `OpBool` /
    `ErrFreeSound` on the `&&` / `||` nodes.
  * `tpe_decision_sound`: `interpret_sound` + `tpe_table_sound`: a definite TPE decision is the concrete decision on every
    completion (this is the `hsound` of `query_exact` / `query_action_sound`).
  * FROM VALIDATION (C03), Lemmas/TpeValid*.lean: the typed expression the model receives is `te.erase` for the typed AST
    `te = Level.annotate .strict s env cond []` of the Rust typechecker (`typed.into_expr()` in harness/src/c14.rs; `annotate`
    is C16's mirror of the AST `typecheck` hands back, incl. its short-circuit simplifications).  `Valid.annot_typeSafe`
    re-runs C03's induction over `annotate` with the per-node invariant "the node's residual evaluates like the node
    (`Level.annot_res`) and the node is `Good` (`soundM`): a value of its static type or an entity / overflow / extension
    error — never a type error": the residual `try_from_typed_expr` builds is `TypeSafe` on every conformant request / store.
    Hence `TypedSafe`, `TypedAgrees` (with EQUAL results) and `CondsBool` are THEOREMS for validated policies
    (`Valid.valid_typedSafe` / `valid_typedAgrees` / `valid_condsBool`), `tpe::is_authorized` does not fail on them
    (`Valid.valid_isAuthorized_some`), and `tpe_decision_sound_valid`, `query_resource_exact_valid`,
    `query_principal_exact_valid`, `query_action_sound_valid` below carry VALIDATION-LEVEL hypotheses only: `SchemaWF2 s`;
    `ValidTyped s env tps` (every policy is static, inside the strict fragment, accepted by `checkPolicy .strict` in every
    environment — C03's `strict_validation_sound_static` premises — and its typed condition is `annotate`'s for `env`);
    `env` is the unlinked request environment of the partial request; the completion is `Conformant` (C11 `ConformsRequest`,
    `StoreConforms`; C03 `ActionsPresent`) and `Completes` the partial inputs.  The older theorems are kept.
  * NOT proved: the passage `Residual → Expr` of the real `reauthorize` (a `Concrete` residual is re-parsed as
    `Value → Expr`) — covered by the differential run (tpe-re lines).
  * `IsTypedFor` / `typedPolicy` ("the typed condition is the erasure of `annotate .strict s env cond []`") is a statement
    about the Rust typechecker's output and cannot be proved here; it is CHECKED on every `./check C14` (and C16) by the
    `typedast` correspondence stream `c14typed` (harness/src/c14_typed.rs; driver op Driver/Ops/TypedAst.lean): for generated
    (schema, strictly valid / near-valid policy, request environment) triples
      - `(typedast shape …)`: `(annotate …).erase` against `typecheck_by_single_request_env(…).into_expr()`, with the verdict
        (`PolicyCheck::Success` / `Irrelevant` / `Fail` = success / irrelevant / `(err)`);
      - `(typedast types …)`: the `Type` annotation of EVERY node (`expr.data()`) against `typeOf` under the capabilities in
        force at that node; the decorated tree the op prints is checked at run time to be literally `annotate`'s `TExpr`
        (incl. the `TKind`s the level checker reads), else the op answers `(model-mismatch)`.
    Quick run: 2068 `c14typed` lines = 1034 (policy, environment) pairs (318 success, 674 irrelevant, 42 rejected; in 699 the
    typed expression differs from the condition by a dropped operand / duplicated branch), plus the `typedast` lines the `c14`
    stream emits for the policies and environment of every 4th TPE case (3446 lines: 1036 success, 687 irrelevant pairs): 0 disagreements, 0 `(outside-model)`, 0 `(model-mismatch)`.
    Shapes outside the model (the op answers `(outside-model)`, never diffed): `unknown` expressions; entity literals whose
    type / action id the schema does not declare; `AnyEntity`-typed operands of `.`/`has`/tags (partial-schema validation
    only); templates (slots) are not sent by the stream (the theorems are about static policies).
-/
namespace Cedar.C14
open Cedar Cedar.Tpe Cedar.Tpe.Valid

/-- **tpe_table_sound** (full, combinatorial; the table of `tpe::Response::new` is `Cedar.Table.decide`, the same five
rows as C13's).  For an arbitrary response (any list of residual policies) and every concrete request / store on which
each policy of a definite bucket has the outcome its bucket names (residual buckets: arbitrary), a definite TPE
decision is the decision of the concrete authorizer over the original policies; and it is the decision of every
abstract completion `out` of the residual policies to final outcomes. -/
theorem tpe_table_sound (r : Tpe.Response) :
    (∀ (out : ResidualPolicy → Outcome), (∀ rp, rp ∈ r.residuals → rp.residual.cls.Consistent (out rp)) →
        ∀ d, r.decision = some d → decisionOf r.residuals out = d) ∧
    (r.WF → ∀ (req : Request) (es : Entities),
        (∀ rp, rp ∈ r.residuals → rp.residual.cls.Consistent (rp.original.outcome req es)) →
        ∀ d, r.decision = some d → (Cedar.isAuthorized req es (r.residuals.map (·.original))).decision = d) := by
  refine ⟨fun out hc => table_sound_core r out hc, ?_⟩
  intro hwf req es hc d hd
  have h := concrete_decision_eq r hwf req es
  unfold Tpe.Response.policySet at h
  rw [h]
  exact table_sound_core r _ hc d hd

/-- non-vacuity of `tpe_table_sound`: a true permit, a residual permit, an erroring forbid: decision `allow` -/
example :
    let mk (id : String) (eff : Effect) (res : Residual) : ResidualPolicy := ⟨id, eff, res, ⟨id, eff, .lit (.bool true), []⟩⟩
    let r : Tpe.Response := ⟨[mk "p1" .permit (.concrete (.prim (.bool true)) ""), mk "p2" .permit (.part (.var .context) ""),
                          mk "p3" .forbid (.error "")], ⟨⟨"U", none⟩, ⟨"A", "a"⟩, ⟨"R", some "r"⟩, none⟩, []⟩
    r.decision = some .allow ∧ r.WF := by
  refine ⟨by decide, ?_⟩
  intro rp hrp
  simp only [List.mem_cons, List.mem_singleton, List.not_mem_nil, or_false] at hrp
  rcases hrp with rfl | rfl | rfl <;> exact ⟨rfl, rfl⟩

/-- **Full statement of the views clause** ("all views of a response — the residual policies, their collection as a
policy set, lookup by id and reauthorization — present those same residuals"), kept visible.  On the model of the code
as it is this is FALSE for the `policy_set()` view (and hence for what `reauthorize` evaluates), see
`policy_set_presents_originals` and the known finding C14-policy-set-view-original. -/
def ViewsAgreeFull (r : Tpe.Response) : Prop :=
  (∀ p, p ∈ r.policiesView ↔ ∃ rp, rp ∈ r.residuals ∧ p = rp.toPolicy) ∧
  (∀ rp, rp ∈ r.residuals → r.getPolicyView rp.id = some rp.toPolicy) ∧
  (∀ p, p ∈ r.residualPoliciesView ↔ ∃ rp, rp ∈ r.residuals ∧ rp.residual.cls = .res ∧ p = rp.toPolicy) ∧
  (∀ p, p ∈ r.policySet ↔ ∃ rp, rp ∈ r.residuals ∧ p = rp.toPolicy) ∧
  (∀ req es, r.reauthorize req es = r.reauthorizeSpec req es)

/-- **views_agree** (full for the views that are projections of the one map): `policies()`, `get_policy(id)` (ids
unique), `residual_policies()` and every bucket present exactly the residual policies `rp.toPolicy` — whose condition
is the residual (`residualCondition rp.residual.toExpr`), not the original condition — of the one map `residuals`;
nothing is dropped, nothing invented. -/
theorem views_agree (r : Tpe.Response) (hu : r.UniqueIds) :
    (∀ p, p ∈ r.policiesView ↔ ∃ rp, rp ∈ r.residuals ∧ p = rp.toPolicy) ∧
    (∀ rp, rp ∈ r.residuals → r.getPolicyView rp.id = some rp.toPolicy) ∧
    (∀ id p, r.getPolicyView id = some p → ∃ rp, rp ∈ r.residuals ∧ rp.id = id ∧ p = rp.toPolicy) ∧
    (∀ p, p ∈ r.residualPoliciesView ↔ ∃ rp, rp ∈ r.residuals ∧ rp.residual.cls = .res ∧ p = rp.toPolicy) ∧
    (∀ eff c rp, rp ∈ r.bucket eff c ↔ rp ∈ r.residuals ∧ rp.effect = eff ∧ rp.residual.cls = c) ∧
    (∀ rp, rp ∈ r.residuals → rp.toPolicy.condition = residualCondition rp.residual.toExpr ∧ rp.toPolicy.id = rp.id ∧
        rp.toPolicy.effect = rp.effect) := by
  refine ⟨?_, ?_, ?_, ?_, ?_, ?_⟩
  · intro p
    simp only [Tpe.Response.policiesView, Tpe.Response.policies, List.mem_map]
    constructor
    · rintro ⟨rp, h, rfl⟩; exact ⟨rp, h, rfl⟩
    · rintro ⟨rp, h, rfl⟩; exact ⟨rp, h, rfl⟩
  · intro rp h
    simp only [Tpe.Response.getPolicyView, Tpe.Response.getPolicy, find?_of_nodup hu h, Option.map_some]
  · intro id p h
    simp only [Tpe.Response.getPolicyView, Tpe.Response.getPolicy] at h
    cases hf : r.residuals.find? (fun x => x.id == id) with
    | none => simp [hf] at h
    | some rp =>
      simp only [hf, Option.map_some, Option.some.injEq] at h
      have h1 := List.find?_some hf
      have h2 := List.mem_of_find?_eq_some hf
      exact ⟨rp, h2, by simpa using h1, h.symm⟩
  · intro p
    simp only [Tpe.Response.residualPoliciesView, Tpe.Response.residualPolicies, List.mem_map, List.mem_append, mem_bucket]
    constructor
    · rintro ⟨rp, (⟨h, _, hc⟩ | ⟨h, _, hc⟩), rfl⟩ <;> exact ⟨rp, h, hc, rfl⟩
    · rintro ⟨rp, h, hc, rfl⟩
      cases he : rp.effect
      · exact ⟨rp, Or.inl ⟨h, he, hc⟩, rfl⟩
      · exact ⟨rp, Or.inr ⟨h, he, hc⟩, rfl⟩
  · intro eff c rp; exact mem_bucket
  · intro rp _; exact ⟨rfl, rfl, rfl⟩

/-- the `policy_set()` view of the code as it is presents the ORIGINAL policies (and `reauthorize` evaluates them):
the part of `ViewsAgreeFull` that does not hold.  (`reauthorize` then trivially equals the concrete authorizer over the
originals; by `interpret` soundness it has the same outcomes as `reauthorizeSpec`.) -/
theorem policy_set_presents_originals (r : Tpe.Response) :
    r.policySet = r.residuals.map (·.original) ∧
    (∀ req es resp, r.reauthorize req es = some resp → resp = Cedar.isAuthorized req es (r.residuals.map (·.original))) := by
  refine ⟨rfl, ?_⟩
  intro req es resp h
  unfold Tpe.Response.reauthorize at h
  split at h
  · simpa [Tpe.Response.policySet] using h.symm
  · cases h

/-- the views clause fails on the model of the code: a response whose `policy_set()` differs from its residuals
    (the minimal input of the known finding: `principal == User::"a"` in the scope, resource id unknown) -/
theorem views_agree_full_fails : ∃ r : Tpe.Response, r.UniqueIds ∧ r.WF ∧ ¬ ViewsAgreeFull r := by
  let orig : Policy := ⟨"p0", .permit, .binaryApp .eq (.getAttr (.var .resource) "owner") (.var .principal), []⟩
  let res : Residual := .part (.binaryApp .eq (.part (.getAttr (.part (.var .resource) "") "owner") "")
    (.concrete (.prim (.entityUID ⟨"User", "a"⟩)) "")) ""
  let r : Tpe.Response := ⟨[⟨"p0", .permit, res, orig⟩], ⟨⟨"User", some "a"⟩, ⟨"Action", "view"⟩, ⟨"Doc", none⟩, some []⟩, []⟩
  refine ⟨r, by simp [Tpe.Response.UniqueIds, r], ?_, ?_⟩
  · intro rp hrp
    simp only [r, List.mem_singleton] at hrp
    subst hrp; exact ⟨rfl, rfl⟩
  · intro h
    have h4 := (h.2.2.2.1 orig).mp (by simp [Tpe.Response.policySet, r])
    obtain ⟨rp, hrp, heq⟩ := h4
    simp only [r, List.mem_singleton] at hrp
    subst hrp
    have : orig.condition = (ResidualPolicy.toPolicy ⟨"p0", .permit, res, orig⟩).condition := by rw [← heq]
    simp [orig, ResidualPolicy.toPolicy, residualCondition] at this

/-- **query_exact** (given TPE soundness of the definite decision for the candidate completions, `hsound` — which is
`tpe_table_sound` + `interpret` soundness): `query_resource` returns exactly the candidate entities (the entities of
the store of the queried type) for which the concrete request is allowed by the input policies; likewise
`query_principal`.  The undecided arm is exact outright (it re-authorizes every candidate over `policy_set()`). -/
theorem query_exact (tps : List TPolicy) (ctx : List (String × Value)) (es : Entities) :
    (∀ (principal action : EntityUID) (rty : EntityType) (us : List EntityUID),
      queryResource tps principal action rty ctx es = some us →
      (∀ resp, Tpe.isAuthorized ⟨⟨principal.ty, some principal.eid⟩, action, ⟨rty, none⟩, some ctx⟩ (Tpe.PEntities.ofConcrete es) tps = some resp →
        ∀ d, resp.decision = some d → ∀ u, u ∈ candidates es rty →
          (Cedar.isAuthorized ⟨principal, action, u, ctx⟩ es (tps.map (·.policy))).decision = d) →
      ∀ u, u ∈ us ↔ u ∈ candidates es rty ∧
        (Cedar.isAuthorized ⟨principal, action, u, ctx⟩ es (tps.map (·.policy))).decision = .allow) ∧
    (∀ (pty : EntityType) (action resource : EntityUID) (us : List EntityUID),
      queryPrincipal tps pty action resource ctx es = some us →
      (∀ resp, Tpe.isAuthorized ⟨⟨pty, none⟩, action, ⟨resource.ty, some resource.eid⟩, some ctx⟩ (Tpe.PEntities.ofConcrete es) tps = some resp →
        ∀ d, resp.decision = some d → ∀ u, u ∈ candidates es pty →
          (Cedar.isAuthorized ⟨u, action, resource, ctx⟩ es (tps.map (·.policy))).decision = d) →
      ∀ u, u ∈ us ↔ u ∈ candidates es pty ∧
        (Cedar.isAuthorized ⟨u, action, resource, ctx⟩ es (tps.map (·.policy))).decision = .allow) := by
  constructor
  · intro principal action rty us h hsound
    unfold queryResource at h
    simp only at h
    cases hr : Tpe.isAuthorized ⟨⟨principal.ty, some principal.eid⟩, action, ⟨rty, none⟩, some ctx⟩ (Tpe.PEntities.ofConcrete es) tps with
    | none => simp [hr] at h
    | some resp =>
      simp only [hr] at h
      have hps := isAuthorized_policySet hr
      exact query_arms (resp := resp) (auth := fun u ps => (Cedar.isAuthorized ⟨principal, action, u, ctx⟩ es ps).decision)
        (concrete := fun u => (Cedar.isAuthorized ⟨principal, action, u, ctx⟩ es (tps.map (·.policy))).decision)
        (fun u => by simp [hps]) h (hsound resp hr)
  · intro pty action resource us h hsound
    unfold queryPrincipal at h
    simp only at h
    cases hr : Tpe.isAuthorized ⟨⟨pty, none⟩, action, ⟨resource.ty, some resource.eid⟩, some ctx⟩ (Tpe.PEntities.ofConcrete es) tps with
    | none => simp [hr] at h
    | some resp =>
      simp only [hr] at h
      have hps := isAuthorized_policySet hr
      exact query_arms (resp := resp) (auth := fun u ps => (Cedar.isAuthorized ⟨u, action, resource, ctx⟩ es ps).decision)
        (concrete := fun u => (Cedar.isAuthorized ⟨u, action, resource, ctx⟩ es (tps.map (·.policy))).decision)
        (fun u => by simp [hps]) h (hsound resp hr)

/-- **query_action_sound** (given TPE soundness of the definite decision, `hsound`): for an action `a` of the list with
TPE response `resp`, and a concrete completion whose decision is `dc`: if the completion is allowed, `a` is returned
(never omitted); if `a` is labelled definitely allowed, the completion is allowed; and everything returned stems from
an action whose TPE decision is not `Deny`, labelled with exactly that decision. -/
theorem query_action_sound (acts : List (EntityUID × List TPolicy)) (p r : PUid) (ctx : Option (List (String × Value)))
    (pes : Tpe.PEntities) :
    (∀ a tps resp, (a, tps) ∈ acts → Tpe.isAuthorized ⟨p, a, r, ctx⟩ pes tps = some resp →
      ∀ dc : Decision, (∀ d, resp.decision = some d → dc = d) →
        (dc = .allow → (a, resp.decision) ∈ queryAction acts p r ctx pes) ∧ (resp.decision = some .allow → dc = .allow)) ∧
    (∀ x, x ∈ queryAction acts p r ctx pes → ∃ tps resp, (x.1, tps) ∈ acts ∧
      Tpe.isAuthorized ⟨p, x.1, r, ctx⟩ pes tps = some resp ∧ x.2 = resp.decision ∧ x.2 ≠ some .deny) := by
  constructor
  · intro a tps resp ha hr dc hsound
    refine ⟨?_, fun h => hsound _ h⟩
    intro hdc
    unfold queryAction
    apply List.mem_filterMap.mpr
    refine ⟨(a, tps), ha, ?_⟩
    simp only [hr]
    have hne : (resp.decision == some Decision.deny) = false := by
      cases hd : resp.decision with
      | none => rfl
      | some d => have := hsound d hd; subst this; subst hdc; rfl
    simp [hne]
  · intro x hx
    unfold queryAction at hx
    obtain ⟨⟨a, tps⟩, hm, hf⟩ := List.mem_filterMap.mp hx
    simp only at hf
    cases hr : Tpe.isAuthorized ⟨p, a, r, ctx⟩ pes tps with
    | none => simp [hr] at hf
    | some resp =>
      simp only [hr] at hf
      split at hf
      · cases hf
      · rename_i hne
        simp only [Option.some.injEq] at hf; subst hf
        exact ⟨tps, resp, hm, hr, rfl, by simpa using hne⟩

/-- the FIRST formulation of the full statement (kept for the record).  Its premise `∀ r, OpBool … r` quantifies over
ALL residuals and is unsatisfiable (`opBool_all_unsatisfiable`: a `Concrete` long is not a boolean), so this Prop is
vacuously true; it is superseded by `InterpretSoundFull` below. -/
def InterpretSoundFull_v1 : Prop :=
  ∀ (preq : Tpe.PRequest) (pes : Tpe.PEntities) (req : Request) (es : Entities), Completes preq pes req es →
    (∀ r, ErrFreeSound preq pes req es r) → (∀ r, OpBool preq pes req es r) →
    ∀ r : Residual, Agree ((interpret preq pes r).eval req es) (r.eval req es)

theorem opBool_all_unsatisfiable (preq : Tpe.PRequest) (pes : Tpe.PEntities) (req : Request) (es : Entities) :
    ¬ ∀ r, OpBool preq pes req es r := by
  intro h
  obtain ⟨b, hb⟩ := h (.concrete (.prim (.int 0)) "") (.prim (.int 0)) (by simp [interpret, Residual.eval])
  cases hb

/-- **Full statement of `interpret` soundness** (DESIGN.md §6 C14).  For every completion consistent with the partial
inputs, EVERY residual evaluates like its interpretation (equal values, or both errors) — hence a residual policy is
satisfied / unsatisfied / erroring exactly when its original is — for all arms, given that the residual is type-safe on
the completion (`TypeSafe`: no node raises a type error; consequence of validation). -/
def InterpretSoundFull : Prop :=
  ∀ (preq : Tpe.PRequest) (pes : Tpe.PEntities) (req : Request) (es : Entities), Completes preq pes req es →
    ∀ r : Residual, TypeSafe req es r → Agree ((interpret preq pes r).eval req es) (r.eval req es)

/-- **interpret_sound**: the full statement, proved (Lemmas/TpeTypeSafe2.lean, by induction on the type-safety derivation,
simultaneously with `interpret_keeps_typeSafe`). -/
theorem interpret_sound : InterpretSoundFull :=
  fun _ _ _ _ hC _ hts => (interpret_typeSafe hC hts).1

/-- `interpret_sound` in the three forms the property uses: equal results; same boolean; erroring together -/
theorem interpret_sound_outcomes (preq : Tpe.PRequest) (pes : Tpe.PEntities) (req : Request) (es : Entities)
    (hC : Completes preq pes req es) {r : Residual} (hts : TypeSafe req es r) :
    Agree ((interpret preq pes r).eval req es) (r.eval req es) ∧
    (∀ b, (interpret preq pes r).eval req es = .ok (.prim (.bool b)) ↔ r.eval req es = .ok (.prim (.bool b))) ∧
    ((∃ e, (interpret preq pes r).eval req es = .error e) ↔ ∃ e, r.eval req es = .error e) := by
  have h := interpret_sound preq pes req es hC r hts
  refine ⟨h, ?_, ?_⟩
  · intro b
    rcases agree_cases h with ⟨v, h1, h2⟩ | ⟨e, e', h1, h2⟩ <;> simp [h1, h2]
  · rcases agree_cases h with ⟨v, h1, h2⟩ | ⟨e, e', h1, h2⟩ <;> simp [h1, h2]

/-- **interpret_keeps_typeSafe**: the residual `interpret` returns is type-safe on the completion again -/
theorem interpret_keeps_typeSafe (preq : Tpe.PRequest) (pes : Tpe.PEntities) (req : Request) (es : Entities)
    (hC : Completes preq pes req es) {r : Residual} (hts : TypeSafe req es r) : TypeSafe req es (interpret preq pes r) :=
  (interpret_typeSafe hC hts).2

/-- **can_error_analysis_sound** (discharges `ErrFreeSound`): a residual that `can_error_assuming_well_formed` declares
error-free evaluates without error on every request / store on which it is type-safe; in particular this holds for the
residuals `interpret` produces from type-safe inputs, which is `ErrFreeSound`. -/
theorem can_error_analysis_sound (req : Request) (es : Entities) :
    (∀ r : Residual, TypeSafe req es r → r.canError = false → ∃ v, r.eval req es = .ok v) ∧
    (∀ (preq : Tpe.PRequest) (pes : Tpe.PEntities), Completes preq pes req es → ∀ r, TypeSafe req es r →
      ErrFreeSound preq pes req es r ∧ (IsBoolR req es r → OpBool preq pes req es r)) := by
  refine ⟨fun r hts => typeSafe_errFree hts, ?_⟩
  intro preq pes hC r hts
  obtain ⟨hag, hts'⟩ := interpret_typeSafe hC hts
  exact ⟨typeSafe_errFree hts', fun hb => isBoolR_of_agree hag hb⟩

/-- non-vacuity of `interpret_sound` on the arms the fragment did not cover: principal id unknown,
`User::"a" in Group::"g"` with UNKNOWN ancestors stays a residual, `principal.hasTag("t")`-style lookup on known tags
evaluates, a record constructor over a residual stays a residual; the input is type-safe on the completion. -/
example :
    let preq : Tpe.PRequest := ⟨⟨"User", none⟩, ⟨"Action", "view"⟩, ⟨"Doc", some "d"⟩, some []⟩
    let pes : Tpe.PEntities := [(⟨"User", "a"⟩, ⟨some [], none, some [("t", .prim (.bool true))]⟩)]
    let req : Request := ⟨⟨"User", "a"⟩, ⟨"Action", "view"⟩, ⟨"Doc", "d"⟩, []⟩
    let es : Entities := [(⟨"User", "a"⟩, ⟨[], [⟨"Group", "g"⟩], [("t", .prim (.bool true))]⟩)]
    let ua : Residual := .concrete (.prim (.entityUID ⟨"User", "a"⟩)) ""
    let mem : Residual := .part (.binaryApp .mem ua (.concrete (.prim (.entityUID ⟨"Group", "g"⟩)) "")) ""
    let tag : Residual := .part (.binaryApp .hasTag ua (.concrete (.prim (.string "t")) "")) ""
    let st : Residual := .part (.is (.part (.getAttr (.part (.record [("k", .part (.var .principal) "")]) "") "k") "") "User") ""
    let r : Residual := .part (.and mem (.part (.and tag st) "")) ""
    TypeSafe req es r ∧ (interpret preq pes r).isPartial = true ∧ r.eval req es = .ok (.prim (.bool true)) := by
  intro preq pes req es ua mem tag st r
  have hm : mem.eval req es = .ok (.prim (.bool true)) := by rfl
  have ht : tag.eval req es = .ok (.prim (.bool true)) := by rfl
  have hs : st.eval req es = .ok (.prim (.bool true)) := by rfl
  have hts : (Residual.part (.and tag st) "").eval req es = .ok (.prim (.bool true)) := by rfl
  refine ⟨?_, by decide, by rfl⟩
  refine .and (.binary (.concrete _ _) (.concrete _ _) ?_) ?_ (fun _ => .and (.binary (.concrete _ _) (.concrete _ _) ?_) ?_
    (fun _ => .is (.getAttr (.record ?_)) ?_) ?_) ?_
  · intro v1 v2 h1 h2; cases h1; cases h2; simp [applyBinary, Value.asEntity, bind, Except.bind]
  · intro v hv; rw [hm] at hv; cases hv; exact ⟨true, rfl⟩
  · intro v1 v2 h1 h2; cases h1; cases h2; simp [applyBinary, Value.asEntity, Value.asString, bind, Except.bind, Entities.find?]
  · intro v hv; rw [ht] at hv; cases hv; exact ⟨true, rfl⟩
  · intro x hx; simp only [List.mem_singleton] at hx; subst hx; exact .var _ _
  · intro v hv
    have : (Residual.part (.getAttr (.part (.record [("k", .part (.var .principal) "")]) "") "k") "").eval req es =
        .ok (.prim (.entityUID ⟨"User", "a"⟩)) := by rfl
    rw [this] at hv; cases hv; simp [isV, Value.asEntity]
  · intro _ v hv; rw [hs] at hv; cases hv; exact ⟨true, rfl⟩
  · intro _ v hv; rw [hts] at hv; cases hv; exact ⟨true, rfl⟩

/-- **tpe_decision_sound**: `interpret_sound` + `tpe_table_sound`.  For the response `tpe::is_authorized` builds on partial
inputs, and every completion on which the typed conditions are type-safe (`TypedSafe`) and evaluate like the policy
conditions (`TypedAgrees`): every residual policy sits in a bucket consistent with the outcome of its original, and a
definite TPE decision is the decision of the concrete authorizer over the input policies. -/
theorem tpe_decision_sound (preq : Tpe.PRequest) (pes : Tpe.PEntities) (tps : List TPolicy) (resp : Tpe.Response)
    (h : Tpe.isAuthorized preq pes tps = some resp) (req : Request) (es : Entities) (hC : Completes preq pes req es)
    (hT : TypedSafe req es tps) (hE : TypedAgrees req es tps) :
    (∀ rp, rp ∈ resp.residuals → rp.residual.cls.Consistent (rp.original.outcome req es)) ∧
    (∀ d, resp.decision = some d → (Cedar.isAuthorized req es (tps.map (·.policy))).decision = d) := by
  have hc := isAuthorized_consistent hC hT hE h
  refine ⟨hc, ?_⟩
  intro d hd
  have := (tpe_table_sound resp).2 (isAuthorized_wf h) req es hc d hd
  have hp := isAuthorized_policySet h
  unfold Tpe.Response.policySet at hp
  rw [hp] at this; exact this

/-- **interpret_sound_partial** (the older formulation, kept): soundness of `interpret` on `Frag` — now EVERY constructor
of `Residual` / `ResidualKind` (added: `in`, `getTag`, `hasTag`, extension calls, set and record constructors) — where the
facts about validation are attached to the `&&`/`||` nodes as hypotheses about the residuals `interpret` PRODUCES: `OpBool`
(the interpreted operands are booleans when they evaluate) and `ErrFreeSound` (the can-error analysis is right about the
interpreted left operand).  `interpret_sound` replaces both by `TypeSafe` of the input (and proves them:
`can_error_analysis_sound`).  `Agree` = equal values, or both errors (classes not compared). -/
theorem interpret_sound_partial (preq : Tpe.PRequest) (pes : Tpe.PEntities) (req : Request) (es : Entities)
    (hC : Completes preq pes req es) {r : Residual} (hf : Frag preq pes req es r) :
    Agree ((interpret preq pes r).eval req es) (r.eval req es) ∧
    (∀ b, (interpret preq pes r).eval req es = .ok (.prim (.bool b)) ↔ r.eval req es = .ok (.prim (.bool b))) ∧
    ((∃ e, (interpret preq pes r).eval req es = .error e) ↔ ∃ e, r.eval req es = .error e) := by
  have h := interpret_sound_frag hC hf
  refine ⟨h, ?_, ?_⟩
  · intro b
    rcases agree_cases h with ⟨v, h1, h2⟩ | ⟨e, e', h1, h2⟩ <;> simp [h1, h2]
  · rcases agree_cases h with ⟨v, h1, h2⟩ | ⟨e, e', h1, h2⟩ <;> simp [h1, h2]

/-- non-vacuity of `interpret_sound_partial`: resource id unknown, `User::"a"` with unknown attributes:
`resource is Doc && User::"a" has manager` — the `is` short-circuits to `true` on the partial request, the `has`
stays a residual; the fragment hypotheses hold on the completion. -/
example :
    let preq : Tpe.PRequest := ⟨⟨"User", some "a"⟩, ⟨"Action", "view"⟩, ⟨"Doc", none⟩, some []⟩
    let pes : Tpe.PEntities := [(⟨"User", "a"⟩, ⟨none, some [], some []⟩)]
    let req : Request := ⟨⟨"User", "a"⟩, ⟨"Action", "view"⟩, ⟨"Doc", "d"⟩, []⟩
    let es : Entities := [(⟨"User", "a"⟩, ⟨[("manager", .prim (.entityUID ⟨"User", "b"⟩))], [], []⟩)]
    let l : Residual := .part (.is (.part (.var .resource) "") "Doc") ""
    let r : Residual := .part (.hasAttr (.concrete (.prim (.entityUID ⟨"User", "a"⟩)) "") "manager") ""
    Frag preq pes req es (.part (.and l r) "") ∧ (interpret preq pes (.part (.and l r) "")).isPartial = true ∧
    (Residual.part (.and l r) "").eval req es = .ok (.prim (.bool true)) := by
  intro preq pes req es l r
  refine ⟨?_, by decide, by rfl⟩
  refine Frag.and (Frag.is (Frag.var _ _)) (Frag.hasAttr (Frag.concrete _ _)) ?_ ?_ ?_
  · intro v hv
    have : (interpret preq pes l).eval req es = .ok (.prim (.bool true)) := by rfl
    rw [this] at hv; cases hv; exact ⟨true, rfl⟩
  · intro v hv
    have : (interpret preq pes r).eval req es = .ok (.prim (.bool true)) := by rfl
    rw [this] at hv; cases hv; exact ⟨true, rfl⟩
  · intro _
    exact ⟨.prim (.bool true), by rfl⟩

/-- **query_resource_exact / query_principal_exact**: `query_exact` with its soundness premise DISCHARGED by
`tpe_decision_sound`: every candidate request completes the partial inputs of the query (`completes_ofConcrete`), so the
queries return exactly the candidates the concrete authorizer allows — given, for each candidate request, type safety of
the typed conditions and their agreement with the policy conditions. -/
theorem query_resource_exact (tps : List TPolicy) (ctx : List (String × Value)) (es : Entities)
    (principal action : EntityUID) (rty : EntityType) (us : List EntityUID)
    (h : queryResource tps principal action rty ctx es = some us)
    (hT : ∀ u, u ∈ candidates es rty → TypedSafe ⟨principal, action, u, ctx⟩ es tps)
    (hE : ∀ u, u ∈ candidates es rty → TypedAgrees ⟨principal, action, u, ctx⟩ es tps) :
    ∀ u, u ∈ us ↔ u ∈ candidates es rty ∧
      (Cedar.isAuthorized ⟨principal, action, u, ctx⟩ es (tps.map (·.policy))).decision = .allow :=
  (query_exact tps ctx es).1 principal action rty us h (fun resp hr d hd u hu =>
    (tpe_decision_sound _ _ tps resp hr ⟨principal, action, u, ctx⟩ es
      (completes_ofConcrete _ _ es (by intro x hx; simp only [PUid.uid?, Option.map_some, Option.some.injEq] at hx; rw [← hx])
        (by intro x hx; simp [PUid.uid?] at hx) rfl (candidates_ty hu) rfl
        (by intro c hc; simp only [Option.some.injEq] at hc; exact hc))
      (hT u hu) (hE u hu)).2 d hd)

theorem query_principal_exact (tps : List TPolicy) (ctx : List (String × Value)) (es : Entities)
    (pty : EntityType) (action resource : EntityUID) (us : List EntityUID)
    (h : queryPrincipal tps pty action resource ctx es = some us)
    (hT : ∀ u, u ∈ candidates es pty → TypedSafe ⟨u, action, resource, ctx⟩ es tps)
    (hE : ∀ u, u ∈ candidates es pty → TypedAgrees ⟨u, action, resource, ctx⟩ es tps) :
    ∀ u, u ∈ us ↔ u ∈ candidates es pty ∧
      (Cedar.isAuthorized ⟨u, action, resource, ctx⟩ es (tps.map (·.policy))).decision = .allow :=
  (query_exact tps ctx es).2 pty action resource us h (fun resp hr d hd u hu =>
    (tpe_decision_sound _ _ tps resp hr ⟨u, action, resource, ctx⟩ es
      (completes_ofConcrete _ _ es (by intro x hx; simp [PUid.uid?] at hx)
        (by intro x hx; simp only [PUid.uid?, Option.map_some, Option.some.injEq] at hx; rw [← hx])
        (candidates_ty hu) rfl rfl (by intro c hc; simp only [Option.some.injEq] at hc; exact hc))
      (hT u hu) (hE u hu)).2 d hd)

/-! ### the same theorems from VALIDATION-level hypotheses (C03), Lemmas/TpeValid*.lean -/

/-- **tpe_decision_sound_valid**: `tpe_decision_sound` with `TypedSafe` / `TypedAgrees` DERIVED from C03's strict soundness.
For strictly valid static policies `tps` whose typed conditions are the typechecker's typed AST for the request environment
`env` of the partial request (`ValidTyped`, `EnvOfPartial`), on EVERY conformant completion of the partial inputs: every
residual policy sits in a bucket consistent with the outcome of its original, and a definite TPE decision is the decision
of the concrete authorizer over the input policies. -/
theorem tpe_decision_sound_valid (s : Schema) (hWF : C03.SchemaWF2 s) (env : RequestEnv)
    (preq : Tpe.PRequest) (pes : Tpe.PEntities) (tps : List TPolicy) (resp : Tpe.Response)
    (h : Tpe.isAuthorized preq pes tps = some resp) (hV : ValidTyped s env tps) (hE : EnvOfPartial s env preq)
    (req : Request) (es : Entities) (hC : Completes preq pes req es) (hq : Conformant s req es) :
    (∀ rp, rp ∈ resp.residuals → rp.residual.cls.Consistent (rp.original.outcome req es)) ∧
    (∀ d, resp.decision = some d → (Cedar.isAuthorized req es (tps.map (·.policy))).decision = d) :=
  tpe_decision_sound preq pes tps resp h req es hC (valid_typedSafe hWF hV hq (hE.envOf hC))
    (valid_typedAgrees hWF hV hq (hE.envOf hC))

/-- **tpe_total_valid**: on validated static policies `tpe::is_authorized` answers (no `TpeError`), and the typed policies
exist for the environment of every conformant request (`policy_residual_map` does not fail at the typechecking step). -/
theorem tpe_total_valid (s : Schema) (env : RequestEnv) :
    (∀ (tps : List TPolicy), ValidTyped s env tps → env.principalSlot = none → env.resourceSlot = none →
      ∀ preq pes, ∃ resp, Tpe.isAuthorized preq pes tps = some resp) ∧
    (∀ (p : Policy) (q : Request), ValidStatic s p → EnvOf s env q → Cedar.ConformsRequest s q →
      ∃ tp, typedPolicy s env p = some tp ∧ tp.policy = p ∧ IsTypedFor s env tp) := by
  refine ⟨fun tps hV hp hr preq pes => valid_isAuthorized_some hV hp hr preq pes, ?_⟩
  intro p q hv he hreq
  obtain ⟨tp, htp⟩ := hv.typedPolicy_some he hreq
  exact ⟨tp, htp, typedPolicy_isTypedFor htp⟩

/-- **query_resource_exact_valid / query_principal_exact_valid**: the queries return exactly the candidates the concrete
authorizer allows — for strictly valid static policies typed for the environment of the query, a conformant store holding
the action entities, and conformant candidate requests.  No semantic hypothesis. -/
theorem query_resource_exact_valid (s : Schema) (hWF : C03.SchemaWF2 s) (env : RequestEnv)
    (tps : List TPolicy) (ctx : List (String × Value)) (es : Entities)
    (principal action : EntityUID) (rty : EntityType) (us : List EntityUID)
    (h : queryResource tps principal action rty ctx es = some us) (hV : ValidTyped s env tps)
    (hE : EnvOfPartial s env ⟨⟨principal.ty, some principal.eid⟩, action, ⟨rty, none⟩, some ctx⟩)
    (hst : StoreConforms s es) (hact : C03.ActionsPresent s es)
    (hreq : ∀ u, u ∈ candidates es rty → ConformsRequest s ⟨principal, action, u, ctx⟩) :
    ∀ u, u ∈ us ↔ u ∈ candidates es rty ∧
      (Cedar.isAuthorized ⟨principal, action, u, ctx⟩ es (tps.map (·.policy))).decision = .allow :=
  query_resource_exact tps ctx es principal action rty us h
    (fun u hu => valid_typedSafe hWF hV ⟨hreq u hu, hst, hact⟩ (hE.envOf_types rfl rfl (candidates_ty hu)))
    (fun u hu => valid_typedAgrees hWF hV ⟨hreq u hu, hst, hact⟩ (hE.envOf_types rfl rfl (candidates_ty hu)))

theorem query_principal_exact_valid (s : Schema) (hWF : C03.SchemaWF2 s) (env : RequestEnv)
    (tps : List TPolicy) (ctx : List (String × Value)) (es : Entities)
    (pty : EntityType) (action resource : EntityUID) (us : List EntityUID)
    (h : queryPrincipal tps pty action resource ctx es = some us) (hV : ValidTyped s env tps)
    (hE : EnvOfPartial s env ⟨⟨pty, none⟩, action, ⟨resource.ty, some resource.eid⟩, some ctx⟩)
    (hst : StoreConforms s es) (hact : C03.ActionsPresent s es)
    (hreq : ∀ u, u ∈ candidates es pty → ConformsRequest s ⟨u, action, resource, ctx⟩) :
    ∀ u, u ∈ us ↔ u ∈ candidates es pty ∧
      (Cedar.isAuthorized ⟨u, action, resource, ctx⟩ es (tps.map (·.policy))).decision = .allow :=
  query_principal_exact tps ctx es pty action resource us h
    (fun u hu => valid_typedSafe hWF hV ⟨hreq u hu, hst, hact⟩ (hE.envOf_types (candidates_ty hu) rfl rfl))
    (fun u hu => valid_typedAgrees hWF hV ⟨hreq u hu, hst, hact⟩ (hE.envOf_types (candidates_ty hu) rfl rfl))

/-- **query_action_sound_valid**: `query_action_sound` with its soundness premise discharged: for an action `a` of the list,
whose policies are validated and typed for `a`'s environment `env`, and every conformant completion: if the completion is
allowed, `a` is returned; if `a` is labelled definitely allowed, the completion is allowed. -/
theorem query_action_sound_valid (s : Schema) (hWF : C03.SchemaWF2 s) (acts : List (EntityUID × List TPolicy))
    (p r : PUid) (ctx : Option (List (String × Value))) (pes : Tpe.PEntities)
    (a : EntityUID) (tps : List TPolicy) (resp : Tpe.Response) (ha : (a, tps) ∈ acts)
    (hr : Tpe.isAuthorized ⟨p, a, r, ctx⟩ pes tps = some resp) (env : RequestEnv) (hV : ValidTyped s env tps)
    (hE : EnvOfPartial s env ⟨p, a, r, ctx⟩)
    (req : Request) (es : Entities) (hC : Completes ⟨p, a, r, ctx⟩ pes req es) (hq : Conformant s req es) :
    ((Cedar.isAuthorized req es (tps.map (·.policy))).decision = .allow → (a, resp.decision) ∈ queryAction acts p r ctx pes) ∧
    (resp.decision = some .allow → (Cedar.isAuthorized req es (tps.map (·.policy))).decision = .allow) :=
  (query_action_sound acts p r ctx pes).1 a tps resp ha hr _
    (fun d hd => (tpe_decision_sound_valid s hWF env _ pes tps resp hr hV hE req es hC hq).2 d hd)

/-- non-vacuity of the `…_valid` theorems: C03's example schema (`entity User in [Group] {…} tags String; action view …`),
the static condition `principal in resource && principal.hasTag("team") && principal.getTag("team") like "b*"`, the world of
C03's example as the completion of a partial request whose principal id is unknown and an empty partial store: every
hypothesis of `tpe_decision_sound_valid` holds, and TPE answers. -/
example :
    let p : Policy := ⟨"p0", .permit, C03.ex2Static, []⟩
    let env : RequestEnv := ⟨"User", ⟨"Action", "view"⟩, "Group", C03.ex2View.context, none, none⟩
    let preq : Tpe.PRequest := ⟨⟨"User", none⟩, ⟨"Action", "view"⟩, ⟨"Group", some "admins"⟩, some [("level", .prim (.int 3))]⟩
    C03.SchemaWF2 C03.ex2Schema ∧ ValidStatic C03.ex2Schema p ∧ EnvOfPartial C03.ex2Schema env preq ∧
    Completes preq [] C03.ex2World.q C03.ex2World.es ∧ Conformant C03.ex2Schema C03.ex2World.q C03.ex2World.es ∧
    ∃ tp resp, tp.policy = p ∧ ValidTyped C03.ex2Schema env [tp] ∧ Tpe.isAuthorized preq [] [tp] = some resp := by
  intro p env preq
  have hv : ValidStatic C03.ex2Schema p := ⟨rfl, fun _ => rfl, ⟨_, rfl, rfl⟩⟩
  have hE : EnvOfPartial C03.ex2Schema env preq := ⟨rfl, rfl, rfl, ⟨C03.ex2View, rfl, rfl⟩, rfl, rfl⟩
  have hC : Completes preq [] C03.ex2World.q C03.ex2World.es :=
    ⟨fun u hu => by simp [preq, PUid.uid?] at hu, fun u hu => by simp only [preq, PUid.uid?, Option.map_some, Option.some.injEq] at hu; rw [← hu]; rfl,
     rfl, rfl, rfl, fun c hc => by simp only [preq, Option.some.injEq] at hc; rw [← hc]; rfl,
     fun u a h => (by rw [show PEntities.attrs? ([] : Tpe.PEntities) u = none from rfl] at h; cases h),
     fun u a h => (by rw [show PEntities.ancestors? ([] : Tpe.PEntities) u = none from rfl] at h; cases h),
     fun u a h => (by rw [show PEntities.tags? ([] : Tpe.PEntities) u = none from rfl] at h; cases h)⟩
  have hq : Conformant C03.ex2Schema C03.ex2World.q C03.ex2World.es := ⟨C03.ex2_request, C03.ex2_store, C03.ex2_actions⟩
  refine ⟨C03.ex2_schemaWF, hv, hE, hC, hq, ?_⟩
  obtain ⟨tp, htp⟩ := hv.typedPolicy_some (hE.envOf hC) hq.req
  obtain ⟨hp, hty⟩ := typedPolicy_isTypedFor htp
  have hV : ValidTyped C03.ex2Schema env [tp] :=
    ⟨fun x hx => by rw [List.mem_singleton] at hx; rw [hx, hp]; exact hv, fun x hx => by rw [List.mem_singleton] at hx; rw [hx]; exact hty⟩
  obtain ⟨resp, hresp⟩ := valid_isAuthorized_some hV rfl rfl preq []
  exact ⟨tp, resp, hp, hV, hresp⟩

end Cedar.C14
