import CedarVerif.Lemmas.TCOps
import CedarVerif.Lemmas.TCRemove
import CedarVerif.Lemmas.TCUpsert
import CedarVerif.Lemmas.TCFrom
import CedarVerif.Lemmas.TCCycle
import CedarVerif.Lemmas.TCAccept
import CedarVerif.Lemmas.TCUpsertMulti
import CedarVerif.Lemmas.TCDedup
import CedarVerif.Cedar.Eval
/-
C04 — Hierarchy membership equals parent-reachability after any store history.
Property theorems about the mirror in `Cedar/TC.lean` (helpers: Lemmas/TC.lean, TCRepair.lean, TCOps.lean, …,
TCDedup.lean). Statements that were first proved only in part are kept visible as `def …Full : Prop` next to their
`…_partial` theorems; the last sections of this file prove them at full strength.

STATE: the model mirrors `upsert_entities` AS REPAIRED in /repo (fix: commit b19c617, known_findings.jsonl
`fixed: … C04-upsert-batch-repeated-uid-stale-ancestor`): the collection is deduped up front (`dedupLastAtFirstPos`:
last value of a uid, at the position of its first occurrence), then every uid is applied once.
 * all three residual hypotheses of `history_inv_partial` are proved: `accepted_acyclic` (completeness of the cycle
   detection of `repair_tc`), `from_preserves`, `upsert_multi_preserves` (ANY batch — the deduped batch has pairwise
   distinct uids, `upsert_dedup_nodup`, and the spec does not see the dedup, `upsert_dedup_spec`);
 * hence `upsert_inv` (= `UpsertInvFull`, every batch), `add_inv`, `remove_inv`, and `history_inv` (= `HistoryInvFull`) /
   `in_iff_reach_history_full` for EVERY list of pure operations, with no hypothesis on upsert batches;
 * the record of the defect: the code BEFORE the repair (`upsertEntitiesPreFix`, `runOpsPreFix`) violates the invariant
   on a batch naming a uid twice (`upsert_multi_repeated_uid_counterexample`, `upsert_multi_preserves_refuted`);
   for batches naming every uid once the repair changes nothing (`upsert_fix_conservative`);
 * `repair_correct` is the two-sided statement about `repair_tc`.
-/
namespace Cedar.C04
open Cedar Cedar.TC

variable {α : Type} [DecidableEq α]

/-! ### `enforce_tc_and_dag` -/

/-- out-edges are transitively closed -/
def TClosed (s : Store α) : Prop :=
  ∀ x n, (x, n) ∈ s → ∀ p, p ∈ n.out → ∀ pn, TC.get s p = some pn → ∀ g, g ∈ pn.out → g ∈ n.out

/-- no node has an out-edge to itself -/
def NoSelf (s : Store α) : Prop := ∀ x n, (x, n) ∈ s → x ∉ n.out

/-- C04: `enforce_tc_and_dag` accepts exactly the transitively closed stores without self-edge … -/
theorem enforce_exact (s : Store α) : enforceTcAndDag s = .ok () ↔ TClosed s ∧ NoSelf s := by
  have h1 : enforceTc s = true ↔ TClosed s := by
    unfold enforceTc TClosed
    rw [List.all_eq_true]
    constructor
    · intro h x n hm p hp pn hpn g hg
      have := h (x, n) hm
      rw [List.all_eq_true] at this
      have := this p hp
      simp only [hpn, List.all_eq_true, decide_eq_true_eq] at this
      exact this g hg
    · intro h kn hm
      rw [List.all_eq_true]
      intro p hp
      cases hpn : TC.get s p with
      | none => rfl
      | some pn =>
        simp only [List.all_eq_true, decide_eq_true_eq]
        exact fun g hg => h kn.1 kn.2 hm p hp pn hpn g hg
  have h2 : enforceDag s = true ↔ NoSelf s := by
    unfold enforceDag NoSelf
    rw [List.all_eq_true]
    constructor
    · intro h x n hm; simpa using h (x, n) hm
    · intro h kn hm; simpa using h kn.1 kn.2 hm
  unfold enforceTcAndDag
  by_cases c1 : enforceTc s = true
  · by_cases c2 : enforceDag s = true
    · simp only [c1, c2, if_true, true_iff]; exact ⟨h1.mp c1, h2.mp c2⟩
    · simp only [c1, c2, if_true]
      constructor
      · intro h; cases h
      · intro h; exact absurd (h2.mpr h.2) c2
  · simp only [c1]
    constructor
    · intro h; cases h
    · intro h; exact absurd (h1.mpr h.1) c1

/-- … and on such a store the ancestor listing is Reach⁺ over the out-edges, and the graph is acyclic. -/
theorem enforce_reach (s : Store α) (h : enforceTcAndDag s = .ok ()) :
    (∀ x n, TC.get s x = some n → ∀ y, y ∈ n.out ↔ Reach (outShape s) x y) ∧ ∀ x, ¬ Reach (outShape s) x x := by
  obtain ⟨hc, hn⟩ := (enforce_exact s).mp h
  have key : ∀ x y, Reach (outShape s) x y → ∀ n, TC.get s x = some n → y ∈ n.out := by
    intro x y hr
    induction hr with
    | edge hp hy =>
      intro n hn'
      simp only [outShape, hn', Option.map_some, Option.some.injEq] at hp
      subst hp; exact hy
    | @step x' y' z' ps' hp hz hzy ih =>
      intro n hn'
      simp only [outShape, hn', Option.map_some, Option.some.injEq] at hp
      subst hp
      obtain ⟨pz, hpz⟩ := hzy.src_some
      cases hgz : TC.get s z' with
      | none => rw [outShape, hgz] at hpz; cases hpz
      | some nz => exact hc x' n (get_some_mem hn') z' hz nz hgz y' (ih nz hgz)
  refine ⟨fun x n hx y => ⟨fun hy => Reach.edge (by simp [outShape, hx]) hy, fun hr => key x y hr n hx⟩, ?_⟩
  intro x hr
  obtain ⟨ps, hps⟩ := hr.src_some
  cases hgx : TC.get s x with
  | none => rw [outShape, hgx] at hps; cases hps
  | some n => exact hn x n (get_some_mem hgx) (key x x hr n hgx)

/-- a store accepted by `from_entities(…, EnforceAlreadyComputed)` is transitively closed and acyclic -/
theorem from_enforce_closed (es : List (α × Node α)) (s : Store α) (h : fromEntities .enforce es = .ok s) :
    TClosed s ∧ NoSelf s := by
  unfold fromEntities at h
  cases hc : createEntityMap es with
  | error e => rw [hc] at h; cases h
  | ok m =>
    rw [hc] at h
    simp only at h
    cases he : enforceTcAndDag m with
    | error e => rw [he] at h; cases h
    | ok u =>
      rw [he] at h
      cases h
      exact (enforce_exact _).mp he

example : enforceTcAndDag [(1, ({ parents := [2], indirect := [3] } : Node Nat)),
    (2, { parents := [3], indirect := [] })] = .ok () := by rfl
example : enforceTcAndDag [(1, ({ parents := [2], indirect := [] } : Node Nat)),
    (2, { parents := [3], indirect := [] })] = .error .missing := by rfl
example : enforceTcAndDag [(1, ({ parents := [2], indirect := [1] } : Node Nat)),
    (2, { parents := [1], indirect := [2] })] = .error .cycle := by rfl

/-! ### the contract standing for `compute_tc` -/

/-- DESIGN's `closure_correct`, full statement: on a map with unique keys, `closure` succeeds iff the
    out-edge graph is acyclic, the result has the same records/parents and its ancestor listing is Reach⁺
    over the input's out-edges; otherwise it reports `cycle` (never `fuel`). -/
def ClosureCorrectFull (α : Type) [DecidableEq α] : Prop :=
  ∀ (s : Store α), (keys s).Nodup →
    ((∀ x, ¬ Reach (outShape s) x x) → ∃ s', closure s = .ok s' ∧ TC.Ext s s' ∧ Exact (outShape s) s') ∧
    ((∃ x, Reach (outShape s) x x) → closure s = .error .cycle)

/-- proved part of `ClosureCorrectFull`: whatever `closure` returns is transitively closed and has no
    self-edge (hence, by `enforce_reach`, its ancestor listing is Reach⁺ over its own out-edges and it is
    acyclic). MISSING: the relation to the input (same records, only justified edges added), that a cyclic
    input is reported as `cycle`, and that `Err.fuel` is unreachable. `closure` is a stand-in for the SCC
    algorithm `cyclic_tc`, which is not mirrored; `from_entities` is compared with the implementation on
    every generated history (all 729 parent graphs on ≤ 3 uids). -/
theorem closure_correct_partial (s s' : Store α) (h : closure s = .ok s') : TClosed s' ∧ NoSelf s' := by
  unfold closure at h
  simp only at h
  split at h
  · rename_i hst
    split at h
    · rename_i hd
      cases h
      apply (enforce_exact _).mp
      unfold enforceTcAndDag
      unfold stable at hst
      simp [hst, hd]
    · cases h
  · cases h

example : (closure [(0, ({ parents := [1], indirect := [] } : Node Nat)), (1, { parents := [2], indirect := [] }),
    (2, { parents := [], indirect := [] })]).toOption.map (fun s => ancestors s 0) = some [1, 2] := by decide
example : closure [(0, ({ parents := [1], indirect := [] } : Node Nat)), (1, { parents := [2], indirect := [] }),
    (2, { parents := [0], indirect := [] })] = .error .cycle := by rfl

/-! ### `repair_tc` -/

/-- DESIGN's `repair_correct`, full statement: given justified edges and complete untouched nodes,
    `repair_tc` succeeds with an exactly closed store iff the parent graph is acyclic, and reports `cycle`
    otherwise. -/
def RepairCorrectFull (α : Type) [DecidableEq α] : Prop :=
  ∀ (s : Store α) (t : List α), Sound (shape s) s →
    (∀ k, k ∈ keys s → k ∉ t → Complete (shape s) s k) →
    (∀ x, Reach (shape s) x x → ∃ k, k ∈ t ∧ Reach (shape s) k k) →
    ((∀ x, ¬ Reach (shape s) x x) → ∃ s', repairTc t s = .ok s' ∧ TC.Ext s s' ∧ Exact (shape s) s') ∧
    ((∃ x, Reach (shape s) x x) → repairTc t s = .error .cycle)

/-- proved part of `RepairCorrectFull`: the acyclic direction (DFS with `seen`, outer loop over the touched
    nodes, no self-edge found, the `expect` site never reached). MISSING: on a cyclic graph a self-edge
    appears on some touched node (completeness of the two-scan cycle detection); that direction is
    covered by the correspondence only (exhaustive on ≤ 3 uids). -/
theorem repair_correct_partial (s : Store α) (t : List α) (hs : Sound (shape s) s)
    (hun : ∀ k, k ∈ keys s → k ∉ t → Complete (shape s) s k) (hacyc : ∀ x, ¬ Reach (shape s) x x) :
    ∃ s', repairTc t s = .ok s' ∧ TC.Ext s s' ∧ Exact (shape s) s' :=
  repairTc_ok s t (shape s) (shapeIs_shape s) hacyc
    (fun x n hx y hy => ⟨hs x n hx y hy, mem_uidsOf hx hy⟩) hun

/-- rejection is sound on every graph: the only error is `cycle`, it is reported only if the parent
    graph has a cycle, and an accepted result contains only justified edges -/
theorem repair_rejects_only_cycles (s : Store α) (t : List α) (hs : Sound (shape s) s) :
    (∀ e, repairTc t s = .error e → e = .cycle ∧ ∃ x, Reach (shape s) x x) ∧
    (∀ s', repairTc t s = .ok s' → TC.Ext s s' ∧ Sound (shape s) s') := by
  obtain ⟨r1, r2, r3⟩ := repairTc_sound s t (shape s) hs
  exact ⟨fun e h => by have := r3 e h; subst this; exact ⟨rfl, r1 h⟩, r2⟩

/-- non-vacuity: a diamond with a stale-free touched node is repaired; a 3-cycle is rejected -/
example : (repairTc [0] [(0, ({ parents := [1, 2], indirect := [] } : Node Nat)),
    (1, { parents := [9], indirect := [] }), (2, { parents := [9], indirect := [] })]).toOption.map
      (fun s => ancestors s 0) = some [1, 2, 9] := by decide
example : repairTc [0, 1, 2] [(0, ({ parents := [1], indirect := [] } : Node Nat)),
    (1, { parents := [2], indirect := [] }), (2, { parents := [0], indirect := [] })] = .error .cycle := by
  rfl

/-! ### the invariant and the operations -/

/-- `Inv` of DESIGN §6 C04: ancestors = Reach⁺ over direct-parent links of the records present, acyclic,
    parents ∩ indirect = ∅ -/
abbrev Inv (s : Store α) : Prop := StoreInv s

def Acyclic (g : PGraph α) : Prop := ∀ x, ¬ Reach (PGraph.get g) x x

theorem acyclic_pg (s : Store α) : Acyclic (parentGraph s) ↔ ∀ x, ¬ Reach (shape s) x x := by
  have : PGraph.get (parentGraph s) = shape s := funext (pg_get s)
  unfold Acyclic; rw [this]

/-- full statement for `add_entities`. PROVED: `add_inv`. -/
def AddInvFull (α : Type) [DecidableEq α] : Prop :=
  ∀ (s : Store α) (es : List (α × Node α)), Inv s → PureBatch es →
    (∀ s', addEntities .compute s es = .ok s' → Inv s' ∧ parentGraph s' = specAdd (parentGraph s) es) ∧
    (∀ e, addEntities .compute s es = .error e ↔
      (addLoop s [] es = .error e ∨
       (e = .cycle ∧ (∃ st, addLoop s [] es = .ok st) ∧ ¬ Acyclic (specAdd (parentGraph s) es))))

/-- proved part of `AddInvFull`, for arbitrary batches (new records, identical duplicates, dangling
    parents whose record arrives): if the batch has no conflicting duplicate and the resulting parent graph
    is acyclic the operation succeeds, re-establishes `Inv` and yields the spec's parent graph; it fails
    only with `duplicate` (exactly when the batch loop does) or with `cycle`, the latter only if the
    resulting parent graph is cyclic. MISSING: a cyclic result is always rejected. -/
theorem add_inv_partial (s : Store α) (es : List (α × Node α)) (hinv : Inv s) (hp : PureBatch es) :
    (∀ st, addLoop s [] es = .ok st → Acyclic (specAdd (parentGraph s) es) →
      ∃ s', addEntities .compute s es = .ok s' ∧ Inv s' ∧ parentGraph s' = specAdd (parentGraph s) es) ∧
    (∀ e, addEntities .compute s es = .error e →
      (addLoop s [] es = .error e ∨
       (e = .cycle ∧ (∃ st, addLoop s [] es = .ok st) ∧ ¬ Acyclic (specAdd (parentGraph s) es)))) := by
  constructor
  · intro st hl hac
    obtain ⟨s1, t⟩ := st
    have l4 := (addLoop_spec es s [] s1 t hl hp).2.2.2
    exact addEntities_ok s es hinv hp s1 t hl ((acyclic_pg s1).mp (l4 ▸ hac))
  · intro e he
    rcases addEntities_err s es hinv hp e he with h | ⟨h1, s1, t, h2, x, hx⟩
    · exact Or.inl h
    · refine Or.inr ⟨h1, ⟨(s1, t), h2⟩, ?_⟩
      have l4 := (addLoop_spec es s [] s1 t h2 hp).2.2.2
      intro hac
      exact (acyclic_pg s1).mp (l4 ▸ hac) x hx

/-- C04, `remove_entities` at full strength: for every store satisfying the invariant and every list of
    uids (absent ones, repeated ones, a node together with its ancestors or descendants, in any order) the
    operation is accepted, re-establishes `Inv` — no ancestor survives the removal of the only path that
    justified it, every ancestor with an alternative path survives — and the parent graph is the spec's
    (records deleted *and* parent links to them deleted). It never fails. -/
theorem remove_inv (s : Store α) (us : List α) (hinv : Inv s) :
    ∃ s', removeEntities .compute s us = .ok s' ∧ Inv s' ∧ parentGraph s' = specRemove (parentGraph s) us :=
  removeEntities_ok s us hinv

/-- non-vacuity: x → a → t, x → b → t, a → p; removing `a` keeps `t` (alternative path) and drops `p` -/
example : (removeEntities .compute
    [(0, ({ parents := [1, 2], indirect := [9, 7] } : Node Nat)), (1, { parents := [9, 7], indirect := [] }),
     (2, { parents := [9], indirect := [] })] [1]).toOption.map (fun s => ancestors s 0) = some [2, 9] := by decide

/-- full statement for `upsert_entities` (arbitrary batches). PROVED for the repaired code: `upsert_inv`.
    (Before /repo's fix: commit b19c617 it was FALSE for batches naming a uid twice — stale ancestors, and
    then also spurious `cycle` reports were possible: `upsert_multi_repeated_uid_counterexample`.) -/
def UpsertInvFull (α : Type) [DecidableEq α] : Prop :=
  ∀ (s : Store α) (es : List (α × Node α)), Inv s → PureBatch es →
    (∀ s', upsertEntities .compute s es = .ok s' → Inv s' ∧ parentGraph s' = specUpsert (parentGraph s) es) ∧
    (∀ e, upsertEntities .compute s es = .error e ↔ (e = .cycle ∧ ¬ Acyclic (specUpsert (parentGraph s) es)))

/-- proved part of `UpsertInvFull`: batches of ONE entity. Overwriting an existing record (stale indirect
    ancestors stripped from all descendants, alternative paths restored by the repair) or inserting a new
    one: if the resulting parent graph is acyclic the operation is accepted, re-establishes `Inv` and
    yields the spec's parent graph; it fails only with `cycle` and only if the resulting parent graph is
    cyclic. (Superseded by `upsert_inv`: batches of any length, and "a cyclic result is always rejected".) -/
theorem upsert_inv_partial (s : Store α) (e : α × Node α) (hinv : Inv s) (hpure : e.2.indirect = []) :
    (Acyclic (specUpsert (parentGraph s) [e]) →
      ∃ s', upsertEntities .compute s [e] = .ok s' ∧ Inv s' ∧ parentGraph s' = specUpsert (parentGraph s) [e]) ∧
    (∀ err, upsertEntities .compute s [e] = .error err →
      err = .cycle ∧ ¬ Acyclic (specUpsert (parentGraph s) [e])) := by
  have hp : PureBatch [e] := by
    intro e' he'; simp only [List.mem_singleton] at he'; subst he'; exact hpure
  have hE : upsertEntities .compute s [e] = upsertApply .compute s [e] := rfl
  rw [hE]
  cases hold : TC.get s e.1 with
  | some old =>
    have p4 := (upsert_single_pre s e hinv hpure old hold).2.2.2
    constructor
    · intro hac
      exact upsert_single_ok s e hinv hpure old hold ((acyclic_pg _).mp (p4 ▸ hac))
    · intro err h
      obtain ⟨h1, x, hx⟩ := upsert_single_err s e hinv hpure old hold err h
      exact ⟨h1, fun hac => (acyclic_pg _).mp (p4 ▸ hac) x hx⟩
  | none =>
    rw [upsert_single_new s e hold]
    have hspec : specUpsert (parentGraph s) [e] = specAdd (parentGraph s) [e] := by
      have : PGraph.get (parentGraph s) e.1 = none := by rw [pg_get]; simp [shape, hold]
      simp [specUpsert, specAdd, this]
    have hloop : addLoop s [] [e] = .ok (s ++ [e], tinsert e.1 []) := by
      simp [addLoop, updateEntityMap, hold]
    rw [hspec]
    obtain ⟨a1, a2⟩ := add_inv_partial s [e] hinv hp
    constructor
    · intro hac; exact a1 _ hloop hac
    · intro err h
      rcases a2 err h with h' | ⟨h1, _, h3⟩
      · rw [hloop] at h'; cases h'
      · exact ⟨h1, h3⟩

/-- non-vacuity: x → a → t, x → b → t, a → p; replacing `a` by a root keeps `t` for `x` and drops `p`;
    replacing `t` by `t → x` is rejected -/
example : (upsertEntities .compute
    [(0, ({ parents := [1, 2], indirect := [9, 7] } : Node Nat)), (1, { parents := [9, 7], indirect := [] }),
     (2, { parents := [9], indirect := [] })] [(1, { parents := [], indirect := [] })]).toOption.map
       (fun s => ancestors s 0) = some [1, 2, 9] := by decide
example : upsertEntities .compute
    [(0, ({ parents := [1], indirect := [9] } : Node Nat)), (1, { parents := [9], indirect := [] }),
     (9, { parents := [], indirect := [] })] [(9, { parents := [0], indirect := [] })] = .error .cycle := by rfl

/-! ### `in` -/

/-- the store as the evaluator sees it -/
def toEntities (s : Store EntityUID) : Entities :=
  s.map fun kn => (kn.1, { attrs := [], ancestors := kn.2.out, tags := [] })

theorem find_toEntities (s : Store EntityUID) (e : EntityUID) :
    (toEntities s).find? e = (TC.get s e).map fun n => { attrs := [], ancestors := n.out, tags := [] } := by
  induction s with
  | nil => rfl
  | cons kv rest ih =>
    obtain ⟨k, v⟩ := kv
    by_cases hk : k = e
    · simp [toEntities, Entities.find?, TC.get, hk]
    · simp only [toEntities, List.map_cons, Entities.find?, TC.get, hk, if_false, beq_iff_eq]
      exact ih

/-- C04: in every store satisfying the invariant, `e in a` (C02's `inE`) holds exactly when `a` is `e` or
    is reachable from `e` through direct-parent links of the records present -/
theorem in_iff_reach (s : Store EntityUID) (hinv : Inv s) (e a : EntityUID) :
    inE (toEntities s) e a = true ↔ a = e ∨ Reach (shape s) e a := by
  unfold inE
  rw [find_toEntities]
  cases hg : TC.get s e with
  | none =>
    simp only [Option.map_none, Bool.or_false, beq_iff_eq]
    constructor
    · intro h; exact Or.inl h.symm
    · rintro (h | h)
      · exact h.symm
      · exact absurd h (Reach.of_none (by simp [shape, hg]))
  | some n =>
    simp only [Option.map_some, Bool.or_eq_true, beq_iff_eq, List.contains_iff_mem]
    rw [hinv.exact e n hg a]
    constructor
    · rintro (h | h)
      · exact Or.inl h.symm
      · exact Or.inr h
    · rintro (h | h)
      · exact Or.inl h.symm
      · exact Or.inr h

/-! ### histories -/

/-- operations that let the library compute the closure: ComputeNow, inputs without indirect ancestors -/
def PureOp : Op α → Prop
  | .from m es => m = .compute ∧ PureBatch es
  | .add m es => m = .compute ∧ PureBatch es
  | .upsert m es => m = .compute ∧ PureBatch es
  | .remove m _ => m = .compute

/-- every accepted pure operation preserves the invariant (the per-operation obligations) -/
def OpPreserves (α : Type) [DecidableEq α] : Prop :=
  ∀ (s : Store α) (o : Op α) (s' : Store α), Inv s → PureOp o → applyOp s o = .ok s' → Inv s'

/-- full statement: after any history of pure operations (failed ones leave the store unchanged) the
    invariant holds. PROVED for the repaired code: `history_inv`. -/
def HistoryInvFull (α : Type) [DecidableEq α] : Prop :=
  ∀ ops : List (Op α), (∀ o, o ∈ ops → PureOp o) → Inv (runOps [] ops)

/-- the same statement about the code before /repo's fix: commit b19c617 (`runOpsPreFix`: upsert batches applied as
    given). FALSE: `upsert_multi_repeated_uid_counterexample`. -/
def HistoryInvFullPreFix (α : Type) [DecidableEq α] : Prop :=
  ∀ ops : List (Op α), (∀ o, o ∈ ops → PureOp o) → Inv (runOpsPreFix [] ops)

/-- residual 1 (completeness of cycle detection): an accepted add/upsert has an acyclic parent graph.
    PROVED: `accepted_acyclic`. -/
def AcceptedAcyclic (α : Type) [DecidableEq α] : Prop :=
  ∀ (s : Store α) (o : Op α) (s' : Store α), Inv s → PureOp o → applyOp s o = .ok s' →
    ∀ x, ¬ Reach (shape s') x x

/-- residual 2: upsert batches that do not consist of exactly one entity.
    PROVED for the repaired code: `upsert_multi_preserves`. -/
def UpsertMultiPreserves (α : Type) [DecidableEq α] : Prop :=
  ∀ (s : Store α) (es : List (α × Node α)) (s' : Store α), Inv s → PureBatch es → es.length ≠ 1 →
    upsertEntities .compute s es = .ok s' → Inv s'

/-- residual 2 about the code before /repo's fix: commit b19c617. FALSE (`upsert_multi_preserves_refuted`: a batch
    naming a uid twice leaves a stale ancestor). -/
def UpsertMultiPreservesPreFix (α : Type) [DecidableEq α] : Prop :=
  ∀ (s : Store α) (es : List (α × Node α)) (s' : Store α), Inv s → PureBatch es → es.length ≠ 1 →
    upsertEntitiesPreFix .compute s es = .ok s' → Inv s'

/-- residual 3: the contract of `compute_tc` inside `from_entities` (SCC internals not mirrored).
    PROVED for the model's `closure`: `from_preserves`. -/
def FromPreserves (α : Type) [DecidableEq α] : Prop :=
  ∀ (es : List (α × Node α)) (s' : Store α), PureBatch es → fromEntities .compute es = .ok s' → Inv s'

theorem inv_empty : Inv ([] : Store α) :=
  ⟨fun x n h => by simp [TC.get] at h, fun x hr => by
    obtain ⟨ps, hps⟩ := hr.src_some
    simp [shape, TC.get] at hps, fun x n h => by simp [TC.get] at h⟩

theorem shape_of_pg {s s' : Store α} (h : parentGraph s' = parentGraph s) : shape s' = shape s := by
  funext x; rw [← pg_get, ← pg_get, h]

/-- the per-operation obligations follow from the proved operation theorems and the three residuals -/
theorem op_preserves_partial (h1 : AcceptedAcyclic α) (h2 : UpsertMultiPreserves α) (h3 : FromPreserves α) :
    OpPreserves α := by
  intro s o s' hinv hp hok
  cases o with
  | «from» m es =>
    obtain ⟨rfl, hpb⟩ := hp
    exact h3 es s' hpb hok
  | remove m us =>
    have hm : m = .compute := hp
    subst hm
    obtain ⟨s'', h', hi, _⟩ := remove_inv s us hinv
    simp only [applyOp] at hok
    rw [h'] at hok; cases hok; exact hi
  | add m es =>
    obtain ⟨rfl, hpb⟩ := hp
    have hac := h1 s (.add .compute es) s' hinv ⟨rfl, hpb⟩ hok
    simp only [applyOp] at hok
    cases hl : addLoop s [] es with
    | error e => simp [addEntities, hl] at hok
    | ok st =>
      obtain ⟨s1, t⟩ := st
      have hrep : repairTc (touchPass s1 t) s1 = .ok s' := by
        simpa [addEntities, hl, finish] using hok
      have hsh := shape_of_pg (repairTc_pg hrep)
      obtain ⟨s'', h', hi, _⟩ := addEntities_ok s es hinv hpb s1 t hl (hsh ▸ hac)
      rw [h'] at hok; cases hok; exact hi
  | upsert m es =>
    obtain ⟨rfl, hpb⟩ := hp
    have hac := h1 s (.upsert .compute es) s' hinv ⟨rfl, hpb⟩ hok
    simp only [applyOp] at hok
    by_cases hlen : es.length = 1
    · match es, hlen with
      | [e], _ =>
        have hpure : e.2.indirect = [] := hpb e List.mem_cons_self
        have hok' : upsertApply .compute s [e] = .ok s' := hok
        have hrep : repairTc (touchPass (upsertOne (s, []) e).1 (upsertOne (s, []) e).2) (upsertOne (s, []) e).1 = .ok s' := by
          simpa [upsertApply, finish] using hok'
        have hsh := shape_of_pg (repairTc_pg hrep)
        have hspec : parentGraph (upsertOne (s, []) e).1 = specUpsert (parentGraph s) [e] := by
          cases hold : TC.get s e.1 with
          | some old => exact (upsert_single_pre s e hinv hpure old hold).2.2.2
          | none =>
            have : PGraph.get (parentGraph s) e.1 = none := by rw [pg_get]; simp [shape, hold]
            have happ : parentGraph (s ++ [e]) = parentGraph s ++ [(e.1, e.2.parents)] := by simp [parentGraph]
            simp only [upsertOne, hold, specUpsert, this]
            exact happ
        have hacs : Acyclic (specUpsert (parentGraph s) [e]) := by
          rw [← hspec]; exact (acyclic_pg _).mpr (hsh ▸ hac)
        obtain ⟨s'', h', hi, _⟩ := (upsert_inv_partial s e hinv hpure).1 hacs
        rw [h'] at hok; cases hok; exact hi
    · exact h2 s es s' hinv hpb hlen hok

/-- `history_inv`, reduction step: the induction over arbitrary operation lists; with the operation theorems
    (`add_inv_partial`, `remove_inv`, `upsert_inv_partial`) it reduces `HistoryInvFull` to three named
    residuals: `AcceptedAcyclic` (completeness of the cycle detection, see `repair_correct_partial`),
    `UpsertMultiPreserves` (multi-entity upsert batches), `FromPreserves` (contract of `compute_tc`).
    All three are proved below (`accepted_acyclic`, `upsert_multi_preserves`, `from_preserves`); `history_inv`
    is the statement without hypotheses. -/
theorem history_inv_partial (h1 : AcceptedAcyclic α) (h2 : UpsertMultiPreserves α) (h3 : FromPreserves α) :
    HistoryInvFull α := by
  have h := op_preserves_partial h1 h2 h3
  intro ops
  have gen : ∀ (ops : List (Op α)) (s : Store α), Inv s → (∀ o, o ∈ ops → PureOp o) → Inv (runOps s ops) := by
    intro ops
    induction ops with
    | nil => intro s hs _; exact hs
    | cons o ops ih =>
      intro s hs hp
      simp only [runOps, List.foldl_cons]
      apply ih
      · unfold stepOp
        cases ha : applyOp s o with
        | error e => exact hs
        | ok s' => exact h s o s' hs (hp o List.mem_cons_self) ha
      · exact fun o' ho' => hp o' (List.mem_cons_of_mem _ ho')
  exact gen ops [] inv_empty

/-- in every state reached by a history of pure operations, `e in a` is reflexive parent-reachability
    (given the residuals of `history_inv_partial`) -/
theorem in_iff_reach_history (h1 : AcceptedAcyclic EntityUID) (h2 : UpsertMultiPreserves EntityUID)
    (h3 : FromPreserves EntityUID) (ops : List (Op EntityUID)) (hp : ∀ o, o ∈ ops → PureOp o)
    (e a : EntityUID) :
    inE (toEntities (runOps [] ops)) e a = true ↔ a = e ∨ Reach (shape (runOps [] ops)) e a :=
  in_iff_reach _ (history_inv_partial h1 h2 h3 ops hp) e a

/-! ### the residuals discharged; the pre-fix code refuted -/

/-- residual 3 discharged: whatever the contract `closure` (standing for `compute_tc`) returns on a batch
    without indirect ancestors satisfies the invariant: saturation keeps the direct parents, adds only
    edges justified by parent-reachability and keeps parents/indirect disjoint; the final `stable` and
    `enforceDag` checks give closedness and acyclicity -/
theorem from_preserves : FromPreserves α :=
  fun es s' hpb hok => fromEntities_inv es s' hpb hok

/-- residual 1 discharged (COMPLETENESS of the cycle detection): a pure from/add/upsert/remove that is
    accepted has an acyclic parent graph. For add/upsert (ANY batch): the records
    that stay untouched are unchanged records of a store satisfying the invariant, hence complete for the
    new parent graph and without self-edge, so every cycle runs through touched nodes only; the first
    node on a cycle visited by the DFS of `repair_tc` gets an edge to itself (`addAnc_cspec`), which
    `enforce_dag_from_tc_for` finds because that node is touched. -/
theorem accepted_acyclic : AcceptedAcyclic α := by
  intro s o s' hinv hp hok
  apply applyOp_acyclic s o s' hinv ?_ hok
  cases o with
  | «from» m es => exact hp
  | add m es => exact hp
  | upsert m es => exact hp.1
  | remove m us => exact hp

/-- `repair_correct` at full strength under the precondition the callers establish (justified edges;
    untouched records complete and WITHOUT SELF-EDGE — the last conjunct replaces the third hypothesis of
    `RepairCorrectFull`, which is too weak: a cycle among complete untouched records next to an unrelated
    touched cycle is not excluded by it): `repair_tc` succeeds with an exactly closed store iff the parent
    graph is acyclic and reports `cycle` otherwise -/
theorem repair_correct (s : Store α) (t : List α) (hs : Sound (shape s) s)
    (hun : ∀ k, k ∈ keys s → k ∉ t → Complete (shape s) s k)
    (hnoself : ∀ k n, TC.get s k = some n → k ∉ t → k ∉ n.out) :
    ((∀ x, ¬ Reach (shape s) x x) → ∃ s', repairTc t s = .ok s' ∧ TC.Ext s s' ∧ Exact (shape s) s') ∧
    ((∃ x, Reach (shape s) x x) → repairTc t s = .error .cycle) :=
  ⟨repair_correct_partial s t hs hun, repairTc_complete s t hun hnoself⟩

example : repairTc [0, 1, 2] [(0, ({ parents := [1], indirect := [] } : Node Nat)),
    (1, { parents := [2], indirect := [] }), (2, { parents := [0], indirect := [] }),
    (3, { parents := [0], indirect := [1, 2] })] = .error .cycle := by rfl

/-- `AddInvFull` holds: `add_entities` (ComputeNow, any batch without indirect ancestors) on a store
    satisfying the invariant is accepted exactly when the batch loop succeeds and the spec's parent graph
    is acyclic; then it re-establishes the invariant with the spec's parent graph; otherwise it reports
    the loop's `duplicate` resp. `cycle` -/
theorem add_inv : AddInvFull α := by
  intro s es hinv hp
  obtain ⟨a1, a2⟩ := add_inv_partial s es hinv hp
  constructor
  · intro s' hok
    have hac := accepted_acyclic s (.add .compute es) s' hinv ⟨rfl, hp⟩ hok
    cases hl : addLoop s [] es with
    | error e => simp [addEntities, hl] at hok
    | ok st =>
      obtain ⟨s1, t⟩ := st
      have hrep : repairTc (touchPass s1 t) s1 = .ok s' := by
        simpa [addEntities, hl, finish] using hok
      have hsh := shape_of_pg (repairTc_pg hrep)
      obtain ⟨s'', h', hi, hpg⟩ := addEntities_ok s es hinv hp s1 t hl (hsh ▸ hac)
      rw [h'] at hok; cases hok; exact ⟨hi, hpg⟩
  · intro e
    constructor
    · exact a2 e
    · rintro (h | ⟨rfl, ⟨st, hst⟩, hcyc⟩)
      · simp [addEntities, h]
      · obtain ⟨s1, t⟩ := st
        have l4 := (addLoop_spec es s [] s1 t hst hp).2.2.2
        apply addEntities_cyclic s es hinv hp s1 t hst
        apply Classical.byContradiction
        intro hne
        apply hcyc
        rw [← l4]
        exact (acyclic_pg s1).mpr (fun x hx => hne ⟨x, hx⟩)

omit [DecidableEq α] in
theorem reach_elim {P : α → Option (List α)} {x y : α} (h : Reach P x y) :
    ∃ ps, P x = some ps ∧ (y ∈ ps ∨ ∃ z, z ∈ ps ∧ Reach P z y) := by
  cases h with
  | edge hp hy => exact ⟨_, hp, Or.inl hy⟩
  | step hp hz hzy => exact ⟨_, hp, Or.inr ⟨_, hz, hzy⟩⟩

/-! ### the record of the defect: `upsert_entities` before /repo's fix: commit b19c617 -/

/-- the witness: x=0 → w=1 → u=2, w → v=3 → y=4 -/
def cexBase : List (Nat × Node Nat) :=
  [(0, { parents := [1], indirect := [] }), (1, { parents := [2, 3], indirect := [] }),
   (2, { parents := [], indirect := [] }), (3, { parents := [4], indirect := [] }),
   (4, { parents := [], indirect := [] })]

/-- one batch: u ↦ {y}, u ↦ {}, w ↦ {} -/
def cexBatch : List (Nat × Node Nat) :=
  [(2, { parents := [4], indirect := [] }), (2, { parents := [], indirect := [] }),
   (1, { parents := [], indirect := [] })]

theorem cexBase_pure : PureBatch cexBase := by
  intro e he; simp only [cexBase, List.mem_cons, List.mem_nil_iff, or_false] at he
  rcases he with rfl | rfl | rfl | rfl | rfl <;> rfl

theorem cexBatch_pure : PureBatch cexBatch := by
  intro e he; simp only [cexBatch, List.mem_cons, List.mem_nil_iff, or_false] at he
  rcases he with rfl | rfl | rfl <;> rfl

/-- what the pre-fix code leaves: x lists y although x → w and w has no parents -/
theorem cex_run :
    (TC.get (runOpsPreFix [] [Op.from .compute cexBase, Op.upsert .compute cexBatch]) 0).map
        (fun n => (n.parents, n.indirect)) = some ([1], [4]) ∧
    (TC.get (runOpsPreFix [] [Op.from .compute cexBase, Op.upsert .compute cexBatch]) 1).map
        (fun n => (n.parents, n.indirect)) = some ([], []) := by decide +kernel

/-- a store in which x=0 has parents {1} and indirect ancestor 4 while 1 has no parents violates the invariant -/
theorem cex_not_inv (sf : Store Nat)
    (hrun0 : (TC.get sf 0).map (fun n => (n.parents, n.indirect)) = some ([1], [4]))
    (hrun1 : (TC.get sf 1).map (fun n => (n.parents, n.indirect)) = some ([], [])) : ¬ Inv sf := by
  intro hinv
  cases hg0 : TC.get sf 0 with
  | none => rw [hg0] at hrun0; cases hrun0
  | some n0 =>
    cases hg1 : TC.get sf 1 with
    | none => rw [hg1] at hrun1; cases hrun1
    | some n1 =>
      rw [hg0] at hrun0; rw [hg1] at hrun1
      simp only [Option.map_some, Option.some.injEq, Prod.mk.injEq] at hrun0 hrun1
      obtain ⟨hp0, hi0⟩ := hrun0
      obtain ⟨hp1, _⟩ := hrun1
      have h4 : (4 : Nat) ∈ n0.out := by simp [Node.out, hp0, hi0]
      have hr := (hinv.exact 0 n0 hg0 4).mp h4
      obtain ⟨ps, hps, hcase⟩ := reach_elim hr
      rw [shape_some hg0, hp0] at hps
      cases hps
      rcases hcase with hc | ⟨z, hz, hzy⟩
      · simp at hc
      · simp only [List.mem_singleton] at hz
        subst hz
        obtain ⟨ps1, hps1, hcase1⟩ := reach_elim hzy
        rw [shape_some hg1, hp1] at hps1
        cases hps1
        simp at hcase1

/-- FINDING, FIXED in /repo (commit b19c617; known_findings.jsonl `fixed: …
    C04-upsert-batch-repeated-uid-stale-ancestor`; it was reproduced on the implementation). This theorem is
    about the code BEFORE /repo's fix (`runOpsPreFix` / `upsertEntitiesPreFix`): `HistoryInvFullPreFix` is FALSE.
    An upsert batch that names a uid twice leaves a stale indirect ancestor: after
    `from [x<w, w<u,v, u<, v<y, y<]` and the single call `upsert [u<y, u<, w<]` the record of x still lists y
    although x → w and w has no parents. The second overwrite of u strips u's ancestors {y} only from records
    that still list u (w, not x — x lost u in the first strip); the overwrite of w then strips only w's current
    ancestors from x. -/
theorem upsert_multi_repeated_uid_counterexample : ¬ HistoryInvFullPreFix Nat := by
  intro h
  have hinv := h [Op.from .compute cexBase, Op.upsert .compute cexBatch] (by
    intro o ho
    simp only [List.mem_cons, List.mem_nil_iff, or_false] at ho
    rcases ho with rfl | rfl
    · exact ⟨rfl, cexBase_pure⟩
    · exact ⟨rfl, cexBatch_pure⟩)
  exact cex_not_inv _ cex_run.1 cex_run.2 hinv

/-- … hence residual 2 for the code before /repo's fix: commit b19c617 (any batch of length ≠ 1) is false as well -/
theorem upsert_multi_preserves_refuted : ¬ UpsertMultiPreservesPreFix Nat := by
  intro h2
  have hbase : fromEntities .compute cexBase = .ok (runOps [] [Op.from .compute cexBase]) := by rfl
  have hup : upsertEntitiesPreFix .compute (runOps [] [Op.from .compute cexBase]) cexBatch =
      .ok (runOpsPreFix [] [Op.from .compute cexBase, Op.upsert .compute cexBatch]) := by rfl
  have hinv0 : Inv (runOps [] [Op.from .compute cexBase]) := from_preserves cexBase _ cexBase_pure hbase
  exact cex_not_inv _ cex_run.1 cex_run.2 (h2 _ cexBatch _ hinv0 cexBatch_pure (by decide) hup)

/-- the repaired code on the witness: the batch is deduped to [u<, w<]; x keeps only w -/
example : (runOps [] [Op.from .compute cexBase, Op.upsert .compute cexBatch]).map
    (fun kn => (kn.1, kn.2.parents, kn.2.indirect)) =
    [(0, [1], []), (1, [], []), (2, [], []), (3, [4], []), (4, [], [])] := by decide +kernel
example : dedupLastAtFirstPos cexBatch =
    [(2, { parents := [], indirect := [] }), (1, { parents := [], indirect := [] })] := by rfl

/-! ### `upsert_entities` (repaired) and histories at full strength -/

/-- the second loop of `upsert_entities` on a batch whose uids are pairwise distinct (any batch
    length; overwriting several nodes of one chain, in any order; inserting new records; dangling parents):
    accepted exactly when the spec's parent graph is acyclic, then the invariant is re-established — stale
    ancestors stripped from all descendants, alternative paths restored by the repair — with the spec's
    parent graph; otherwise `cycle` -/
theorem upsert_apply_inv (s : Store α) (es : List (α × Node α)) (hinv : Inv s) (hp : PureBatch es)
    (hnd : (es.map (·.1)).Nodup) :
    (∀ s', upsertApply .compute s es = .ok s' → Inv s' ∧ parentGraph s' = specUpsert (parentGraph s) es) ∧
    (∀ e, upsertApply .compute s es = .error e ↔ (e = .cycle ∧ ¬ Acyclic (specUpsert (parentGraph s) es))) := by
  obtain ⟨u1, u2⟩ := upsertApply_distinct s es hinv hp hnd
  have hpg := pg_upsertFold es (s, [])
  simp only at hpg
  constructor
  · intro s' hok
    have hrep : repairTc (touchPass (es.foldl upsertOne (s, [])).1 (es.foldl upsertOne (s, [])).2)
        (es.foldl upsertOne (s, [])).1 = .ok s' := by
      simpa [upsertApply, finish] using hok
    have hac := (upsertFold_frame es (s, []) (frame_init s)).accepts_acyclic hinv hrep
    obtain ⟨s'', h', hi, hpg'⟩ := u1 hac
    rw [h'] at hok; cases hok; exact ⟨hi, hpg'⟩
  · intro e
    constructor
    · intro h
      obtain ⟨h1, x, hx⟩ := u2 e h
      exact ⟨h1, fun hac => (acyclic_pg _).mp (hpg ▸ hac) x hx⟩
    · rintro ⟨rfl, hcyc⟩
      apply upsertApply_cyclic s es hinv
      apply Classical.byContradiction
      intro hne
      apply hcyc
      rw [← hpg]
      exact (acyclic_pg _).mpr (fun x hx => hne ⟨x, hx⟩)

/-- the first loop of the repaired `upsert_entities` (mirror of the `batch`/`position` loop) yields a batch
    whose uids are pairwise distinct, made of entities of the collection … -/
theorem upsert_dedup_nodup (es : List (α × Node α)) :
    ((dedupLastAtFirstPos es).map (·.1)).Nodup ∧ ∀ e, e ∈ dedupLastAtFirstPos es → e ∈ es :=
  ⟨dedup_nodup es, dedup_mem es⟩

/-- … and the spec does not see it: upserting the deduped batch and upserting the collection as given
    (record replaced or appended, last occurrence wins) give the same parent graph -/
theorem upsert_dedup_spec (g : PGraph α) (es : List (α × Node α)) :
    specUpsert g (dedupLastAtFirstPos es) = specUpsert g es :=
  specUpsert_dedup g es

/-- the repair changes nothing for a call naming every uid once: the deduped batch is the collection, the
    repaired and the pre-fix code coincide -/
theorem upsert_fix_conservative (m : Mode) (s : Store α) (es : List (α × Node α)) (hnd : (es.map (·.1)).Nodup) :
    dedupLastAtFirstPos es = es ∧ upsertEntities m s es = upsertEntitiesPreFix m s es := by
  have h := dedup_of_nodup es hnd
  exact ⟨h, by simp only [upsertEntities, upsertEntitiesPreFix, h]⟩

/-- C04, `upsert_entities` at full strength (`UpsertInvFull`), for EVERY batch — repeated uids included, any
    length, overwriting several nodes of one chain in any order, new records, dangling parents: on a store
    satisfying the invariant the call is accepted exactly when the spec's parent graph (of the batch AS GIVEN:
    last value wins) is acyclic; then the invariant is re-established — no stale ancestor survives, alternative
    paths are restored by the repair — with the spec's parent graph; otherwise it reports `cycle`. -/
theorem upsert_inv : UpsertInvFull α := by
  intro s es hinv hp
  have h := upsert_apply_inv s (dedupLastAtFirstPos es) hinv (dedup_pure es hp) (dedup_nodup es)
  rw [specUpsert_dedup] at h
  exact h

/-- residual 2 discharged, as originally stated (any batch) -/
theorem upsert_multi_preserves : UpsertMultiPreserves α :=
  fun s es s' hinv hp _ hok => ((upsert_inv s es hinv hp).1 s' hok).1

/-- non-vacuity: x → a → t, x → b → t, a → p; ONE batch replaces `a` by a root and `b` by `b → p`:
    `x` loses `t` (both paths are cut) and keeps `p` (now through `b`) -/
example : (upsertEntities .compute
    [(0, ({ parents := [1, 2], indirect := [9, 7] } : Node Nat)), (1, { parents := [9, 7], indirect := [] }),
     (2, { parents := [9], indirect := [] })]
    [(1, { parents := [], indirect := [] }), (2, { parents := [7], indirect := [] })]).toOption.map
       (fun s => ancestors s 0) = some [1, 2, 7] := by decide

/-- non-vacuity, repeated uid: the same store; ONE batch names `a` twice (first `a → t only`, then `a` a root)
    around an overwrite of `b`: the last value of `a` wins, `x` keeps exactly a, b, p -/
example : (upsertEntities .compute
    [(0, ({ parents := [1, 2], indirect := [9, 7] } : Node Nat)), (1, { parents := [9, 7], indirect := [] }),
     (2, { parents := [9], indirect := [] })]
    [(1, { parents := [9], indirect := [] }), (2, { parents := [7], indirect := [] }),
     (1, { parents := [], indirect := [] })]).toOption.map
       (fun s => ancestors s 0) = some [1, 2, 7] := by decide

/-- every accepted pure operation preserves the invariant (no residual hypothesis, no restriction on upsert
    batches) -/
theorem op_preserves : OpPreserves α := by
  intro s o s' hinv hp hok
  cases o with
  | «from» m es => exact from_preserves es s' hp.2 (by obtain ⟨rfl, _⟩ := hp; exact hok)
  | remove m us =>
    have hm : m = .compute := hp
    subst hm
    obtain ⟨s'', h', hi, _⟩ := remove_inv s us hinv
    simp only [applyOp] at hok
    rw [h'] at hok; cases hok; exact hi
  | add m es =>
    obtain ⟨rfl, hpb⟩ := hp
    exact ((add_inv s es hinv hpb).1 s' hok).1
  | upsert m es =>
    obtain ⟨rfl, hpb⟩ := hp
    exact ((upsert_inv s es hinv hpb).1 s' hok).1

/-- C04 `history_inv`, unconditional (= `HistoryInvFull`): after ANY history of pure operations the invariant
    holds: ancestors = Reach⁺ over the direct-parent links of the records present, acyclic,
    parents ∩ indirect = ∅. Failed operations leave the store unchanged. `PureOp` is still needed and excludes
    exactly the calls in which the CALLER vouches for the closure: `AssumeAlreadyComputed` (nothing is checked),
    `EnforceAlreadyComputed` (`enforce_exact`: out-edges closed and irreflexive is checked, but not that every
    listed ancestor is justified by parent links) and entities handed in with indirect ancestors of their own
    (`Entity::new` with `ancestors`; ComputeNow only ever adds edges to what it is given). There is no
    restriction on the batches: duplicates, repeated uids, dangling parents, cycles (rejected) are covered. -/
theorem history_inv (ops : List (Op α)) (hp : ∀ o, o ∈ ops → PureOp o) : Inv (runOps [] ops) := by
  have gen : ∀ (ops : List (Op α)) (s : Store α), Inv s → (∀ o, o ∈ ops → PureOp o) →
      Inv (runOps s ops) := by
    intro ops
    induction ops with
    | nil => intro s hs _; exact hs
    | cons o ops ih =>
      intro s hs hp
      simp only [runOps, List.foldl_cons]
      apply ih
      · unfold stepOp
        cases ha : applyOp s o with
        | error e => exact hs
        | ok s' => exact op_preserves s o s' hs (hp o List.mem_cons_self) ha
      · exact fun o' ho' => hp o' (List.mem_cons_of_mem _ ho')
  exact gen ops [] inv_empty hp

theorem history_inv_full : HistoryInvFull α := fun ops hp => history_inv ops hp

/-- non-vacuity of `history_inv`: from, an upsert naming uid 1 twice around an overwrite of 2, a rejected
    cyclic add, a remove -/
example : ∀ o, o ∈ [Op.from .compute [(0, ({ parents := [1], indirect := [] } : Node Nat)),
      (1, { parents := [2], indirect := [] })],
    Op.upsert .compute [(1, { parents := [5], indirect := [] }), (2, { parents := [3], indirect := [] }),
      (1, { parents := [2, 4], indirect := [] })],
    Op.add .compute [(3, { parents := [0], indirect := [] })], Op.remove .compute [1]] →
    PureOp o := by
  intro o ho
  simp only [List.mem_cons, List.mem_nil_iff, or_false] at ho
  rcases ho with rfl | rfl | rfl | rfl
  · exact ⟨rfl, by intro e he; simp only [List.mem_cons, List.mem_nil_iff, or_false] at he
                   rcases he with rfl | rfl <;> rfl⟩
  · exact ⟨rfl, by intro e he; simp only [List.mem_cons, List.mem_nil_iff, or_false] at he
                   rcases he with rfl | rfl | rfl <;> rfl⟩
  · exact ⟨rfl, by intro e he; simp only [List.mem_cons, List.mem_nil_iff, or_false] at he
                   rcases he with rfl; rfl⟩
  · exact rfl

example : (runOps [] [Op.from .compute [(0, ({ parents := [1], indirect := [] } : Node Nat)),
      (1, { parents := [2], indirect := [] })],
    Op.upsert .compute [(1, { parents := [5], indirect := [] }), (2, { parents := [3], indirect := [] }),
      (1, { parents := [2, 4], indirect := [] })],
    Op.add .compute [(3, { parents := [0], indirect := [] })], Op.remove .compute [1]]).map
      (fun kn => (kn.1, kn.2.out)) = [(0, []), (2, [3])] := by decide +kernel

/-- C04, unconditional: in every state reached by a history of pure operations, `e in a` is reflexive
    parent-reachability -/
theorem in_iff_reach_history_full (ops : List (Op EntityUID)) (hp : ∀ o, o ∈ ops → PureOp o)
    (e a : EntityUID) :
    inE (toEntities (runOps [] ops)) e a = true ↔ a = e ∨ Reach (shape (runOps [] ops)) e a :=
  in_iff_reach _ (history_inv ops hp) e a

end Cedar.C04
