import CedarVerif.Cedar.Ext
import CedarVerif.Lemmas.ExtDecimal
import CedarVerif.Lemmas.ExtDuration
/-
C07 — Extension types (decimal, ip, datetime, duration) compute exact results.
Property theorems about the mirrors in `Cedar/Ext.lean`.
-/
namespace Cedar.C07
open Cedar Cedar.Ext

/-- `offset` is the exact sum, or an overflow (extension) error when not representable -/
theorem offset_exact_or_overflow (t d : Int) :
    Datetime.offset t d = if i64Min ≤ t + d ∧ t + d ≤ i64Max then some (t + d) else none := by
  simp only [Datetime.offset, checkedI64, inI64, Bool.and_eq_true, decide_eq_true_eq]

/-- `durationSince` is the exact difference, or an overflow error -/
theorem durationSince_exact_or_overflow (a b : Int) :
    Datetime.durationSince a b = if i64Min ≤ a - b ∧ a - b ≤ i64Max then some (a - b) else none := by
  simp only [Datetime.durationSince, checkedI64, inI64, Bool.and_eq_true, decide_eq_true_eq]

/-- equality of extension values is by represented value, not by constructor spelling -/
theorem ext_eq_by_value :
    IPAddr.parse "::1" = IPAddr.parse "0:0:0:0:0:0:0:1" ∧
    IPAddr.parse "10.0.0.1" = IPAddr.parse "10.0.0.1/32" ∧
    Decimal.parse "1.0" = Decimal.parse "1.00" ∧
    Duration.parse "1d" = Duration.parse "24h" ∧
    Datetime.parse "2024-01-01T00:00:00+0100" = Datetime.parse "2023-12-31T23:00:00Z" := by
  refine ⟨by decide +kernel, by decide +kernel, by decide +kernel, by decide +kernel, by decide +kernel⟩

/-! ## decimal -/

/-- **decimal, accepted language and exact value.** For a literal of the declarative language
    (optional `-`, ≥ 1 ASCII digits, `.`, 1..4 ASCII digits) `Decimal.parse` returns exactly the scaled value
    `± (ip·10⁴ + fp·10^(4-|fp|))` when it is an i64, and fails otherwise. -/
theorem decimal_parse_exact (neg : Bool) (ip fp : List Char) (hwf : Decimal.WF ip fp) (h4 : fp.length ≤ 4) :
    Decimal.parse (String.ofList (Decimal.render neg ip fp)) =
      if inI64 (Decimal.exact neg ip fp) then some (Decimal.exact neg ip fp) else none := by
  have hs := (Decimal.split_iff (Decimal.render neg ip fp) neg ip fp).mpr ⟨rfl, hwf⟩
  obtain ⟨_, h2, _, h5⟩ := hwf
  obtain ⟨b1, b2⟩ := Decimal.fp_bound fp h2 h4 h5
  simp only [Decimal.parse, String.toList_ofList, hs]
  exact Decimal.arith_exact neg _ _ _ h4 b1 b2

/-- more than four fraction digits are rejected (`TooManyDigits`), whatever the value -/
theorem decimal_parse_tooManyDigits (neg : Bool) (ip fp : List Char) (hwf : Decimal.WF ip fp) (h4 : 4 < fp.length) :
    Decimal.parse (String.ofList (Decimal.render neg ip fp)) = none := by
  have hs := (Decimal.split_iff (Decimal.render neg ip fp) neg ip fp).mpr ⟨rfl, hwf⟩
  simp only [Decimal.parse, String.toList_ofList, hs]
  exact Decimal.arith_tooManyDigits neg _ _ _ h4

/-- **decimal, both directions.** `parse s = some v` iff `s` is a literal of the declarative language with at
    most four fraction digits, `v` is its exact scaled value and `v` is an i64. In particular every string outside
    the language (no dot, empty integer or fraction part, non-digit, trailing garbage, > 4 fraction digits) and
    every out-of-range literal gives `none`. -/
theorem decimal_parse_some_iff (s : String) (v : Int) :
    Decimal.parse s = some v ↔
      ∃ neg ip fp, s.toList = Decimal.render neg ip fp ∧ Decimal.WF ip fp ∧ fp.length ≤ 4 ∧
        v = Decimal.exact neg ip fp ∧ inI64 v = true := by
  constructor
  · intro h
    unfold Decimal.parse at h
    split at h
    · cases h
    · rename_i neg ip fp hs
      obtain ⟨hr, hwf⟩ := (Decimal.split_iff _ _ _ _).mp hs
      by_cases h4 : fp.length ≤ 4
      · obtain ⟨b1, b2⟩ := Decimal.fp_bound fp hwf.2.1 h4 hwf.2.2.2
        have ha : Decimal.arith neg (natOfDigits ip) (natOfDigits fp) fp.length =
            if inI64 (Decimal.exact neg ip fp) then some (Decimal.exact neg ip fp) else none :=
          Decimal.arith_exact neg _ _ _ h4 b1 b2
        rw [ha] at h
        by_cases hin : inI64 (Decimal.exact neg ip fp) = true
        · rw [if_pos hin] at h; cases h
          exact ⟨neg, ip, fp, hr, hwf, h4, rfl, hin⟩
        · rw [if_neg hin] at h; cases h
      · rw [Decimal.arith_tooManyDigits neg _ _ _ (by omega)] at h; cases h
  · rintro ⟨neg, ip, fp, hr, hwf, h4, rfl, hin⟩
    have := decimal_parse_exact neg ip fp hwf h4
    rw [← hr, String.ofList_toList, hin] at this
    simpa using this

/-- strings outside the declarative language are rejected -/
theorem decimal_parse_none_of_not_lang (s : String)
    (h : ¬ ∃ neg ip fp, s.toList = Decimal.render neg ip fp ∧ Decimal.WF ip fp ∧ fp.length ≤ 4) :
    Decimal.parse s = none := by
  cases hp : Decimal.parse s with
  | none => rfl
  | some v =>
    obtain ⟨neg, ip, fp, a, b, c, _⟩ := (decimal_parse_some_iff s v).mp hp
    exact absurd ⟨neg, ip, fp, a, b, c⟩ h

-- non-vacuity: the largest and smallest decimals, one beyond, and near-miss strings
example : Decimal.parse "922337203685477.5807" = some 9223372036854775807 ∧
    Decimal.parse "-922337203685477.5808" = some (-9223372036854775808) ∧
    Decimal.parse "922337203685477.5808" = none ∧ Decimal.parse "1.23456" = none ∧
    Decimal.parse "1." = none ∧ Decimal.parse ".5" = none ∧ Decimal.parse "12" = none ∧
    Decimal.parse "1.2x" = none ∧ Decimal.parse "-0.5" = some (-5000) := by decide +kernel
example : Decimal.WF "12".toList "34".toList ∧ Decimal.exact true "12".toList "34".toList = -123400 ∧
    String.ofList (Decimal.render true "12".toList "34".toList) = "-12.34" := by decide +kernel

/-! ## duration -/

/-- exact value (milliseconds) of the duration literal with the given digit strings (absent component = 0) -/
def durationExact (neg : Bool) (D H M S MS : Option (List Char)) : Int :=
  Duration.exact neg (Duration.cval D) (Duration.cval H) (Duration.cval M) (Duration.cval S) (Duration.cval MS)

/-- **duration, accepted language and exact value.** For a literal `-?(\d+d)?(\d+h)?(\d+m)?(\d+s)?(\d+ms)?`
    with at least one component, `Duration.parse` returns exactly `± (ms + 1000 s + 60000 m + 3600000 h + 86400000 d)`
    when that is an i64 and fails otherwise (this subsumes the u64 overflow of a single component, see
    `duration_parse_component_overflow`). -/
theorem duration_parse_exact (neg : Bool) (D H M S MS : Option (List Char)) (hwf : Duration.WF D H M S MS) :
    Duration.parse (String.ofList (Duration.render neg D H M S MS)) =
      if inI64 (durationExact neg D H M S MS) then some (durationExact neg D H M S MS) else none := by
  have hs := (Duration.split_iff (Duration.render neg D H M S MS) neg _ _ _ _ _).mpr
    ⟨D, H, M, S, MS, rfl, hwf, rfl, rfl, rfl, rfl, rfl⟩
  simp only [Duration.parse, String.toList_ofList, hs]
  cases ha : Duration.arith neg (D.map natOfDigits) (H.map natOfDigits) (M.map natOfDigits) (S.map natOfDigits)
      (MS.map natOfDigits) with
  | some v =>
    obtain ⟨rfl, hv⟩ := (Duration.arith_eq_some _ _ _ _ _ _ _).mp ha
    have : inI64 (durationExact neg D H M S MS) = true := (inI64_iff _).mpr hv
    rw [this]; rfl
  | none =>
    cases hin : inI64 (durationExact neg D H M S MS) with
    | false => rfl
    | true =>
      have := (Duration.arith_eq_some neg (D.map natOfDigits) (H.map natOfDigits) (M.map natOfDigits)
        (S.map natOfDigits) (MS.map natOfDigits) (durationExact neg D H M S MS)).mpr ⟨rfl, (inI64_iff _).mp hin⟩
      rw [ha] at this; cases this

/-- **duration, both directions.** `parse s = some v` iff `s` is a literal of the declarative language, `v` its exact
    value and `v` an i64. Everything else (empty string, `-`, components out of order or repeated, missing digits,
    unknown units, trailing garbage, overflow) gives `none`. -/
theorem duration_parse_some_iff (s : String) (v : Int) :
    Duration.parse s = some v ↔
      ∃ neg D H M S MS, s.toList = Duration.render neg D H M S MS ∧ Duration.WF D H M S MS ∧
        v = durationExact neg D H M S MS ∧ inI64 v = true := by
  constructor
  · intro h
    unfold Duration.parse at h
    split at h
    · cases h
    · rename_i neg d hh m sec ms hs
      obtain ⟨D, H, M, S, MS, hr, hwf, rfl, rfl, rfl, rfl, rfl⟩ := (Duration.split_iff _ _ _ _ _ _ _).mp hs
      obtain ⟨rfl, hv⟩ := (Duration.arith_eq_some _ _ _ _ _ _ _).mp h
      exact ⟨neg, D, H, M, S, MS, hr, hwf, rfl, (inI64_iff _).mpr hv⟩
  · rintro ⟨neg, D, H, M, S, MS, hr, hwf, rfl, hin⟩
    have := duration_parse_exact neg D H M S MS hwf
    rw [← hr, String.ofList_toList, hin] at this
    simpa using this

/-- strings outside the declarative language are rejected -/
theorem duration_parse_none_of_not_lang (s : String)
    (h : ¬ ∃ neg D H M S MS, s.toList = Duration.render neg D H M S MS ∧ Duration.WF D H M S MS) :
    Duration.parse s = none := by
  cases hp : Duration.parse s with
  | none => rfl
  | some v =>
    obtain ⟨neg, D, H, M, S, MS, a, b, _⟩ := (duration_parse_some_iff s v).mp hp
    exact absurd ⟨neg, D, H, M, S, MS, a, b⟩ h

/-- a component that does not fit a u64 (Rust: `parse::<u64>` fails) makes the literal fail -/
theorem duration_parse_component_overflow (neg : Bool) (D H M S MS : Option (List Char))
    (hwf : Duration.WF D H M S MS)
    (hbig : Duration.u64Max < Duration.cval D ∨ Duration.u64Max < Duration.cval H ∨ Duration.u64Max < Duration.cval M ∨
            Duration.u64Max < Duration.cval S ∨ Duration.u64Max < Duration.cval MS) :
    Duration.parse (String.ofList (Duration.render neg D H M S MS)) = none := by
  rw [duration_parse_exact neg D H M S MS hwf]
  have : inI64 (durationExact neg D H M S MS) = false := by
    rw [inI64_false_iff]
    simp only [durationExact, Duration.exact]
    have hu : Duration.u64Max = 18446744073709551615 := rfl
    rw [hu] at hbig
    cases neg <;> simp only [Bool.false_eq_true, if_false, if_true] <;> omega
  rw [this]; rfl

-- non-vacuity: extremes of the i64 range, ordering, `m` vs `ms`, near misses
example : Duration.parse "1d2h3m4s5ms" = some 93784005 ∧ Duration.parse "-9223372036854775808ms" = some (-9223372036854775808) ∧
    Duration.parse "9223372036854775808ms" = none ∧ Duration.parse "106751991167d7h12m55s807ms" = some 9223372036854775807 ∧
    Duration.parse "106751991167d7h12m55s808ms" = none ∧ Duration.parse "1h1d" = none ∧ Duration.parse "-" = none ∧
    Duration.parse "" = none ∧ Duration.parse "5ms" = some 5 ∧ Duration.parse "5m5ms" = some 300005 ∧
    Duration.parse "18446744073709551616d" = none ∧ Duration.parse "1d1d" = none ∧ Duration.parse "1x" = none := by
  decide +kernel
example : Duration.WF (some "1".toList) none (some "30".toList) none (some "7".toList) ∧
    durationExact true (some "1".toList) none (some "30".toList) none (some "7".toList) = -88200007 ∧
    String.ofList (Duration.render true (some "1".toList) none (some "30".toList) none (some "7".toList)) = "-1d30m7ms" := by
  decide +kernel

end Cedar.C07
