import CedarVerif.Cedar.Ext
import CedarVerif.Lemmas.ExtDecimal
import CedarVerif.Lemmas.ExtDuration
import CedarVerif.Lemmas.ExtDatetime
import CedarVerif.Lemmas.ExtIP
import CedarVerif.Lemmas.ExtDatetimeParse
import CedarVerif.Lemmas.ExtDatetimeInv
import CedarVerif.Lemmas.ExtIPReject
import CedarVerif.Lemmas.JsonIpV4
import CedarVerif.Lemmas.JsonIpV6
/-
C07 — Extension types (decimal, ip, datetime, duration) compute exact results.
Property theorems about the mirrors in `Cedar/Ext.lean`.
Literals: decimal and duration — accepted language and exact value in both directions (`…_some_iff`); datetime — exact
value on the two declarative forms and, conversely, only those forms are accepted (`datetime_parse_only_lang`);
ip — the dotted quad with prefix written without leading zeros parses to the expected value (`ip_parse_v4_roundtrip`,
`ip_parse_display_v4`), and the documented rejections hold in general (leading zero in an octet or in the prefix,
prefix above the family's width, IPv4-in-IPv6 texts); the canonical `Display` text of every IPv6 value that is not
IPv4-mapped parses back (`ip_parse_display_v6`), that of an IPv4-mapped one is refused.  Not stated here: a
both-directions characterisation of all accepted ip texts (non-canonical IPv6 spellings, octet > 255, wrong group counts
are covered by evaluated instances and the correspondence stream only).
-/
namespace Cedar.C07
open Cedar Cedar.Ext

/-- `offset` is the exact sum, or an overflow (extension) error when not representable -/
theorem offset_exact_or_overflow (t d : Int) :
    Datetime.offset t d = if i64Min ≤ t + d ∧ t + d ≤ i64Max then some (t + d) else none := by
  simp only [Datetime.offset, checkedI64, inI64, Bool.and_eq_true, decide_eq_true_eq]

/-- `durationSince` is the exact difference, or an overflow error -/
theorem durationSince_exact_or_overflow (a b : Int) :
    Datetime.durationSince a b = if i64Min ≤ a - b ∧ a - b ≤ i64Max then some (a - b) else none := by
  simp only [Datetime.durationSince, checkedI64, inI64, Bool.and_eq_true, decide_eq_true_eq]

/-- equality of extension values is by represented value, not by constructor spelling -/
theorem ext_eq_by_value :
    IPAddr.parse "::1" = IPAddr.parse "0:0:0:0:0:0:0:1" ∧
    IPAddr.parse "10.0.0.1" = IPAddr.parse "10.0.0.1/32" ∧
    Decimal.parse "1.0" = Decimal.parse "1.00" ∧
    Duration.parse "1d" = Duration.parse "24h" ∧
    Datetime.parse "2024-01-01T00:00:00+0100" = Datetime.parse "2023-12-31T23:00:00Z" := by
  refine ⟨by decide +kernel, by decide +kernel, by decide +kernel, by decide +kernel, by decide +kernel⟩

/-! ## decimal -/

/-- **decimal, accepted language and exact value.** For a literal of the declarative language
    (optional `-`, ≥ 1 ASCII digits, `.`, 1..4 ASCII digits) `Decimal.parse` returns exactly the scaled value
    `± (ip·10⁴ + fp·10^(4-|fp|))` when it is an i64, and fails otherwise. -/
theorem decimal_parse_exact (neg : Bool) (ip fp : List Char) (hwf : Decimal.WF ip fp) (h4 : fp.length ≤ 4) :
    Decimal.parse (String.ofList (Decimal.render neg ip fp)) =
      if inI64 (Decimal.exact neg ip fp) then some (Decimal.exact neg ip fp) else none := by
  have hs := (Decimal.split_iff (Decimal.render neg ip fp) neg ip fp).mpr ⟨rfl, hwf⟩
  obtain ⟨_, h2, _, h5⟩ := hwf
  obtain ⟨b1, b2⟩ := Decimal.fp_bound fp h2 h4 h5
  simp only [Decimal.parse, String.toList_ofList, hs]
  exact Decimal.arith_exact neg _ _ _ h4 b1 b2

/-- more than four fraction digits are rejected (`TooManyDigits`), whatever the value -/
theorem decimal_parse_tooManyDigits (neg : Bool) (ip fp : List Char) (hwf : Decimal.WF ip fp) (h4 : 4 < fp.length) :
    Decimal.parse (String.ofList (Decimal.render neg ip fp)) = none := by
  have hs := (Decimal.split_iff (Decimal.render neg ip fp) neg ip fp).mpr ⟨rfl, hwf⟩
  simp only [Decimal.parse, String.toList_ofList, hs]
  exact Decimal.arith_tooManyDigits neg _ _ _ h4

/-- **decimal, both directions.** `parse s = some v` iff `s` is a literal of the declarative language with at
    most four fraction digits, `v` is its exact scaled value and `v` is an i64. In particular every string outside
    the language (no dot, empty integer or fraction part, non-digit, trailing garbage, > 4 fraction digits) and
    every out-of-range literal gives `none`. -/
theorem decimal_parse_some_iff (s : String) (v : Int) :
    Decimal.parse s = some v ↔
      ∃ neg ip fp, s.toList = Decimal.render neg ip fp ∧ Decimal.WF ip fp ∧ fp.length ≤ 4 ∧
        v = Decimal.exact neg ip fp ∧ inI64 v = true := by
  constructor
  · intro h
    unfold Decimal.parse at h
    split at h
    · cases h
    · rename_i neg ip fp hs
      obtain ⟨hr, hwf⟩ := (Decimal.split_iff _ _ _ _).mp hs
      by_cases h4 : fp.length ≤ 4
      · obtain ⟨b1, b2⟩ := Decimal.fp_bound fp hwf.2.1 h4 hwf.2.2.2
        have ha : Decimal.arith neg (natOfDigits ip) (natOfDigits fp) fp.length =
            if inI64 (Decimal.exact neg ip fp) then some (Decimal.exact neg ip fp) else none :=
          Decimal.arith_exact neg _ _ _ h4 b1 b2
        rw [ha] at h
        by_cases hin : inI64 (Decimal.exact neg ip fp) = true
        · rw [if_pos hin] at h; cases h
          exact ⟨neg, ip, fp, hr, hwf, h4, rfl, hin⟩
        · rw [if_neg hin] at h; cases h
      · rw [Decimal.arith_tooManyDigits neg _ _ _ (by omega)] at h; cases h
  · rintro ⟨neg, ip, fp, hr, hwf, h4, rfl, hin⟩
    have := decimal_parse_exact neg ip fp hwf h4
    rw [← hr, String.ofList_toList, hin] at this
    simpa using this

/-- strings outside the declarative language are rejected -/
theorem decimal_parse_none_of_not_lang (s : String)
    (h : ¬ ∃ neg ip fp, s.toList = Decimal.render neg ip fp ∧ Decimal.WF ip fp ∧ fp.length ≤ 4) :
    Decimal.parse s = none := by
  cases hp : Decimal.parse s with
  | none => rfl
  | some v =>
    obtain ⟨neg, ip, fp, a, b, c, _⟩ := (decimal_parse_some_iff s v).mp hp
    exact absurd ⟨neg, ip, fp, a, b, c⟩ h

-- non-vacuity: the largest and smallest decimals, one beyond, and near-miss strings
example : Decimal.parse "922337203685477.5807" = some 9223372036854775807 ∧
    Decimal.parse "-922337203685477.5808" = some (-9223372036854775808) ∧
    Decimal.parse "922337203685477.5808" = none ∧ Decimal.parse "1.23456" = none ∧
    Decimal.parse "1." = none ∧ Decimal.parse ".5" = none ∧ Decimal.parse "12" = none ∧
    Decimal.parse "1.2x" = none ∧ Decimal.parse "-0.5" = some (-5000) := by decide +kernel
example : Decimal.WF "12".toList "34".toList ∧ Decimal.exact true "12".toList "34".toList = -123400 ∧
    String.ofList (Decimal.render true "12".toList "34".toList) = "-12.34" := by decide +kernel

/-! ## duration -/

/-- exact value (milliseconds) of the duration literal with the given digit strings (absent component = 0) -/
def durationExact (neg : Bool) (D H M S MS : Option (List Char)) : Int :=
  Duration.exact neg (Duration.cval D) (Duration.cval H) (Duration.cval M) (Duration.cval S) (Duration.cval MS)

/-- **duration, accepted language and exact value.** For a literal `-?(\d+d)?(\d+h)?(\d+m)?(\d+s)?(\d+ms)?`
    with at least one component, `Duration.parse` returns exactly `± (ms + 1000 s + 60000 m + 3600000 h + 86400000 d)`
    when that is an i64 and fails otherwise (this subsumes the u64 overflow of a single component, see
    `duration_parse_component_overflow`). -/
theorem duration_parse_exact (neg : Bool) (D H M S MS : Option (List Char)) (hwf : Duration.WF D H M S MS) :
    Duration.parse (String.ofList (Duration.render neg D H M S MS)) =
      if inI64 (durationExact neg D H M S MS) then some (durationExact neg D H M S MS) else none := by
  have hs := (Duration.split_iff (Duration.render neg D H M S MS) neg _ _ _ _ _).mpr
    ⟨D, H, M, S, MS, rfl, hwf, rfl, rfl, rfl, rfl, rfl⟩
  simp only [Duration.parse, String.toList_ofList, hs]
  cases ha : Duration.arith neg (D.map natOfDigits) (H.map natOfDigits) (M.map natOfDigits) (S.map natOfDigits)
      (MS.map natOfDigits) with
  | some v =>
    obtain ⟨rfl, hv⟩ := (Duration.arith_eq_some _ _ _ _ _ _ _).mp ha
    have : inI64 (durationExact neg D H M S MS) = true := (inI64_iff _).mpr hv
    rw [this]; rfl
  | none =>
    cases hin : inI64 (durationExact neg D H M S MS) with
    | false => rfl
    | true =>
      have := (Duration.arith_eq_some neg (D.map natOfDigits) (H.map natOfDigits) (M.map natOfDigits)
        (S.map natOfDigits) (MS.map natOfDigits) (durationExact neg D H M S MS)).mpr ⟨rfl, (inI64_iff _).mp hin⟩
      rw [ha] at this; cases this

/-- **duration, both directions.** `parse s = some v` iff `s` is a literal of the declarative language, `v` its exact
    value and `v` an i64. Everything else (empty string, `-`, components out of order or repeated, missing digits,
    unknown units, trailing garbage, overflow) gives `none`. -/
theorem duration_parse_some_iff (s : String) (v : Int) :
    Duration.parse s = some v ↔
      ∃ neg D H M S MS, s.toList = Duration.render neg D H M S MS ∧ Duration.WF D H M S MS ∧
        v = durationExact neg D H M S MS ∧ inI64 v = true := by
  constructor
  · intro h
    unfold Duration.parse at h
    split at h
    · cases h
    · rename_i neg d hh m sec ms hs
      obtain ⟨D, H, M, S, MS, hr, hwf, rfl, rfl, rfl, rfl, rfl⟩ := (Duration.split_iff _ _ _ _ _ _ _).mp hs
      obtain ⟨rfl, hv⟩ := (Duration.arith_eq_some _ _ _ _ _ _ _).mp h
      exact ⟨neg, D, H, M, S, MS, hr, hwf, rfl, (inI64_iff _).mpr hv⟩
  · rintro ⟨neg, D, H, M, S, MS, hr, hwf, rfl, hin⟩
    have := duration_parse_exact neg D H M S MS hwf
    rw [← hr, String.ofList_toList, hin] at this
    simpa using this

/-- strings outside the declarative language are rejected -/
theorem duration_parse_none_of_not_lang (s : String)
    (h : ¬ ∃ neg D H M S MS, s.toList = Duration.render neg D H M S MS ∧ Duration.WF D H M S MS) :
    Duration.parse s = none := by
  cases hp : Duration.parse s with
  | none => rfl
  | some v =>
    obtain ⟨neg, D, H, M, S, MS, a, b, _⟩ := (duration_parse_some_iff s v).mp hp
    exact absurd ⟨neg, D, H, M, S, MS, a, b⟩ h

/-- a component that does not fit a u64 (Rust: `parse::<u64>` fails) makes the literal fail -/
theorem duration_parse_component_overflow (neg : Bool) (D H M S MS : Option (List Char))
    (hwf : Duration.WF D H M S MS)
    (hbig : Duration.u64Max < Duration.cval D ∨ Duration.u64Max < Duration.cval H ∨ Duration.u64Max < Duration.cval M ∨
            Duration.u64Max < Duration.cval S ∨ Duration.u64Max < Duration.cval MS) :
    Duration.parse (String.ofList (Duration.render neg D H M S MS)) = none := by
  rw [duration_parse_exact neg D H M S MS hwf]
  have : inI64 (durationExact neg D H M S MS) = false := by
    rw [inI64_false_iff]
    simp only [durationExact, Duration.exact]
    have hu : Duration.u64Max = 18446744073709551615 := rfl
    rw [hu] at hbig
    cases neg <;> simp only [Bool.false_eq_true, if_false, if_true] <;> omega
  rw [this]; rfl

-- non-vacuity: extremes of the i64 range, ordering, `m` vs `ms`, near misses
example : Duration.parse "1d2h3m4s5ms" = some 93784005 ∧ Duration.parse "-9223372036854775808ms" = some (-9223372036854775808) ∧
    Duration.parse "9223372036854775808ms" = none ∧ Duration.parse "106751991167d7h12m55s807ms" = some 9223372036854775807 ∧
    Duration.parse "106751991167d7h12m55s808ms" = none ∧ Duration.parse "1h1d" = none ∧ Duration.parse "-" = none ∧
    Duration.parse "" = none ∧ Duration.parse "5ms" = some 5 ∧ Duration.parse "5m5ms" = some 300005 ∧
    Duration.parse "18446744073709551616d" = none ∧ Duration.parse "1d1d" = none ∧ Duration.parse "1x" = none := by
  decide +kernel
example : Duration.WF (some "1".toList) none (some "30".toList) none (some "7".toList) ∧
    durationExact true (some "1".toList) none (some "30".toList) none (some "7".toList) = -88200007 ∧
    String.ofList (Duration.render true (some "1".toList) none (some "30".toList) none (some "7".toList)) = "-1d30m7ms" := by
  decide +kernel

/-! ## datetime / duration methods -/

/-- **toDate is the floor to a day boundary.** For every i64 epoch `t`: the result is `⌊t / day⌋ · day` when that is
    an i64 and an error otherwise (`t` within the first partial day above `i64::MIN`); a result `d` satisfies
    `d ≤ t < d + 86400000`, is a multiple of a day, and is an i64 — also for negative epochs. -/
theorem toDate_floor (t : Int) :
    Datetime.toDate t =
      (if inI64 (t / 86400000 * 86400000) then some (t / 86400000 * 86400000) else none) ∧
    (∀ d, Datetime.toDate t = some d → d ≤ t ∧ t < d + 86400000 ∧ d % 86400000 = 0 ∧ inI64 d = true) ∧
    (inI64 t = true → (Datetime.toDate t = none ↔ t / 86400000 * 86400000 < i64Min)) := by
  have h0 : Datetime.toDate t =
      (if inI64 (t / 86400000 * 86400000) then some (t / 86400000 * 86400000) else none) := by
    rw [Datetime.toDate_eq]; rfl
  refine ⟨h0, ?_, ?_⟩
  · intro d hd
    rw [h0] at hd
    by_cases hin : inI64 (t / 86400000 * 86400000) = true
    · rw [if_pos hin] at hd; cases hd
      exact ⟨by omega, by omega, by omega, hin⟩
    · rw [if_neg hin] at hd; cases hd
  · intro ht
    rw [h0]
    rw [inI64_iff] at ht
    have e : i64Min = -9223372036854775808 := rfl
    rw [e]
    by_cases hin : inI64 (t / 86400000 * 86400000) = true
    · rw [if_pos hin]; rw [inI64_iff] at hin
      constructor
      · intro h; cases h
      · intro h; omega
    · rw [if_neg hin]
      have hin' : inI64 (t / 86400000 * 86400000) = false := by simpa using hin
      rw [inI64_false_iff] at hin'
      constructor
      · intro _; omega
      · intro _; rfl

example : Datetime.toDate (-1) = some (-86400000) ∧ Datetime.toDate 86399999 = some 0 ∧
    Datetime.toDate (-86400000) = some (-86400000) ∧ Datetime.toDate (-9223372036854775808) = none ∧
    Datetime.toDate 9223372036854775807 = some 9223372036828800000 := by decide +kernel

/-- **toTime is the Euclidean remainder modulo a day**: `0 ≤ toTime t < 86400000` and `t - toTime t` is a multiple
    of a day, for negative epochs too (the Rust code distinguishes the sign and uses the truncated `%`). -/
theorem toTime_range (t : Int) :
    Datetime.toTime t = t % 86400000 ∧ 0 ≤ Datetime.toTime t ∧ Datetime.toTime t < 86400000 ∧
    (t - Datetime.toTime t) % 86400000 = 0 ∧ t - Datetime.toTime t = t / 86400000 * 86400000 := by
  rw [Datetime.toTime_eq_emod]
  refine ⟨rfl, ?_, ?_, ?_, ?_⟩ <;> omega

/-- `toDate` and `toTime` split an epoch: date part + time part = the epoch -/
theorem toDate_add_toTime (t d : Int) (h : Datetime.toDate t = some d) : d + Datetime.toTime t = t := by
  have h0 := (toDate_floor t).1
  rw [h0] at h
  rw [Datetime.toTime_eq_emod]
  by_cases hin : inI64 (t / 86400000 * 86400000) = true
  · rw [if_pos hin] at h; cases h; omega
  · rw [if_neg hin] at h; cases h

example : Datetime.toTime (-1) = 86399999 ∧ Datetime.toTime (-86400000) = 0 ∧ Datetime.toTime 86400001 = 1 ∧
    Datetime.toTime (-9223372036854775808) = 60424192 := by decide +kernel

/-- **toSeconds … toDays divide with truncation toward zero.** The nested truncating divisions of the Rust code
    (`to_minutes = to_seconds / 60`, …) equal one truncating division by the product, and that quotient `q`
    satisfies `q·n ≤ d < (q+1)·n` for `d ≥ 0` and `(q-1)·n < d ≤ q·n` for `d ≤ 0`. -/
theorem toX_truncating (d : Int) :
    callExt1 "toMilliseconds" (.ext (.duration d)) = .ok (vint d) ∧
    callExt1 "toSeconds" (.ext (.duration d)) = .ok (vint (Int.tdiv d 1000)) ∧
    callExt1 "toMinutes" (.ext (.duration d)) = .ok (vint (Int.tdiv d 60000)) ∧
    callExt1 "toHours" (.ext (.duration d)) = .ok (vint (Int.tdiv d 3600000)) ∧
    callExt1 "toDays" (.ext (.duration d)) = .ok (vint (Int.tdiv d 86400000)) ∧
    (∀ n : Int, 0 < n →
      (0 ≤ d → Int.tdiv d n * n ≤ d ∧ d < (Int.tdiv d n + 1) * n) ∧
      (d ≤ 0 → (Int.tdiv d n - 1) * n < d ∧ d ≤ Int.tdiv d n * n)) := by
  have e2 : Int.tdiv (Int.tdiv d 1000) 60 = Int.tdiv d 60000 := Datetime.tdiv_tdiv d 1000 60 (by decide) (by decide)
  have e3 : Int.tdiv (Int.tdiv d 60000) 60 = Int.tdiv d 3600000 := Datetime.tdiv_tdiv d 60000 60 (by decide) (by decide)
  have e4 : Int.tdiv (Int.tdiv d 3600000) 24 = Int.tdiv d 86400000 :=
    Datetime.tdiv_tdiv d 3600000 24 (by decide) (by decide)
  refine ⟨rfl, rfl, ?_, ?_, ?_, fun n hn => Datetime.tdiv_trunc d n hn⟩
  · show Except.ok (vint (Int.tdiv (Int.tdiv d 1000) 60)) = _
    rw [e2]
  · show Except.ok (vint (Int.tdiv (Int.tdiv (Int.tdiv d 1000) 60) 60)) = _
    rw [e2, e3]
  · show Except.ok (vint (Int.tdiv (Int.tdiv (Int.tdiv (Int.tdiv d 1000) 60) 60) 24)) = _
    rw [e2, e3, e4]

example : callExt1 "toMinutes" (.ext (.duration (-119999))) = .ok (vint (-1)) ∧
    callExt1 "toDays" (.ext (.duration (-86399999))) = .ok (vint 0) ∧
    callExt1 "toSeconds" (.ext (.duration 1999)) = .ok (vint 1) := by
  refine ⟨rfl, rfl, rfl⟩

/-! ## calendar -/

/-- `daysFromCivil` is the day count of the proleptic Gregorian calendar: it is 0 at 1970-01-01 … -/
theorem daysFromCivil_epoch : Datetime.daysFromCivil 1970 1 1 = 0 := Datetime.daysFromCivil_epoch

/-- … and the next valid civil day (end of month / leap February / end of year handled by `nextDay`) is valid and has
    day number exactly one larger. Together with `daysFromCivil_epoch` this determines the function on all valid
    dates from 0000-01-01 on. -/
theorem daysFromCivil_consecutive (y m d : Nat) (h : Datetime.dateOk y m d = true) :
    Datetime.dateOk (Datetime.nextDay y m d).1 (Datetime.nextDay y m d).2.1 (Datetime.nextDay y m d).2.2 = true ∧
    Datetime.daysFromCivil (Datetime.nextDay y m d).1 (Datetime.nextDay y m d).2.1 (Datetime.nextDay y m d).2.2 =
      Datetime.daysFromCivil y m d + 1 :=
  Datetime.daysFromCivil_nextDay y m d h

/-- `daysFromCivil` is strictly monotone in (y, m, d) (lexicographic) over valid dates -/
theorem daysFromCivil_strictMono (y1 m1 d1 y2 m2 d2 : Nat)
    (ok1 : Datetime.dateOk y1 m1 d1 = true) (ok2 : Datetime.dateOk y2 m2 d2 = true)
    (hlt : Datetime.dateLt y1 m1 d1 y2 m2 d2) :
    Datetime.daysFromCivil y1 m1 d1 < Datetime.daysFromCivil y2 m2 d2 := by
  rw [Datetime.daysFromCivil_eq, Datetime.daysFromCivil_eq]
  have hl := Datetime.lex_internal y1 m1 d1 y2 m2 d2 ok1 ok2 hlt
  have b1 := Datetime.doy_bounds y1 m1 d1 ok1
  have b2 := Datetime.doy_bounds y2 m2 d2 ok2
  have hy : -1 ≤ Datetime.internalYear y1 m1 := by unfold Datetime.internalYear; split <;> omega
  have := Datetime.internal_lt _ _ _ _ hy b1.2 b2.1 hl
  omega

example : Datetime.nextDay 2024 2 28 = (2024, 2, 29) ∧ Datetime.nextDay 2023 2 28 = (2023, 3, 1) ∧
    Datetime.nextDay 1900 2 28 = (1900, 3, 1) ∧ Datetime.nextDay 2000 2 29 = (2000, 3, 1) ∧
    Datetime.nextDay 1999 12 31 = (2000, 1, 1) ∧ Datetime.dateOk 2024 2 29 = true ∧
    Datetime.daysFromCivil 2024 2 29 = 19782 ∧ Datetime.daysFromCivil 0 1 1 = -719528 ∧
    Datetime.dateLt 1999 12 31 2000 1 1 := by decide +kernel

/-! ## ip ranges -/

/-- network ≤ addr ≤ broadcast -/
theorem network_le_addr_le_broadcast (v6 : Bool) (addr pl : Nat) :
    IPAddr.network v6 addr pl ≤ addr ∧ addr ≤ IPAddr.broadcast v6 addr pl :=
  ⟨IPAddr.network_le v6 addr pl, IPAddr.le_broadcast v6 addr pl⟩

/-- the address interval `[network, broadcast]` is exactly the CIDR block (the addresses sharing the first `pl` bits) -/
theorem block_eq_interval (v6 : Bool) (addr pl x : Nat) :
    IPAddr.inBlock v6 addr pl x ↔ IPAddr.network v6 addr pl ≤ x ∧ x ≤ IPAddr.broadcast v6 addr pl :=
  IPAddr.inBlock_iff v6 addr pl x

/-- **isInRange** holds iff both values are of the same family and the child's address interval is contained in the
    parent's (stated both with the intervals and with the CIDR blocks) -/
theorem isInRange_spec (v6a : Bool) (a pa : Nat) (v6b : Bool) (b pb : Nat) :
    (IPAddr.isInRange v6a a pa v6b b pb = true ↔
      v6a = v6b ∧ ∀ x, (IPAddr.network v6a a pa ≤ x ∧ x ≤ IPAddr.broadcast v6a a pa) →
                       (IPAddr.network v6b b pb ≤ x ∧ x ≤ IPAddr.broadcast v6b b pb)) ∧
    (IPAddr.isInRange v6a a pa v6b b pb = true ↔
      v6a = v6b ∧ ∀ x, IPAddr.inBlock v6a a pa x → IPAddr.inBlock v6b b pb x) := by
  have key : IPAddr.isInRange v6a a pa v6b b pb = true ↔
      v6a = v6b ∧ ∀ x, (IPAddr.network v6a a pa ≤ x ∧ x ≤ IPAddr.broadcast v6a a pa) →
                       (IPAddr.network v6b b pb ≤ x ∧ x ≤ IPAddr.broadcast v6b b pb) := by
    simp only [IPAddr.isInRange, Bool.and_eq_true, beq_iff_eq, decide_eq_true_eq]
    have hnb := IPAddr.network_le_broadcast v6a a pa
    constructor
    · rintro ⟨⟨h1, h2⟩, h3⟩
      exact ⟨h1, fun x hx => ⟨Nat.le_trans h2 hx.1, Nat.le_trans hx.2 h3⟩⟩
    · rintro ⟨h1, h2⟩
      exact ⟨⟨h1, (h2 _ ⟨Nat.le_refl _, hnb⟩).1⟩, (h2 _ ⟨hnb, Nat.le_refl _⟩).2⟩
  refine ⟨key, ?_⟩
  rw [key]
  simp only [IPAddr.inBlock_iff]

/-- the model's `/`-and-`*` network and broadcast equal the Rust bit-mask formulation
    (`addr & MAX.checked_shl(w - p).unwrap_or(0)`, `addr | MAX.checked_shr(p).unwrap_or(0)`) -/
theorem network_broadcast_bitmask (v6 : Bool) (addr pl : Nat) (ha : addr < 2 ^ IPAddr.width v6)
    (hp : pl ≤ IPAddr.width v6) :
    IPAddr.network v6 addr pl = addr &&& IPAddr.rustNetmask (IPAddr.width v6) pl ∧
    IPAddr.broadcast v6 addr pl = addr ||| IPAddr.rustHostmask (IPAddr.width v6) pl :=
  ⟨IPAddr.network_eq_and v6 addr pl ha hp, IPAddr.broadcast_eq_or v6 addr pl hp⟩

/-- **standard CIDR containment**: for prefix lengths within the family's width, `isInRange` holds iff the families
    agree, the parent's prefix is not longer than the child's, and both addresses agree on the parent's prefix bits -/
theorem isInRange_iff_prefix (v6a : Bool) (a pa : Nat) (v6b : Bool) (b pb : Nat)
    (hpa : pa ≤ IPAddr.width v6a) (hpb : pb ≤ IPAddr.width v6b) :
    IPAddr.isInRange v6a a pa v6b b pb = true ↔
      v6a = v6b ∧ pb ≤ pa ∧ a / 2 ^ (IPAddr.width v6b - pb) = b / 2 ^ (IPAddr.width v6b - pb) := by
  rw [(isInRange_spec v6a a pa v6b b pb).2]
  constructor
  · rintro ⟨rfl, h⟩; exact ⟨rfl, (IPAddr.subset_iff_prefix _ a pa b pb hpa hpb).mp h⟩
  · rintro ⟨rfl, h⟩; exact ⟨rfl, (IPAddr.subset_iff_prefix _ a pa b pb hpa hpb).mpr h⟩

-- 10.1.2.3/24 is in 10.1.0.0/16 and not vice versa; /0 contains everything; the masks for /0, /24, /32
example : IPAddr.isInRange false 0x0a010203 24 false 0x0a010000 16 = true ∧
    IPAddr.isInRange false 0x0a010000 16 false 0x0a010203 24 = false ∧
    IPAddr.isInRange false 0x0a010203 32 false 0 0 = true ∧
    IPAddr.isInRange false 0x0a010203 32 true 0 0 = false ∧
    IPAddr.rustNetmask 32 0 = 0 ∧ IPAddr.rustNetmask 32 24 = 0xffffff00 ∧ IPAddr.rustNetmask 32 32 = 0xffffffff ∧
    IPAddr.rustHostmask 32 0 = 0xffffffff ∧ IPAddr.rustHostmask 32 24 = 0xff ∧ IPAddr.rustHostmask 32 32 = 0 ∧
    IPAddr.network false 0x0a010203 24 = 0x0a010200 ∧ IPAddr.broadcast false 0x0a010203 24 = 0x0a0102ff := by
  decide +kernel

/-- the address of the dotted quad `a.b.c.d` -/
def v4addr (a b c d : Nat) : Nat := ((a * 256 + b) * 256 + c) * 256 + d

/-- **isLoopback**: IPv4 — first octet 127 and prefix length ≥ 8 (the range lies inside 127.0.0.0/8);
    IPv6 — exactly `::1` with prefix length 128 -/
theorem loopback_spec :
    (∀ a b c d pl, b < 256 → c < 256 → d < 256 →
      (IPAddr.isLoopback false (v4addr a b c d) pl = true ↔ a = 127 ∧ 8 ≤ pl)) ∧
    (∀ addr pl, IPAddr.isLoopback true addr pl = true ↔ addr = 1 ∧ 128 ≤ pl) := by
  constructor
  · intro a b c d pl hb hc hd
    have e : v4addr a b c d / 2 ^ 24 = a := by simp only [v4addr]; omega
    simp only [IPAddr.isLoopback, Bool.false_eq_true, if_false, e, Bool.and_eq_true, beq_iff_eq, decide_eq_true_eq,
      ge_iff_le]
  · intro addr pl
    simp only [IPAddr.isLoopback, if_true, Bool.and_eq_true, beq_iff_eq, decide_eq_true_eq, ge_iff_le]

/-- **isMulticast**: IPv4 — first octet in 224..239 (top four bits `1110`) and prefix length ≥ 4;
    IPv6 — first byte `0xff` and prefix length ≥ 8 -/
theorem multicast_spec :
    (∀ a b c d pl, b < 256 → c < 256 → d < 256 →
      (IPAddr.isMulticast false (v4addr a b c d) pl = true ↔ (224 ≤ a ∧ a ≤ 239) ∧ 4 ≤ pl)) ∧
    (∀ b0 rest pl, rest < 2 ^ 120 →
      (IPAddr.isMulticast true (b0 * 2 ^ 120 + rest) pl = true ↔ b0 = 255 ∧ 8 ≤ pl)) := by
  constructor
  · intro a b c d pl hb hc hd
    have e : v4addr a b c d / 2 ^ 28 = 14 ↔ (224 ≤ a ∧ a ≤ 239) := by simp only [v4addr]; omega
    simp only [IPAddr.isMulticast, Bool.false_eq_true, if_false, Bool.and_eq_true, beq_iff_eq, decide_eq_true_eq,
      ge_iff_le, e]
  · intro b0 rest pl hr
    have e : (b0 * 2 ^ 120 + rest) / 2 ^ 120 = b0 := by
      rw [Nat.add_comm, Nat.add_mul_div_right _ _ (Nat.two_pow_pos 120), Nat.div_eq_of_lt hr, Nat.zero_add]
    simp only [IPAddr.isMulticast, if_true, e, Bool.and_eq_true, beq_iff_eq, decide_eq_true_eq, ge_iff_le]

-- 127.0.0.1/8 loopback, 127.0.0.1/7 not; ::1 only with /128; 224.0.0.0/4 and 239.255.255.255 multicast, /3 not; ff00::/8
example : IPAddr.isLoopback false (v4addr 127 0 0 1) 8 = true ∧ IPAddr.isLoopback false (v4addr 127 0 0 1) 7 = false ∧
    IPAddr.isLoopback true 1 128 = true ∧ IPAddr.isLoopback true 1 127 = false ∧
    IPAddr.isMulticast false (v4addr 224 0 0 0) 4 = true ∧ IPAddr.isMulticast false (v4addr 239 255 255 255) 32 = true ∧
    IPAddr.isMulticast false (v4addr 224 0 0 0) 3 = false ∧ IPAddr.isMulticast false (v4addr 240 0 0 0) 32 = false ∧
    IPAddr.isMulticast true (255 * 2 ^ 120 + 5) 8 = true ∧ IPAddr.isMulticast true (255 * 2 ^ 120 + 5) 7 = false := by
  decide +kernel

/-! ## datetime literals -/

/-- **datetime, date-only form `YYYY-MM-DD`**: the value is `daysFromCivil · 86400000` when the date exists in the
    proleptic Gregorian calendar, an error otherwise -/
theorem datetime_parse_exact_date (ys ms ds : List Char)
    (h1 : Datetime.digitsN 4 ys) (h2 : Datetime.digitsN 2 ms) (h3 : Datetime.digitsN 2 ds) :
    Datetime.parse (String.ofList (Datetime.renderDate ys ms ds [])) =
      if Datetime.dateOk (natOfDigits ys) (natOfDigits ms) (natOfDigits ds) = true then
        some (Datetime.daysFromCivil (natOfDigits ys) (natOfDigits ms) (natOfDigits ds) * 86400000)
      else none := by
  simp only [Datetime.parse, String.toList_ofList, Datetime.parseDate_render ys ms ds [] h1 h2 h3,
    List.isEmpty_nil, if_true, Datetime.msPerDay]

/-- **datetime, full forms `YYYY-MM-DDThh:mm:ss(.SSS)?(Z|(+|-)hhmm)`**: when the date exists, `hh < 24`, `mm < 60`,
    `ss < 60` and the offset has `hh < 24`, `mm < 60`, the value is exactly
    `days·86400000 + (h·3600 + m·60 + s)·1000 + SSS − offsetSeconds·1000`; otherwise an error -/
theorem datetime_parse_exact (ys ms ds hs mis ss : List Char) (m3 : Option (List Char)) (off : Datetime.Off)
    (h1 : Datetime.digitsN 4 ys) (h2 : Datetime.digitsN 2 ms) (h3 : Datetime.digitsN 2 ds)
    (h4 : Datetime.digitsN 2 hs) (h5 : Datetime.digitsN 2 mis) (h6 : Datetime.digitsN 2 ss)
    (h7 : Datetime.msWF m3) (h8 : Datetime.offWF off) :
    Datetime.parse (String.ofList (Datetime.renderDate ys ms ds (Datetime.renderTime hs mis ss m3 off))) =
      if Datetime.dateOk (natOfDigits ys) (natOfDigits ms) (natOfDigits ds) = true ∧
         natOfDigits hs < 24 ∧ natOfDigits mis < 60 ∧ natOfDigits ss < 60 ∧ Datetime.offOk off = true then
        some (Datetime.daysFromCivil (natOfDigits ys) (natOfDigits ms) (natOfDigits ds) * 86400000 +
              ((natOfDigits hs * 3600 + natOfDigits mis * 60 + natOfDigits ss : Nat) : Int) * 1000 +
              (Datetime.msVal m3 : Int) - Datetime.offSecs off * 1000)
      else none := by
  simp only [Datetime.parse, String.toList_ofList,
    Datetime.parseDate_render ys ms ds _ h1 h2 h3, Datetime.renderTime, List.isEmpty_cons,
    Datetime.parseHMS_render hs mis ss _ h4 h5 h6, Datetime.parseMsOffset_render m3 off h7 h8, Datetime.msPerDay]
  cases hdo : Datetime.dateOk (natOfDigits ys) (natOfDigits ms) (natOfDigits ds) <;>
    cases hoo : Datetime.offOk off <;>
    by_cases hh : natOfDigits hs < 24 <;> by_cases hmi : natOfDigits mis < 60 <;>
    by_cases hs' : natOfDigits ss < 60 <;> simp [hh, hmi, hs']

example : Datetime.parse "1970-01-02T00:00:00.001-0100" = some 90000001 ∧
    Datetime.parse "1969-12-31T23:59:59Z" = some (-1000) ∧ Datetime.parse "2024-02-29" = some 1709164800000 ∧
    Datetime.parse "2023-02-29" = none ∧ Datetime.parse "2024-01-01T24:00:00Z" = none ∧
    Datetime.parse "2024-01-01T00:00:60Z" = none ∧ Datetime.parse "2024-01-01T00:00:00+2400" = none ∧
    Datetime.parse "2024-01-01T00:00:00+2359" = some 1703980860000 ∧ Datetime.parse "2024-01-01T00:00:00" = none ∧
    Datetime.parse "2024-1-01" = none := by decide +kernel
example : Datetime.digitsN 4 "1970".toList ∧ Datetime.msWF (some "001".toList) ∧
    Datetime.offWF (some (false, "01".toList, "00".toList)) ∧
    String.ofList (Datetime.renderDate "1970".toList "01".toList "02".toList
      (Datetime.renderTime "00".toList "00".toList "00".toList (some "001".toList)
        (some (false, "01".toList, "00".toList)))) = "1970-01-02T00:00:00.001-0100" := by
  refine ⟨by decide +kernel, (show Datetime.digitsN 3 "001".toList by decide +kernel),
    (show Datetime.digitsN 2 "01".toList ∧ Datetime.digitsN 2 "00".toList by decide +kernel), by decide +kernel⟩

/-- **datetime, only the declarative language is accepted** (converse of `datetime_parse_exact(_date)`): every
    string accepted by `Datetime.parse` is of one of the two declarative forms; with the two exactness theorems the
    accepted language and the value of every accepted literal are determined. By inversion on the parser's structure
    (`Lemmas/ExtDatetimeInv.lean`). -/
def FullStatement_datetime_parse_only_lang : Prop :=
  ∀ (s : String) (v : Int), Datetime.parse s = some v →
    (∃ ys ms ds, Datetime.digitsN 4 ys ∧ Datetime.digitsN 2 ms ∧ Datetime.digitsN 2 ds ∧
      s.toList = Datetime.renderDate ys ms ds []) ∨
    (∃ ys ms ds hs mis ss m3 off, Datetime.digitsN 4 ys ∧ Datetime.digitsN 2 ms ∧ Datetime.digitsN 2 ds ∧
      Datetime.digitsN 2 hs ∧ Datetime.digitsN 2 mis ∧ Datetime.digitsN 2 ss ∧ Datetime.msWF m3 ∧ Datetime.offWF off ∧
      s.toList = Datetime.renderDate ys ms ds (Datetime.renderTime hs mis ss m3 off))

theorem datetime_parse_only_lang : FullStatement_datetime_parse_only_lang :=
  fun s v h => Datetime.parse_only_lang s v h

/-- strings outside the two declarative forms are rejected -/
theorem datetime_parse_none_of_not_lang (s : String)
    (h1 : ¬ ∃ ys ms ds, Datetime.digitsN 4 ys ∧ Datetime.digitsN 2 ms ∧ Datetime.digitsN 2 ds ∧
      s.toList = Datetime.renderDate ys ms ds [])
    (h2 : ¬ ∃ ys ms ds hs mis ss m3 off, Datetime.digitsN 4 ys ∧ Datetime.digitsN 2 ms ∧ Datetime.digitsN 2 ds ∧
      Datetime.digitsN 2 hs ∧ Datetime.digitsN 2 mis ∧ Datetime.digitsN 2 ss ∧ Datetime.msWF m3 ∧ Datetime.offWF off ∧
      s.toList = Datetime.renderDate ys ms ds (Datetime.renderTime hs mis ss m3 off)) :
    Datetime.parse s = none := by
  cases hp : Datetime.parse s with
  | none => rfl
  | some v => rcases datetime_parse_only_lang s v hp with h | h <;> contradiction

example : (∃ ys ms ds hs mis ss m3 off, Datetime.digitsN 4 ys ∧ Datetime.digitsN 2 ms ∧ Datetime.digitsN 2 ds ∧
      Datetime.digitsN 2 hs ∧ Datetime.digitsN 2 mis ∧ Datetime.digitsN 2 ss ∧ Datetime.msWF m3 ∧ Datetime.offWF off ∧
      "2024-02-29T23:59:59.999+0530".toList = Datetime.renderDate ys ms ds (Datetime.renderTime hs mis ss m3 off)) := by
  have hp : Datetime.parse "2024-02-29T23:59:59.999+0530" = some 1709231399999 := by decide +kernel
  rcases datetime_parse_only_lang _ _ hp with ⟨ys, ms, ds, h1, h2, h3, h⟩ | h
  · exfalso
    have := congrArg List.length h
    simp only [Datetime.renderDate, List.length_append, List.length_cons, List.length_nil, h1.2, h2.2, h3.2] at this
    revert this
    decide +kernel
  · exact h

/-! ## ip literals -/

/-- **dotted-quad/prefix rendering round-trips through `IPAddr.parse`**: `a.b.c.d/p` with every octet and the
    prefix written by `toString` (no leading zeros), octets < 256, prefix ≤ 32 (`Lemmas/JsonIpV4.lean`) -/
def FullStatement_ip_parse_v4_roundtrip : Prop :=
  ∀ a b c d p : Nat, a < 256 → b < 256 → c < 256 → d < 256 → p ≤ 32 →
    IPAddr.parse (toString a ++ "." ++ toString b ++ "." ++ toString c ++ "." ++ toString d ++ "/" ++ toString p) =
      some (.ipaddr false (v4addr a b c d) p)

theorem ip_parse_v4_roundtrip : FullStatement_ip_parse_v4_roundtrip := by
  intro a b c d p ha hb hc hd hp
  have h := CJson.parse_v4Text_prefix a b c d p ha hb hc hd hp
  have hs : (toString a ++ "." ++ toString b ++ "." ++ toString c ++ "." ++ toString d ++ "/" ++ toString p).toList
      = CJson.v4Text a b c d ++ '/' :: CJson.decDigits p := by
    have e1 : (".":String).toList = ['.'] := by decide
    have e2 : ("/":String).toList = ['/'] := by decide
    simp only [String.toList_append, CJson.toString_toList, CJson.v4Text, e1, e2, List.append_assoc, List.cons_append,
      List.nil_append]
  rw [← String.ofList_toList (s := toString a ++ "." ++ toString b ++ "." ++ toString c ++ "." ++ toString d ++ "/" ++ toString p),
    hs]
  exact h

/-- the `Display` text of an IPv4 `IPAddr` value (what `canonical_repr` / `to_string` print) parses back to the
    same (family, address, prefix), for every 32-bit address and prefix ≤ 32 -/
theorem ip_parse_display_v4 (addr p : Nat) (ha : addr < 2 ^ 32) (hp : p ≤ 32) :
    IPAddr.parse (String.ofList (CJson.renderIp false addr p)) = some (.ipaddr false addr p) :=
  CJson.parse_renderIp_v4 addr p ha hp

/-- the `Display` text of an IPv6 `IPAddr` value — `::` compression of the first longest run of ≥ 2 zero groups,
    lower-case hex groups without leading zeros, `/prefix` — parses back to the same (family, address, prefix), for
    every 128-bit address that is not IPv4-mapped and prefix ≤ 128 (`Lemmas/JsonIpV6*.lean`) -/
theorem ip_parse_display_v6 (addr p : Nat) (ha : addr < 2 ^ 128) (hp : p ≤ 128) (hm : CJson.isV4Mapped addr = false) :
    IPAddr.parse (String.ofList (CJson.renderIp true addr p)) = some (.ipaddr true addr p) :=
  CJson.parse_renderIp_v6 addr p ha hp hm

/-- the excluded class: the `Display` text of an IPv4-mapped IPv6 address (`::ffff:a.b.c.d/p`) is refused by `ip()` -/
theorem ip_parse_display_v6_mapped_rejected (addr p : Nat) (hm : CJson.isV4Mapped addr = true) :
    IPAddr.parse (String.ofList (CJson.renderIp true addr p)) = none :=
  CJson.parse_renderIp_v6_mapped addr p hm

example : String.ofList (CJson.renderIp true (0x20010db8 * 2 ^ 96 + 1) 64) = "2001:db8::1/64" ∧
    IPAddr.parse "2001:db8::1/64" = some (.ipaddr true (0x20010db8 * 2 ^ 96 + 1) 64) :=
  ⟨by decide +kernel, by
    have := ip_parse_display_v6 (0x20010db8 * 2 ^ 96 + 1) 64 (by decide) (by decide) (by decide +kernel)
    have e : String.ofList (CJson.renderIp true (0x20010db8 * 2 ^ 96 + 1) 64) = "2001:db8::1/64" := by decide +kernel
    rwa [e] at this⟩

example : IPAddr.parse "192.168.0.1/24" = some (.ipaddr false (v4addr 192 168 0 1) 24) :=
  ip_parse_v4_roundtrip 192 168 0 1 24 (by decide) (by decide) (by decide) (by decide) (by decide)

/-! ### ip literals: rejections (general lemmas in `Lemmas/ExtIPReject.lean`) -/

/-- **an octet with a leading zero**: a dotted text whose some octet (any of the four positions, after the digit
    strings `pre`) starts `0d…` is rejected, with or without a prefix length.  (The text must contain a '.': without
    one, `01::` is a valid IPv6 literal.) -/
theorem ip_octet_leadingZero_rejected (s : String) (pre : List (List Char)) (d : Char) (rest : List Char)
    (hpre : ∀ o ∈ pre, allDigits o = true) (hlen : pre.length ≤ 3) (hd : isDigit d = true)
    (hdot : '.' ∈ IPAddr.dotted pre ('0' :: d :: rest)) (hslash : '/' ∉ IPAddr.dotted pre ('0' :: d :: rest)) :
    (s.toList = IPAddr.dotted pre ('0' :: d :: rest) → IPAddr.parse s = none) ∧
    (∀ p, s.toList = IPAddr.dotted pre ('0' :: d :: rest) ++ '/' :: p → IPAddr.parse s = none) :=
  IPAddr.parse_v4_leadingZero s pre d rest hpre hlen hd hdot hslash

/-- **a prefix length with a leading zero** (`a/0d…`) is rejected, whatever the address text and family -/
theorem ip_prefix_leadingZero_rejected (s : String) (a : List Char) (d : Char) (rest : List Char) (ha : '/' ∉ a)
    (hs : s.toList = a ++ '/' :: '0' :: d :: rest) : IPAddr.parse s = none :=
  IPAddr.parse_prefix_leadingZero s a d rest ha hs

/-- **a prefix length above the family's width** (> 32 for an IPv4 address text, > 128 for an IPv6 one; the
    family is whatever `parseAddr` returns on the address part) is rejected -/
theorem ip_prefix_tooBig_rejected (s : String) (a p : List Char) (ha : '/' ∉ a) (hs : s.toList = a ++ '/' :: p)
    (h : ∀ v6 addr, IPAddr.parseAddr a = some (v6, addr) → natOfDigits p > (if v6 = true then 128 else 32)) :
    IPAddr.parse s = none :=
  IPAddr.parse_prefix_tooBig s a p ha hs h

/-- **IPv4-in-IPv6**: any text with at least two ':' and at least two '.' is rejected -/
theorem ip_v4_in_v6_rejected (s : String) (hc : IPAddr.countChar ':' s.toList ≥ 2)
    (hd : IPAddr.countChar '.' s.toList ≥ 2) : IPAddr.parse s = none :=
  IPAddr.parse_colonsAndDots s hc hd

example : IPAddr.parse "1.2.03.4/24" = none :=
  (ip_octet_leadingZero_rejected "1.2.03.4/24" ["1".toList, "2".toList] '3' ".4".toList (by decide +kernel) (by decide)
    (by decide) (by decide +kernel) (by decide +kernel)).2 "24".toList (by decide +kernel)
example : IPAddr.parse "1.2.3.4/032" = none :=
  ip_prefix_leadingZero_rejected _ "1.2.3.4".toList '3' "2".toList (by decide +kernel) (by decide +kernel)
example : IPAddr.parse "1.2.3.4/33" = none :=
  IPAddr.parse_prefix_tooBig_v4 _ "1.2.3.4".toList "33".toList 0x01020304 (by decide +kernel) (by decide +kernel)
    (by decide +kernel) (by decide +kernel)
example : IPAddr.parse "::1/129" = none :=
  IPAddr.parse_prefix_tooBig_any _ "::1".toList "129".toList (by decide +kernel) (by decide +kernel) (by decide +kernel)
example : IPAddr.parse "::ffff:1.2.3.4" = none :=
  ip_v4_in_v6_rejected _ (by decide +kernel) (by decide +kernel)

-- evaluated instances: round trips, canonical/compressed IPv6, and the documented rejections
example : IPAddr.parse "192.168.0.1/24" = some (.ipaddr false (v4addr 192 168 0 1) 24) ∧
    IPAddr.parse "10.0.0.1" = some (.ipaddr false (v4addr 10 0 0 1) 32) ∧
    IPAddr.parse "::1" = some (.ipaddr true 1 128) ∧ IPAddr.parse "ff00::/8" = some (.ipaddr true (255 * 2 ^ 120) 8) ∧
    IPAddr.parse "1:2:3:4:5:6:7:8/128" = IPAddr.parse "0001:0002:0003:0004:0005:0006:0007:0008" ∧
    IPAddr.parse "01.2.3.4" = none ∧ IPAddr.parse "1.2.3.4/032" = none ∧ IPAddr.parse "1.2.3.4/33" = none ∧
    IPAddr.parse "::1/129" = none ∧ IPAddr.parse "::ffff:1.2.3.4" = none ∧ IPAddr.parse "256.1.1.1" = none ∧
    IPAddr.parse "1.2.3" = none ∧ IPAddr.parse "1:2:3:4:5:6:7:8:9" = none ∧ IPAddr.parse "1.2.3.4/" = none := by
  decide +kernel

end Cedar.C07
