import CedarVerif.Cedar.Ext
/-
C07 — Extension types (decimal, ip, datetime, duration) compute exact results.
Property theorems about the mirrors in `Cedar/Ext.lean`.
-/
namespace Cedar.C07
open Cedar Cedar.Ext

/-- `offset` is the exact sum, or an overflow (extension) error when not representable -/
theorem offset_exact_or_overflow (t d : Int) :
    Datetime.offset t d = if i64Min ≤ t + d ∧ t + d ≤ i64Max then some (t + d) else none := by
  simp only [Datetime.offset, checkedI64, inI64, Bool.and_eq_true, decide_eq_true_eq]

/-- `durationSince` is the exact difference, or an overflow error -/
theorem durationSince_exact_or_overflow (a b : Int) :
    Datetime.durationSince a b = if i64Min ≤ a - b ∧ a - b ≤ i64Max then some (a - b) else none := by
  simp only [Datetime.durationSince, checkedI64, inI64, Bool.and_eq_true, decide_eq_true_eq]

/-- equality of extension values is by represented value, not by constructor spelling -/
theorem ext_eq_by_value :
    IPAddr.parse "::1" = IPAddr.parse "0:0:0:0:0:0:0:1" ∧
    IPAddr.parse "10.0.0.1" = IPAddr.parse "10.0.0.1/32" ∧
    Decimal.parse "1.0" = Decimal.parse "1.00" ∧
    Duration.parse "1d" = Duration.parse "24h" ∧
    Datetime.parse "2024-01-01T00:00:00+0100" = Datetime.parse "2023-12-31T23:00:00Z" := by
  refine ⟨by decide +kernel, by decide +kernel, by decide +kernel, by decide +kernel, by decide +kernel⟩

end Cedar.C07
