import CedarVerif.Cedar.Eval
import CedarVerif.Lemmas.Like
import CedarVerif.Lemmas.Beq
import CedarVerif.Lemmas.SetRepr
/-
C02 — Expression evaluation follows the Cedar language semantics.
Property theorems about `Cedar.evaluate` (the mirror of the value paths of
`Evaluator::partial_interpret_internal`), for arbitrary expressions, requests and stores.
-/
namespace Cedar.C02
open Cedar

variable (req : Request) (es : Entities) (env : SlotEnv)

/-! ### declarative `like` -/

/-- `*` matches any sequence of scalar values, a character matches itself -/
inductive Matches : Pattern → List Char → Prop where
  | nil : Matches [] []
  | char (c : Char) {ps : Pattern} {cs : List Char} : Matches ps cs → Matches (.char c :: ps) (c :: cs)
  | star (xs : List Char) {ps : Pattern} {cs : List Char} : Matches ps cs → Matches (.star :: ps) (xs ++ cs)

theorem M_iff_Matches : ∀ (p : Pattern) (s : List Char), M p s = true ↔ Matches p s
  | [], [] => by simp [M]; exact .nil
  | [], c :: cs => by
      simp only [M_nil_cons, Bool.false_eq_true, false_iff]
      intro h; cases h
  | .star :: ps, [] => by
      rw [M_star_nil, M_iff_Matches ps []]
      constructor
      · intro h; exact Matches.star [] h
      · intro h
        generalize hp : PatElem.star :: ps = p at h
        generalize hs : ([] : List Char) = s at h
        cases h with
        | nil => cases hp
        | char c h' => cases hp
        | @star xs ps' cs' h' =>
          cases hp
          obtain ⟨h1, h2⟩ := List.append_eq_nil_iff.mp hs.symm
          subst h1 h2; exact h'
  | .star :: ps, c :: cs => by
      rw [M_star_cons, Bool.or_eq_true, M_iff_Matches ps (c :: cs), M_iff_Matches (.star :: ps) cs]
      constructor
      · rintro (h | h)
        · exact Matches.star [] h
        · generalize hp : PatElem.star :: ps = p at h
          cases h with
          | nil => cases hp
          | char c' h' => cases hp
          | star xs h' =>
            cases hp
            exact Matches.star (c :: xs) h'
      · intro h
        generalize hp : PatElem.star :: ps = p at h
        generalize hs : c :: cs = s at h
        cases h with
        | nil => cases hp
        | char c' h' => cases hp
        | @star xs ps' cs' h' =>
          cases hp
          cases xs with
          | nil =>
            left
            simpa using h'
          | cons x xs =>
            right
            simp only [List.cons_append, List.cons.injEq] at hs
            rw [hs.2]; exact Matches.star xs h'
  | .char p :: ps, [] => by
      simp only [M_char_nil, Bool.false_eq_true, false_iff]
      intro h; cases h
  | .char p :: ps, c :: cs => by
      rw [M_char_cons, Bool.and_eq_true, M_iff_Matches ps cs]
      constructor
      · rintro ⟨h1, h2⟩
        have : p = c := by simpa using h1
        subst this; exact Matches.char p h2
      · intro h
        cases h with
        | char _ h' => exact ⟨by simp, h'⟩
termination_by p s => p.length + s.length

/-- C02 (`like`): the loop of `Pattern::wildcard_match` (suffix-form mirror `wm`, used by `evaluate`)
    decides exactly the declarative relation, for every pattern and every string of scalar values. -/
theorem like_correct (p : Pattern) (s : List Char) : wm p s = true ↔ Matches p s := by
  rw [wm_correct]; exact M_iff_Matches p s

/-! ### short-circuiting -/

/-- `false && b` is `false` whatever `b` is (erroring, ill-typed, …): the skipped operand never surfaces -/
theorem and_short (a b : Expr) (h : evaluate req es env a = .ok (.prim (.bool false))) :
    evaluate req es env (.and a b) = .ok (.prim (.bool false)) := by
  simp [evaluate, h, Value.asBool]

theorem or_short (a b : Expr) (h : evaluate req es env a = .ok (.prim (.bool true))) :
    evaluate req es env (.or a b) = .ok (.prim (.bool true)) := by
  simp [evaluate, h, Value.asBool]

theorem ite_short_then (c t e : Expr) (h : evaluate req es env c = .ok (.prim (.bool true))) :
    evaluate req es env (.ite c t e) = evaluate req es env t := by
  simp [evaluate, h, Value.asBool]

theorem ite_short_else (c t e : Expr) (h : evaluate req es env c = .ok (.prim (.bool false))) :
    evaluate req es env (.ite c t e) = evaluate req es env e := by
  simp [evaluate, h, Value.asBool]

/-- an error in the left operand always surfaces -/
theorem and_left_error (a b : Expr) (err : ErrClass) (h : evaluate req es env a = .error err) :
    evaluate req es env (.and a b) = .error err := by
  simp [evaluate, h]

theorem or_left_error (a b : Expr) (err : ErrClass) (h : evaluate req es env a = .error err) :
    evaluate req es env (.or a b) = .error err := by
  simp [evaluate, h]

/-- a non-boolean in an evaluated operand is a type error: left operand -/
theorem and_left_nonbool (a b : Expr) (v : Value) (h : evaluate req es env a = .ok v)
    (hv : ∀ x, v ≠ .prim (.bool x)) : evaluate req es env (.and a b) = .error .type := by
  have : v.asBool = .error .type := by
    cases v with
    | prim p => cases p <;> simp_all [Value.asBool]
    | _ => rfl
  simp [evaluate, h, this]

/-- … and right operand, when it is evaluated -/
theorem and_right_nonbool (a b : Expr) (v : Value) (ha : evaluate req es env a = .ok (.prim (.bool true)))
    (h : evaluate req es env b = .ok v) (hv : ∀ x, v ≠ .prim (.bool x)) :
    evaluate req es env (.and a b) = .error .type := by
  have : v.asBool = .error .type := by
    cases v with
    | prim p => cases p <;> simp_all [Value.asBool]
    | _ => rfl
  simp [evaluate, ha, h, Value.asBool]

theorem or_right_nonbool (a b : Expr) (v : Value) (ha : evaluate req es env a = .ok (.prim (.bool false)))
    (h : evaluate req es env b = .ok v) (hv : ∀ x, v ≠ .prim (.bool x)) :
    evaluate req es env (.or a b) = .error .type := by
  have : v.asBool = .error .type := by
    cases v with
    | prim p => cases p <;> simp_all [Value.asBool]
    | _ => rfl
  simp [evaluate, ha, h, Value.asBool]

theorem ite_guard_nonbool (c t e : Expr) (v : Value) (h : evaluate req es env c = .ok v)
    (hv : ∀ x, v ≠ .prim (.bool x)) : evaluate req es env (.ite c t e) = .error .type := by
  have : v.asBool = .error .type := by
    cases v with
    | prim p => cases p <;> simp_all [Value.asBool]
    | _ => rfl
  simp [evaluate, h, this]

/-- binary operators evaluate both operands, left first: a left error wins over a right error -/
theorem binary_left_to_right (op : BinaryOp) (a b : Expr) (e1 : ErrClass)
    (h : evaluate req es env a = .error e1) : evaluate req es env (.binaryApp op a b) = .error e1 := by
  simp [evaluate, h]

theorem binary_right_error (op : BinaryOp) (a b : Expr) (v : Value) (e2 : ErrClass)
    (ha : evaluate req es env a = .ok v) (h : evaluate req es env b = .error e2) :
    evaluate req es env (.binaryApp op a b) = .error e2 := by
  simp [evaluate, ha, h]

/-! ### checked 64-bit arithmetic -/

/-- `+ - *` return the exact integer iff it is representable, otherwise `overflow` -/
theorem arith_checked (a b : Int) :
    applyBinary es .add (vint a) (vint b) = (if i64Min ≤ a + b ∧ a + b ≤ i64Max then .ok (vint (a + b)) else .error .overflow) ∧
    applyBinary es .sub (vint a) (vint b) = (if i64Min ≤ a - b ∧ a - b ≤ i64Max then .ok (vint (a - b)) else .error .overflow) ∧
    applyBinary es .mul (vint a) (vint b) = (if i64Min ≤ a * b ∧ a * b ≤ i64Max then .ok (vint (a * b)) else .error .overflow) := by
  refine ⟨?_, ?_, ?_⟩ <;>
    simp only [applyBinary, vint, Value.asInt, intOrErr, inI64, bind, Except.bind, Bool.and_eq_true, decide_eq_true_eq]

theorem neg_checked (a : Int) :
    applyUnary .neg (vint a) = (if i64Min ≤ -a ∧ -a ≤ i64Max then .ok (vint (-a)) else .error .overflow) := by
  simp only [applyUnary, vint, Value.asInt, intOrErr, inI64, bind, Except.bind, Bool.and_eq_true, decide_eq_true_eq]

theorem neg_min_overflows : applyUnary .neg (vint i64Min) = .error .overflow := by rfl

/-! ### total structural equality -/

/-- `==` never errors on values and is the semantic equality `Value.beq` -/
theorem eq_total (v1 v2 : Value) : applyBinary es .eq v1 v2 = .ok (vbool (Value.beq v1 v2)) := rfl

theorem eq_refl (v : Value) : Value.beq v v = true := Value.beq_rfl v
theorem eq_symm (a b : Value) : Value.beq a b = Value.beq b a := Value.beq_symm (a.size) a b (Nat.le_refl _)
theorem eq_trans (a b c : Value) : Value.beq a b = true → Value.beq b c = true → Value.beq a c = true :=
  Value.beq_trans _ a b c (Nat.le_refl _)

/-- values of different kinds are unequal (never an error) -/
theorem eq_cross_kind (p : Prim) (vs : List Value) (kvs : List (String × Value)) (x : Ext) :
    Value.beq (.prim p) (.set vs) = false ∧ Value.beq (.prim p) (.record kvs) = false ∧
    Value.beq (.prim p) (.ext x) = false ∧ Value.beq (.set vs) (.record kvs) = false ∧
    Value.beq (.set vs) (.ext x) = false ∧ Value.beq (.record kvs) (.ext x) = false := by
  simp [Value.beq]

/-! ### sets -/

theorem contains_spec (s : List Value) (v : Value) :
    applyBinary es .contains (.set s) v = .ok (vbool true) ↔ ∃ w, w ∈ s ∧ Value.beq v w = true := by
  simp only [applyBinary, Value.asSet, bind, Except.bind, vbool]
  rw [← Value.elem_iff]
  constructor
  · intro h; injection h with h; injection h with h; injection h
  · intro h; rw [h]

theorem containsAll_spec (s1 s2 : List Value) :
    applyBinary es .containsAll (.set s1) (.set s2) = .ok (vbool true) ↔
      ∀ a, a ∈ s2 → ∃ w, w ∈ s1 ∧ Value.beq a w = true := by
  simp only [applyBinary, Value.asSet, bind, Except.bind, vbool]
  have : Value.subset s2 s1 = true ↔ ∀ a, a ∈ s2 → ∃ w, w ∈ s1 ∧ Value.beq a w = true := by
    rw [Value.subset_iff]; simp only [Value.elem_iff]
  rw [← this]
  constructor
  · intro h; injection h with h; injection h with h; injection h
  · intro h; rw [h]

theorem containsAny_spec (s1 s2 : List Value) :
    applyBinary es .containsAny (.set s1) (.set s2) = .ok (vbool true) ↔
      ∃ a, a ∈ s1 ∧ ∃ w, w ∈ s2 ∧ Value.beq a w = true := by
  simp only [applyBinary, Value.asSet, bind, Except.bind, vbool]
  have : (s1.any (Value.elem · s2)) = true ↔ ∃ a, a ∈ s1 ∧ ∃ w, w ∈ s2 ∧ Value.beq a w = true := by
    simp only [List.any_eq_true, Value.elem_iff]
  rw [← this]
  constructor
  · intro h; injection h with h; injection h with h; injection h
  · intro h; rw [h]

theorem isEmpty_spec (s : List Value) : applyUnary .isEmpty (.set s) = .ok (vbool s.isEmpty) := rfl

/-- set operators on a non-set are type errors -/
theorem contains_nonset (v w : Value) (h : ∀ s, v ≠ .set s) : applyBinary es .contains v w = .error .type := by
  cases v <;> simp_all [applyBinary, Value.asSet, bind, Except.bind]

/-- set construction is duplicate-free modulo `beq` … -/
theorem mkSet_mem (xs : List Value) (v : Value) :
    Value.elem v (Value.mkSet xs) = Value.elem v xs := by
  induction xs generalizing v with
  | nil => rfl
  | cons x xs ih =>
    simp only [Value.mkSet]
    by_cases hx : Value.elem x (Value.mkSet xs) = true
    · simp only [hx, if_true]
      rw [ih v]
      rw [ih x] at hx
      rw [Value.elem]
      cases hvx : Value.beq v x
      · simp
      · simp only [Bool.true_or]
        -- v ≈ x and x ∈ xs ⇒ v ∈ xs
        obtain ⟨w, hw, hxw⟩ := (Value.elem_iff x xs).mp hx
        exact (Value.elem_iff v xs).mpr ⟨w, hw, eq_trans v x w hvx hxw⟩
    · simp only [hx, Bool.false_eq_true, if_false]
      rw [Value.elem, Value.elem, ih v]

/-- … and order- and duplicate-insensitive: two element lists with the same members (modulo `beq`)
    build equal sets -/
theorem set_order_dup_insensitive (xs ys : List Value)
    (h : ∀ v, Value.elem v xs = Value.elem v ys) :
    Value.beq (.set (Value.mkSet xs)) (.set (Value.mkSet ys)) = true := by
  have sub : ∀ as bs : List Value, (∀ v, Value.elem v as = Value.elem v bs) →
      Value.subset (Value.mkSet as) (Value.mkSet bs) = true := by
    intro as bs hab
    rw [Value.subset_iff]
    intro a ha
    rw [mkSet_mem, ← hab, ← mkSet_mem]
    exact (Value.elem_iff a _).mpr ⟨a, ha, eq_refl a⟩
  rw [Value.beq]
  simp only [Bool.and_eq_true]
  exact ⟨sub xs ys h, sub ys xs (fun v => (h v).symm)⟩


/-! ### `Set`'s fast (all-literal hash set) and authoritative paths agree -/

/-- C02: under the `FastRepr` invariant — established by every constructor (`make_fastRepr`) — each
    operation of the mirror of `ast::value::Set` that picks a fast path returns what the authoritative
    (slow) path returns, i.e. what `evaluate` uses: membership, subset, disjointness and equality modulo `beq`. -/
theorem set_fast_slow_agree (s o : SetRepr) (hs : s.FastRepr) (ho : o.FastRepr) (v : Value) :
    s.contains v = Value.elem v s.authoritative ∧
    s.isSubset o = Value.subset s.authoritative o.authoritative ∧
    s.isDisjoint o = !(s.authoritative.any (fun v => Value.elem v o.authoritative)) ∧
    s.eq o = Value.beq (.set s.authoritative) (.set o.authoritative) :=
  ⟨contains_fast_slow s hs v, isSubset_fast_slow s o hs ho, isDisjoint_fast_slow s o hs ho, eq_fast_slow s o hs ho⟩

theorem set_constructor_establishes_fastRepr (vs : List Value) : (SetRepr.make vs).FastRepr := make_fastRepr vs

/-! ### hierarchy membership, `has`, attribute access -/

/-- `in` is reflexive, also for entities absent from the store -/
theorem in_refl (u : EntityUID) : applyBinary es .mem (.prim (.entityUID u)) (.prim (.entityUID u)) = .ok (vbool true) := by
  simp [applyBinary, Value.asEntity, bind, Except.bind, inE, vbool]

/-- `in` against a uid reads the stored ancestor set (transitively closed by C04) -/
theorem in_uid_spec (u1 u2 : EntityUID) :
    applyBinary es .mem (.prim (.entityUID u1)) (.prim (.entityUID u2)) =
      .ok (vbool (u1 == u2 || match es.find? u1 with | some d => d.ancestors.contains u2 | none => false)) := rfl


/-- a store is transitively closed when every entity's ancestor set contains the ancestors of its ancestors
    (what C04 establishes for every store the library builds) -/
def TransitivelyClosed (es : Entities) : Prop :=
  ∀ u d, es.find? u = some d → ∀ a, a ∈ d.ancestors → ∀ d', es.find? a = some d' → ∀ b, b ∈ d'.ancestors → b ∈ d.ancestors

/-- `in` is transitive on a transitively closed store (and reflexive by `in_refl`) -/
theorem in_trans (h : TransitivelyClosed es) (u1 u2 u3 : EntityUID)
    (h12 : inE es u1 u2 = true) (h23 : inE es u2 u3 = true) : inE es u1 u3 = true := by
  unfold inE at *
  simp only [Bool.or_eq_true, beq_iff_eq] at *
  rcases h12 with rfl | h12
  · exact h23
  · rcases h23 with rfl | h23
    · exact Or.inr h12
    · right
      cases h1 : es.find? u1 with
      | none => simp [h1] at h12
      | some d1 =>
        simp only [h1, List.contains_eq_mem, decide_eq_true_eq] at h12 ⊢
        cases h2 : es.find? u2 with
        | none => simp [h2] at h23
        | some d2 =>
          simp only [h2, List.contains_eq_mem, decide_eq_true_eq] at h23
          exact h u1 d1 h1 u2 h12 d2 h2 u3 h23

/-- `in` against a set of entities is "in any element" -/
theorem in_set_any (u : EntityUID) (us : List EntityUID) :
    applyBinary es .mem (.prim (.entityUID u)) (.set (us.map (fun x => .prim (.entityUID x)))) =
      .ok (vbool (us.any (inE es u ·))) := by
  have : asEntityList (us.map (fun x => Value.prim (.entityUID x))) = .ok us := by
    induction us with
    | nil => rfl
    | cons x xs ih => simp [asEntityList, Value.asEntity, ih, bind, Except.bind]
  simp [applyBinary, Value.asEntity, bind, Except.bind, this, vbool]

/-- `has` on an entity that is not in the store is `false`, not an error -/
theorem has_absent_entity_false (e : Expr) (u : EntityUID) (a : String)
    (h : evaluate req es env e = .ok (.prim (.entityUID u))) (habs : es.find? u = none) :
    evaluate req es env (.hasAttr e a) = .ok (.prim (.bool false)) := by
  simp [evaluate, h, habs]

/-- attribute access on an absent entity is a missing-entity error -/
theorem getAttr_absent_entity_errors (e : Expr) (u : EntityUID) (a : String)
    (h : evaluate req es env e = .ok (.prim (.entityUID u))) (habs : es.find? u = none) :
    evaluate req es env (.getAttr e a) = .error .entity := by
  simp [evaluate, h, habs]

/-- attribute access on a present entity / record: the value or a missing-attribute error -/
theorem getAttr_entity (e : Expr) (u : EntityUID) (a : String) (d : EntityData)
    (h : evaluate req es env e = .ok (.prim (.entityUID u))) (hd : es.find? u = some d) :
    evaluate req es env (.getAttr e a) = (match lookupKV d.attrs a with | some v => .ok v | none => .error .attr) := by
  simp only [evaluate, h, hd]
  cases lookupKV d.attrs a <;> rfl

theorem hasTag_absent_entity_false (u : EntityUID) (t : String) (habs : es.find? u = none) :
    applyBinary es .hasTag (.prim (.entityUID u)) (.prim (.string t)) = .ok (vbool false) := by
  simp [applyBinary, Value.asEntity, Value.asString, bind, Except.bind, habs, vbool]

/-- `is` tests the entity type only -/
theorem is_spec (e : Expr) (u : EntityUID) (ty : EntityType)
    (h : evaluate req es env e = .ok (.prim (.entityUID u))) :
    evaluate req es env (.is e ty) = .ok (.prim (.bool (u.ty == ty))) := by
  simp [evaluate, h, Value.asEntity]

/-- `like` through the evaluator -/
theorem like_eval (e : Expr) (s : String) (p : Pattern)
    (h : evaluate req es env e = .ok (.prim (.string s))) :
    evaluate req es env (.like e p) = .ok (.prim (.bool true)) ↔ Matches p s.toList := by
  simp only [evaluate, h, Value.asString]
  rw [← like_correct]
  constructor
  · intro h; injection h with h; injection h with h; injection h
  · intro h; rw [h]

/-- non-vacuity: concrete evaluations exercising the hypotheses above -/
example :
    let req : Request := ⟨⟨"U", "a"⟩, ⟨"A", "x"⟩, ⟨"R", "r"⟩, [("n", .prim (.int 1))]⟩
    evaluate req [] [] (.and (.lit (.bool false)) (.getAttr (.var .context) "nosuch")) = .ok (.prim (.bool false)) ∧
    evaluate req [] [] (.and (.lit (.bool true)) (.lit (.int 1))) = .error .type ∧
    evaluate req [] [] (.hasAttr (.lit (.entityUID ⟨"U", "zz"⟩)) "n") = .ok (.prim (.bool false)) ∧
    evaluate req [] [] (.binaryApp .add (.lit (.int i64Max)) (.getAttr (.var .context) "n")) = .error .overflow := by
  refine ⟨by rfl, by rfl, by rfl, by rfl⟩

end Cedar.C02
