import CedarVerif.Lemmas.BatchedUids
import CedarVerif.Lemmas.TpeViews
import CedarVerif.Lemmas.TpeValidTotal
import CedarVerif.Thm.C03
/-
C15 — batched (loader-driven) authorization equals ordinary authorization.  Property theorems only
(helpers: Lemmas/Batched*.lean).  Model: Cedar/Batched.lean (`run budget loader`), on top of Cedar/Tpe.lean.
The loop is treated for ARBITRARY loaders; what a theorem needs of the loader is a named hypothesis:
`StepOk` (no round fails: true of loaders that never return an id that is already loaded — the others run into the
`Duplicate` error, known finding C15-loader-repeat-duplicate), `Complete` (everything asked for is returned),
`Faithful loader es` (what the loader returns for an id is what the store `es` holds, `None` iff absent).

PROVED: `budget_monotone` (full); `batched_decision_sound` — every decision `run b` returns is the decision of ordinary
authorization, for every budget and every faithful loader, from C14's `interpret_typeSafe` and the lemma
**missing ≡ empty** (`Tpe.eval_pad`: padding a store with empty entities changes no evaluation result up to the error
class), WITHOUT any hypothesis about the states of the loop; what remains are three hypotheses about the INPUT:
`TypedSafe` (no node of a typed condition raises a type error on request and store — validation), `TypedAgrees` (the
typed condition evaluates like the policy condition), and for `enough_budget_sound` also `CondsBool` (conditions are
boolean-valued).  `enough_budget_sound`: progress (`interpret_partial_unloaded`: a `Partial` residual under a concrete
request and fully known entities mentions an unloaded id) and Bool-typedness of the residuals are now PROVED; the only
remaining hypothesis about the loop is boundedness `hU` (the ids requested stay inside the universe `U`) — and
`enough_budget_full` PROVES that too (`interpret_uidsIn`: ids of an interpreted residual are ids of the input, of the
request, or of loaded attribute / tag values), from `Universe U q es tps`: a checkable condition on the INPUT (`U` holds
the ids of the request, of the typed conditions and of the attribute / tag values of the store).  `LoopInv` and
`SoundStates` no longer occur as hypotheses of the main theorems.
The older `batched_decision_sound_partial` / `enough_budget` (under the abstract `SoundStates` / `LoopInv`) are kept: the
new theorems instantiate them with the concrete invariant `SInv`.
FROM VALIDATION (C03): `batched_decision_sound_valid` / `enough_budget_full_valid` replace `TypedSafe`, `TypedAgrees`,
`CondsBool` and "`policy_residual_map` succeeds" by validation-level hypotheses — `SchemaWF2 s`, `ValidTyped s env tps` (static
policies accepted by `checkPolicy .strict` in every environment, whose typed conditions are `Level.annotate`'s typed AST for
`env`, erased — what `typed.into_expr()` hands to the model), `env` the unlinked environment of the request, `Conformant s q es`
(C11 `ConformsRequest` / `StoreConforms`, C03 `ActionsPresent`) — via Lemmas/TpeValid*.lean (`Valid.annot_typeSafe`: C03's
induction re-run over `annotate` with a per-node invariant; see the header of Thm/C14.lean).
-/
namespace Cedar.C15
open Cedar Cedar.Tpe Cedar.Batched Cedar.Tpe.Valid

/-- **budget_monotone** (full, for every loader whose rounds do not fail): enlarging the budget never changes a
decision already obtained.  No soundness fact is needed: `interpret` returns `Concrete` / `Error` residuals unchanged,
so re-interpretation only refines `Partial` residuals, and the decision table is monotone under such refinements. -/
theorem budget_monotone (loader : Loader) (q : Request) (tps : List TPolicy) (hok : StepOk (prequestOf q) loader)
    (b : Nat) (d : Decision) (h : run b loader q tps = .ok d) : run (b + 1) loader q tps = .ok d := by
  unfold run at h ⊢
  cases hi : initState (prequestOf q) tps with
  | none => simp [hi] at h
  | some st =>
    simp only [hi] at h ⊢
    unfold runFrom at h ⊢
    cases hl : loop (prequestOf q) loader b st with
    | none => simp [hl] at h
    | some st1 =>
      simp only [hl] at h
      cases hd : st1.decision (prequestOf q) with
      | none => simp [hd] at h
      | some d' =>
        simp only [hd, Outcome.ok.injEq] at h; subst h
        obtain ⟨st2, h2, hd2⟩ := loop_mono hok b st st1 d' hl hd
        simp [h2, hd2]

/-- `budget_monotone` iterated: a decision obtained with budget `b` is the answer for every larger budget -/
theorem budget_monotone_le (loader : Loader) (q : Request) (tps : List TPolicy) (hok : StepOk (prequestOf q) loader)
    (b b' : Nat) (hle : b ≤ b') (d : Decision) (h : run b loader q tps = .ok d) : run b' loader q tps = .ok d := by
  induction b' with
  | zero => have : b = 0 := by omega
            subst this; exact h
  | succ n ih =>
    by_cases hb : b = n + 1
    · subst hb; exact h
    · exact budget_monotone loader q tps hok n d (ih (by omega))

/-- **enough_budget**: with `U` ⊇ the distinct entity ids occurring in the store, the request and the policies, every
budget larger than `|U|` yields a decision (never `insufficient`).  Measure: ids of `U` not yet loaded; each non-final
round loads at least one (`LoopInv.progress`), all requested ids are in `U` (`LoopInv.bounded`).  The two facts about
`interpret` — a `Partial` residual under a concrete request mentions an entity whose data is missing, and residuals of
Bool-typed conditions stay Bool-typed — are the explicit hypothesis `LoopInv` (they are properties of the residuals
`interpret` produces; not derived here for all arms, hence an assumption of this theorem). -/
theorem enough_budget (loader : Loader) (q : Request) (tps : List TPolicy) (U : List EntityUID) (Inv : State → Prop)
    (hI : LoopInv (prequestOf q) loader U Inv) (hok : StepOk (prequestOf q) loader) (hl : Complete loader)
    (st0 : State) (h0 : initState (prequestOf q) tps = some st0) (hinv0 : Inv st0)
    (b : Nat) (hb : U.length < b) : ∃ d, run b loader q tps = .ok d := by
  obtain ⟨st', hl', hd', hinv'⟩ := loop_terminates hI hok hl b st0 hinv0 (Nat.lt_of_le_of_lt (unseen_le U st0) hb)
  obtain ⟨d, hd⟩ := done_decides (prequestOf q) st' (hI.boolTyped st' hinv') hd'
  exact ⟨d, by simp [run, h0, runFrom, hl', hd]⟩

/-- the loop keeps an invariant that every round keeps -/
theorem loop_inv {req : Tpe.PRequest} {loader : Loader} {Inv : State → Prop}
    (hstep : ∀ st st', Inv st → step req loader st = some st' → Inv st') :
    ∀ b st st', Inv st → loop req loader b st = some st' → Inv st' := by
  intro b
  induction b with
  | zero => intro st st' hi h; simp only [loop, Option.some.injEq] at h; subst h; exact hi
  | succ n ih =>
    intro st st' hi h
    simp only [loop] at h
    cases hs : step req loader st with
    | none => simp [hs] at h
    | some st1 =>
      simp only [hs] at h
      have hi1 := hstep st st1 hi hs
      split at h
      · simp only [Option.some.injEq] at h; subst h; exact hi1
      · exact ih st1 st' hi1 h

/-- TPE soundness for the states of the loop, as the named hypothesis of `batched_decision_sound_partial`: at every
reachable state (the store loaded so far is a sub-store of `es`, with missing entities as empty ones — "missing ≡
empty": an absent entity and an attribute-less, parent-less, tag-less one give every policy the same outcome class) a
policy in a definite bucket has that outcome under ordinary evaluation over the whole store. -/
structure SoundStates (q : Request) (es : Entities) (loader : Loader) (Inv : State → Prop) : Prop where
  step : ∀ st st', Inv st → Batched.step (prequestOf q) loader st = some st' → Inv st'
  sound : ∀ st, Inv st → ∀ rp, rp ∈ st.residuals → rp.residual.cls.Consistent (rp.original.outcome q es)
  wf : ∀ st, Inv st → ∀ rp, rp ∈ st.residuals → rp.effect = rp.original.effect ∧ rp.id = rp.original.id

/-- **batched_decision_sound_partial**: whenever `run b` returns a decision it is the decision of ordinary
authorization over the store — for every budget and every loader — GIVEN TPE soundness at the states of the loop
(`SoundStates`; C14's `interpret_sound_partial` proves the per-residual fact on a fragment of `interpret`, which is why
this theorem carries it as a hypothesis).  The proof is the decision-table lemma `tpe_table_sound` at the final state. -/
theorem batched_decision_sound_partial (loader : Loader) (q : Request) (es : Entities) (tps : List TPolicy)
    (Inv : State → Prop) (hS : SoundStates q es loader Inv)
    (st0 : State) (h0 : initState (prequestOf q) tps = some st0) (hinv0 : Inv st0)
    (hpol : ∀ st, Inv st → st.residuals.map (·.original) = tps.map (·.policy))
    (b : Nat) (d : Decision) (h : run b loader q tps = .ok d) :
    d = (Cedar.isAuthorized q es (tps.map (·.policy))).decision := by
  unfold run at h
  simp only [h0, runFrom] at h
  cases hl : loop (prequestOf q) loader b st0 with
  | none => simp [hl] at h
  | some st1 =>
    simp only [hl] at h
    cases hd : st1.decision (prequestOf q) with
    | none => simp [hd] at h
    | some d' =>
      simp only [hd, Outcome.ok.injEq] at h; subst h
      have hinv1 := loop_inv hS.step b st0 st1 hinv0 hl
      let r : Tpe.Response := ⟨st1.residuals, prequestOf q, st1.entities⟩
      have hwf : r.WF := hS.wf st1 hinv1
      have hc := concrete_decision_eq r hwf q es
      have ht := table_sound_core r (fun rp => rp.original.outcome q es) (hS.sound st1 hinv1) d' hd
      have hp : r.policySet = tps.map (·.policy) := hpol st1 hinv1
      rw [hp] at hc
      rw [hc]; exact ht.symm

/-- **batched_decision_sound**: whenever `run b` returns a decision, it is the decision of ordinary authorization over
the store `es` — for EVERY budget and EVERY loader that answers from `es` (`Faithful`; it may return more than asked, it
may miss entities: those are loaded as empty ones).  No hypothesis about the states of the loop: `SoundStates` is
discharged with the invariant `SInv` (the loaded store is completed by `es` padded with empty entities for the ids
loaded as missing — `completes_pad`; each residual evaluates on every such completion like the typed condition it
started from — C14 `interpret_typeSafe`, step by step; and evaluation on the padded store is evaluation on `es` —
**missing ≡ empty**, `eval_pad`).  Hypotheses about the input only: `TypedSafe` (dynamic type safety of the typed
conditions on `q`, `es`: what validation gives) and `TypedAgrees` (typed condition ≈ policy condition). -/
theorem batched_decision_sound (loader : Loader) (q : Request) (es : Entities) (tps : List TPolicy)
    (hF : Faithful loader es) (hT : TypedSafe q es tps) (hE : TypedAgrees q es tps)
    (b : Nat) (d : Decision) (h : run b loader q tps = .ok d) :
    d = (Cedar.isAuthorized q es (tps.map (·.policy))).decision := by
  cases h0 : initState (prequestOf q) tps with
  | none => simp [run, h0] at h
  | some st0 =>
    exact batched_decision_sound_partial loader q es tps (SInv q es tps)
      ⟨fun _ _ hi hs => sinv_step hF hi hs, fun _ hi => sinv_sound hE hi, fun _ hi => sinv_wf hi⟩
      st0 h0 (sinv_init hT h0) (fun _ hi => hi.pols) b d h

/-- **enough_budget_sound**: with `U` ⊇ the ids ever requested (`hU`), every budget larger than `|U|` yields a decision,
and it is the decision of ordinary authorization.  Progress of the loop and Bool-typedness of the residuals are proved
(`sinv_loopInv`: `interpret_partial_unloaded`, `sinv_boolTyped`); `LoopInv` is no longer a hypothesis. -/
theorem enough_budget_sound (loader : Loader) (q : Request) (es : Entities) (tps : List TPolicy) (U : List EntityUID)
    (hF : Faithful loader es) (hok : StepOk (prequestOf q) loader) (hl : Complete loader)
    (hT : TypedSafe q es tps) (hE : TypedAgrees q es tps) (hB : CondsBool q es tps)
    (hU : ∀ st, SInv q es tps st → ∀ u, u ∈ st.toLoad → u ∈ U)
    (st0 : State) (h0 : initState (prequestOf q) tps = some st0)
    (b : Nat) (hb : U.length < b) :
    run b loader q tps = .ok (Cedar.isAuthorized q es (tps.map (·.policy))).decision := by
  obtain ⟨d, hd⟩ := enough_budget loader q tps U (SInv q es tps) (sinv_loopInv hF hE hB hU) hok hl st0 h0 (sinv_init hT h0) b hb
  rw [hd, batched_decision_sound loader q es tps hF hT hE b d hd]

/-- **enough_budget_full**: NO hypothesis about the loop.  If `U` contains the ids of the request, of the typed conditions
and of the attribute / tag values of the store (`Universe`), then every budget larger than `|U|` yields a decision — the
decision of ordinary authorization — for every faithful, complete loader whose rounds do not fail (`StepOk`: see the known
finding about repeating loaders).  Remaining hypotheses are about the input: `TypedSafe`, `TypedAgrees`, `CondsBool`
(validation), and that `policy_residual_map` succeeds (`h0`: no slot / unknown in a policy). -/
theorem enough_budget_full (loader : Loader) (q : Request) (es : Entities) (tps : List TPolicy) (U : List EntityUID)
    (hF : Faithful loader es) (hok : StepOk (prequestOf q) loader) (hl : Complete loader)
    (hT : TypedSafe q es tps) (hE : TypedAgrees q es tps) (hB : CondsBool q es tps) (hU : Universe U q es tps)
    (st0 : State) (h0 : initState (prequestOf q) tps = some st0)
    (b : Nat) (hb : U.length < b) :
    run b loader q tps = .ok (Cedar.isAuthorized q es (tps.map (·.policy))).decision := by
  obtain ⟨d, hd⟩ := enough_budget loader q tps U (SInvU q es tps U) (sinvU_loopInv hF hE hB hU) hok hl st0 h0
    (sinvU_init hT hU h0) b hb
  rw [hd, batched_decision_sound loader q es tps hF hT hE b d hd]

/-- the store loader is faithful -/
theorem storeLoader_faithful (es : Entities) : Faithful (storeLoader es) es := by
  intro ids u d hm
  simp only [storeLoader, List.mem_map] at hm
  obtain ⟨u', _, heq⟩ := hm
  cases heq; rfl

/-- the exact store loader never fails a round: it returns exactly the requested ids, which are duplicate-free and not
    loaded yet -/
theorem storeLoader_complete (es : Entities) : Complete (storeLoader es) := by
  intro ids u hu
  simp only [storeLoader, List.map_map, List.mem_map]
  exact ⟨u, hu, rfl⟩

/-- non-vacuity (and the model agreeing with the probe of the harness): a policy that needs two loading rounds
    (`principal has manager && principal.manager.name like "*"`): budgets 0 and 1 are insufficient, 2 and 3 allow -/
example :
    let user (mgr : Option String) : EntityData :=
      ⟨(match mgr with | some m => [("manager", Value.prim (.entityUID ⟨"User", m⟩))] | none => []) ++ [("name", .prim (.string "x"))], [], []⟩
    let es : Entities := [(⟨"User", "a"⟩, user (some "b")), (⟨"User", "b"⟩, user none)]
    let q : Request := ⟨⟨"User", "a"⟩, ⟨"Action", "view"⟩, ⟨"Doc", "d"⟩, []⟩
    let cond : Expr := .and (.hasAttr (.var .principal) "manager") (.like (.getAttr (.getAttr (.var .principal) "manager") "name") [.star])
    let tps : List TPolicy := [⟨⟨"p0", .permit, cond, []⟩, cond⟩]
    run 0 (storeLoader es) q tps = .insufficient ∧ run 1 (storeLoader es) q tps = .insufficient ∧
    run 2 (storeLoader es) q tps = .ok .allow ∧ run 3 (storeLoader es) q tps = .ok .allow ∧
    (Cedar.isAuthorized q es (tps.map (·.policy))).decision = .allow := by
  decide +kernel

/-- non-vacuity of `batched_decision_sound` / `enough_budget_sound`: their hypotheses about the input hold for the
    two-round example above (`principal has manager && principal.manager.name like "*"`, exact store loader) -/
example :
    let user (mgr : Option String) : EntityData :=
      ⟨(match mgr with | some m => [("manager", Value.prim (.entityUID ⟨"User", m⟩))] | none => []) ++ [("name", .prim (.string "x"))], [], []⟩
    let es : Entities := [(⟨"User", "a"⟩, user (some "b")), (⟨"User", "b"⟩, user none)]
    let q : Request := ⟨⟨"User", "a"⟩, ⟨"Action", "view"⟩, ⟨"Doc", "d"⟩, []⟩
    let cond : Expr := .and (.hasAttr (.var .principal) "manager") (.like (.getAttr (.getAttr (.var .principal) "manager") "name") [.star])
    let tps : List TPolicy := [⟨⟨"p0", .permit, cond, []⟩, cond⟩]
    Faithful (storeLoader es) es ∧ TypedSafe q es tps ∧ TypedAgrees q es tps ∧ CondsBool q es tps ∧
    Universe [⟨"User", "a"⟩, ⟨"Action", "view"⟩, ⟨"Doc", "d"⟩, ⟨"User", "b"⟩] q es tps := by
  intro user es q cond tps
  let l : Residual := .part (.hasAttr (.part (.var .principal) "") "manager") ""
  let r : Residual := .part (.like (.part (.getAttr (.part (.getAttr (.part (.var .principal) "") "manager") "") "name") "") [.star]) ""
  have hl : l.eval q es = .ok (.prim (.bool true)) := by rfl
  have hr : r.eval q es = .ok (.prim (.bool true)) := by rfl
  refine ⟨storeLoader_faithful es, ?_, ?_, ?_, ?_⟩
  rotate_left 3
  · refine ⟨⟨?_, by decide, ?_, ?_⟩, ?_, ?_⟩
    · intro u hu; cases hu; decide
    · intro u hu; cases hu; decide
    · intro c hc; cases hc; intro x hx; cases hx
    · intro u d hf
      simp only [es, Entities.find?] at hf
      split at hf
      · cases hf
        refine ⟨?_, fun x hx => by cases hx⟩
        intro x hx
        simp only [user, List.cons_append, List.nil_append, valueUidsKVs, valueUids, List.append_nil, List.mem_singleton] at hx
        subst hx; decide
      · split at hf
        · cases hf
          exact ⟨fun x hx => by simp [user, valueUidsKVs, valueUids] at hx, fun x hx => by cases hx⟩
        · cases hf
    · intro tp htp r0 h0
      simp only [tps, List.mem_singleton] at htp; subst htp
      have h1 : Residual.ofExpr cond = some (.part (.and l r) "") := by rfl
      rw [h1] at h0; cases h0
      exact uidsIn_nil rfl
  · intro tp htp r0 h0
    simp only [tps, List.mem_singleton] at htp; subst htp
    have h1 : Residual.ofExpr cond = some (.part (.and l r) "") := by rfl
    rw [h1] at h0; cases h0
    refine .and (.hasAttr (.var _ _) ?_) ?_ (fun _ => .like (.getAttr (.getAttr (.var _ _))) ?_) ?_
    · intro v hv
      have : (Residual.part (.var .principal) "").eval q es = .ok (.prim (.entityUID ⟨"User", "a"⟩)) := by rfl
      rw [this] at hv; cases hv; simp [hasAttrV, Entities.find?]
    · intro v hv; rw [hl] at hv; cases hv; exact ⟨true, rfl⟩
    · intro v hv
      have : (Residual.part (.getAttr (.part (.getAttr (.part (.var .principal) "") "manager") "") "name") "").eval q es =
          .ok (.prim (.string "x")) := by rfl
      rw [this] at hv; cases hv; simp [likeV, Value.asString]
    · intro _ v hv; rw [hr] at hv; cases hv; exact ⟨true, rfl⟩
  · intro tp htp
    simp only [tps, List.mem_singleton] at htp; subst htp
    exact Agree.rfl' _
  · intro tp htp v hv
    simp only [tps, List.mem_singleton] at htp; subst htp
    have : evaluate q es [] cond = .ok (.prim (.bool true)) := by rfl
    rw [this] at hv; cases hv; exact ⟨true, rfl⟩

/-! ### from VALIDATION-level hypotheses (C03), Lemmas/TpeValid*.lean -/

/-- **batched_decision_sound_valid**: `batched_decision_sound` with `TypedSafe` / `TypedAgrees` DERIVED from C03's strict
soundness: for strictly valid static policies typed for the environment of a conformant request (store conformant, action
entities present), every decision `run b` returns — every budget, every faithful loader — is the ordinary decision. -/
theorem batched_decision_sound_valid (s : Schema) (hWF : C03.SchemaWF2 s) (env : RequestEnv)
    (loader : Loader) (q : Request) (es : Entities) (tps : List TPolicy)
    (hF : Faithful loader es) (hV : ValidTyped s env tps) (hq : Conformant s q es) (he : EnvOf s env q)
    (b : Nat) (d : Decision) (h : run b loader q tps = .ok d) :
    d = (Cedar.isAuthorized q es (tps.map (·.policy))).decision :=
  batched_decision_sound loader q es tps hF (valid_typedSafe hWF hV hq he) (valid_typedAgrees hWF hV hq he) b d h

/-- **enough_budget_full_valid**: `enough_budget_full` with `TypedSafe`, `TypedAgrees`, `CondsBool` and the success of
`policy_residual_map` DERIVED from validation: every budget above `|U|` yields the ordinary decision.  Remaining hypotheses:
the loader (`Faithful`, `StepOk`, `Complete`) and `Universe U` (a checkable condition on the input). -/
theorem enough_budget_full_valid (s : Schema) (hWF : C03.SchemaWF2 s) (env : RequestEnv)
    (loader : Loader) (q : Request) (es : Entities) (tps : List TPolicy) (U : List EntityUID)
    (hF : Faithful loader es) (hok : StepOk (prequestOf q) loader) (hl : Complete loader)
    (hV : ValidTyped s env tps) (hq : Conformant s q es) (he : EnvOf s env q) (hU : Universe U q es tps)
    (b : Nat) (hb : U.length < b) :
    run b loader q tps = .ok (Cedar.isAuthorized q es (tps.map (·.policy))).decision := by
  obtain ⟨st0, h0⟩ := valid_initState_some hV he.pslot he.rslot (prequestOf q)
  exact enough_budget_full loader q es tps U hF hok hl (valid_typedSafe hWF hV hq he) (valid_typedAgrees hWF hV hq he)
    (valid_condsBool hWF hV hq he) hU st0 h0 b hb

/-- **batched_total_valid**: on validated static policies the batched evaluator never answers `TpeError` -/
theorem batched_total_valid (s : Schema) (env : RequestEnv) (loader : Loader) (q : Request) (tps : List TPolicy)
    (hV : ValidTyped s env tps) (hp : env.principalSlot = none) (hr : env.resourceSlot = none) (b : Nat) :
    run b loader q tps ≠ .tpeError := by
  obtain ⟨st0, h0⟩ := valid_initState_some hV hp hr (prequestOf q)
  unfold run
  simp only [h0, runFrom]
  cases loop (prequestOf q) loader b st0 with
  | none => simp
  | some st1 => simp only; cases st1.decision (prequestOf q) <;> simp

/-- non-vacuity of the `…_valid` theorems: C03's example schema and world; a permit whose typed AST is the condition itself
and a forbid `resource in principal && context.level < 5` whose left operand is typed `False`, so that the typechecker hands
back `resource in principal` ALONE (the typed condition differs from the condition): all validation-level hypotheses hold,
and `Universe` for the ids of the request. -/
example :
    let c1 : Expr := .and (.binaryApp .mem (.var .resource) (.var .principal)) (.binaryApp .less (.getAttr (.var .context) "level") (.lit (.int 5)))
    let tps : List TPolicy := [⟨⟨"p0", .permit, C03.ex2Static, []⟩, C03.ex2Static⟩,
                               ⟨⟨"p1", .forbid, c1, []⟩, .binaryApp .mem (.var .resource) (.var .principal)⟩]
    let env : RequestEnv := ⟨"User", ⟨"Action", "view"⟩, "Group", C03.ex2View.context, none, none⟩
    C03.SchemaWF2 C03.ex2Schema ∧ ValidTyped C03.ex2Schema env tps ∧ EnvOf C03.ex2Schema env C03.ex2World.q ∧
    Conformant C03.ex2Schema C03.ex2World.q C03.ex2World.es ∧ Faithful (storeLoader C03.ex2World.es) C03.ex2World.es ∧
    Universe [⟨"User", "alice"⟩, ⟨"Action", "view"⟩, ⟨"Group", "admins"⟩] C03.ex2World.q C03.ex2World.es tps ∧
    run 1 (storeLoader C03.ex2World.es) C03.ex2World.q tps = .ok (Cedar.isAuthorized C03.ex2World.q C03.ex2World.es (tps.map (·.policy))).decision := by
  intro c1 tps env
  have hV : ValidTyped C03.ex2Schema env tps := by
    refine ⟨?_, ?_⟩
    · intro tp htp
      simp only [tps, List.mem_cons, List.not_mem_nil, or_false] at htp
      rcases htp with rfl | rfl
      · exact ⟨rfl, fun _ => rfl, ⟨_, rfl, rfl⟩⟩
      · exact ⟨rfl, fun _ => rfl, ⟨_, rfl, rfl⟩⟩
    · intro tp htp
      simp only [tps, List.mem_cons, List.not_mem_nil, or_false] at htp
      rcases htp with rfl | rfl
      · exact ⟨_, rfl, rfl⟩
      · exact ⟨_, rfl, rfl⟩
  refine ⟨C03.ex2_schemaWF, hV, ⟨⟨rfl, rfl, rfl, C03.ex2View, rfl, rfl⟩, rfl, rfl⟩,
    ⟨C03.ex2_request, C03.ex2_store, C03.ex2_actions⟩, storeLoader_faithful _, ?_, by decide +kernel⟩
  refine ⟨⟨?_, by decide, ?_, ?_⟩, ?_, ?_⟩
  · intro u hu; cases hu; decide
  · intro u hu; cases hu; decide
  · intro c hc; cases hc; intro x hx; simp [C03.ex2World, valueUidsKVs, valueUids] at hx
  · intro u d hf
    have hm := C03.entities_find?_mem hf
    simp only [C03.ex2World, List.mem_cons, Prod.mk.injEq, List.not_mem_nil, or_false] at hm
    rcases hm with ⟨rfl, rfl⟩ | ⟨rfl, rfl⟩ | ⟨rfl, rfl⟩ | ⟨rfl, rfl⟩ <;>
      exact ⟨fun x hx => by simp [valueUidsKVs, valueUids] at hx, fun x hx => by simp [valueUidsKVs, valueUids] at hx⟩
  · intro tp htp r0 h0
    simp only [tps, List.mem_cons, List.not_mem_nil, or_false] at htp
    rcases htp with rfl | rfl
    · have h1 : (Residual.ofExpr C03.ex2Static).map (·.uids) = some [] := by rfl
      simp only [h0, Option.map_some, Option.some.injEq] at h1
      exact uidsIn_nil h1
    · have h1 : (Residual.ofExpr (.binaryApp .mem (.var .resource) (.var .principal))).map (·.uids) = some [] := by rfl
      simp only [h0, Option.map_some, Option.some.injEq] at h1
      exact uidsIn_nil h1

end Cedar.C15
