import CedarVerif.Lemmas.LevelSound
import CedarVerif.Lemmas.LevelBridge
import CedarVerif.Lemmas.LevelFaithful
import CedarVerif.Lemmas.TypecheckDefs
import CedarVerif.Lemmas.TypecheckPolicy
import CedarVerif.Thm.C01
import CedarVerif.Thm.C11
/-
C16 — level validation guarantees that the level-n slice of the store suffices; raising n never rejects.

Model: `Cedar.Level` (Cedar/Validation/Level.lean) — `annotate` (the type-annotated AST that the typechecker returns,
with its short-circuit simplifications), `checkExpr`/`derefLevel`/`derefErrs` (mirror of `LevelChecker`), `levelPolicy`
(all request environments) — and `Cedar.Slice.atLevel` (Cedar/Slice.lean, the SPEC of the level-n slice).  Tied to
`Validator::validate_with_level` and to an independent slice implementation by the differential run of `./check C16`.

PROVED for the WHOLE mirrored checker (every expression form):
  * `level_monotone`, `level_monotone_policy` — acceptance at level n implies acceptance at level n+1;
  * `slice_monotone`, `slice_lookup`, `slice_complete` — the slice grows with n and is a sub-store of whole entities;
  * `deref_within` (the key lemma) — a dereference target of level k only evaluates to entities within k hops;
  * `level_sound_partial` — for a typed expression `te` whose kind annotations agree with the run-time values (`Kinds`),
    in the environment of the request's action: no level errors at level n ⇒ `te` evaluates over `atLevel n req store`
    exactly as over `store`;
  * `level_sound_authorization`, `level_sound_sets` — lifted to `isAuthorized` (same response, hence — with C01's
    characterisations — the same decision, determining policies and erroring policies) for policy sets whose typed ASTs are
    level-n accepted (`LevelOk`: typed AST `Faithful` on store and slice, `Kinds`, `checkLevel`).
THE FULL STATEMENT `level_sound` IS PROVED (`level_sound_strict : level_sound`), for EVERY construct of strictly valid static
policies: the two semantic hypotheses `Kinds` and `Faithful` are DERIVED from typechecker acceptance + conformance with
C03's strict-mode typechecker soundness (`soundM`, Lemmas/TypecheckSound2.lean) by `annot_res` (Lemmas/LevelFaithful.lean):
  * `Faithful` on the store: the typechecker's simplifications (`if` with a test typed `True`/`False` returned with one
    branch twice; `a && b` with `a` typed `False` and `a || b` with `a` typed `True` returned as `a`) preserve evaluation,
    errors included — an expression typed `True` evaluates to `true` or fails, so the dropped branch/operand never runs;
  * `Kinds`: the value at each evaluated `.`/`has` target is an instance of its static type (entity uid / record);
  * `Faithful` on the SLICE — not an instance of the former, because the slice violates a C03 premise (it lacks the other
    action entities): a dropped operand is justified by level soundness of its guard's typed AST (guard over slice = guard
    over store);
  * `annotate_total` (Lemmas/LevelAnnot.lean): the typed AST exists whenever `typeOf` answers.
  Theorems: `levelOk_env` / `level_sound_env` (one request environment, both validation modes on `InFragmentM`),
  `levelOk_policy` / `level_sound_policy` (policy level, linked templates included: the request's environment is among those
  checked and the slots are bound accordingly), `level_sound_strict` (= `level_sound`, static policy sets, authorizer
  response), `level_sound_linked` (policy sets with linked templates), `level_sound_strict_sets` (decision, erroring
  policies, determining policies).
  Premises of `level_sound` w.r.t. its first formulation — all C03's, added while proving, see its doc comment: `SchemaWF2`
  (true of every schema Rust constructs), `ActionsPresent` (the store holds the schema's action entities — without it the
  statement is FALSE in the model), distinct record-literal keys (a map in Rust), no slots in a static policy.
  * `level_sound_fragment` (kept) — the earlier connective-free fragment under `SchemaWF` only, both modes.
NOT proved: permissive-mode policies outside `InFragmentM .permissive` (C03's permissive soundness gap: `if`/set literals
joining entity/record/set types); for policy sets with linked templates the statement is `level_sound_linked` (its
hypotheses name, per member, the slot uses and the request's linked environment).
-/
namespace Cedar.C16
open Cedar Cedar.Level Cedar.Slice

/-! ### acceptance is monotone in the level -/

/-- C16: a typed expression accepted at maximum level `n` is accepted at `n + 1` (whole checker). -/
theorem level_monotone (n : Nat) (act : EntityUID) (te : TExpr) (h : checkLevel n act te = true) :
    checkLevel (n + 1) act te = true := by
  unfold checkLevel at *
  rw [List.isEmpty_iff] at *
  exact checkExpr_mono n act te h

theorem levelEnv_mono (n : Nat) (m : ValidationMode) (s : Schema) (env : RequestEnv) (cond : Expr)
    (h : levelEnv n m s env cond = some []) : levelEnv (n + 1) m s env cond = some [] := by
  unfold levelEnv at *
  cases hE : expectOneOf (typeOf m s env cond []) [boolT] with
  | error err => rw [hE] at h; cases err <;> simp_all
  | ok _ =>
    rw [hE] at h
    simp only at h ⊢
    cases hA : annotate m s env cond [] with
    | error err => rw [hA] at h; cases err <;> simp_all
    | ok te =>
      rw [hA] at h
      simp only [Option.some.injEq] at h ⊢
      exact checkExpr_mono n env.action te h

theorem mapM_levelEnv_mono (n : Nat) (m : ValidationMode) (s : Schema) (cond : Expr) :
    ∀ (envs : List RequestEnv) (rs : List (List LevelErr)),
      envs.mapM (fun env => levelEnv n m s env cond) = some rs → rs.flatten = [] →
      ∃ rs', envs.mapM (fun env => levelEnv (n + 1) m s env cond) = some rs' ∧ rs'.flatten = []
  | [], rs => by
      intro h _
      exact ⟨[], by simp, rfl⟩
  | env :: envs, rs => by
      intro h hf
      simp only [List.mapM_cons, bind, Option.bind] at h
      cases h1 : levelEnv n m s env cond with
      | none => simp [h1] at h
      | some r =>
        simp only [h1] at h
        cases h2 : envs.mapM (fun env => levelEnv n m s env cond) with
        | none => simp [h2] at h
        | some rs0 =>
          simp only [h2, pure, Option.some.injEq] at h
          subst h
          simp only [List.flatten_cons, List.append_eq_nil_iff] at hf
          obtain ⟨rs', hr', hf'⟩ := mapM_levelEnv_mono n m s cond envs rs0 h2 hf.2
          have hr : levelEnv (n + 1) m s env cond = some [] := levelEnv_mono n m s env cond (by rw [h1, hf.1])
          refine ⟨[] :: rs', ?_, by simpa using hf'⟩
          simp [List.mapM_cons, hr, hr']

/-- C16: "raising n never turns acceptance into rejection", for the policy-level verdict over all request environments. -/
theorem level_monotone_policy (n : Nat) (m : ValidationMode) (s : Schema) (pu ru : SlotUse) (cond : Expr)
    (h : levelPolicy n m s pu ru cond = some []) : levelPolicy (n + 1) m s pu ru cond = some [] := by
  unfold levelPolicy at *
  cases hm : (s.envs pu ru).mapM (fun env => levelEnv n m s env cond) with
  | none => simp [hm] at h
  | some rs =>
    simp only [hm, Option.map_some, Option.some.injEq] at h
    obtain ⟨rs', hr', hf'⟩ := mapM_levelEnv_mono n m s cond _ rs hm h
    simp [hr', hf']

/-! ### the slice -/

/-- C16: the slice grows with the level. -/
theorem slice_monotone (n : Nat) (req : Request) (es : Entities) (p : EntityUID × EntityData)
    (h : p ∈ atLevel n req es) : p ∈ atLevel (n + 1) req es := by
  rw [mem_atLevel] at *
  exact ⟨h.1, reach_succ_mem h.2⟩

/-- C16: the slice is a sub-store of *whole* entities: what it binds, the store binds to the same data. -/
theorem slice_lookup (n : Nat) (req : Request) (es : Entities) (u : EntityUID) (d : EntityData)
    (h : (atLevel n req es).find? u = some d) : es.find? u = some d := by
  rw [find?_atLevel] at h
  split at h
  · exact h
  · cases h

/-- C16: … and every entity within `n` hops that the store has is in the slice, unchanged. -/
theorem slice_complete (n : Nat) (req : Request) (es : Entities) (u : EntityUID) (h : u ∈ reach es req n) :
    (atLevel n req es).find? u = es.find? u := find?_atLevel_of_mem h

/-! ### soundness of the checker on the typed AST -/

/-- C16 (key lemma): a dereference target of level `k` without level errors evaluates — over the full store — only to
values whose entity uids (along the access path) lie within `k` attribute/tag hops of the request. -/
theorem deref_within (req : Request) (es : Entities) (sl : SlotEnv) (n : Nat) (act : EntityUID) (hact : req.action = act)
    (te : TExpr) (p : List String) (hk : Kinds req es sl te) (hc : derefErrs n act te p = []) (hl : derefLevel act te p < n)
    (v : Value) (hv : evaluate req es sl te.erase = .ok v) : Within req es (derefLevel act te p) (projL v p) :=
  (deref_sound hact te p hk hc hl).2 v hv

/-- C16 (`level_sound` on the typed AST, whole checker): if the kind annotations of `te` agree with the values
(`Kinds`), the request is for the environment's action, and the level checker reports nothing at maximum level `n`,
then `te` evaluates over the level-`n` slice exactly as over the full store (same value or same error). -/
theorem level_sound_partial (req : Request) (es : Entities) (sl : SlotEnv) (n : Nat) (act : EntityUID)
    (hact : req.action = act) (te : TExpr) (hk : Kinds req es sl te) (hc : checkLevel n act te = true) :
    evaluate req (atLevel n req es) sl te.erase = evaluate req es sl te.erase := by
  unfold checkLevel at hc
  rw [List.isEmpty_iff] at hc
  exact check_sound hact te hk hc

/-- the typed AST evaluates like the policy condition (what the typechecker's short-circuit simplifications preserve
on conformant data) -/
def Faithful (req : Request) (es : Entities) (sl : SlotEnv) (cond : Expr) (te : TExpr) : Prop :=
  evaluate req es sl te.erase = evaluate req es sl cond

/-- a policy whose typed AST is accepted at level `n` (in the request's environment) -/
def LevelOk (n : Nat) (req : Request) (es : Entities) (p : Policy) : Prop :=
  ∃ te, Faithful req es p.env p.condition te ∧ Faithful req (atLevel n req es) p.env p.condition te ∧
    Kinds req es p.env te ∧ checkLevel n req.action te = true

theorem outcome_slice (n : Nat) (req : Request) (es : Entities) (p : Policy) (h : LevelOk n req es p) :
    p.outcome req (atLevel n req es) = p.outcome req es := by
  obtain ⟨te, f1, f2, hk, hc⟩ := h
  unfold Policy.outcome
  rw [← f1, ← f2, level_sound_partial req es p.env n req.action rfl te hk hc]

theorem isAuthorized_congr (req : Request) (es₁ es₂ : Entities) :
    ∀ (ps : List Policy) (b : Buckets), (∀ p ∈ ps, p.outcome req es₁ = p.outcome req es₂) →
      ps.foldl (Buckets.step req es₁) b = ps.foldl (Buckets.step req es₂) b
  | [], b => by intro _; rfl
  | p :: ps, b => by
      intro h
      have hp := h p (List.mem_cons_self ..)
      have : Buckets.step req es₁ b p = Buckets.step req es₂ b p := by simp [Buckets.step, hp]
      simp only [List.foldl_cons, this]
      exact isAuthorized_congr req es₁ es₂ ps _ (fun q hq => h q (List.mem_cons_of_mem _ hq))

/-- C16: authorization over the level-`n` slice gives the same response as over the full store — the same decision,
the same determining policies (`reasons`) and the same erroring policies (`errors`). -/
theorem level_sound_authorization (n : Nat) (req : Request) (es : Entities) (ps : List Policy)
    (h : ∀ p ∈ ps, LevelOk n req es p) :
    isAuthorized req (atLevel n req es) ps = isAuthorized req es ps := by
  unfold isAuthorized
  rw [isAuthorized_congr req (atLevel n req es) es ps {} (fun p hp => outcome_slice n req es p (h p hp))]

/-- … spelled out with C01's characterisations: the decision and, per policy id, being an erroring policy and being a
satisfied policy coincide on slice and store. -/
theorem level_sound_sets (n : Nat) (req : Request) (es : Entities) (ps : List Policy)
    (h : ∀ p ∈ ps, LevelOk n req es p) :
    (isAuthorized req (atLevel n req es) ps).decision = (isAuthorized req es ps).decision ∧
    (∀ id, (∃ p, p ∈ ps ∧ id = p.id ∧ Errs req (atLevel n req es) p) ↔ (∃ p, p ∈ ps ∧ id = p.id ∧ Errs req es p)) ∧
    (∀ id, id ∈ (isAuthorized req (atLevel n req es) ps).reasons ↔ id ∈ (isAuthorized req es ps).reasons) := by
  have e := level_sound_authorization n req es ps h
  refine ⟨by rw [e], ?_, by intro id; rw [e]⟩
  intro id
  rw [← C01.errors_exact, ← C01.errors_exact, e]

/-- C16 (`level_sound` from typechecker acceptance and conformance, FRAGMENT): for the connective-free part `CF` of
C03's proved fragment (literals, variables, `.`/`has` chains through entities and records, `!`, unary `-`, `+ - *`, `==`,
`like`, `is`) the semantic hypotheses are discharged by typechecker soundness: if the typechecker model types the
expression in the environment of a conformant request, the store conforms, and the level checker accepts the typed AST
at level `n`, then the *expression itself* evaluates over the level-`n` slice as over the store. -/
theorem level_sound_fragment (n : Nat) (m : ValidationMode) (s : Schema) (env : RequestEnv) (w : World)
    (hWF : SchemaWF s) (henv : EnvMatches s env w.q) (hreq : ConformsRequest s w.q) (hst : StoreConforms s w.es)
    (e : Expr) (hf : CF e = true) (te : TExpr) (ha : annotate m s env e [] = .ok te)
    (hc : checkLevel n env.action te = true) :
    evaluate w.q (atLevel n w.q w.es) w.sl e = evaluate w.q w.es w.sl e := by
  have hk := kinds_annotate hWF henv hreq hst [] (capsHold_nil w) e te hf ha
  have h := level_sound_partial w.q w.es w.sl n env.action henv.2.1.symm te hk hc
  rw [erase_annotate m s env [] e te hf ha] at h
  exact h

/-! ### `Kinds` and `Faithful` DERIVED from typechecker soundness (C03 `soundM`: every construct) -/

/-- For a condition that the typechecker model does not reject in the environment `env` of a request, in a world that
satisfies the C03 premises (conformant request and store, action entities present, slots bound), and whose typed AST raises
no level error at `n`: the typed AST exists (`annotate_total`), is level-accepted, evaluates like the condition over the
store AND over the level-`n` slice (`Faithful` twice), and its kind annotations agree with the values (`Kinds`).
Both modes (`InFragmentM`: strict — every construct). -/
theorem levelOk_env (n : Nat) (m : ValidationMode) (s : Schema) (env : RequestEnv) (w : World)
    (hWF : C03.SchemaWF2 s) (henv : EnvMatches s env w.q) (hreq : ConformsRequest s w.q) (hst : StoreConforms s w.es)
    (hact : C03.ActionsPresent s w.es) (hsl : C03.SlotsMatch env w.sl)
    (cond : Expr) (hf : C03.InFragmentM m env cond = true) (v : Verdict) (hv : checkEnv m s env cond = some v)
    (hne : v ≠ .fail) (hl : levelEnv n m s env cond = some []) :
    ∃ te, annotate m s env cond [] = .ok te ∧ checkLevel n env.action te = true ∧ Faithful w.q w.es w.sl cond te ∧
      Faithful w.q (atLevel n w.q w.es) w.sl cond te ∧ Kinds w.q w.es w.sl te := by
  unfold checkEnv at hv
  unfold levelEnv at hl
  cases hE : expectOneOf (typeOf m s env cond []) [boolT] with
  | error err =>
    rw [hE] at hv
    cases err <;> simp at hv
    exact (hne hv.symm).elim
  | ok p =>
    rw [hE] at hl; simp only at hl
    obtain ⟨te, hte⟩ := annotate_total cond [] p (ok_of_expect hE)
    rw [hte] at hl
    simp only [Option.some.injEq] at hl
    have r := annot_res (n := n) hWF henv ⟨hreq, hst, hsl, hact⟩ cond hf [] te hte (capsHold_nil w)
    exact ⟨te, hte, by simp [checkLevel, hl], r.faithful, r.slice (Or.inl hl), r.kinds⟩

/-- C16 (`level_sound`, one request environment, NO semantic hypothesis): a condition accepted by the typechecker model
(verdict other than `fail`) and by the level checker at `n` in the environment of a conformant request evaluates over the
level-`n` slice exactly as over the store — same value or same error.  Every construct in strict mode. -/
theorem level_sound_env (n : Nat) (m : ValidationMode) (s : Schema) (env : RequestEnv) (w : World)
    (hWF : C03.SchemaWF2 s) (henv : EnvMatches s env w.q) (hreq : ConformsRequest s w.q) (hst : StoreConforms s w.es)
    (hact : C03.ActionsPresent s w.es) (hsl : C03.SlotsMatch env w.sl)
    (cond : Expr) (hf : C03.InFragmentM m env cond = true) (v : Verdict) (hv : checkEnv m s env cond = some v)
    (hne : v ≠ .fail) (hl : levelEnv n m s env cond = some []) :
    evaluate w.q (atLevel n w.q w.es) w.sl cond = evaluate w.q w.es w.sl cond := by
  obtain ⟨te, _, hc, f1, f2, hk⟩ := levelOk_env n m s env w hWF henv hreq hst hact hsl cond hf v hv hne hl
  unfold Faithful at f1 f2
  rw [← f1, ← f2]
  exact level_sound_partial w.q w.es w.sl n env.action henv.2.1.symm te hk hc

/-- every environment that `levelPolicy` lists raised no level error -/
theorem levelPolicy_mem {n : Nat} {m : ValidationMode} {s : Schema} {pu ru : SlotUse} {cond : Expr}
    (h : levelPolicy n m s pu ru cond = some []) {env : RequestEnv} (hmem : env ∈ s.envs pu ru) :
    levelEnv n m s env cond = some [] := by
  unfold levelPolicy at h
  cases hm : (s.envs pu ru).mapM (fun env => levelEnv n m s env cond) with
  | none => simp [hm] at h
  | some rs =>
    simp only [hm, Option.map_some, Option.some.injEq] at h
    obtain ⟨y, hy, hyr⟩ := C03.option_mapM_mem hm env hmem
    rw [hy, List.flatten_eq_nil_iff.mp h y hyr]

/-- POLICY LEVEL (policies and linked templates): acceptance by the strict typechecker model and by `levelPolicy n` in all
request environments ⇒ `LevelOk` in every world whose request environment is one of them. -/
theorem levelOk_policy (n : Nat) (s : Schema) (pu ru : SlotUse) (p : Policy) (vs : List (RequestEnv × Verdict))
    (req : Request) (es : Entities) (env : RequestEnv)
    (hWF : C03.SchemaWF2 s) (hmem : env ∈ s.envs pu ru) (henv : EnvMatches s env req) (hreq : ConformsRequest s req)
    (hst : StoreConforms s es) (hact : C03.ActionsPresent s es) (hsl : C03.SlotsMatch env p.env)
    (hf : C03.InFragment2 env p.condition = true)
    (hcp : checkPolicy .strict s pu ru p.condition = some vs) (hacc : accepted vs = true)
    (hl : levelPolicy n .strict s pu ru p.condition = some []) : LevelOk n req es p := by
  obtain ⟨v, hv, hvm⟩ := C03.checkPolicy_mem hcp hmem
  have hne : v ≠ .fail := by
    have := List.all_eq_true.mp hacc _ hvm
    simpa using this
  obtain ⟨te, _, hc, f1, f2, hk⟩ :=
    levelOk_env n .strict s env ⟨req, es, p.env⟩ hWF henv hreq hst hact hsl p.condition hf v hv hne (levelPolicy_mem hl hmem)
  have ha : env.action = req.action := henv.2.1
  exact ⟨te, f1, f2, hk, by rw [← ha]; exact hc⟩

/-- C16 (`level_sound`, policy level, templates included): the condition of a policy accepted by strict validation and by
level validation at `n` evaluates over the level-`n` slice as over the store, for every conformant request (whose
environment is among those checked, with the policy's slots bound accordingly) and conformant store. -/
theorem level_sound_policy (n : Nat) (s : Schema) (pu ru : SlotUse) (p : Policy) (vs : List (RequestEnv × Verdict))
    (req : Request) (es : Entities) (env : RequestEnv)
    (hWF : C03.SchemaWF2 s) (hmem : env ∈ s.envs pu ru) (henv : EnvMatches s env req) (hreq : ConformsRequest s req)
    (hst : StoreConforms s es) (hact : C03.ActionsPresent s es) (hsl : C03.SlotsMatch env p.env)
    (hf : C03.InFragment2 env p.condition = true)
    (hcp : checkPolicy .strict s pu ru p.condition = some vs) (hacc : accepted vs = true)
    (hl : levelPolicy n .strict s pu ru p.condition = some []) :
    evaluate req (atLevel n req es) p.env p.condition = evaluate req es p.env p.condition ∧
    p.outcome req (atLevel n req es) = p.outcome req es := by
  have hok := levelOk_policy n s pu ru p vs req es env hWF hmem henv hreq hst hact hsl hf hcp hacc hl
  refine ⟨?_, outcome_slice n req es p hok⟩
  obtain ⟨te, f1, f2, hk, hc⟩ := hok
  unfold Faithful at f1 f2
  rw [← f1, ← f2]
  exact level_sound_partial req es p.env n req.action rfl te hk hc

/-- FULL STATEMENT of C16's soundness half (static policies).  For a resolved schema, a policy set every member of which is
accepted by the strict typechecker model and by the level checker at maximum level `n` in every request environment, a
request and a store that conform to the schema: authorization over the level-`n` slice equals authorization over the store.
Premises added while proving it (all are C03's, Thm/C03.lean): `SchemaWF2` instead of `SchemaWF` (facts true of every
schema Rust constructs), `ActionsPresent` (the store holds the schema's action entities, as `Entities::from_entities(..,
schema)` guarantees — without it `action in Action::"g"`, typed `True` from the action hierarchy and therefore dropped from
an `if`, evaluates to `false` and the un-levelled branch runs: the statement is false), record literals with distinct keys
(Rust's `ExprKind::Record` is a map) and no slots in a static policy (`SlotsLinked` in every environment). -/
def level_sound : Prop :=
  ∀ (n : Nat) (s : Schema) (ps : List Policy) (req : Request) (es : Entities),
    C03.SchemaWF2 s → ConformsRequest s req → StoreConforms s es → C03.ActionsPresent s es →
    (∀ p ∈ ps, p.env = [] ∧ C03.RecordKeysDistinct p.condition = true ∧ (∀ env, C03.SlotsLinked env p.condition = true) ∧
      (∃ vs, checkPolicy .strict s .absent .absent p.condition = some vs ∧ accepted vs = true) ∧
      levelPolicy n .strict s .absent .absent p.condition = some []) →
    isAuthorized req (atLevel n req es) ps = isAuthorized req es ps

/-- every member of such a policy set is `LevelOk` -/
theorem levelOk_static (n : Nat) (s : Schema) (p : Policy) (req : Request) (es : Entities)
    (hWF : C03.SchemaWF2 s) (hreq : ConformsRequest s req) (hst : StoreConforms s es) (hact : C03.ActionsPresent s es)
    (h : p.env = [] ∧ C03.RecordKeysDistinct p.condition = true ∧ (∀ env, C03.SlotsLinked env p.condition = true) ∧
      (∃ vs, checkPolicy .strict s .absent .absent p.condition = some vs ∧ accepted vs = true) ∧
      levelPolicy n .strict s .absent .absent p.condition = some []) : LevelOk n req es p := by
  obtain ⟨_, hk, hlinked, ⟨vs, hcp, hacc⟩, hl⟩ := h
  obtain ⟨env, hmem, henv, hp, hr⟩ := C03.conformant_request_env hreq
  have hsl : C03.SlotsMatch env p.env :=
    ⟨fun t ht => (by rw [hp] at ht; cases ht), fun t ht => (by rw [hr] at ht; cases ht)⟩
  exact levelOk_policy n s .absent .absent p vs req es env hWF hmem henv hreq hst hact hsl
    (C03.inFragment2_of env p.condition hk (hlinked env)) hcp hacc hl

/-- C16: THE FULL STATEMENT `level_sound` IS PROVED — for every strictly valid, level-`n` valid static policy set (all
constructs), conformant request and store: the authorizer response over the level-`n` slice is the response over the
store. -/
theorem level_sound_strict : level_sound := by
  intro n s ps req es hWF hreq hst hact h
  exact level_sound_authorization n req es ps (fun p hp => levelOk_static n s p req es hWF hreq hst hact (h p hp))

/-- C16 (`level_sound` for policy sets that may contain LINKED TEMPLATES): every member is accepted by strict validation and
level validation at `n` for its slot uses `pu ru`, the request's environment is one of the member's linked environments and
the member's slot values have the slot types of that environment. -/
theorem level_sound_linked (n : Nat) (s : Schema) (ps : List Policy) (req : Request) (es : Entities)
    (hWF : C03.SchemaWF2 s) (hreq : ConformsRequest s req) (hst : StoreConforms s es) (hact : C03.ActionsPresent s es)
    (h : ∀ p ∈ ps, ∃ pu ru env vs, env ∈ s.envs pu ru ∧ EnvMatches s env req ∧ C03.SlotsMatch env p.env ∧
      C03.InFragment2 env p.condition = true ∧ checkPolicy .strict s pu ru p.condition = some vs ∧ accepted vs = true ∧
      levelPolicy n .strict s pu ru p.condition = some []) :
    isAuthorized req (atLevel n req es) ps = isAuthorized req es ps := by
  refine level_sound_authorization n req es ps (fun p hp => ?_)
  obtain ⟨pu, ru, env, vs, hmem, henv, hsl, hf, hcp, hacc, hl⟩ := h p hp
  exact levelOk_policy n s pu ru p vs req es env hWF hmem henv hreq hst hact hsl hf hcp hacc hl

/-- … spelled out: same decision, same erroring policies, same determining policies -/
theorem level_sound_strict_sets (n : Nat) (s : Schema) (ps : List Policy) (req : Request) (es : Entities)
    (hWF : C03.SchemaWF2 s) (hreq : ConformsRequest s req) (hst : StoreConforms s es) (hact : C03.ActionsPresent s es)
    (h : ∀ p ∈ ps, p.env = [] ∧ C03.RecordKeysDistinct p.condition = true ∧ (∀ env, C03.SlotsLinked env p.condition = true) ∧
      (∃ vs, checkPolicy .strict s .absent .absent p.condition = some vs ∧ accepted vs = true) ∧
      levelPolicy n .strict s .absent .absent p.condition = some []) :
    (isAuthorized req (atLevel n req es) ps).decision = (isAuthorized req es ps).decision ∧
    (∀ id, (∃ p, p ∈ ps ∧ id = p.id ∧ Errs req (atLevel n req es) p) ↔ (∃ p, p ∈ ps ∧ id = p.id ∧ Errs req es p)) ∧
    (∀ id, id ∈ (isAuthorized req (atLevel n req es) ps).reasons ↔ id ∈ (isAuthorized req es ps).reasons) :=
  level_sound_sets n req es ps (fun p hp => levelOk_static n s p req es hWF hreq hst hact (h p hp))

/-! ### non-vacuity -/

def principal : TExpr := .var .principal
/-- `principal.next.next….flag` with `k` hops -/
def chain : Nat → TExpr
  | 0 => principal
  | k + 1 => .getAttr .entity (chain k) "next"
def chainFlag (k : Nat) : TExpr := .getAttr .entity (chain k) "flag"
def act : EntityUID := ⟨"Action", "view"⟩

/-- a chain of `n` dereferences is accepted at level `n` and rejected at `n − 1` -/
example : checkLevel 3 act (chainFlag 2) = true ∧ checkLevel 2 act (chainFlag 2) = false := by decide
example : checkLevel 1 act (chainFlag 0) = true ∧ checkLevel 0 act (chainFlag 0) = false := by decide
example : checkExpr 2 act (chainFlag 4) = [.maxExceeded 5] := by decide
/-- record-literal access paths: `{foo: principal, bar: principal.next.next}.foo.flag` needs level 2 because of `bar` -/
def recPath : TExpr :=
  .getAttr .entity (.getAttr .record (.record [("bar", chain 2), ("foo", principal)]) "foo") "flag"
example : checkLevel 2 act recPath = true ∧ checkLevel 1 act recPath = false ∧ derefLevel act (.getAttr .record (.record [("bar", chain 2), ("foo", principal)]) "foo") [] = 0 := by decide
/-- entity literals cannot be dereferenced, except the environment's action -/
example : checkExpr 4 act (.getAttr .entity (.lit (.entityUID ⟨"User", "alice"⟩)) "flag") = [.litDeref] := by decide
example : checkLevel 1 act (.binaryApp .mem (.lit (.entityUID act)) (.var .action)) = true := by decide
/-- `if` as a dereference target takes the maximum of its branches -/
example : checkLevel 3 act (.getAttr .entity (.ite (.lit (.bool true)) (chain 1) (chain 2)) "flag") = true ∧
          checkLevel 2 act (.getAttr .entity (.ite (.lit (.bool true)) (chain 1) (chain 2)) "flag") = false := by decide

/-- through the typechecker model: schema `User { next: User, flag: Bool }`, action `view` on users -/
def exUser : EntityTypeEntry :=
  { attrs := [("flag", true, .bool .anyBool), ("next", true, .entity ["User"])], isOpen := false, tags := none, descendants := [], enumIds := none }
def exView : ActionEntry :=
  { principals := ["User"], resources := ["User"], context := .record [] false, descendants := [], ancestors := [], attrs := [] }
def exSchema : Schema := { ets := [("User", exUser)], acts := [(act, exView)] }
def exEnv : RequestEnv :=
  { principal := "User", action := act, resource := "User", context := exView.context, principalSlot := none, resourceSlot := none }
/-- `principal.next.flag` -/
def exCond : Expr := .getAttr (.getAttr (.var .principal) "next") "flag"
example : annotate .strict exSchema exEnv exCond [] = .ok (chainFlag 1) := by rfl
/-- the syntactic hypotheses of `level_sound_fragment` on this input (its remaining hypotheses are C03's: a well-formed
schema, a conformant request and store) -/
example : CF exCond = true ∧ annotate .strict exSchema exEnv exCond [] = .ok (chainFlag 1) ∧
    checkLevel 2 exEnv.action (chainFlag 1) = true := ⟨by decide, by rfl, by decide⟩
example : levelPolicy 2 .strict exSchema .absent .absent exCond = some [] := by decide +kernel
example : levelPolicy 1 .strict exSchema .absent .absent exCond = some [.maxExceeded 2] := by decide +kernel
/-- the typechecker's short circuit removes `principal.flag` from `true || principal.flag`: level 0 suffices -/
example : levelPolicy 0 .strict exSchema .absent .absent (.or (.lit (.bool true)) (.getAttr (.var .principal) "flag")) = some [] := by
  decide +kernel

/-- a store a → b → c (→ a) and a request by `a`: the slices at 0, 1, 2 hops are strictly increasing -/
def u (i : String) : EntityUID := ⟨"User", i⟩
def ent (i j : String) (f : Bool) : EntityUID × EntityData :=
  (u i, { attrs := [("flag", .prim (.bool f)), ("next", .prim (.entityUID (u j)))], ancestors := [], tags := [] })
def exStore : Entities := [ent "a" "b" false, ent "b" "c" true, ent "c" "a" false, ent "d" "a" true]
def exReq : Request := ⟨u "a", act, u "a", []⟩
example : (atLevel 0 exReq exStore).map (·.1) = [u "a"] := by decide +kernel
example : (atLevel 1 exReq exStore).map (·.1) = [u "a", u "b"] := by decide +kernel
example : (atLevel 2 exReq exStore).map (·.1) = [u "a", u "b", u "c"] := by decide +kernel
/-- `principal.next.flag` (level 2): same result on the 2-hop slice (in fact already on the 1-hop slice), not on the 0-hop slice -/
example : evaluate exReq (atLevel 2 exReq exStore) [] (chainFlag 1).erase = evaluate exReq exStore [] (chainFlag 1).erase ∧
          evaluate exReq exStore [] (chainFlag 1).erase = .ok (.prim (.bool true)) ∧
          evaluate exReq (atLevel 0 exReq exStore) [] (chainFlag 1).erase = .error .entity := by
  refine ⟨?_, ?_, ?_⟩ <;> rfl

/-- the hypotheses of `level_sound_partial` instantiated on this input -/
example : evaluate exReq (atLevel 2 exReq exStore) [] (chainFlag 1).erase = evaluate exReq exStore [] (chainFlag 1).erase := by
  refine level_sound_partial exReq exStore [] 2 act rfl (chainFlag 1) ?_ (by decide)
  simp only [chainFlag, chain, Kinds, principal, true_and]
  refine ⟨?_, ?_⟩
  · intro v hv
    have : evaluate exReq exStore [] (TExpr.var .principal).erase = .ok (.prim (.entityUID (u "a"))) := by rfl
    rw [this] at hv; cases hv; rfl
  · intro v hv
    have : evaluate exReq exStore [] (TExpr.getAttr .entity (.var .principal) "next").erase = .ok (.prim (.entityUID (u "b"))) := by
      rfl
    rw [this] at hv; cases hv; rfl

/-! ### non-vacuity of `level_sound_strict`: ALL its hypotheses instantiated

schema `User { next: User, flag: Bool }`, action `view` on users; the store a → b → c → a, d → a plus the action entity;
the static policy `permit when (true || principal.next.next.next.flag) && principal.next.flag`: the typechecker drops the
3-hop operand of `||` (left operand typed `True`), so level 2 suffices although the condition mentions a level-4 access. -/

def exStoreA : Entities := exStore ++ [(act, { attrs := [], ancestors := [], tags := [] })]
def exCondS : Expr :=
  .and (.or (.lit (.bool true)) (.getAttr (.getAttr (.getAttr (.getAttr (.var .principal) "next") "next") "next") "flag"))
       (.getAttr (.getAttr (.var .principal) "next") "flag")
def exPolicy : Policy := { id := "p0", effect := .permit, condition := exCondS, env := [] }

theorem ex_schemaWF : C03.SchemaWF2 exSchema where
  et_mono := by
    intro T et h
    have hm := C03.entityType?_mem' h
    simp only [exSchema, List.mem_cons, Prod.mk.injEq, List.not_mem_nil, or_false] at hm
    obtain ⟨rfl, rfl⟩ := hm
    exact ⟨rfl, fun t ht => by simp [exUser] at ht⟩
  act_wf := by
    intro u a h
    have hm := C03.action?_mem h
    simp only [exSchema, List.mem_cons, Prod.mk.injEq, List.not_mem_nil, or_false] at hm
    obtain ⟨rfl, rfl⟩ := hm
    exact ⟨rfl, rfl⟩
  no_action_etype := by
    intro T hT
    cases h : exSchema.entityType? T with
    | none => rfl
    | some et =>
      have hm := C03.entityType?_mem' h
      simp only [exSchema, List.mem_cons, Prod.mk.injEq, List.not_mem_nil, or_false] at hm
      obtain ⟨rfl, _⟩ := hm
      exact absurd hT (by decide)
  ets_map := by
    intro p hp
    simp only [exSchema, List.mem_cons, List.not_mem_nil, or_false] at hp
    subst hp; rfl
  act_type := by
    intro u a h
    have hm := C03.action?_mem h
    simp only [exSchema, List.mem_cons, Prod.mk.injEq, List.not_mem_nil, or_false] at hm
    obtain ⟨rfl, _⟩ := hm
    decide
  act_anc_desc := by
    intro u a h p hp
    have hm := C03.action?_mem h
    simp only [exSchema, List.mem_cons, Prod.mk.injEq, List.not_mem_nil, or_false] at hm
    obtain ⟨rfl, rfl⟩ := hm
    simp [exView] at hp
  act_desc_anc := by
    intro u a h d hd
    have hm := C03.action?_mem h
    simp only [exSchema, List.mem_cons, Prod.mk.injEq, List.not_mem_nil, or_false] at hm
    obtain ⟨rfl, rfl⟩ := hm
    simp [exView] at hd

theorem ex_request : ConformsRequest exSchema exReq :=
  (Cedar.C11.checkRequest_iff _ _).mp ((ok_iff_isOkB _).mpr (by decide +kernel))

theorem ex_store : StoreConforms exSchema exStoreA := by
  intro uid d h
  have hm := C03.entities_find?_mem h
  simp only [exStoreA, exStore, List.cons_append, List.nil_append, List.mem_cons, Prod.mk.injEq, List.not_mem_nil,
    or_false] at hm
  rcases hm with ⟨rfl, rfl⟩ | ⟨rfl, rfl⟩ | ⟨rfl, rfl⟩ | ⟨rfl, rfl⟩ | ⟨rfl, rfl⟩ <;>
    exact (Cedar.C11.checkEntity_iff exSchema (by decide +kernel) _ _).mp ((ok_iff_isOkB _).mpr (by decide +kernel))

theorem ex_actions : C03.ActionsPresent exSchema exStoreA := by
  intro u a h
  have hm := C03.action?_mem h
  simp only [exSchema, List.mem_cons, Prod.mk.injEq, List.not_mem_nil, or_false] at hm
  obtain ⟨rfl, _⟩ := hm
  exact ⟨_, rfl⟩

/-- the policy is strictly valid, needs level 2 (not 1), although its condition contains a level-4 access -/
example : checkPolicy .strict exSchema .absent .absent exCondS = some [(exEnv, .bool)] := rfl
example : levelPolicy 2 .strict exSchema .absent .absent exCondS = some [] := by decide +kernel
example : levelPolicy 1 .strict exSchema .absent .absent exCondS = some [.maxExceeded 2] := by decide +kernel
/-- the level-2 slice is a proper sub-store (it lacks `d`) -/
example : (atLevel 2 exReq exStoreA).map (·.1) = [u "a", u "b", u "c", act] := by decide +kernel
/-- `level_sound_strict` applies: every hypothesis holds on this input … -/
example : isAuthorized exReq (atLevel 2 exReq exStoreA) [exPolicy] = isAuthorized exReq exStoreA [exPolicy] :=
  level_sound_strict 2 exSchema [exPolicy] exReq exStoreA ex_schemaWF ex_request ex_store ex_actions (by
    intro p hp
    simp only [List.mem_singleton] at hp
    subst hp
    exact ⟨rfl, by decide, fun _ => rfl, ⟨[(exEnv, .bool)], rfl, rfl⟩, by decide +kernel⟩)
/-- … and the response is not trivial: the policy is satisfied (b.flag = true) and determines `allow` -/
example : (isAuthorized exReq exStoreA [exPolicy]).decision = .allow ∧ (isAuthorized exReq exStoreA [exPolicy]).reasons = ["p0"] := by
  decide +kernel

/-! ### why `ActionsPresent` is a premise: without the action entities the statement fails (in the model)

`action view in [read]`; `if action in Action::"read" then true else principal.next.next.flag` is typed with the test `True`
(from the schema's action hierarchy), so its typed AST is `if … then true else true`: level 1.  Over a store WITHOUT the
action entities the test evaluates to `false`, the un-levelled `else` branch runs, and the level-1 slice lacks `b`. -/
def readG : EntityUID := ⟨"Action", "read"⟩
def exViewG : ActionEntry := { exView with ancestors := [readG] }
def exReadG : ActionEntry :=
  { principals := [], resources := [], context := .record [] false, descendants := [act], ancestors := [], attrs := [] }
def exSchemaG : Schema := { ets := [("User", exUser)], acts := [(readG, exReadG), (act, exViewG)] }
def exCondG : Expr :=
  .ite (.binaryApp .mem (.var .action) (.lit (.entityUID readG))) (.lit (.bool true))
       (.getAttr (.getAttr (.getAttr (.var .principal) "next") "next") "flag")
def exPolicyG : Policy := { id := "g", effect := .permit, condition := exCondG, env := [] }
def exReqD : Request := ⟨u "d", act, u "d", []⟩
example : (checkPolicy .strict exSchemaG .absent .absent exCondG).map accepted = some true := by decide +kernel
example : levelPolicy 1 .strict exSchemaG .absent .absent exCondG = some [] := by decide +kernel
/-- `exStore` holds no action entity: slice and store disagree … -/
example : (isAuthorized exReqD (atLevel 1 exReqD exStore) [exPolicyG]).decision = .deny ∧
          (isAuthorized exReqD exStore [exPolicyG]).decision = .allow := by decide +kernel
/-- … with the action entities (as `Entities::from_entities(.., schema)` adds them) they agree, as `level_sound_strict` says -/
def exStoreG : Entities :=
  exStore ++ [(readG, { attrs := [], ancestors := [], tags := [] }), (act, { attrs := [], ancestors := [readG], tags := [] })]
example : (isAuthorized exReqD (atLevel 1 exReqD exStoreG) [exPolicyG]).decision = .allow ∧
          (isAuthorized exReqD exStoreG [exPolicyG]).decision = .allow := by decide +kernel

end Cedar.C16
