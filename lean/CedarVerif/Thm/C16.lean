import CedarVerif.Lemmas.LevelSound
import CedarVerif.Lemmas.LevelBridge
import CedarVerif.Lemmas.TypecheckDefs
import CedarVerif.Thm.C01
/-
C16 — level validation guarantees that the level-n slice of the store suffices; raising n never rejects.

Model: `Cedar.Level` (Cedar/Validation/Level.lean) — `annotate` (the type-annotated AST that the typechecker returns,
with its short-circuit simplifications), `checkExpr`/`derefLevel`/`derefErrs` (mirror of `LevelChecker`), `levelPolicy`
(all request environments) — and `Cedar.Slice.atLevel` (Cedar/Slice.lean, the SPEC of the level-n slice).  Tied to
`Validator::validate_with_level` and to an independent slice implementation by the differential run of `./check C16`.

PROVED for the WHOLE mirrored checker (every expression form):
  * `level_monotone`, `level_monotone_policy` — acceptance at level n implies acceptance at level n+1;
  * `slice_monotone`, `slice_lookup` — the slice grows with n and is a sub-store of whole entities;
  * `deref_within` (the key lemma) — a dereference target of level k only evaluates to entities within k hops;
  * `level_sound_partial` — for a typed expression `te` whose kind annotations agree with the run-time values (`Kinds`),
    in the environment of the request's action: no level errors at level n ⇒ `te` evaluates over `atLevel n req store`
    exactly as over `store`;
  * `level_sound_fragment` — for the connective-free part of C03's proved fragment (`.`/`has` chains through entities
    and records, literals, variables, `!`, `-`, `+ - *`, `==`, `like`, `is`) the hypothesis `Kinds` is DERIVED from typechecker
    acceptance + conformance (C03 `typeOf_sound_aux`), and the typed AST is the expression itself: the statement is
    about `evaluate e` with no semantic hypothesis left;
  * `level_sound_authorization` — lifted to `isAuthorized` (same response, hence — with C01's characterisations — the same
    decision, determining policies and erroring policies) for policy sets whose typed ASTs are level-n accepted.
FULL STATEMENT: `level_sound` (a `def … : Prop`): the same conclusion from *typechecker acceptance and conformance* of
request and store instead of the two semantic hypotheses `Kinds` (annotations agree with values) and `Faithful` (the
typed AST evaluates like the condition).  Both are consequences of typechecker soundness (C03 `typeOf_sound`, itself
proved for a fragment only); that derivation is NOT proved here.  It is covered by the implementation-level search of
harness/src/c16.rs (slice vs full store on every generated accepted policy set, conformant requests and stores).
-/
namespace Cedar.C16
open Cedar Cedar.Level Cedar.Slice

/-! ### acceptance is monotone in the level -/

/-- C16: a typed expression accepted at maximum level `n` is accepted at `n + 1` (whole checker). -/
theorem level_monotone (n : Nat) (act : EntityUID) (te : TExpr) (h : checkLevel n act te = true) :
    checkLevel (n + 1) act te = true := by
  unfold checkLevel at *
  rw [List.isEmpty_iff] at *
  exact checkExpr_mono n act te h

theorem levelEnv_mono (n : Nat) (m : ValidationMode) (s : Schema) (env : RequestEnv) (cond : Expr)
    (h : levelEnv n m s env cond = some []) : levelEnv (n + 1) m s env cond = some [] := by
  unfold levelEnv at *
  cases hE : expectOneOf (typeOf m s env cond []) [boolT] with
  | error err => rw [hE] at h; cases err <;> simp_all
  | ok _ =>
    rw [hE] at h
    simp only at h ⊢
    cases hA : annotate m s env cond [] with
    | error err => rw [hA] at h; cases err <;> simp_all
    | ok te =>
      rw [hA] at h
      simp only [Option.some.injEq] at h ⊢
      exact checkExpr_mono n env.action te h

theorem mapM_levelEnv_mono (n : Nat) (m : ValidationMode) (s : Schema) (cond : Expr) :
    ∀ (envs : List RequestEnv) (rs : List (List LevelErr)),
      envs.mapM (fun env => levelEnv n m s env cond) = some rs → rs.flatten = [] →
      ∃ rs', envs.mapM (fun env => levelEnv (n + 1) m s env cond) = some rs' ∧ rs'.flatten = []
  | [], rs => by
      intro h _
      exact ⟨[], by simp, rfl⟩
  | env :: envs, rs => by
      intro h hf
      simp only [List.mapM_cons, bind, Option.bind] at h
      cases h1 : levelEnv n m s env cond with
      | none => simp [h1] at h
      | some r =>
        simp only [h1] at h
        cases h2 : envs.mapM (fun env => levelEnv n m s env cond) with
        | none => simp [h2] at h
        | some rs0 =>
          simp only [h2, pure, Option.some.injEq] at h
          subst h
          simp only [List.flatten_cons, List.append_eq_nil_iff] at hf
          obtain ⟨rs', hr', hf'⟩ := mapM_levelEnv_mono n m s cond envs rs0 h2 hf.2
          have hr : levelEnv (n + 1) m s env cond = some [] := levelEnv_mono n m s env cond (by rw [h1, hf.1])
          refine ⟨[] :: rs', ?_, by simpa using hf'⟩
          simp [List.mapM_cons, hr, hr']

/-- C16: "raising n never turns acceptance into rejection", for the policy-level verdict over all request environments. -/
theorem level_monotone_policy (n : Nat) (m : ValidationMode) (s : Schema) (pu ru : SlotUse) (cond : Expr)
    (h : levelPolicy n m s pu ru cond = some []) : levelPolicy (n + 1) m s pu ru cond = some [] := by
  unfold levelPolicy at *
  cases hm : (s.envs pu ru).mapM (fun env => levelEnv n m s env cond) with
  | none => simp [hm] at h
  | some rs =>
    simp only [hm, Option.map_some, Option.some.injEq] at h
    obtain ⟨rs', hr', hf'⟩ := mapM_levelEnv_mono n m s cond _ rs hm h
    simp [hr', hf']

/-! ### the slice -/

/-- C16: the slice grows with the level. -/
theorem slice_monotone (n : Nat) (req : Request) (es : Entities) (p : EntityUID × EntityData)
    (h : p ∈ atLevel n req es) : p ∈ atLevel (n + 1) req es := by
  rw [mem_atLevel] at *
  exact ⟨h.1, reach_succ_mem h.2⟩

/-- C16: the slice is a sub-store of *whole* entities: what it binds, the store binds to the same data. -/
theorem slice_lookup (n : Nat) (req : Request) (es : Entities) (u : EntityUID) (d : EntityData)
    (h : (atLevel n req es).find? u = some d) : es.find? u = some d := by
  rw [find?_atLevel] at h
  split at h
  · exact h
  · cases h

/-- C16: … and every entity within `n` hops that the store has is in the slice, unchanged. -/
theorem slice_complete (n : Nat) (req : Request) (es : Entities) (u : EntityUID) (h : u ∈ reach es req n) :
    (atLevel n req es).find? u = es.find? u := find?_atLevel_of_mem h

/-! ### soundness of the checker on the typed AST -/

/-- C16 (key lemma): a dereference target of level `k` without level errors evaluates — over the full store — only to
values whose entity uids (along the access path) lie within `k` attribute/tag hops of the request. -/
theorem deref_within (req : Request) (es : Entities) (sl : SlotEnv) (n : Nat) (act : EntityUID) (hact : req.action = act)
    (te : TExpr) (p : List String) (hk : Kinds req es sl te) (hc : derefErrs n act te p = []) (hl : derefLevel act te p < n)
    (v : Value) (hv : evaluate req es sl te.erase = .ok v) : Within req es (derefLevel act te p) (projL v p) :=
  (deref_sound hact te p hk hc hl).2 v hv

/-- C16 (`level_sound` on the typed AST, whole checker): if the kind annotations of `te` agree with the values
(`Kinds`), the request is for the environment's action, and the level checker reports nothing at maximum level `n`,
then `te` evaluates over the level-`n` slice exactly as over the full store (same value or same error). -/
theorem level_sound_partial (req : Request) (es : Entities) (sl : SlotEnv) (n : Nat) (act : EntityUID)
    (hact : req.action = act) (te : TExpr) (hk : Kinds req es sl te) (hc : checkLevel n act te = true) :
    evaluate req (atLevel n req es) sl te.erase = evaluate req es sl te.erase := by
  unfold checkLevel at hc
  rw [List.isEmpty_iff] at hc
  exact check_sound hact te hk hc

/-- the typed AST evaluates like the policy condition (what the typechecker's short-circuit simplifications preserve
on conformant data) -/
def Faithful (req : Request) (es : Entities) (sl : SlotEnv) (cond : Expr) (te : TExpr) : Prop :=
  evaluate req es sl te.erase = evaluate req es sl cond

/-- a policy whose typed AST is accepted at level `n` (in the request's environment) -/
def LevelOk (n : Nat) (req : Request) (es : Entities) (p : Policy) : Prop :=
  ∃ te, Faithful req es p.env p.condition te ∧ Faithful req (atLevel n req es) p.env p.condition te ∧
    Kinds req es p.env te ∧ checkLevel n req.action te = true

theorem outcome_slice (n : Nat) (req : Request) (es : Entities) (p : Policy) (h : LevelOk n req es p) :
    p.outcome req (atLevel n req es) = p.outcome req es := by
  obtain ⟨te, f1, f2, hk, hc⟩ := h
  unfold Policy.outcome
  rw [← f1, ← f2, level_sound_partial req es p.env n req.action rfl te hk hc]

theorem isAuthorized_congr (req : Request) (es₁ es₂ : Entities) :
    ∀ (ps : List Policy) (b : Buckets), (∀ p ∈ ps, p.outcome req es₁ = p.outcome req es₂) →
      ps.foldl (Buckets.step req es₁) b = ps.foldl (Buckets.step req es₂) b
  | [], b => by intro _; rfl
  | p :: ps, b => by
      intro h
      have hp := h p (List.mem_cons_self ..)
      have : Buckets.step req es₁ b p = Buckets.step req es₂ b p := by simp [Buckets.step, hp]
      simp only [List.foldl_cons, this]
      exact isAuthorized_congr req es₁ es₂ ps _ (fun q hq => h q (List.mem_cons_of_mem _ hq))

/-- C16: authorization over the level-`n` slice gives the same response as over the full store — the same decision,
the same determining policies (`reasons`) and the same erroring policies (`errors`). -/
theorem level_sound_authorization (n : Nat) (req : Request) (es : Entities) (ps : List Policy)
    (h : ∀ p ∈ ps, LevelOk n req es p) :
    isAuthorized req (atLevel n req es) ps = isAuthorized req es ps := by
  unfold isAuthorized
  rw [isAuthorized_congr req (atLevel n req es) es ps {} (fun p hp => outcome_slice n req es p (h p hp))]

/-- … spelled out with C01's characterisations: the decision and, per policy id, being an erroring policy and being a
satisfied policy coincide on slice and store. -/
theorem level_sound_sets (n : Nat) (req : Request) (es : Entities) (ps : List Policy)
    (h : ∀ p ∈ ps, LevelOk n req es p) :
    (isAuthorized req (atLevel n req es) ps).decision = (isAuthorized req es ps).decision ∧
    (∀ id, (∃ p, p ∈ ps ∧ id = p.id ∧ Errs req (atLevel n req es) p) ↔ (∃ p, p ∈ ps ∧ id = p.id ∧ Errs req es p)) ∧
    (∀ id, id ∈ (isAuthorized req (atLevel n req es) ps).reasons ↔ id ∈ (isAuthorized req es ps).reasons) := by
  have e := level_sound_authorization n req es ps h
  refine ⟨by rw [e], ?_, by intro id; rw [e]⟩
  intro id
  rw [← C01.errors_exact, ← C01.errors_exact, e]

/-- C16 (`level_sound` from typechecker acceptance and conformance, FRAGMENT): for the connective-free part `CF` of
C03's proved fragment (literals, variables, `.`/`has` chains through entities and records, `!`, unary `-`, `+ - *`, `==`,
`like`, `is`) the semantic hypotheses are discharged by typechecker soundness: if the typechecker model types the
expression in the environment of a conformant request, the store conforms, and the level checker accepts the typed AST
at level `n`, then the *expression itself* evaluates over the level-`n` slice as over the store. -/
theorem level_sound_fragment (n : Nat) (m : ValidationMode) (s : Schema) (env : RequestEnv) (w : World)
    (hWF : SchemaWF s) (henv : EnvMatches s env w.q) (hreq : ConformsRequest s w.q) (hst : StoreConforms s w.es)
    (e : Expr) (hf : CF e = true) (te : TExpr) (ha : annotate m s env e [] = .ok te)
    (hc : checkLevel n env.action te = true) :
    evaluate w.q (atLevel n w.q w.es) w.sl e = evaluate w.q w.es w.sl e := by
  have hk := kinds_annotate hWF henv hreq hst [] (capsHold_nil w) e te hf ha
  have h := level_sound_partial w.q w.es w.sl n env.action henv.2.1.symm te hk hc
  rw [erase_annotate m s env [] e te hf ha] at h
  exact h

/-- FULL STATEMENT of C16's soundness half.  For a resolved schema, a policy set every member of which is accepted by
the (strict) typechecker model and by the level checker at maximum level `n` in every request environment, a request
and a store that conform to the schema: authorization over the level-`n` slice equals authorization over the store. -/
def level_sound : Prop :=
  ∀ (n : Nat) (s : Schema) (ps : List Policy) (req : Request) (es : Entities),
    SchemaWF s → ConformsRequest s req → StoreConforms s es →
    (∀ p ∈ ps, p.env = [] ∧ (∃ vs, checkPolicy .strict s .absent .absent p.condition = some vs ∧ accepted vs = true) ∧
      levelPolicy n .strict s .absent .absent p.condition = some []) →
    isAuthorized req (atLevel n req es) ps = isAuthorized req es ps

/-! ### non-vacuity -/

def principal : TExpr := .var .principal
/-- `principal.next.next….flag` with `k` hops -/
def chain : Nat → TExpr
  | 0 => principal
  | k + 1 => .getAttr .entity (chain k) "next"
def chainFlag (k : Nat) : TExpr := .getAttr .entity (chain k) "flag"
def act : EntityUID := ⟨"Action", "view"⟩

/-- a chain of `n` dereferences is accepted at level `n` and rejected at `n − 1` -/
example : checkLevel 3 act (chainFlag 2) = true ∧ checkLevel 2 act (chainFlag 2) = false := by decide
example : checkLevel 1 act (chainFlag 0) = true ∧ checkLevel 0 act (chainFlag 0) = false := by decide
example : checkExpr 2 act (chainFlag 4) = [.maxExceeded 5] := by decide
/-- record-literal access paths: `{foo: principal, bar: principal.next.next}.foo.flag` needs level 2 because of `bar` -/
def recPath : TExpr :=
  .getAttr .entity (.getAttr .record (.record [("bar", chain 2), ("foo", principal)]) "foo") "flag"
example : checkLevel 2 act recPath = true ∧ checkLevel 1 act recPath = false ∧ derefLevel act (.getAttr .record (.record [("bar", chain 2), ("foo", principal)]) "foo") [] = 0 := by decide
/-- entity literals cannot be dereferenced, except the environment's action -/
example : checkExpr 4 act (.getAttr .entity (.lit (.entityUID ⟨"User", "alice"⟩)) "flag") = [.litDeref] := by decide
example : checkLevel 1 act (.binaryApp .mem (.lit (.entityUID act)) (.var .action)) = true := by decide
/-- `if` as a dereference target takes the maximum of its branches -/
example : checkLevel 3 act (.getAttr .entity (.ite (.lit (.bool true)) (chain 1) (chain 2)) "flag") = true ∧
          checkLevel 2 act (.getAttr .entity (.ite (.lit (.bool true)) (chain 1) (chain 2)) "flag") = false := by decide

/-- through the typechecker model: schema `User { next: User, flag: Bool }`, action `view` on users -/
def exUser : EntityTypeEntry :=
  { attrs := [("flag", true, .bool .anyBool), ("next", true, .entity ["User"])], isOpen := false, tags := none, descendants := [], enumIds := none }
def exView : ActionEntry :=
  { principals := ["User"], resources := ["User"], context := .record [] false, descendants := [], ancestors := [], attrs := [] }
def exSchema : Schema := { ets := [("User", exUser)], acts := [(act, exView)] }
def exEnv : RequestEnv :=
  { principal := "User", action := act, resource := "User", context := exView.context, principalSlot := none, resourceSlot := none }
/-- `principal.next.flag` -/
def exCond : Expr := .getAttr (.getAttr (.var .principal) "next") "flag"
example : annotate .strict exSchema exEnv exCond [] = .ok (chainFlag 1) := by rfl
/-- the syntactic hypotheses of `level_sound_fragment` on this input (its remaining hypotheses are C03's: a well-formed
schema, a conformant request and store) -/
example : CF exCond = true ∧ annotate .strict exSchema exEnv exCond [] = .ok (chainFlag 1) ∧
    checkLevel 2 exEnv.action (chainFlag 1) = true := ⟨by decide, by rfl, by decide⟩
example : levelPolicy 2 .strict exSchema .absent .absent exCond = some [] := by decide +kernel
example : levelPolicy 1 .strict exSchema .absent .absent exCond = some [.maxExceeded 2] := by decide +kernel
/-- the typechecker's short circuit removes `principal.flag` from `true || principal.flag`: level 0 suffices -/
example : levelPolicy 0 .strict exSchema .absent .absent (.or (.lit (.bool true)) (.getAttr (.var .principal) "flag")) = some [] := by
  decide +kernel

/-- a store a → b → c (→ a) and a request by `a`: the slices at 0, 1, 2 hops are strictly increasing -/
def u (i : String) : EntityUID := ⟨"User", i⟩
def ent (i j : String) (f : Bool) : EntityUID × EntityData :=
  (u i, { attrs := [("flag", .prim (.bool f)), ("next", .prim (.entityUID (u j)))], ancestors := [], tags := [] })
def exStore : Entities := [ent "a" "b" false, ent "b" "c" true, ent "c" "a" false, ent "d" "a" true]
def exReq : Request := ⟨u "a", act, u "a", []⟩
example : (atLevel 0 exReq exStore).map (·.1) = [u "a"] := by decide +kernel
example : (atLevel 1 exReq exStore).map (·.1) = [u "a", u "b"] := by decide +kernel
example : (atLevel 2 exReq exStore).map (·.1) = [u "a", u "b", u "c"] := by decide +kernel
/-- `principal.next.flag` (level 2): same result on the 2-hop slice (in fact already on the 1-hop slice), not on the 0-hop slice -/
example : evaluate exReq (atLevel 2 exReq exStore) [] (chainFlag 1).erase = evaluate exReq exStore [] (chainFlag 1).erase ∧
          evaluate exReq exStore [] (chainFlag 1).erase = .ok (.prim (.bool true)) ∧
          evaluate exReq (atLevel 0 exReq exStore) [] (chainFlag 1).erase = .error .entity := by
  refine ⟨?_, ?_, ?_⟩ <;> rfl

/-- the hypotheses of `level_sound_partial` instantiated on this input -/
example : evaluate exReq (atLevel 2 exReq exStore) [] (chainFlag 1).erase = evaluate exReq exStore [] (chainFlag 1).erase := by
  refine level_sound_partial exReq exStore [] 2 act rfl (chainFlag 1) ?_ (by decide)
  simp only [chainFlag, chain, Kinds, principal, true_and]
  refine ⟨?_, ?_⟩
  · intro v hv
    have : evaluate exReq exStore [] (TExpr.var .principal).erase = .ok (.prim (.entityUID (u "a"))) := by rfl
    rw [this] at hv; cases hv; rfl
  · intro v hv
    have : evaluate exReq exStore [] (TExpr.getAttr .entity (.var .principal) "next").erase = .ok (.prim (.entityUID (u "b"))) := by
      rfl
    rw [this] at hv; cases hv; rfl

end Cedar.C16
