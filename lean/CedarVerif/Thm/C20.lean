import CedarVerif.Cedar.Pattern
import CedarVerif.Lemmas.NoPanicLike
import CedarVerif.Lemmas.NoPanicUtf8
import CedarVerif.Lemmas.NoPanicDatetime
/-
C20 — No panics on arbitrary input (mirrored components).

Each mirror keeps the Rust panic site (`[]` indexing, `unwrap`, `expect`, slice on a char boundary) as an explicit
outcome; the theorems say that outcome is unreachable for ALL inputs. Scope: the mirrored components only — every other
entry point is covered by the malformed-input stream of the harness (evidence = counts, not theorems).
-/
namespace Cedar.C20
open Cedar

/-! ### (a) `Pattern::wildcard_match` (cedar-policy-core/src/ast/pattern.rs)

`wmIdx` mirrors the loop over `Vec<char>` / `&[PatternElem]` with the indices `i j star_idx tmp_idx` and the flag
`contains_star`; `pattern[j]` and `text[i]` are `Array.get?` with `none ↦ .panic site`; `pattern_len - 1` is only
evaluated after the `pattern.is_empty()` early return. Fuel `(|text|+1)(|pattern|+1)+1`. -/

/-- neither indexing site can panic, and the fuel of the mirror is never exhausted -/
theorem no_panic_wildcard (pat : Pattern) (text : List Char) :
    (∀ site, wmIdx pat text ≠ .panic site) ∧ wmIdx pat text ≠ .fuel := by
  obtain ⟨b, hb⟩ := wmIdx_is_result pat text
  rw [hb]
  exact ⟨fun _ h => IdxOutcome.noConfusion h, fun h => IdxOutcome.noConfusion h⟩

/-- the index form computes the declarative matcher `M` (C02 proves `M` is the specification of `like`) -/
theorem wmIdx_eq_M (pat : Pattern) (text : List Char) : wmIdx pat text = .result (M pat text) :=
  wmIdx_eq_M' pat text

/-- the subtraction `pattern_len - 1` in the loop condition is only reached with a non-empty pattern (no usize underflow) -/
theorem wildcard_len_sub_guarded (text : List Char) : wmIdx [] text = .result text.isEmpty := by
  simp [wmIdx]

/-! non-vacuity: inputs sitting exactly on the guarded boundaries -/
-- empty pattern (early return), empty text (loop never entered, only the trailing-`*` skip runs)
example : wmIdx [] [] = .result true := by decide +kernel
example : wmIdx [] ['a'] = .result false := by decide +kernel
example : wmIdx [.star] [] = .result true := by decide +kernel
example : wmIdx [.char 'a'] [] = .result false := by decide +kernel
-- trailing `*`: `star_idx == pattern_len - 1` stops the loop with `i < text_len`
example : wmIdx [.char 'a', .star] ['a', 'b', 'c'] = .result true := by decide +kernel
-- `j` reaches `pattern_len` inside the loop (the `j < pattern_len &&` guards are what protects `pattern[j]`)
example : wmIdx [.star, .char 'a'] ['a', 'b'] = .result false := by decide +kernel
example : wmIdx [.char 'a'] ['a', 'b'] = .result false := by decide +kernel
-- backtracking moves `i` to `tmp_idx + 1 = text_len` (the `i < text_len` guard is what protects `text[i]`)
example : wmIdx [.star, .char 'a', .char 'b'] ['a', 'a'] = .result false := by decide +kernel
example : wmIdx [.star, .char 'b', .star, .char 'c'] ['a', 'b', 'b', 'c'] = .result true := by decide +kernel

/-! ### (b) `contains_at_least_two` (cedar-policy-core/src/extensions/ipaddr.rs)

Byte-level model of `&str` (`Cedar/NoPanic/Utf8.lean`): `find` returns a byte offset, `sliceFrom s n` is `s.get(n..)`
(`none` iff `n` is out of bounds or inside a char). The Rust comment argues the two preconditions informally and
checks them with kani for strings of at most 6 bytes; here: all strings, all chars. -/
open Cedar.NoPanic in
/-- `s.get(i + c.len_utf8()..)` is always `Some`: the `unwrap` cannot panic -/
theorem no_panic_contains_at_least_two (s : List Char) (c : Char) :
    ∀ site, containsAtLeastTwo s c ≠ .panic site := by
  intro site
  unfold containsAtLeastTwo
  cases hf : find c s with
  | none => exact fun h => BoolOutcome.noConfusion h
  | some i =>
    obtain ⟨p, r, _, _, hsl⟩ := slice_after_find s c i hf
    simp only [hsl]
    exact fun h => BoolOutcome.noConfusion h

open Cedar.NoPanic in
/-- and the function computes what its name says: at least two occurrences -/
theorem contains_at_least_two_spec (s : List Char) (c : Char) :
    containsAtLeastTwo s c = .result (decide (2 ≤ s.count c)) := by
  unfold containsAtLeastTwo
  cases hf : find c s with
  | none =>
    have h1 : (find c s).isSome = s.contains c := find_isSome_iff c s
    rw [hf] at h1
    have : c ∉ s := by
      intro hm
      have : s.contains c = true := List.contains_iff_mem.mpr hm
      rw [this] at h1; cases h1
    simp [List.count_eq_zero_of_not_mem this]
  | some i =>
    obtain ⟨p, r, hs, hp, hsl⟩ := slice_after_find s c i hf
    simp only [hsl]
    congr 1
    rw [find_isSome_iff, hs, List.count_append, List.count_cons_self, List.count_eq_zero_of_not_mem hp]
    by_cases hm : c ∈ r
    · have h1 : r.contains c = true := List.contains_iff_mem.mpr hm
      have h2 : 0 < r.count c := List.count_pos_iff.mpr hm
      rw [h1]; symm; simp only [decide_eq_true_eq]; omega
    · have h1 : r.contains c = false := by
        cases hc : r.contains c with
        | false => rfl
        | true => exact absurd (List.contains_iff_mem.mp hc) hm
      rw [h1, List.count_eq_zero_of_not_mem hm]; simp

-- non-vacuity: the occurrence is the last char (slice = empty string, offset = s.len()), multi-byte chars, no occurrence
open Cedar.NoPanic in
example : containsAtLeastTwo ['a', ':'] ':' = .result false := by decide +kernel
open Cedar.NoPanic in
example : containsAtLeastTwo ['é', '😀', 'é'] 'é' = .result true := by decide +kernel
open Cedar.NoPanic in
example : containsAtLeastTwo ['😀'] '😀' = .result false := by decide +kernel
open Cedar.NoPanic in
example : containsAtLeastTwo [] ':' = .result false := by decide +kernel
-- the slice really can fail on other offsets: offset 1 is inside `é`
open Cedar.NoPanic in
example : sliceFrom ['é', 'a'] 1 = none := by decide +kernel
open Cedar.NoPanic in
example : sliceFrom ['é', 'a'] 4 = none := by decide +kernel

/-! ### (c) `parse_datetime` (cedar-policy-core/src/extensions/datetime.rs)

Mirror `NoPanic.parseDatetime` (`Cedar/NoPanic/Datetime.lean`): the regex captures are recognisers returning the capture
strings; every `x.parse().unwrap()` (12 sites), the slices `&s[date_str.len()..]`, `&s[hms_str.len()..]`, `hms_str[1..]`,
the u32 arithmetic in `UTCOffset::to_seconds`, `TimeDelta::new(-offset_in_secs, 0).unwrap()` and the chrono
`NaiveDateTime + TimeDelta` overflow panic are explicit `.panic site` outcomes. (`parse_duration` uses `.ok()`/`?` on its
captures and checked arithmetic throughout: it has no panic site; its value semantics is C07's subject.) -/

open Cedar.NoPanic in
/-- a capture of 1..9 ASCII digits (the patterns use `{2}`, `{3}`, `{4}`) always parses into `u32` -/
theorem capture_parses_u32 (ds : List Char) (hd : ∀ c ∈ ds, Cedar.Ext.isDigit c = true) (h0 : 0 < ds.length) (h9 : ds.length ≤ 9) :
    parseU32 ds = some (Cedar.Ext.natOfDigits ds) :=
  (parseU32_digits ds hd h0 h9).1

open Cedar.NoPanic in
/-- `&s[prefix.len()..]` for a matched prefix is in bounds and on a char boundary (whatever follows, ASCII or not) -/
theorem slice_after_prefix (pre rest : List Char) : sliceFrom (pre ++ rest) (bytes pre) = some rest :=
  sliceFrom_prefix pre rest

open Cedar.NoPanic in
/-- for a valid offset (`hh < 24`, `mm < 60`) neither the u32 arithmetic nor `TimeDelta::new(..).unwrap()` can fail -/
theorem offset_timedelta_in_range (positive : Bool) (hh mm : Nat) (h1 : hh < 24) (h2 : mm < 60) (k : Int → DtOutcome)
    (hk : ∀ delta, Safe (k delta)) : Safe (offsetDelta positive hh mm k) :=
  offsetDelta_safe positive hh mm h1 h2 k (fun d _ _ => hk d)

open Cedar.NoPanic in
/-- no input string reaches any of the panic sites of `parse_datetime` -/
theorem no_panic_datetime_captures (s : List Char) : ∀ site, parseDatetime s ≠ .panic site :=
  parseDatetime_safe s

-- non-vacuity: every stage is reached; boundary values of each guard
open Cedar.NoPanic in
example : parseDatetime "9999-12-31T23:59:59.999-2359".toList = .ok 253402387139999 := by decide +kernel
open Cedar.NoPanic in
example : parseDatetime "0000-01-01T00:00:00+2359".toList = .ok (-62167305540000) := by decide +kernel
open Cedar.NoPanic in
example : parseDatetime "2024-02-29".toList = .ok 1709164800000 := by decide +kernel
open Cedar.NoPanic in
example : parseDatetime "2024-01-01T24:00:00Z".toList = .err "InvalidHMS" := by decide +kernel
open Cedar.NoPanic in
example : parseDatetime "2024-01-01T00:00:00+2400".toList = .err "InvalidOffset" := by decide +kernel
-- a multi-byte char right after the matched prefix: the slice offset is still a boundary
open Cedar.NoPanic in
example : parseDatetime "2024-01-01é".toList = .err "InvalidHMSPattern" := by decide +kernel
open Cedar.NoPanic in
example : parseDatetime "2024-01-01T00:00:00😀".toList = .err "InvalidMSOffsetPattern" := by decide +kernel
-- the unwrap really is a site: a non-digit or an overlong digit string does not parse into u32
open Cedar.NoPanic in
example : parseU32 "4294967296".toList = none := by decide +kernel
open Cedar.NoPanic in
example : parseU32 "4294967295".toList = some 4294967295 := by decide +kernel
open Cedar.NoPanic in
example : parseU32 [] = none := by decide +kernel

end Cedar.C20
