import CedarVerif.Cedar.Pattern
import CedarVerif.Lemmas.NoPanicLike
/-
C20 — No panics on arbitrary input (mirrored components).

Each mirror keeps the Rust panic site (`[]` indexing, `unwrap`, `expect`, slice on a char boundary) as an explicit
outcome; the theorems say that outcome is unreachable for ALL inputs. Scope: the mirrored components only — every other
entry point is covered by the malformed-input stream of the harness (evidence = counts, not theorems).
-/
namespace Cedar.C20
open Cedar

/-! ### (a) `Pattern::wildcard_match` (cedar-policy-core/src/ast/pattern.rs)

`wmIdx` mirrors the loop over `Vec<char>` / `&[PatternElem]` with the indices `i j star_idx tmp_idx` and the flag
`contains_star`; `pattern[j]` and `text[i]` are `Array.get?` with `none ↦ .panic site`; `pattern_len - 1` is only
evaluated after the `pattern.is_empty()` early return. Fuel `(|text|+1)(|pattern|+1)+1`. -/

/-- neither indexing site can panic, and the fuel of the mirror is never exhausted -/
theorem no_panic_wildcard (pat : Pattern) (text : List Char) :
    (∀ site, wmIdx pat text ≠ .panic site) ∧ wmIdx pat text ≠ .fuel := by
  obtain ⟨b, hb⟩ := wmIdx_is_result pat text
  rw [hb]
  exact ⟨fun _ h => IdxOutcome.noConfusion h, fun h => IdxOutcome.noConfusion h⟩

/-- the index form computes the declarative matcher `M` (C02 proves `M` is the specification of `like`) -/
theorem wmIdx_eq_M (pat : Pattern) (text : List Char) : wmIdx pat text = .result (M pat text) :=
  wmIdx_eq_M' pat text

/-- the subtraction `pattern_len - 1` in the loop condition is only reached with a non-empty pattern (no usize underflow) -/
theorem wildcard_len_sub_guarded (text : List Char) : wmIdx [] text = .result text.isEmpty := by
  simp [wmIdx]

/-! non-vacuity: inputs sitting exactly on the guarded boundaries -/
-- empty pattern (early return), empty text (loop never entered, only the trailing-`*` skip runs)
example : wmIdx [] [] = .result true := by decide +kernel
example : wmIdx [] ['a'] = .result false := by decide +kernel
example : wmIdx [.star] [] = .result true := by decide +kernel
example : wmIdx [.char 'a'] [] = .result false := by decide +kernel
-- trailing `*`: `star_idx == pattern_len - 1` stops the loop with `i < text_len`
example : wmIdx [.char 'a', .star] ['a', 'b', 'c'] = .result true := by decide +kernel
-- `j` reaches `pattern_len` inside the loop (the `j < pattern_len &&` guards are what protects `pattern[j]`)
example : wmIdx [.star, .char 'a'] ['a', 'b'] = .result false := by decide +kernel
example : wmIdx [.char 'a'] ['a', 'b'] = .result false := by decide +kernel
-- backtracking moves `i` to `tmp_idx + 1 = text_len` (the `i < text_len` guard is what protects `text[i]`)
example : wmIdx [.star, .char 'a', .char 'b'] ['a', 'a'] = .result false := by decide +kernel
example : wmIdx [.star, .char 'b', .star, .char 'c'] ['a', 'b', 'b', 'c'] = .result true := by decide +kernel

end Cedar.C20
