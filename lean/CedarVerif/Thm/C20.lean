import CedarVerif.Cedar.Pattern
import CedarVerif.Lemmas.NoPanicLike
import CedarVerif.Lemmas.NoPanicUtf8
import CedarVerif.Lemmas.NoPanicDatetime
import CedarVerif.Lemmas.NoPanicCollections
import CedarVerif.Lemmas.NoPanicDispatch
import CedarVerif.Lemmas.NoPanicPartialResponse
import CedarVerif.Lemmas.NoPanicUnescape
import CedarVerif.Lemmas.NoPanicRemoveEmptyLines
import CedarVerif.Lemmas.NoPanicExtArgCheck
import CedarVerif.Lemmas.NoPanicEstDisplay
import CedarVerif.Thm.C08
/-
C20 — No panics on arbitrary input (mirrored components).

Each mirror keeps the Rust panic site (`[]` indexing, `unwrap`, `expect`, slice on a char boundary) as an explicit
outcome; the theorems say that outcome is unreachable for ALL inputs (or for all states satisfying the named data-structure
invariant). Scope: the mirrored components only — every other entry point is covered by the malformed-input stream of the
harness ("no panic on the explored inputs": evidence = counts, not theorems).

Mirrored sites and what is proved:
 (a) `Pattern::wildcard_match` `pattern[j]`/`text[i]`                       unreachable, all inputs      no_panic_wildcard
 (b) `contains_at_least_two` `s.get(..).unwrap()`                           unreachable, all inputs      no_panic_contains_at_least_two
 (c) `parse_datetime` 12 `parse().unwrap()`, 3 slices, TimeDelta, chrono +  unreachable, all inputs      no_panic_datetime_captures
 (d) `FromIterator<Value> for Set` `unreachable!()`                         unreachable, all inputs      no_panic_set_from_iter
 (e) evaluator `Record` arm `Expr::record(..).expect(..)` (2 copies)        unreachable when the keys of the record
     expression are pairwise distinct (the `BTreeMap` invariant)                                        no_panic_record_residual(_of_expr)
 (f) evaluator `binary_relation`/`binary_arith`/`GetTag|HasTag` `unreachable!` unreachable from the evaluator's dispatch, all
     operators and values; REACHABLE by calling the two public helpers directly with another operator
                                                                     no_panic_binary_dispatch, binary_{relation,arith}_panics_iff
 (g) `PartialResponse` accessors -> `Policy::new` `expect` (debug builds)   REACHABLE (known finding C13-residual-slot-panic);
     unreachable iff no residual keeps a template slot; `definitely_satisfied`/`must_be_determining` never
                                            no_panic_partial_response, partial_response_panics_iff, partial_response_panic_reachable
 (i) `Unescape::unescape` range arithmetic (rustc_literal_escaper 0.0.8), `to_pattern` `&bytes[range]`, `Display for
     UnescapeError` `&self.input[self.range]`                               unreachable, all inputs      no_panic_unescape_slices
 (j) formatter `remove_empty_lines`: `find_at`, `&text[index..m.start()]`, `m.as_str()`, `&text[index..]`, loop termination
     unreachable for all texts and ALL regex oracles satisfying the regex-crate contract (match at/after `index`, ordered,
     ends on char boundaries); terminates (fuel `len+1`) if moreover no match is empty; both hypotheses are necessary
                                                                     no_panic_remove_empty_lines, remove_empty_lines_terminates
 (k) validator `typecheck_extension` (`let … else panic!`, `zip_longest` `last().unwrap()` / `unreachable!`) and the four
     `validate_{ip,decimal,datetime,duration}_string` checks it calls whatever the argument count
     unreachable for every argument count, given: a variadic function type has ≥ 1 argument type; the `exprs[0]` form of
     the checks panics exactly on `[]`                no_panic_ext_argument_checks, no_panic_typecheck_extension, ext_argument_check_index_panics_iff
 (l) EST `display_cedarvaluejson`: `&args[0]`, `&args[1..]`, `v.len() - 1`, `r.len() - 1`   unreachable, all values (after /repo
     commit f169b51; the control flow before it reaches `&args[0]` on `[]`)    no_panic_display_cedarvaluejson, display_cedarvaluejson_prefix_panics
 (h) `ast::PolicySet` `panic!` sites of `unlink`/`remove_template`, `unwrap` in `merge_policyset`: proved in C08, cited here
                                                                     no_panic_policyset_op, no_panic_policyset_history, no_panic_policyset_merge
-/
namespace Cedar.C20
open Cedar

/-! ### (a) `Pattern::wildcard_match` (cedar-policy-core/src/ast/pattern.rs)

`wmIdx` mirrors the loop over `Vec<char>` / `&[PatternElem]` with the indices `i j star_idx tmp_idx` and the flag
`contains_star`; `pattern[j]` and `text[i]` are `Array.get?` with `none ↦ .panic site`; `pattern_len - 1` is only
evaluated after the `pattern.is_empty()` early return. Fuel `(|text|+1)(|pattern|+1)+1`. -/

/-- neither indexing site can panic, and the fuel of the mirror is never exhausted -/
theorem no_panic_wildcard (pat : Pattern) (text : List Char) :
    (∀ site, wmIdx pat text ≠ .panic site) ∧ wmIdx pat text ≠ .fuel := by
  obtain ⟨b, hb⟩ := wmIdx_is_result pat text
  rw [hb]
  exact ⟨fun _ h => IdxOutcome.noConfusion h, fun h => IdxOutcome.noConfusion h⟩

/-- the index form computes the declarative matcher `M` (C02 proves `M` is the specification of `like`) -/
theorem wmIdx_eq_M (pat : Pattern) (text : List Char) : wmIdx pat text = .result (M pat text) :=
  wmIdx_eq_M' pat text

/-- the subtraction `pattern_len - 1` in the loop condition is only reached with a non-empty pattern (no usize underflow) -/
theorem wildcard_len_sub_guarded (text : List Char) : wmIdx [] text = .result text.isEmpty := by
  simp [wmIdx]

/-! non-vacuity: inputs sitting exactly on the guarded boundaries -/
-- empty pattern (early return), empty text (loop never entered, only the trailing-`*` skip runs)
example : wmIdx [] [] = .result true := by decide +kernel
example : wmIdx [] ['a'] = .result false := by decide +kernel
example : wmIdx [.star] [] = .result true := by decide +kernel
example : wmIdx [.char 'a'] [] = .result false := by decide +kernel
-- trailing `*`: `star_idx == pattern_len - 1` stops the loop with `i < text_len`
example : wmIdx [.char 'a', .star] ['a', 'b', 'c'] = .result true := by decide +kernel
-- `j` reaches `pattern_len` inside the loop (the `j < pattern_len &&` guards are what protects `pattern[j]`)
example : wmIdx [.star, .char 'a'] ['a', 'b'] = .result false := by decide +kernel
example : wmIdx [.char 'a'] ['a', 'b'] = .result false := by decide +kernel
-- backtracking moves `i` to `tmp_idx + 1 = text_len` (the `i < text_len` guard is what protects `text[i]`)
example : wmIdx [.star, .char 'a', .char 'b'] ['a', 'a'] = .result false := by decide +kernel
example : wmIdx [.star, .char 'b', .star, .char 'c'] ['a', 'b', 'b', 'c'] = .result true := by decide +kernel

/-! ### (b) `contains_at_least_two` (cedar-policy-core/src/extensions/ipaddr.rs)

Byte-level model of `&str` (`Cedar/NoPanic/Utf8.lean`): `find` returns a byte offset, `sliceFrom s n` is `s.get(n..)`
(`none` iff `n` is out of bounds or inside a char). The Rust comment argues the two preconditions informally and
checks them with kani for strings of at most 6 bytes; here: all strings, all chars. -/
open Cedar.NoPanic in
/-- `s.get(i + c.len_utf8()..)` is always `Some`: the `unwrap` cannot panic -/
theorem no_panic_contains_at_least_two (s : List Char) (c : Char) :
    ∀ site, containsAtLeastTwo s c ≠ .panic site := by
  intro site
  unfold containsAtLeastTwo
  cases hf : find c s with
  | none => exact fun h => BoolOutcome.noConfusion h
  | some i =>
    obtain ⟨p, r, _, _, hsl⟩ := slice_after_find s c i hf
    simp only [hsl]
    exact fun h => BoolOutcome.noConfusion h

open Cedar.NoPanic in
/-- and the function computes what its name says: at least two occurrences -/
theorem contains_at_least_two_spec (s : List Char) (c : Char) :
    containsAtLeastTwo s c = .result (decide (2 ≤ s.count c)) := by
  unfold containsAtLeastTwo
  cases hf : find c s with
  | none =>
    have h1 : (find c s).isSome = s.contains c := find_isSome_iff c s
    rw [hf] at h1
    have : c ∉ s := by
      intro hm
      have : s.contains c = true := List.contains_iff_mem.mpr hm
      rw [this] at h1; cases h1
    simp [List.count_eq_zero_of_not_mem this]
  | some i =>
    obtain ⟨p, r, hs, hp, hsl⟩ := slice_after_find s c i hf
    simp only [hsl]
    congr 1
    rw [find_isSome_iff, hs, List.count_append, List.count_cons_self, List.count_eq_zero_of_not_mem hp]
    by_cases hm : c ∈ r
    · have h1 : r.contains c = true := List.contains_iff_mem.mpr hm
      have h2 : 0 < r.count c := List.count_pos_iff.mpr hm
      rw [h1]; symm; simp only [decide_eq_true_eq]; omega
    · have h1 : r.contains c = false := by
        cases hc : r.contains c with
        | false => rfl
        | true => exact absurd (List.contains_iff_mem.mp hc) hm
      rw [h1, List.count_eq_zero_of_not_mem hm]; simp

-- non-vacuity: the occurrence is the last char (slice = empty string, offset = s.len()), multi-byte chars, no occurrence
open Cedar.NoPanic in
example : containsAtLeastTwo ['a', ':'] ':' = .result false := by decide +kernel
open Cedar.NoPanic in
example : containsAtLeastTwo ['é', '😀', 'é'] 'é' = .result true := by decide +kernel
open Cedar.NoPanic in
example : containsAtLeastTwo ['😀'] '😀' = .result false := by decide +kernel
open Cedar.NoPanic in
example : containsAtLeastTwo [] ':' = .result false := by decide +kernel
-- the slice really can fail on other offsets: offset 1 is inside `é`
open Cedar.NoPanic in
example : sliceFrom ['é', 'a'] 1 = none := by decide +kernel
open Cedar.NoPanic in
example : sliceFrom ['é', 'a'] 4 = none := by decide +kernel

/-! ### (c) `parse_datetime` (cedar-policy-core/src/extensions/datetime.rs)

Mirror `NoPanic.parseDatetime` (`Cedar/NoPanic/Datetime.lean`): the regex captures are recognisers returning the capture
strings; every `x.parse().unwrap()` (12 sites), the slices `&s[date_str.len()..]`, `&s[hms_str.len()..]`, `hms_str[1..]`,
the u32 arithmetic in `UTCOffset::to_seconds`, `TimeDelta::new(-offset_in_secs, 0).unwrap()` and the chrono
`NaiveDateTime + TimeDelta` overflow panic are explicit `.panic site` outcomes. (`parse_duration` uses `.ok()`/`?` on its
captures and checked arithmetic throughout: it has no panic site; its value semantics is C07's subject.) -/

open Cedar.NoPanic in
/-- a capture of 1..9 ASCII digits (the patterns use `{2}`, `{3}`, `{4}`) always parses into `u32` -/
theorem capture_parses_u32 (ds : List Char) (hd : ∀ c ∈ ds, Cedar.Ext.isDigit c = true) (h0 : 0 < ds.length) (h9 : ds.length ≤ 9) :
    parseU32 ds = some (Cedar.Ext.natOfDigits ds) :=
  (parseU32_digits ds hd h0 h9).1

open Cedar.NoPanic in
/-- `&s[prefix.len()..]` for a matched prefix is in bounds and on a char boundary (whatever follows, ASCII or not) -/
theorem slice_after_prefix (pre rest : List Char) : sliceFrom (pre ++ rest) (bytes pre) = some rest :=
  sliceFrom_prefix pre rest

open Cedar.NoPanic in
/-- for a valid offset (`hh < 24`, `mm < 60`) neither the u32 arithmetic nor `TimeDelta::new(..).unwrap()` can fail -/
theorem offset_timedelta_in_range (positive : Bool) (hh mm : Nat) (h1 : hh < 24) (h2 : mm < 60) (k : Int → DtOutcome)
    (hk : ∀ delta, Safe (k delta)) : Safe (offsetDelta positive hh mm k) :=
  offsetDelta_safe positive hh mm h1 h2 k (fun d _ _ => hk d)

open Cedar.NoPanic in
/-- no input string reaches any of the panic sites of `parse_datetime` -/
theorem no_panic_datetime_captures (s : List Char) : ∀ site, parseDatetime s ≠ .panic site :=
  parseDatetime_safe s

-- non-vacuity: every stage is reached; boundary values of each guard
open Cedar.NoPanic in
example : parseDatetime "9999-12-31T23:59:59.999-2359".toList = .ok 253402387139999 := by decide +kernel
open Cedar.NoPanic in
example : parseDatetime "0000-01-01T00:00:00+2359".toList = .ok (-62167305540000) := by decide +kernel
open Cedar.NoPanic in
example : parseDatetime "2024-02-29".toList = .ok 1709164800000 := by decide +kernel
open Cedar.NoPanic in
example : parseDatetime "2024-01-01T24:00:00Z".toList = .err "InvalidHMS" := by decide +kernel
open Cedar.NoPanic in
example : parseDatetime "2024-01-01T00:00:00+2400".toList = .err "InvalidOffset" := by decide +kernel
-- a multi-byte char right after the matched prefix: the slice offset is still a boundary
open Cedar.NoPanic in
example : parseDatetime "2024-01-01é".toList = .err "InvalidHMSPattern" := by decide +kernel
open Cedar.NoPanic in
example : parseDatetime "2024-01-01T00:00:00😀".toList = .err "InvalidMSOffsetPattern" := by decide +kernel
-- the unwrap really is a site: a non-digit or an overlong digit string does not parse into u32
open Cedar.NoPanic in
example : parseU32 "4294967296".toList = none := by decide +kernel
open Cedar.NoPanic in
example : parseU32 "4294967295".toList = some 4294967295 := by decide +kernel
open Cedar.NoPanic in
example : parseU32 [] = none := by decide +kernel

/-! ### (d) `impl FromIterator<Value> for Set` (cedar-policy-core/src/ast/value.rs)

Mirror `NoPanic.setFromIter` (`Cedar/NoPanic/Collections.lean`): partition into `literals`/`non_literals`, and when
`non_literals` is empty map every element of `literals` through `Lit(lit) => lit, _ => unreachable!()`. -/

open Cedar.NoPanic in
/-- the `unreachable!()` arm is never taken: every element of `literals` passed the partition predicate -/
theorem no_panic_set_from_iter (vs : List Value) : ∀ site, setFromIter vs ≠ .panic site := by
  intro site h
  obtain ⟨s, hs⟩ := setFromIter_built vs
  rw [hs] at h
  cases h

open Cedar.NoPanic in
/-- and the set that is built satisfies the type's `FastRepr` invariant; `fast` is populated iff every element is a literal -/
theorem set_from_iter_fast_repr (vs : List Value) (s : SetRepr) (h : setFromIter vs = .built s) :
    s.FastRepr ∧ s.fast.isSome = vs.all NoPanic.isLit :=
  ⟨setFromIter_fastRepr vs s h, setFromIter_fast_iff vs s h⟩

-- non-vacuity: both branches; the closure really has a failing arm when applied to a non-literal
open Cedar.NoPanic in
example : (match setFromIter [.prim (.int 1), .prim (.int 1), .prim (.bool true)] with
    | .built s => s.fast == some [.int 1, .bool true] | _ => false) = true := by decide +kernel
open Cedar.NoPanic in
example : (match setFromIter [.prim (.int 1), .set [], .prim (.int 2)] with
    | .built s => s.fast.isNone && s.authoritative.length == 3 | _ => false) = true := by decide +kernel
open Cedar.NoPanic in
example : (match setFromIter [] with | .built s => s.fast == some [] | _ => false) = true := by decide +kernel
open Cedar.NoPanic in
example : litsOf [.prim (.int 1), .set []] = none := rfl

/-! ### (e) the `Record` arm of `partial_interpret_internal` (cedar-policy-core/src/evaluator.rs, both evaluators)

Mirror `NoPanic.recordArm`: `unzip`, `split`, then `Expr::record(names.zip(rs)).expect(..)` with `ExprBuilder::record`'s
`Occupied => Err(DuplicateKeyError)` loop written out. The Rust comment's argument ("`names` is the set of keys of the input
`BTreeMap`") is the hypothesis `Nodup`; `split` preserving the length is proved. -/

open Cedar.NoPanic in
/-- pairwise distinct keys: the `expect` cannot fail -/
theorem no_panic_record_residual (map : List (String × PartialValue)) (h : (map.map (·.1)).Nodup) :
    ∀ site, recordArm map ≠ .panic site :=
  recordArm_safe map h

open Cedar.NoPanic in
/-- at the call site: `map` is what interpreting the fields of a record EXPRESSION produced (`collectPVKVs`, any field
interpreter `f`), so its keys are those of the expression — distinct because the expression holds a `BTreeMap` -/
theorem no_panic_record_residual_of_expr (f : Expr → PRes) (kvs : List (String × Expr)) (h : (kvs.map (·.1)).Nodup)
    (pkvs : List (String × PartialValue)) (hc : collectPVKVs f kvs = .ok pkvs) :
    ∀ site, recordArm pkvs ≠ .panic site :=
  recordArm_safe pkvs (by rw [collectPVKVs_keys f kvs pkvs hc]; exact h)

open Cedar.NoPanic in
/-- with the keys in `BTreeMap` iteration order (strictly ascending) the residual is the zipped list itself: the expression
`pinterp`/`rinterp` of the C13 model (`Cedar/Partial.lean`) return at this point -/
theorem record_residual_eq_model (map : List (String × PartialValue)) (h : CJson.Sorted (map.map (·.1)))
    (rs : List Expr) (hs : splitPV (map.map (·.2)) = .inr rs) :
    recordArm map = .residual ((map.map (·.1)).zip rs) :=
  recordArm_residual_sorted map h rs hs

open Cedar.NoPanic in
/-- the `Occupied` arm of `ExprBuilder::record` is real: a key occurring twice is refused -/
theorem expr_record_refuses_duplicate (k : String) (v w : Expr) (pre mid post : List (String × Expr)) :
    ∃ k', exprRecord (pre ++ (k, v) :: mid ++ (k, w) :: post) = .error k' := by
  unfold exprRecord
  by_cases hn : ((pre ++ (k, v) :: mid ++ (k, w) :: post).map (·.1)).Nodup
  · exfalso
    simp only [List.map_append, List.map_cons, List.append_assoc, List.cons_append] at hn
    have h1 := (List.nodup_append.mp hn).2.1
    have h2 := (List.nodup_cons.mp h1).1
    exact h2 (by simp)
  · -- some key repeats: find the first repetition
    have key : ∀ (pairs map : List (String × Expr)), (map.map (·.1)).Nodup →
        ¬ (map.map (·.1) ++ pairs.map (·.1)).Nodup → ∃ k', exprRecordGo pairs map = .error k' := by
      intro pairs
      induction pairs with
      | nil => intro map h1 h2; simp at h2; exact absurd h1 h2
      | cons p rest ih =>
        intro map h1 h2
        obtain ⟨k0, v0⟩ := p
        by_cases hm : k0 ∈ map.map (·.1)
        · exact exprRecordGo_dup _ _ k0 (by simp) hm
        · have hl : lookupKV map k0 = none := (lookupKV_none_iff k0 map).mpr hm
          simp only [exprRecordGo, hl]
          apply ih
          · -- keys of insertKV are k0 :: keys map up to permutation; Nodup is preserved
            have hperm : ∀ x, x ∈ (insertKV k0 v0 map).map (·.1) ↔ x = k0 ∨ x ∈ map.map (·.1) := keys_insertKV k0 v0 map
            clear h2 ih hl
            induction map with
            | nil => simp [insertKV]
            | cons q qs ihq =>
              obtain ⟨k1, v1⟩ := q
              simp only [List.map_cons, List.mem_cons, not_or] at hm
              simp only [List.map_cons, List.nodup_cons] at h1
              unfold insertKV
              by_cases c1 : k0 < k1
              · simp only [c1, if_true, List.map_cons, List.nodup_cons, List.mem_cons, not_or]
                exact ⟨⟨hm.1, hm.2⟩, h1.1, h1.2⟩
              · have c2 : (k0 == k1) = false := by simpa using hm.1
                simp only [c1, if_false, c2, Bool.false_eq_true, List.map_cons, List.nodup_cons]
                refine ⟨?_, ihq h1.2 hm.2 (keys_insertKV k0 v0 qs)⟩
                intro hmem
                rcases (keys_insertKV k0 v0 qs k1).mp hmem with rfl | hmem
                · exact hm.1 rfl
                · exact h1.1 hmem
          · intro hnd
            apply h2
            simp only [List.map_cons]
            rw [List.nodup_append] at hnd ⊢
            obtain ⟨_, hr, hd⟩ := hnd
            refine ⟨h1, List.nodup_cons.mpr ⟨?_, hr⟩, ?_⟩
            · intro hk
              exact hd k0 ((keys_insertKV k0 v0 map k0).mpr (Or.inl rfl)) k0 hk rfl
            · intro a ha b hb
              rcases List.mem_cons.mp hb with rfl | hb
              · intro he; subst he; exact hm ha
              · exact hd a ((keys_insertKV k0 v0 map a).mpr (Or.inr ha)) b hb
    exact key _ [] List.nodup_nil (by simpa using hn)

-- non-vacuity: a residual record is built; with a repeated key (impossible for a `BTreeMap`) the site IS reached
open Cedar.NoPanic in
example : (match recordArm [("a", .value (.prim (.int 1))), ("b", .residual (.unknown "x" none))] with
    | .residual [("a", .lit (.int 1)), ("b", .unknown "x" none)] => true | _ => false) = true := rfl
open Cedar.NoPanic in
example : (match recordArm [("a", .value (.prim (.int 1))), ("b", .value (.prim (.int 2)))] with
    | .value [("a", .prim (.int 1)), ("b", .prim (.int 2))] => true | _ => false) = true := by decide +kernel
open Cedar.NoPanic in
example : ∃ site, recordArm [("a", .residual (.unknown "x" none)), ("a", .value (.prim (.int 1)))] = .panic site := ⟨_, rfl⟩

/-! ### (f) operator dispatch of the `BinaryApp` arm (cedar-policy-core/src/evaluator.rs)

Mirror `NoPanic.binaryDispatch` (`Cedar/NoPanic/Dispatch.lean`): outer `match op`, then `binary_relation`, `binary_arith` and the
`GetTag | HasTag` arm each with their inner `match op { …, _ => unreachable!() }`. -/

open Cedar.NoPanic in
/-- from the evaluator none of the three `unreachable!` arms is taken, for every operator and every pair of values -/
theorem no_panic_binary_dispatch (es : Entities) (op : BinaryOp) (v1 v2 : Value) :
    ∀ site, binaryDispatch es op v1 v2 ≠ .panic site := by
  intro site h
  rw [binaryDispatch_eq] at h
  cases h

open Cedar.NoPanic in
/-- the two-level dispatch computes the one-level table `applyBinary` of the concrete evaluator model (C01's subject) -/
theorem binary_dispatch_eq_applyBinary (es : Entities) (op : BinaryOp) (v1 v2 : Value) :
    binaryDispatch es op v1 v2 = .ret (applyBinary es op v1 v2) :=
  binaryDispatch_eq es op v1 v2

open Cedar.NoPanic in
/-- `pub fn binary_relation` called directly: panics exactly for the nine operators its caller filters out (whatever the values) -/
theorem binary_relation_panics_iff (op : BinaryOp) (v1 v2 : Value) :
    (∃ site, binaryRelation op v1 v2 = .panic site) ↔ (op ≠ .eq ∧ op ≠ .less ∧ op ≠ .lessEq) :=
  binaryRelation_panics_iff' op v1 v2

open Cedar.NoPanic in
/-- `pub fn binary_arith` called directly: panics exactly for an operator other than `+ - *` applied to two longs (a non-long
operand returns the type error first) -/
theorem binary_arith_panics_iff (op : BinaryOp) (v1 v2 : Value) :
    (∃ site, binaryArith op v1 v2 = .panic site) ↔
      ((op ≠ .add ∧ op ≠ .sub ∧ op ≠ .mul) ∧ ∃ i1 i2, v1 = .prim (.int i1) ∧ v2 = .prim (.int i2)) :=
  binaryArith_panics_iff' op v1 v2

-- non-vacuity: each inner match is entered; direct calls outside the contract reach the sites
open Cedar.NoPanic in
example : (match binaryDispatch [] .lessEq (.prim (.int 1)) (.prim (.int 1)) with
    | .ret (.ok (.prim (.bool true))) => true | _ => false) = true := by decide +kernel
open Cedar.NoPanic in
example : (match binaryDispatch [] .mul (.prim (.int 4611686018427387904)) (.prim (.int 2)) with
    | .ret (.error .overflow) => true | _ => false) = true := by decide +kernel
open Cedar.NoPanic in
example : (match binaryDispatch [] .hasTag (.prim (.entityUID ⟨"U", "a"⟩)) (.prim (.string "t")) with
    | .ret (.ok (.prim (.bool false))) => true | _ => false) = true := by decide +kernel
open Cedar.NoPanic in
example : ∃ site, binaryArith .eq (.prim (.int 1)) (.prim (.int 2)) = .panic site := ⟨_, rfl⟩
open Cedar.NoPanic in
example : (match binaryArith .eq (.prim (.int 1)) (.prim (.bool true)) with
    | .ret (.error .type) => true | _ => false) = true := rfl
open Cedar.NoPanic in
example : ∃ site, binaryRelation .contains (.set []) (.prim (.int 2)) = .panic site := ⟨_, rfl⟩

/-! ### (g) `PartialResponse` (cedar-policy-core/src/authorizer/partial_response.rs)

Mirror `Cedar/NoPanic/PartialResponse.lean` over the C13 model's `PartialResponse`: every accessor returning policies builds
them with `construct_policy` → `Policy::new(template, None, SlotEnv::new())`, whose debug-build `expect("(values total map) does
not hold!")` fails iff the residual mentions a template slot. -/

open Cedar.NoPanic in
/-- the precise hypothesis: no residual (permit or forbid) keeps a template slot. Then no accessor panics: `definitely_satisfied`,
`may_be_determining`, `must_be_determining`, `nontrivial_residuals`, `all_residuals`, `get(id)` for every id, and `reauthorize`
for every mapping and store — and `reauthorize` is the function of the C13 model. -/
theorem no_panic_partial_response (pr : PartialResponse) (h : pr.residualPoliciesPanic = false) :
    (∀ s, definitelySatisfied pr ≠ .panic s) ∧ (∀ s, mayBeDetermining pr ≠ .panic s) ∧
    (∀ s, mustBeDetermining pr ≠ .panic s) ∧ (∀ s, nontrivialResiduals pr ≠ .panic s) ∧
    (∀ s, allResiduals pr ≠ .panic s) ∧ (∀ id s, get pr id ≠ some (.panic s)) ∧
    (∀ m es s, reauthorize pr m es ≠ .panic s) ∧
    (∀ m es, reauthorize pr m es = match pr.reauthorize m es with | .ok r => .ok r | .error e => .err e) := by
  have hmay : pr.mayPanics = false := by
    unfold PartialResponse.residualPoliciesPanic at h
    rw [Bool.or_eq_false_iff] at h
    unfold PartialResponse.mayPanics
    split <;> simp [h.1, h.2]
  refine ⟨(not_isPanic_iff _).mp (definitelySatisfied_safe pr), (not_isPanic_iff _).mp ?_,
    (not_isPanic_iff _).mp (mustBeDetermining_safe pr), (not_isPanic_iff _).mp ?_, (not_isPanic_iff _).mp ?_, ?_, ?_,
    fun m es => reauthorize_eq pr m es h⟩
  · rw [mayBeDetermining_isPanic, hmay]
  · rw [nontrivialResiduals_isPanic, h]
  · rw [allResiduals_isPanic, h]
  · intro id s hg
    have := get_safe pr h id _ hg
    simp [PolOutcome.isPanic] at this
  · intro m es s hr
    rw [reauthorize_eq pr m es h] at hr
    split at hr <;> cases hr

open Cedar.NoPanic in
/-- two accessors only ever construct policies from `true_expr`: no hypothesis needed -/
theorem no_panic_partial_response_trivial (pr : PartialResponse) :
    (∀ s, definitelySatisfied pr ≠ .panic s) ∧ (∀ s, mustBeDetermining pr ≠ .panic s) :=
  ⟨(not_isPanic_iff _).mp (definitelySatisfied_safe pr), (not_isPanic_iff _).mp (mustBeDetermining_safe pr)⟩

open Cedar.NoPanic in
/-- exact reachability conditions — they are the predicates of the C13 model (`mayPanics`, `residualPoliciesPanic`), and the
only site is `Policy::new` -/
theorem partial_response_panics_iff (pr : PartialResponse) :
    ((∃ s, mayBeDetermining pr = .panic s) ↔ pr.mayPanics = true) ∧
    ((∃ s, allResiduals pr = .panic s) ↔ pr.residualPoliciesPanic = true) ∧
    ((∃ s, nontrivialResiduals pr = .panic s) ↔ pr.residualPoliciesPanic = true) ∧
    (pr.residualPoliciesPanic = true → ∀ m es, reauthorize pr m es = .panic policyNewSite ∧ pr.reauthorize m es = .error .panic) := by
  have conv : ∀ o : PolsOutcome, (∃ s, o = .panic s) ↔ o.isPanic = true := by
    intro o; cases o <;> simp [PolsOutcome.isPanic]
  refine ⟨?_, ?_, ?_, fun h m es => reauthorize_panics pr m es h⟩
  · rw [conv, mayBeDetermining_isPanic]
  · rw [conv, allResiduals_isPanic]
  · rw [conv, nontrivialResiduals_isPanic]

/-- the site IS reachable from public entry points (known finding C13-residual-slot-panic): a template-linked policy
`context.k && (1 + "s" == ?principal)`; `context.k` is residual, the right operand errors, the best-effort fall-back keeps the
ORIGINAL operand with its unlinked slot; `may_be_determining` and `reauthorize` then panic, `must_be_determining` does not. -/
theorem partial_response_panic_reachable :
    let preq : PRequest := ⟨.known ⟨"U", "a"⟩, .known ⟨"A", "x"⟩, .known ⟨"R", "r"⟩, some (.residual [("k", .unknown "k" none)])⟩
    let p : Policy := ⟨"link1", .permit,
      .and (.getAttr (.var .context) "k") (.binaryApp .eq (.binaryApp .add (.lit (.int 1)) (.lit (.string "s"))) (.slot .principal)),
      [(.principal, ⟨"U", "a"⟩)]⟩
    let pr := isAuthorizedCore [] preq ⟨[], false⟩ [p]
    pr.residualPoliciesPanic = true ∧
    NoPanic.mayBeDetermining pr = .panic NoPanic.policyNewSite ∧
    NoPanic.reauthorize pr [] ⟨[], false⟩ = .panic NoPanic.policyNewSite ∧
    NoPanic.mustBeDetermining pr = .policies [] := by
  intro preq p pr
  have h1 : pr.residualPoliciesPanic = true := by decide +kernel
  refine ⟨h1, ?_, (NoPanic.reauthorize_panics pr [] ⟨[], false⟩ h1).1, ?_⟩
  · have hp : (NoPanic.mayBeDetermining pr).isPanic = true := by
      rw [NoPanic.mayBeDetermining_isPanic]; decide +kernel
    cases hm : NoPanic.mayBeDetermining pr with
    | policies ps => rw [hm] at hp; cases hp
    | panic s =>
      congr 1
      have hr := (NoPanic.reauthorize_panics pr [] ⟨[], false⟩ h1).1
      -- every panic of a collected iterator is the `Policy::new` site
      unfold NoPanic.mayBeDetermining at hm
      split at hm
      all_goals
        apply NoPanic.collect_panic_site _ _ s hm
        intro o ho s' hs'
        subst hs'
        simp only [NoPanic.definitelySatisfiedPermits, NoPanic.definitelySatisfiedForbids, NoPanic.residualPermits,
          NoPanic.residualForbids, List.mem_append, List.mem_map] at ho
        have key : ∀ eff id e, NoPanic.PolOutcome.panic s' = NoPanic.constructPolicy eff id e → s' = NoPanic.policyNewSite := by
          intro eff id e he
          unfold NoPanic.constructPolicy at he
          split at he
          · injection he
          · cases he
        first
          | (rcases ho with (⟨_, _, he⟩ | ⟨_, _, he⟩) | ⟨_, _, he⟩ <;> exact key _ _ _ he.symm)
          | (rcases ho with ⟨_, _, he⟩ | ⟨_, _, he⟩ <;> exact key _ _ _ he.symm)
  · have hp : (NoPanic.mustBeDetermining pr).isPanic = false := NoPanic.mustBeDetermining_safe pr
    unfold NoPanic.mustBeDetermining NoPanic.definitelySatisfiedPermits NoPanic.definitelySatisfiedForbids
    have e1 : pr.satisfiedPermits = [] := by decide +kernel
    have e2 : pr.satisfiedForbids = [] := by decide +kernel
    rw [e1, e2]
    simp [NoPanic.collect]

-- non-vacuity of `no_panic_partial_response`: the C13 example (unknown typed principal, a residual permit, a false forbid)
example :
    let preq : PRequest := ⟨.unknown (some "U"), .known ⟨"A", "x"⟩, .known ⟨"R", "r"⟩, some (.value [])⟩
    let p1 : Policy := ⟨"p1", .permit, .unaryApp .not (.hasAttr (.var .principal) "blocked"), []⟩
    let p2 : Policy := ⟨"p2", .forbid, .hasAttr (.var .context) "x", []⟩
    (isAuthorizedCore [] preq ⟨[], false⟩ [p1, p2]).residualPoliciesPanic = false ∧
    (isAuthorizedCore [] preq ⟨[], false⟩ [p1, p2]).residualPermits.length = 1 := by
  intro preq p1 p2
  exact ⟨by decide +kernel, by decide +kernel⟩

/-! ### (j) `remove_empty_lines` (cedar-policy-formatter/src/pprint/utils.rs)

Mirror `Cedar/NoPanic/RemoveEmptyLines.lean` (`Rel.loop`, `Rel.removeEmptyLines`): the `while index < text.len()` loop with the two
`find_at` searches as oracles, `min_by_key`, the slices `&text[index..m.start()]`, `m.as_str()`, `&text[index..]` and
`index = m.end()`.  Hypothesis `Rel.Contract text f` (the regex-crate contract for `find_at` on a `&str`): for a search starting
at a char boundary `i < len`, a returned match has `i ≤ start ≤ end`, and `start`, `end` are char boundaries of `text` (so
`end ≤ len`).  Nothing else is assumed of the oracles — in particular not that they implement the two patterns. -/

open Cedar.NoPanic Cedar.NoPanic.Rel in
/-- under the contract no slice of the loop can be out of range, inverted or inside a char — from any boundary `index`, for any
fuel — and `find_at` is never called past the end -/
theorem no_panic_remove_empty_lines (text : List Char) (c s : FindAt) (hc : Contract text c) (hs : Contract text s) :
    (∀ fuel index, isBoundary text index = true → ∀ site, loop text c s fuel index ≠ .panic site) ∧
    (∀ site, removeEmptyLines text c s ≠ .panic site) := by
  have key : ∀ fuel index, isBoundary text index = true → ∀ site, loop text c s fuel index ≠ .panic site := by
    intro fuel index hb site
    obtain ⟨pre, rest, ht, rfl⟩ := (isBoundary_iff text index).mp hb
    rcases loop_ok text c s hc hs fuel pre rest ht with ⟨ps, h, _⟩ | ⟨h, _⟩ <;> rw [h] <;>
      (intro h'; cases h')
  exact ⟨key, fun site => key _ 0 (by simp [isBoundary, sliceFrom_zero]) site⟩

open Cedar.NoPanic Cedar.NoPanic.Rel in
/-- if moreover neither pattern matches the empty string (`//…` and `"…"` are at least two bytes), `index` strictly increases:
the loop ends within `len + 1` iterations, and the slices pushed are a partition of the text (nothing lost, nothing repeated) -/
theorem remove_empty_lines_terminates (text : List Char) (c s : FindAt) (hc : Contract text c) (hs : Contract text s)
    (nc : NonEmptyMatches text c) (ns : NonEmptyMatches text s) :
    ∃ ps, removeEmptyLines text c s = .done ps ∧ flat ps = text := by
  rcases loop_ok text c s hc hs (bytes text + 1) [] text rfl with ⟨ps, h, hf⟩ | ⟨_, hf⟩
  · exact ⟨ps, h, hf⟩
  · have := hf nc ns; omega

-- non-vacuity: executable oracles for the two patterns satisfy both hypotheses on a text with multi-byte chars in a string, in a
-- comment and outside, a quote inside a comment, `//` inside a string, an unterminated string at the end; the loop runs 4 rounds
open Cedar.NoPanic Cedar.NoPanic.Rel in
example :
    let text := "é \"a//é\\\"\" // it's \"q\n\n😀 \"x\" \"unterminated".toList
    checkContract text (commentOracle text) = true ∧ checkContract text (stringOracle text) = true ∧
    checkNonEmpty text (commentOracle text) = true ∧ checkNonEmpty text (stringOracle text) = true ∧
    removeEmptyLines text (commentOracle text) (stringOracle text) =
      .done [.outside "é ".toList, .verbatim "\"a//é\\\"\"".toList, .outside " ".toList, .verbatim "// it's \"q".toList,
             .outside "\n\n😀 ".toList, .verbatim "\"x\"".toList, .outside " \"unterminated".toList] := by
  decide +kernel
-- the contract is what protects the slices: a match ending inside `é`, one before `index`, an inverted one reach the sites
open Cedar.NoPanic Cedar.NoPanic.Rel in
example : removeEmptyLines "aé".toList (fun _ => some ⟨1, 2⟩) (fun _ => none) = .panic "m.as_str()" := by decide +kernel
open Cedar.NoPanic Cedar.NoPanic.Rel in
example : loop "abc".toList (fun _ => some ⟨0, 1⟩) (fun _ => none) 5 2 = .panic "&text[index..m.start()]" := by decide +kernel
open Cedar.NoPanic Cedar.NoPanic.Rel in
example : removeEmptyLines "abc".toList (fun _ => some ⟨2, 1⟩) (fun _ => none) = .panic "m.as_str()" := by decide +kernel
open Cedar.NoPanic Cedar.NoPanic.Rel in
example : removeEmptyLines "abc".toList (fun _ => some ⟨1, 9⟩) (fun _ => none) = .panic "m.as_str()" := by decide +kernel
-- and an oracle allowed to match the empty string satisfies the contract but never advances: the Rust loop would hang
open Cedar.NoPanic Cedar.NoPanic.Rel in
example : checkContract "abc".toList (fun i => some ⟨i, i⟩) = true ∧
    removeEmptyLines "abc".toList (fun i => some ⟨i, i⟩) (fun _ => none) = .fuel := by decide +kernel

/-! ### (k) extension calls in the typechecker (cedar-policy-core/src/validator/typecheck.rs `typecheck_extension`,
validator/extension_schema.rs `check_arguments`, validator/extensions/{ipaddr,decimal,datetime}.rs `validate_*_string`)

Mirror `Cedar/NoPanic/ExtArgCheck.lean`.  The caller only RECORDS `wrong_number_args` (sets `failed`) and calls the argument check
anyway, so the check sees every argument count. -/

open Cedar.NoPanic.ExtArg in
/-- the four `validate_*_string` checks (`exprs.iter().exactly_one()`): no panic for any number and kind of arguments, whatever the
extension constructor answers -/
theorem no_panic_ext_argument_checks (ctor : List Char → Bool) (exprs : List Arg) :
    ∀ site, validateCtorString .exactlyOne ctor exprs ≠ .panic site :=
  validateCtorString_exactlyOne_safe ctor exprs

open Cedar.NoPanic.ExtArg in
/-- with `exprs[0]` instead (what their doc comment "we already checked that `exprs` contains correct number of arguments"
would license) they panic exactly on the empty argument list — which the caller does pass on -/
theorem ext_argument_check_index_panics_iff (ctor : List Char → Bool) (exprs : List Arg) :
    (∃ site, validateCtorString .index0 ctor exprs = .panic site) ↔ exprs = [] :=
  validateCtorString_index0_panics_iff ctor exprs

open Cedar.NoPanic.ExtArg in
/-- the whole arm of `Typechecker::typecheck`: for every expression kind, mode, known or unknown function and argument list
neither the `let … else { panic! }`, nor the argument check, nor `Left => arg_tys.last().unwrap()`, nor `Right => unreachable!` is
reached.  Invariant used (comment at the `unwrap`: "by construction variadic functions have at least 2 argument types",
`ast::ExtensionFunction::variadic`): a variadic function type has at least one argument type -/
theorem no_panic_typecheck_extension (strict : Bool) (k : Kind)
    (hinv : ∀ ft args, k = .extensionFunctionApp (some ft) args → ft.variadic = true → 0 < ft.nArgTys) :
    ∀ o, typecheckArm .exactlyOne strict k = some o → ∀ site, o ≠ .panic site := by
  intro o ho site
  cases k with
  | other => cases ho
  | extensionFunctionApp lookup args =>
    simp only [typecheckArm, typecheckExtension, Option.some.injEq] at ho
    subst ho
    exact typecheckExtensionFn_safe strict lookup (fun ft h hv => hinv ft args (by rw [h]) hv) args site

-- non-vacuity: zero arguments to `ip` — the error is recorded, the check is still called and answers `Ok`; with `exprs[0]` it panics
open Cedar.NoPanic.ExtArg in
example : typecheckExtensionFn .exactlyOne true (some ⟨1, false, some fun _ => false⟩) [] = .fail [.wrongNumberArgs 1 0] := by
  decide +kernel
open Cedar.NoPanic.ExtArg in
example : typecheckExtensionFn .index0 true (some ⟨1, false, some fun _ => false⟩) [] = .panic "exprs[0]" := by decide +kernel
-- two arguments, one argument that does not parse, a non-literal in strict mode, a good call; variadic with extra arguments
open Cedar.NoPanic.ExtArg in
example : typecheckExtensionFn .exactlyOne true (some ⟨1, false, some fun _ => false⟩) [.strLit ['x'], .strLit ['y']] =
    .fail [.wrongNumberArgs 1 2] := by decide +kernel
open Cedar.NoPanic.ExtArg in
example : typecheckExtensionFn .exactlyOne true (some ⟨1, false, some fun _ => false⟩) [.strLit ['x']] =
    .fail [.functionArgumentValidation ['x']] := by decide +kernel
open Cedar.NoPanic.ExtArg in
example : typecheckExtensionFn .exactlyOne true (some ⟨1, false, some fun _ => true⟩) [.nonLit] = .fail [.nonLitExtConstructor] := by
  decide +kernel
open Cedar.NoPanic.ExtArg in
example : typecheckExtensionFn .exactlyOne true (some ⟨1, false, some fun _ => true⟩) [.strLit ['x']] = .checked 1 := by
  decide +kernel
open Cedar.NoPanic.ExtArg in
example : typecheckExtensionFn .exactlyOne false (some ⟨2, true, none⟩) [.nonLit, .nonLit, .nonLit, .nonLit] = .checked 4 := by
  decide +kernel
-- the invariant is needed (`ExtensionFunctionType::new` is public and does not check it), and the `let … else` is a real site
open Cedar.NoPanic.ExtArg in
example : typecheckExtensionFn .exactlyOne false (some ⟨0, true, none⟩) [.nonLit] =
    .panic "Left(arg) => (arg, arg_tys.last().unwrap())" := by decide +kernel
open Cedar.NoPanic.ExtArg in
example : ∃ site, typecheckExtension .exactlyOne false .other = .panic site := ⟨_, rfl⟩
open Cedar.NoPanic.ExtArg in
example : ∃ site, zipLongest true [] 1 = .error site := ⟨_, rfl⟩

/-! ### (l) `display_cedarvaluejson` (cedar-policy-core/src/est/expr.rs)

Mirror `Cedar/NoPanic/EstDisplay.lean` (`EstDisp.display fixed style n v`; `fixed = true` is the code after /repo commit f169b51,
`fixed = false` the control flow before it). -/

open Cedar.NoPanic.EstDisp in
/-- no JSON value — any nesting of extension escapes with any number of arguments, sets, records, any truncation bound, any call
style table — reaches `&args[0]`, `&args[1..]` or the `len() - 1` underflows -/
theorem no_panic_display_cedarvaluejson (style : String → Option Bool) (n : Option Nat) (v : CVJ) :
    ∀ site, display true style n v ≠ .panic site :=
  (Out.not_isPanic_iff _).mp (display_safe style n v)

open Cedar.NoPanic.EstDisp in
/-- before the fix: a method-style function applied to no argument (`{"__extn": {"fn": "isIpv4", "args": []}}`, accepted by
`from_json`) indexes `args[0]` -/
theorem display_cedarvaluejson_prefix_panics (style : String → Option Bool) (n : Option Nat) (fn : String)
    (h : style fn = some true) : display false style n (.extnMulti fn []) = .panic "&args[0]" :=
  display_prefix_panics style n fn h

-- non-vacuity: the zero-argument method call prints in function style after the fix and panics before it (also when nested);
-- receiver/argument split with 1, 2, 3 arguments; empty and truncated collections
open Cedar.NoPanic.EstDisp in
example : display true stdStyle none (.extnMulti "isIpv4" []) = .text "isIpv4()" := by decide +kernel
open Cedar.NoPanic.EstDisp in
example : display false stdStyle none (.extnMulti "isIpv4" []) = .panic "&args[0]" := by decide +kernel
open Cedar.NoPanic.EstDisp in
example : display false stdStyle (some 1) (.set [.record [("k", .extnMulti "isInRange" [])]]) = .panic "&args[0]" := by
  decide +kernel
open Cedar.NoPanic.EstDisp in
example : display true stdStyle none (.extnMulti "isIpv4" [.atom "a"]) = .text "a.isIpv4()" := by decide +kernel
open Cedar.NoPanic.EstDisp in
example : display true stdStyle none (.extnMulti "isInRange" [.atom "a", .extnSingle "ip" (.atom "\"::1\"")]) =
    .text "a.isInRange(ip(\"::1\"))" := by decide +kernel
open Cedar.NoPanic.EstDisp in
example : display true stdStyle none (.extnMulti "f" [.atom "a", .atom "b", .atom "c"]) = .text "f(a, b, c)" := by decide +kernel
open Cedar.NoPanic.EstDisp in
example : display true stdStyle (some 1) (.set [.atom "1", .set [], .record []]) = .text "[1, ..]" := by decide +kernel
open Cedar.NoPanic.EstDisp in
example : display true stdStyle (some 3) (.set [.atom "1", .set [], .record [("k", .atom "2")]]) =
    .text "[1, [], {\"k\": 2}]" := by decide +kernel

/-! ### (h) `ast::PolicySet` (cedar-policy-core/src/ast/policy_set.rs) — proved in C08, cited here

`unlink`: `panic!("No template found for linked policy")`; `remove_template`: `panic!("Found in template_to_links_map but not in
templates")`; `merge_policyset`: `unwrap` of `new_template_id`. The mirrors are in `Cedar/PolicySet.lean`. -/

/-- under the policy-set invariant no core operation reaches a `panic!` site (`Cedar.C08.no_panic`) -/
theorem no_panic_policyset_op (ps : PolicySet) (op : CoreOp) (wf : C08.Invariant ps) (m : String) :
    (ps.applyOp op).err ≠ some (.panic m) :=
  C08.no_panic ps op wf m

/-- and the invariant holds after every admissible history from the empty set (`Cedar.C08.history_inv`): no sequence of
public operations reaches them -/
theorem no_panic_policyset_history (ops : List CoreOp) (adm : PolicySet.admissibleHist {} ops) (op : CoreOp) (m : String) :
    ((PolicySet.run {} ops).applyOp op).err ≠ some (.panic m) :=
  C08.no_panic _ op (C08.history_inv ops adm) m

/-- `merge_policyset` never panics, for arbitrary arguments (`Cedar.C08.merge_no_panic_fail_unchanged`) -/
theorem no_panic_policyset_merge (ps other : PolicySet) (rename : Bool) (m : String) :
    (ps.merge other rename).err ≠ some (.panic m) :=
  (C08.merge_no_panic_fail_unchanged ps other rename).1 m

/-! ### (i) string unescaping: ranges and slices (cedar-policy-core/src/parser/unescape.rs over rustc_literal_escaper 0.0.8)

Mirror `Cedar/NoPanic/Unescape.lean`: `Unescape::unescape` with the `Chars` iterator explicit, so that every callback range is
computed by the crate's own `src.len() - chars.as_str().len() - c.len_utf8()` arithmetic (usize underflow = `.panic`), ALL
callbacks are produced (the loop continues after an error), `skip_ascii_whitespace`'s `split_at` is a site; then
`to_pattern`'s `&bytes[range.clone()]` and `Display for UnescapeError`'s `&self.input[self.range.clone()]` over every stored
error. (`extensions/decimal.rs` uses `caps.get(1).ok_or_else(..)?`, not `unwrap`: it has no panic site.) -/

open Cedar.NoPanic in
/-- every range handed to the callback is cut out by a decomposition `src = pre ++ mid ++ post`: ordered, in bounds, both ends
on char boundaries — whatever multi-byte characters and broken escapes the input contains; the loop's fuel suffices -/
theorem unescape_ranges_on_boundaries (src : List Char) :
    ∃ cbs, unescapeCallbacks src = .done cbs ∧
      ∀ cb ∈ cbs, byteRangeOk src cb.start cb.stop = true ∧ ∃ mid, sliceRange src cb.start cb.stop = some mid := by
  obtain ⟨cbs, hc, hg⟩ := unescapeCallbacks_ok src
  refine ⟨cbs, hc, fun cb hcb => ?_⟩
  obtain ⟨mid, h1, h2⟩ := (hg cb hcb).slice
  exact ⟨h2, mid, h1⟩

open Cedar.NoPanic in
/-- `to_unescaped_string` / `to_pattern` followed by `to_string()` of every error: no slice, no subtraction can panic -/
theorem no_panic_unescape_slices (src : List Char) (pat : Bool) :
    (∀ site, unescapeSlices src pat ≠ .panic site) ∧ unescapeSlices src pat ≠ .fuel := by
  obtain ⟨acc, shown, h⟩ := unescapeSlices_ok src pat
  rw [h]
  exact ⟨fun _ h => SliceOutcome.noConfusion h, fun h => SliceOutcome.noConfusion h⟩

-- non-vacuity: several errors in one input, multi-byte chars before / inside / after the reported ranges, `\*` in both modes,
-- backslash-newline continuation before a multi-byte char; and the slice sites are real (offsets inside `é` fail)
open Cedar.NoPanic in
example : unescapeSlices "a\\*b\\qé\\u{110000}x\\".toList true =
    .ret false ["\\q".toList, "\\u{110000}".toList, "\\".toList] := by decide +kernel
open Cedar.NoPanic in
example : unescapeSlices "a\\*".toList false = .ret false ["\\*".toList] := by decide +kernel
open Cedar.NoPanic in
example : unescapeSlices "é\\é😀".toList false = .ret false ["\\é".toList] := by decide +kernel
open Cedar.NoPanic in
example : unescapeSlices "é\\\n  \t é\\xzz".toList false = .ret false ["\\xz".toList] := by decide +kernel
open Cedar.NoPanic in
example : unescapeSlices "é\\n\\u{1F600}".toList false = .ret true [] := by decide +kernel
open Cedar.NoPanic in
example : sliceRange "é".toList 0 1 = none := by decide +kernel
open Cedar.NoPanic in
example : sliceRange "aé".toList 2 3 = none := by decide +kernel
open Cedar.NoPanic in
example : byteRangeOk "aé".toList 2 4 = false := by decide +kernel

end Cedar.C20
