import CedarVerif.Lemmas.ManifestCheck
import CedarVerif.Lemmas.ManifestEnd
import CedarVerif.Lemmas.ManifestValid
import CedarVerif.Lemmas.ManifestLitValid
import CedarVerif.Lemmas.ManifestSorted
import CedarVerif.Lemmas.ManifestMono
import CedarVerif.Lemmas.ManifestGrow
import CedarVerif.Lemmas.TypecheckPolicy
import CedarVerif.Thm.C01
import CedarVerif.Thm.C11
/-
C17 — Entity-manifest slicing keeps everything authorization needs.

  "For every strictly valid policy set, the entity manifest computed from it is such that, for every conformant request
   and entity store, authorization over the store sliced by the manifest gives the same decision, determining policies
   and erroring policies as authorization over the full store."

Model: Cedar/Manifest.lean (`manifestOfExpr` = `entity_manifest_from_expr` on the typed AST, `toTypedRoots` = `to_typed`,
`manifestOfEnvs` = the per-request-type body of `compute_entity_manifest`, `sliceStore` = `EntityManifest::slice_entities`).
What is PROVED here:

  * `slice_monotone`             a larger trie keeps more of every value (attributes) and requests more ancestors;
  * `slice_preserves_requested`  every path the trie lists leads, in the slice of a value, to the slice of what it led to;
                                 non-record leaves are kept unchanged;
  * `slicer_meets_spec`          THE SLICER MEETS ITS SPECIFICATION: for a trie with unique children keys whose
                                 `is_entity_type` annotations agree with the data, the store computed by the model's slicer
                                 (`sliceStorePure`: slice_entity / slice_val on pruned tries, the loading loop, merge of
                                 slices per entity, compute_ancestors_request / load_ancestors) is a sub-store of the full
                                 store (`slice_is_substore`, unconditional) and covers the trie: requested attributes,
                                 every entity reachable along trie paths from the roots, requested ancestors
                                 (Lemmas/Manifest{Merge,Load,Slicer}.lean).  `slicer_needs_agreeing_annotations` shows the
                                 annotation hypothesis cannot be dropped.  Both hypotheses are PROVED for manifests:
                                 `manifestOfExpr_wf` + `toTypedRoots_wf` (unique keys, given record types with unique
                                 attribute names, `TypesUK`), `flagsRoots_typed` (annotations, given data that conforms to
                                 the schema as far as the trie looks, `ConfRoots`); `coverRoots_untyped`: a store covering
                                 the annotated (pruned) trie covers the analysis' trie (Lemmas/Manifest{Typed,WF}.lean);
  * `manifest_sound_partial`     CORE FRAGMENT (`InFrag`: literals, variables, `.`/`has` chains through records and
                                 entities, `&& || !`, `if` (also producing entities / records that are dereferenced),
                                 unary `-`, `isEmpty`, `== < <= + - *`, `in` (entity and set right-hand sides, with the
                                 ancestors-required tries), `contains containsAll containsAny`, `like`, `is`; operands
                                 of binary operators must not be records): every store that is a sub-store of the full
                                 store and *covers* the trie computed by the analysis evaluates the expression exactly as
                                 the full store does (same value up to dropped record fields, same error);
  * `manifest_sound_sliced`      the same for THE STORE `sliceStore (manifestOfEnvs …)` COMPUTES — analysis, `to_typed`,
                                 slicer composed; no hypothesis about the slice is left;
  * `response_sliced_partial`, `response_sliced_static`, `decision_sliced_*`
                                 lifted to the authorizer: same `Response` (decision, reasons, errors), hence by C01 the
                                 decision over the slice is characterised by the satisfied policies over the FULL store;
                                 `_static`: for static policies with conditions in the fragment, over the slice the model
                                 computes for their manifest;
  * `full_statement_of_fragment` `FullStatement` (with its precise exclusions: typed-False environments, templates, tags,
                                 unknowns, slicer failure exits) holds for every notion of typed AST / conformance such that
                                 typed ASTs are in the fragment and conformance implies `CtxWF`, `SafeOps` (type soundness)
                                 and `ConfRoots` (trie-directed conformance);
  * `manifest_sound_valid`       BOTH OBLIGATIONS DISCHARGED FOR THE C03 / C11 NOTIONS: for static policies of the core
                                 fragment plus extension function calls (`FragE`) accepted by the strict typechecker MODEL of C03 (`checkEnv .strict`) in
                                 the request's environment and not typed `False` there, every request and store conforming
                                 to the schema in the sense of C11 (`ConformsRequest`, `StoreConforms`, action entities
                                 present), a schema as Rust constructs them (`SchemaClosed` = C03's `SchemaWF3` + no open
                                 entity types):  `isAuthorized req (sliceStore manifest req store) ps = isAuthorized req
                                 store ps`, where the manifest is computed (analysis + `to_typed`) from the typed ASTs
                                 `typedAst` — the policy annotated with `typeOf`'s types AND TRANSFORMED WHERE THE
                                 TYPECHECKER SHORT-CIRCUITS as typecheck.rs does (`a && b` with `a : False` ↦ `a`,
                                 `a || b` with `a : True` ↦ `a`, `if c …` with `c : True/False` ↦ both branches the taken
                                 one) — while the ORIGINAL policy is what is evaluated.  Ingredients: `confRoots_all`
                                 (C11 conformance ⇒ `ConfRoots`, for every trie; Lemmas/ManifestConf.lean), `sim_typed`
                                 (C03 type soundness `soundM` ⇒ the lazy form `Sim` of `SafeOps` and the semantic facts
                                 behind the short-circuit transformations; Lemmas/ManifestValid.lean), `eval_sim`
                                 (soundness of the analysis for an expression and a `Sim`-typed AST of it;
                                 Lemmas/ManifestEval.lean), `typesUK_typed` (`TypesUK` from `typeOf_cn`).  Remaining side
                                 conditions: `NoRecOps` (syntactic, on the typed AST: `==` does not compare records,
                                 `contains` does not look for a record; for every other operator the typing rules force
                                 non-record operands, `binary_inv`) and `CtxWF` (the context is a map);
  * `decision_sliced_valid`      the same through C01's characterisation of the decision;
  * `manifest_sound_valid_accepted`  the same from acceptance of the policies by `checkPolicy .strict` in ALL environments
                                 (C03's policy-level premise): the request's environment is one of them.

  * `manifest_sound_valid_lit`   RECORD AND SET LITERALS, `NoRecOps` REMOVED: the same for `FragL` = `FragE` + set literals + record
                                 literals with distinct keys (dereferenced `{x: principal.a}.x.b`, as operands
                                 `[principal.a, resource.b].contains(…)`, `x in [A::"a", r.owner]`, nested), with `==` /
                                 `contains*` on records allowed.  `VRel` (Lemmas/ManifestFull.lean) extends `PCover` to
                                 `WrappedAccessPaths::RecordLiteral / SetLiteral`, `SimL` / `eval_simL` (Lemmas/ManifestLit.lean)
                                 extend `Sim` / `eval_sim`; `full_eq`: where the analysis requests the full type
                                 (`full_type_required`) a covering sub-store holds THE WHOLE VALUE; `sim_typedL`
                                 (Lemmas/ManifestLitValid.lean): C03 type soundness + `typeOf_cn` give the premises.
                                 Hypotheses replacing `NoRecOps` and `CtxWF`: `SortedReq req`, `SortedStore es` (records are
                                 key-sorted: Rust `BTreeMap`s; `Value.beq` on records is positional in the model);
                                 `sortedStore_slice`: the slice is key-sorted (proved, Lemmas/ManifestSorted.lean);
  * `ctxWF_not_from_conformance` `CtxWF` is NOT derivable from `ConformsRequest` (a context list binding a key twice conforms).

  * `slice_monotone_store`       STORE-LEVEL MONOTONICITY ("a larger trie keeps more entities"): `rootsLe t t'` and agreeing
                                 `is_entity_type` annotations (`FlagsAgreeRoots t t'`: at corresponding nodes `t'` is annotated
                                 entity-typed only where `t` is; nothing is required of ancestors tries) ⇒ the store sliced
                                 by `t` is a sub-store of the store sliced by `t'` (every entity, with at least its attributes
                                 and ancestors).  No well-formedness / conformance hypothesis.  Ingredients
                                 (Lemmas/ManifestMono.lean): `pruneFields_le` (pruning respects the annotated order `leA`),
                                 `expandValue_mono` / `allRequests_mono` (every entity request is matched by a larger one),
                                 `loadAll_below` (merged loads), `ancValue_mono` / `ancRequest_mono`, `addAncestors_upper`.
                                 `slice_monotone_entities_needs_flags`: the annotation condition cannot be dropped;
  * `manifest_union_grows`       adding a policy only grows the slice: the manifest entry of `ps ++ [p]` is `≥` the entry of
                                 `ps` with agreeing annotations (`rootsLeA`; `rootsLe_union_right`: `t₀ ≤ t ⇒ t₀ ≤ t ∪ v`,
                                 `toTypedRoots_mono`: `to_typed` maps `≤` to `leA`; Lemmas/ManifestGrow.lean), hence the
                                 slices are ordered for every request and store.  Hypothesis: the un-annotated trie of `ps`
                                 is `≤` itself (unique root / ancestors-trie keys; checkable, not derived from the analysis).

What REMAINS: deriving the self-comparability hypothesis of `manifest_union_grows` from the analysis (`RootsWF` covers children
keys only, not root keys / ancestors tries);
`typedAst` is a specification-level definition (Lemmas/ManifestValid.lean, written
from typecheck.rs; the differential run takes the typed ASTs from Rust and does not diff `typedAst` against them).
`FullStatement` (whose hypothesis `p.condition = te.erase` restricts it to typed ASTs without short-circuit transformation)
is FALSE for the analysed code outside the stated exclusions' complement in two ways found by this check (see
`typed_false_environment_breaks_slicing` and known_findings.jsonl): request environments in which the typechecker types a
policy `False` contribute nothing to the manifest although evaluating the policy reads data, and template slots are
analysed as the request variable.
-/
namespace Cedar.C17
open Cedar Cedar.Manifest

/-! ## slicing is monotone in the trie -/

/-- C17: a larger trie keeps more.  (1) attributes: the slice of any value by a smaller trie is a trimmed copy of its
slice by a larger trie; (2) the same for the attribute record of an entity; (3) ancestors: a larger ancestors trie
requests more ancestor ids (so more of the entity's ancestors are kept). -/
theorem slice_monotone :
    (∀ (t1 t2 : AccessTrie) (v : Value), AccessTrie.le t1 t2 → Trim (sliceVal t1 v) (sliceVal t2 v)) ∧
    (∀ (c1 c2 : Fields) (attrs : List (String × Value)), fieldsLe c1 c2 →
        TrimKVs (sliceFields c1 attrs) (sliceFields c2 attrs)) ∧
    (∀ (m : Entities) (req : Request) (a1 a2 : RootAccessTrie) (x : EntityUID),
        x ∈ ancRequest m req a1 → x ∈ ancRequest m req (unionRoots a1 a2) ∧ x ∈ ancRequest m req (unionRoots a2 a1)) := by
  refine ⟨sliceVal_mono, ?_, ?_⟩
  · intro c1 c2 attrs h
    exact trimKVs_of_lookup _ _ (sliceFields_mono c1 c2 attrs h)
  · intro m req a1 a2 x hx
    exact ⟨(ancRequest_union m req x a2 a1).1 hx, (ancRequest_union m req x a1 a2).2 hx⟩

/-- non-vacuity: the larger trie keeps `b`, the smaller one drops it; both drop `c` -/
example :
    let t1 : AccessTrie := .mk [("a", .new)] [] false false
    let t2 : AccessTrie := .mk [("a", .new), ("b", .new)] [] false false
    let v : Value := .record [("a", .prim (.int 1)), ("b", .prim (.int 2)), ("c", .prim (.int 3))]
    AccessTrie.le t1 t2 ∧ sliceVal t1 v = .record [("a", .prim (.int 1))] ∧
      sliceVal t2 v = .record [("a", .prim (.int 1)), ("b", .prim (.int 2))] := by
  refine ⟨?_, rfl, rfl⟩
  simp [AccessTrie.le, fieldsLe, rootsLe, lookupField, AccessTrie.children, AccessTrie.new]

/-! ## requested paths survive slicing -/

/-- C17: every access path in the trie evaluates the same in the sliced value: projecting the slice along a listed path
gives the slice (by the sub-trie at that path) of the projection of the original; a non-record value at the end of the
path is unchanged; and the attribute record of a sliced entity holds exactly the requested attributes that exist. -/
theorem slice_preserves_requested :
    (∀ (fs : List String) (t t' : AccessTrie) (v : Value), subtrie t fs = some t' →
        project (sliceVal t v) fs = (project v fs).map (sliceVal t')) ∧
    (∀ (t : AccessTrie) (v : Value), (∀ kvs, v ≠ .record kvs) → sliceVal t v = v) ∧
    (∀ (c : Fields) (attrs : List (String × Value)) (k : String),
        lookupKV (sliceFields c attrs) k =
          match lookupField c k with
          | some t => (lookupKV attrs k).map (sliceVal t)
          | none => none) :=
  ⟨project_sliceVal, sliceVal_nonrecord, lookup_sliceFields⟩

/-- non-vacuity: path `r.x` is listed; the slice drops `r.y` and `z` and keeps `r.x` -/
example :
    let t : AccessTrie := .mk [("r", .mk [("x", .new)] [] false false)] [] false false
    let v : Value := .record [("r", .record [("x", .prim (.int 7)), ("y", .prim (.int 8))]), ("z", .prim (.bool true))]
    subtrie t ["r", "x"] = some .new ∧ project (sliceVal t v) ["r", "x"] = some (.prim (.int 7)) ∧
      project (sliceVal t v) ["r", "y"] = none ∧ project v ["r", "y"] = some (.prim (.int 8)) :=
  ⟨rfl, rfl, rfl, rfl⟩

/-! ## soundness of the analysis on the core fragment -/

/-- a policy given by its typed condition (what `typecheck_by_request_env` returns for the request's environment) -/
structure TPolicy where
  id : String
  effect : Effect
  cond : TExpr

def TPolicy.toPolicy (p : TPolicy) : Policy := { id := p.id, effect := p.effect, condition := p.cond.erase, env := [] }

/-- C17 (core fragment): if the store `es'` invents nothing (`SubStore`) and covers the trie that the analysis computes
for `e`, then `e` evaluates over `es'` as over `es`: the same error, or the same value up to record fields that `e`
cannot have looked at (`Trim`). -/
theorem manifest_sound_partial (req : Request) (es es' : Entities) (hsub : SubStore es es') (hctx : CtxWF req)
    (e : TExpr) (r : Res) (hfrag : InFrag e) (hsafe : SafeOps req es e) (hm : manifestOfExpr e = .ok r)
    (hcov : CoverRoots es es' req r.global) :
    (∀ x, evaluate req es [] e.erase = .error x → evaluate req es' [] e.erase = .error x) ∧
    (∀ v, evaluate req es [] e.erase = .ok v → ∃ v', evaluate req es' [] e.erase = .ok v' ∧ Trim v' v) ∧
    (∀ b : Bool, evaluate req es [] e.erase = .ok (.prim (.bool b)) → evaluate req es' [] e.erase = .ok (.prim (.bool b))) := by
  have h := eval_sliced hsub hctx e r hfrag hsafe hm hcov
  refine ⟨?_, ?_, ?_⟩
  · intro x hx; rw [hx] at h; exact h
  · intro v hv; rw [hv] at h; obtain ⟨v', h1, h2, _⟩ := h; exact ⟨v', h1, h2⟩
  · intro b hv
    rw [hv] at h
    obtain ⟨v', h1, h2, _⟩ := h
    rw [h1, trim_prim h2]

/-- C17 (core fragment), lifted to the authorizer: for a policy set whose (typed) conditions are in the fragment, a
sub-store covering the union of the policies' tries gives the same response — decision, reasons and erroring policies. -/
theorem response_sliced_partial (req : Request) (es es' : Entities) (hsub : SubStore es es') (hctx : CtxWF req)
    (ps : List TPolicy) (tries : List RootAccessTrie)
    (hps : ∀ p, p ∈ ps → InFrag p.cond ∧ SafeOps req es p.cond ∧
      ∃ r, manifestOfExpr p.cond = .ok r ∧ r.global ∈ tries)
    (hcov : CoverRoots es es' req (unionAll tries)) :
    isAuthorized req es' (ps.map TPolicy.toPolicy) = isAuthorized req es (ps.map TPolicy.toPolicy) := by
  apply isAuthorized_congr
  intro q hq
  simp only [List.mem_map] at hq
  obtain ⟨p, hp, e⟩ := hq
  subst e
  obtain ⟨hf, hs, r, hm, hr⟩ := hps p hp
  have hc := coverRoots_unionAll es es' req tries hcov r.global hr
  have h := eval_sliced hsub hctx p.cond r hf hs hm hc
  rw [outcome_eq_outcomeOf, outcome_eq_outcomeOf]
  exact outcome_of_rel h

/-- C17 + C01: over such a slice, `Allow` is decided exactly when, over the FULL store, some permit is satisfied and no
forbid is. -/
theorem decision_sliced_partial (req : Request) (es es' : Entities) (hsub : SubStore es es') (hctx : CtxWF req)
    (ps : List TPolicy) (tries : List RootAccessTrie)
    (hps : ∀ p, p ∈ ps → InFrag p.cond ∧ SafeOps req es p.cond ∧
      ∃ r, manifestOfExpr p.cond = .ok r ∧ r.global ∈ tries)
    (hcov : CoverRoots es es' req (unionAll tries)) :
    (isAuthorized req es' (ps.map TPolicy.toPolicy)).decision = .allow ↔
      (∃ p, p ∈ ps.map TPolicy.toPolicy ∧ p.effect = .permit ∧ Sat req es p) ∧
      ¬ (∃ p, p ∈ ps.map TPolicy.toPolicy ∧ p.effect = .forbid ∧ Sat req es p) := by
  rw [response_sliced_partial req es es' hsub hctx ps tries hps hcov]
  exact Cedar.C01.allow_iff req es _

/-! ### a concrete instance: the slice drops an entity, an attribute and an ancestor; the response is unchanged -/

namespace Ex
def alice : EntityUID := ⟨"User", "alice"⟩
def bob : EntityUID := ⟨"User", "bob"⟩
def doc : EntityUID := ⟨"Doc", "d"⟩
def grp : EntityUID := ⟨"Group", "g"⟩
def req : Request := ⟨alice, ⟨"Action", "view"⟩, doc, [("level", .prim (.int 3))]⟩
def store : Entities := [
  (alice, { attrs := [("age", .prim (.int 30)), ("name", .prim (.string "alice"))], ancestors := [grp], tags := [] }),
  (bob, { attrs := [("age", .prim (.int 20)), ("name", .prim (.string "bob"))], ancestors := [], tags := [] }),
  (doc, { attrs := [("owner", .prim (.entityUID alice)), ("title", .prim (.string "t"))], ancestors := [grp], tags := [] }),
  (grp, { attrs := [], ancestors := [], tags := [] })]
/-- `resource.owner.name == "alice" && (if context.level < 5 then resource.owner else principal) has age` -/
def cond : TExpr :=
  .and
    (.binaryApp .eq (some .string) (some .string) (.getAttr (.getAttr (.var .resource) "owner") "name") (.lit (.string "alice")))
    (.hasAttr (.ite (.binaryApp .less none none (.getAttr (.var .context) "level") (.lit (.int 5)))
                (.getAttr (.var .resource) "owner") (.var .principal)) "age")
def pol : TPolicy := ⟨"p0", .permit, cond⟩
/-- `forbid … when { principal.name == "mallory" }` -/
def pol2 : TPolicy := ⟨"p1", .forbid,
  .binaryApp .eq (some .string) (some .string) (.getAttr (.var .principal) "name") (.lit (.string "mallory"))⟩
/-- `permit … when { principal in Group::"g" }` -/
def pol3 : TPolicy := ⟨"p2", .permit,
  .binaryApp .mem (some (.entity ["User"])) (some (.entity ["Group"])) (.var .principal) (.lit (.entityUID grp))⟩
def trie1 : RootAccessTrie := match manifestOfExpr cond with | .ok r => r.global | .error _ => []
def trie2 : RootAccessTrie := match manifestOfExpr pol2.cond with | .ok r => r.global | .error _ => []
def trie3 : RootAccessTrie := match manifestOfExpr pol3.cond with | .ok r => r.global | .error _ => []
def trie : RootAccessTrie := unionAll [trie1, trie2, trie3]
def userTy : EntityTypeEntry :=
  { attrs := [("age", true, CedarType.long), ("name", true, CedarType.string)], isOpen := false, tags := none,
    descendants := [], enumIds := none }
def docTy : EntityTypeEntry :=
  { attrs := [("owner", true, CedarType.entity ["User"]), ("title", true, CedarType.string)], isOpen := false, tags := none,
    descendants := [], enumIds := none }
def groupTy : EntityTypeEntry :=
  { attrs := [], isOpen := false, tags := none, descendants := ["Doc", "User"], enumIds := none }
def viewAct : ActionEntry :=
  { principals := ["User"], resources := ["Doc"], context := CedarType.record [("level", true, CedarType.long)] false,
    descendants := [], ancestors := [], attrs := [] }
def schema : Schema := { ets := [("Doc", docTy), ("Group", groupTy), ("User", userTy)], acts := [(⟨"Action", "view"⟩, viewAct)] }
/-- the manifest entry as `compute_entity_manifest` returns it: type-annotated -/
def typedTrie : RootAccessTrie :=
  match toTypedRoots schema ⟨"User", ⟨"Action", "view"⟩, "Doc"⟩ trie with | .ok t => t | .error _ => []
def sliced : Entities := sliceStorePure typedTrie req store
end Ex

/-- the slice: `bob` and the group are gone, `doc.title` is gone, the requested ancestor of `alice` is kept, the
(unrequested) ancestor of the document is dropped -/
example : (Ex.sliced.map (·.1) = [Ex.doc, Ex.alice]) ∧
    (Ex.sliced.find? Ex.doc).map (fun d => d.attrs.map (·.1)) = some ["owner"] ∧
    (Ex.sliced.find? Ex.alice).map (fun d => (d.attrs.map (·.1), d.ancestors)) = some (["age", "name"], [Ex.grp]) ∧
    (Ex.sliced.find? Ex.doc).map (fun d => d.ancestors) = some [] ∧ (Ex.store.find? Ex.doc).map (fun d => d.ancestors) = some [Ex.grp] ∧
    sliceFault Ex.typedTrie Ex.req Ex.store = none := by
  decide +kernel

/-- non-vacuity of `response_sliced_partial` / `manifest_sound_partial`: all hypotheses hold for the slice computed by the
model's slicer, the response is `Allow` by `p0` on both stores -/
example :
    isAuthorized Ex.req Ex.sliced [Ex.pol.toPolicy, Ex.pol2.toPolicy, Ex.pol3.toPolicy] =
      isAuthorized Ex.req Ex.store [Ex.pol.toPolicy, Ex.pol2.toPolicy, Ex.pol3.toPolicy] ∧
    (isAuthorized Ex.req Ex.store [Ex.pol.toPolicy, Ex.pol2.toPolicy, Ex.pol3.toPolicy]).reasons = ["p0", "p2"] := by
  constructor
  · have hsub : SubStore Ex.store Ex.sliced := subStoreB_sound _ _ (by decide +kernel)
    have hctx : CtxWF Ex.req := ctxWF_of_check _ (by decide +kernel)
    have hcov : CoverRoots Ex.store Ex.sliced Ex.req (unionAll [Ex.trie1, Ex.trie2, Ex.trie3]) :=
      coverRootsB_sound _ _ _ _ (by decide +kernel)
    refine response_sliced_partial Ex.req Ex.store Ex.sliced hsub hctx [Ex.pol, Ex.pol2, Ex.pol3]
      [Ex.trie1, Ex.trie2, Ex.trie3] ?_ hcov
    intro p hp
    simp only [List.mem_cons, List.not_mem_nil, or_false] at hp
    rcases hp with e | e | e <;> subst e
    · refine ⟨by simp [Ex.pol, Ex.cond, InFrag, FragOp], ?_, ?_⟩
      · simp only [Ex.pol, Ex.cond, SafeOps, and_true]
        exact ⟨⟨nonRec_of_check rfl, nonRec_of_check rfl⟩, nonRec_of_check rfl, nonRec_of_check rfl⟩
      · obtain ⟨r, hr⟩ := ok_of_check (r := manifestOfExpr Ex.pol.cond) rfl
        refine ⟨r, hr, ?_⟩
        have : Ex.trie1 = r.global := by
          simp only [Ex.trie1, show manifestOfExpr Ex.cond = .ok r from hr]
        simp [this]
    · refine ⟨by simp [Ex.pol2, InFrag, FragOp], ?_, ?_⟩
      · simp only [Ex.pol2, SafeOps, and_true]
        exact ⟨nonRec_of_check rfl, nonRec_of_check rfl⟩
      · obtain ⟨r, hr⟩ := ok_of_check (r := manifestOfExpr Ex.pol2.cond) rfl
        refine ⟨r, hr, ?_⟩
        have : Ex.trie2 = r.global := by
          simp only [Ex.trie2, hr]
        simp [this]
    · refine ⟨by simp [Ex.pol3, InFrag, FragOp], ?_, ?_⟩
      · simp only [Ex.pol3, SafeOps, and_true]
        exact ⟨nonRec_of_check rfl, nonRec_of_check rfl⟩
      · obtain ⟨r, hr⟩ := ok_of_check (r := manifestOfExpr Ex.pol3.cond) rfl
        refine ⟨r, hr, ?_⟩
        have : Ex.trie3 = r.global := by
          simp only [Ex.trie3, hr]
        simp [this]
  · decide +kernel

/-! ## the slicer meets its specification -/

/-- C17: THE SLICER MEETS ITS SPECIFICATION.  For a trie whose children maps have unique keys (`RootsWF`: hash maps in Rust;
proved for the analysis' output, `manifestOfExpr_wf`, and preserved by `to_typed`, `toTypedRoots_wf`) and whose
`is_entity_type` annotations agree with the data (`FlagsRoots`: a node annotated entity-typed never sits on a record value;
proved for `to_typed`'s output over data that conforms to the schema, `flagsRoots_typed`), the store the slicer computes
invents nothing (`SubStore`) and holds everything the trie requests (`CoverRoots`): requested attributes (recursively,
merged over all requests for the same entity), every entity reachable along trie paths from the roots, and the requested
ancestors.  This holds for the pure result whether or not one of the slicer's `assert!`s would fire. -/
theorem slicer_meets_spec (t : RootAccessTrie) (req : Request) (es : Entities)
    (hwf : RootsWF t) (hfl : FlagsRoots es req t) :
    SubStore es (sliceStorePure t req es) ∧ CoverRoots es (sliceStorePure t req es) req t :=
  sliceStorePure_meets_spec t req es hwf hfl

/-- nothing is invented, unconditionally -/
theorem slice_is_substore (t : RootAccessTrie) (req : Request) (es : Entities) : SubStore es (sliceStorePure t req es) :=
  sliceStorePure_sub t req es

/-- The hypothesis `FlagsRoots` of `slicer_meets_spec` cannot be dropped (so the formerly sampled statement "no fault ⇒
sub-store ∧ cover" for ARBITRARY tries is false; this is not a defect of the Rust code, whose annotations come from
`to_typed` and whose stores are validated): with `principal.r` annotated entity-typed over a store where it is a record,
`prune_child_entity_dereferences` drops the request for `r.x`, no `assert!` fires, and `principal.r.x == 1` changes from
satisfied to erroring. -/
theorem slicer_needs_agreeing_annotations :
    let p : EntityUID := ⟨"User", "a"⟩
    let req : Request := ⟨p, ⟨"Action", "view"⟩, ⟨"Doc", "d"⟩, []⟩
    let es : Entities := [(p, { attrs := [("r", .record [("x", .prim (.int 1))])], ancestors := [], tags := [] })]
    let t : RootAccessTrie := [(.var .principal, .mk [("r", .mk [("x", .new)] [] false true)] [] false true)]
    let pol : Policy := ⟨"p0", .permit,
      .binaryApp .eq (.getAttr (.getAttr (.var .principal) "r") "x") (.lit (.int 1)), []⟩
    RootsWF t ∧ sliceFault t req es = none ∧
    (isAuthorized req es [pol]).decision = .allow ∧ (isAuthorized req (sliceStorePure t req es) [pol]).decision = .deny := by
  intro p req es t pol
  refine ⟨by simp [t, RootsWF, AccessTrie.WF, fieldsWF, lookupField, AccessTrie.new], by decide +kernel, by decide +kernel,
    by decide +kernel⟩

/-! ## "a larger trie keeps more ENTITIES": the unconditional statement is false -/

namespace MonoCex
def p : EntityUID := ⟨"User", "a"⟩
def req : Request := ⟨p, ⟨"Action", "view"⟩, ⟨"Doc", "d"⟩, []⟩
def store : Entities := [(p, { attrs := [("r", .record [("x", .prim (.int 1))])], ancestors := [], tags := [] })]
/-- `principal.r.x` with `r` annotated record-typed (agrees with the data) -/
def small : RootAccessTrie := [(.var .principal, .mk [("r", .mk [("x", .new)] [] false false)] [] false true)]
/-- the same paths with `r` annotated entity-typed (disagrees with the data) -/
def large : RootAccessTrie := [(.var .principal, .mk [("r", .mk [("x", .new)] [] false true)] [] false true)]
end MonoCex

/-- The store-level half of monotonicity ("`t ≤ t'` ⇒ the slice computed from `t` is a sub-store of the slice computed
from `t'`") does NOT hold for the order `AccessTrie.le` / `rootsLe` alone, which compares requested paths and the
`is_ancestor` marks but not the `is_entity_type` annotations: two tries that request the same paths (each is `≤` the other)
and differ only in the annotation of `r` give slices of which the first is not a sub-store of the second — under the
entity-typed annotation `prune_child_entity_dereferences` drops the request for `r.x`, so the "larger" slice has `r = {}`
while the "smaller" one has `r = {x: 1}`.  So any true statement needs a side condition on the annotations (agreeing
`is_entity_type` flags at corresponding nodes); the positive theorem under that condition is `slice_monotone_store` below. -/
theorem slice_monotone_entities_needs_flags :
    rootsLe MonoCex.small MonoCex.large ∧ rootsLe MonoCex.large MonoCex.small ∧
    ¬ SubStore (sliceStorePure MonoCex.large MonoCex.req MonoCex.store) (sliceStorePure MonoCex.small MonoCex.req MonoCex.store) := by
  refine ⟨?_, ?_, ?_⟩
  · simp [MonoCex.small, MonoCex.large, rootsLe, AccessTrie.le, fieldsLe, lookupRoot, lookupField, AccessTrie.children, AccessTrie.new]
  · simp [MonoCex.small, MonoCex.large, rootsLe, AccessTrie.le, fieldsLe, lookupRoot, lookupField, AccessTrie.children, AccessTrie.new]
  · intro h
    have e1 : sliceStorePure MonoCex.small MonoCex.req MonoCex.store =
        [(MonoCex.p, { attrs := [("r", .record [("x", .prim (.int 1))])], ancestors := [], tags := [] })] := rfl
    have e2 : sliceStorePure MonoCex.large MonoCex.req MonoCex.store =
        [(MonoCex.p, { attrs := [("r", .record [])], ancestors := [], tags := [] })] := rfl
    rw [e1, e2] at h
    obtain ⟨d, hd, htrim, _⟩ := h MonoCex.p { attrs := [("r", .record [("x", .prim (.int 1))])], ancestors := [], tags := [] } rfl
    have hd' : d = { attrs := [("r", .record [])], ancestors := [], tags := [] } := by
      have : Entities.find? [(MonoCex.p, ({ attrs := [("r", .record [])], ancestors := [], tags := [] } : EntityData))] MonoCex.p
          = some { attrs := [("r", .record [])], ancestors := [], tags := [] } := rfl
      rw [this] at hd; exact (Option.some.inj hd).symm
    subst hd'
    simp [TrimKVs, Trim, lookupKV] at htrim

/-! ## end to end: analysis, `to_typed`, slicer, authorizer -/

/-- C17 (core fragment, NO run-time-checked hypothesis): evaluation over the store that `slice_entities` computes for the
manifest of a list of typed conditions agrees with evaluation over the full store, for each of these conditions. -/
theorem manifest_sound_sliced (s : Schema) (rt : ReqType) (req : Request) (es es' : Entities) (tps : List TExpr)
    (t : RootAccessTrie) (hctx : CtxWF req) (huk : ∀ e, e ∈ tps → TypesUK e)
    (hm : manifestOfEnvs s rt tps = .ok t)
    (hconf : ∀ t0, manifestOfEnvs.go [] tps = .ok t0 → ConfRoots s rt es req t0)
    (hs : sliceStore (some t) req es = .ok es')
    (e : TExpr) (he : e ∈ tps) (hfrag : InFrag e) (hsafe : SafeOps req es e) :
    (∀ x, evaluate req es [] e.erase = .error x → evaluate req es' [] e.erase = .error x) ∧
    (∀ v, evaluate req es [] e.erase = .ok v → ∃ v', evaluate req es' [] e.erase = .ok v' ∧ Trim v' v) ∧
    (∀ b : Bool, evaluate req es [] e.erase = .ok (.prim (.bool b)) → evaluate req es' [] e.erase = .ok (.prim (.bool b))) := by
  obtain ⟨hsub, hcov⟩ := slice_of_manifest s rt req es es' tps t hctx huk hm hconf hs
  obtain ⟨r, hr, hc⟩ := hcov e he
  exact manifest_sound_partial req es es' hsub hctx e r hfrag hsafe hr hc

/-- C17 (core fragment), for the authorizer: for static policies whose typed conditions are in the fragment, over a
request and store that conform to the schema as far as the policies look (`ConfRoots`), authorization over the store
sliced by the policies' manifest gives the same response — decision, determining policies and erroring policies — as
authorization over the full store. -/
theorem response_sliced_static (s : Schema) (rt : ReqType) (req : Request) (es es' : Entities) (ps : List TPolicy)
    (t : RootAccessTrie) (hctx : CtxWF req)
    (hps : ∀ p, p ∈ ps → InFrag p.cond ∧ SafeOps req es p.cond ∧ TypesUK p.cond)
    (hm : manifestOfEnvs s rt (ps.map (·.cond)) = .ok t)
    (hconf : ∀ t0, manifestOfEnvs.go [] (ps.map (·.cond)) = .ok t0 → ConfRoots s rt es req t0)
    (hs : sliceStore (some t) req es = .ok es') :
    isAuthorized req es' (ps.map TPolicy.toPolicy) = isAuthorized req es (ps.map TPolicy.toPolicy) := by
  have huk : ∀ e, e ∈ ps.map (·.cond) → TypesUK e := by
    intro e he
    simp only [List.mem_map] at he
    obtain ⟨p, hp, e1⟩ := he
    subst e1
    exact (hps p hp).2.2
  obtain ⟨hsub, hcov⟩ := slice_of_manifest s rt req es es' _ t hctx huk hm hconf hs
  apply isAuthorized_congr
  intro q hq
  simp only [List.mem_map] at hq
  obtain ⟨p, hp, e⟩ := hq
  subst e
  obtain ⟨hf, hsafe, _⟩ := hps p hp
  obtain ⟨r, hr, hc⟩ := hcov p.cond (List.mem_map.2 ⟨p, hp, rfl⟩)
  have h := eval_sliced hsub hctx p.cond r hf hsafe hr hc
  rw [outcome_eq_outcomeOf, outcome_eq_outcomeOf]
  exact outcome_of_rel h

/-- C17 + C01: the decision over the slice is characterised by the satisfied policies over the FULL store. -/
theorem decision_sliced_static (s : Schema) (rt : ReqType) (req : Request) (es es' : Entities) (ps : List TPolicy)
    (t : RootAccessTrie) (hctx : CtxWF req)
    (hps : ∀ p, p ∈ ps → InFrag p.cond ∧ SafeOps req es p.cond ∧ TypesUK p.cond)
    (hm : manifestOfEnvs s rt (ps.map (·.cond)) = .ok t)
    (hconf : ∀ t0, manifestOfEnvs.go [] (ps.map (·.cond)) = .ok t0 → ConfRoots s rt es req t0)
    (hs : sliceStore (some t) req es = .ok es') :
    (isAuthorized req es' (ps.map TPolicy.toPolicy)).decision = .allow ↔
      (∃ p, p ∈ ps.map TPolicy.toPolicy ∧ p.effect = .permit ∧ Sat req es p) ∧
      ¬ (∃ p, p ∈ ps.map TPolicy.toPolicy ∧ p.effect = .forbid ∧ Sat req es p) := by
  rw [response_sliced_static s rt req es es' ps t hctx hps hm hconf hs]
  exact Cedar.C01.allow_iff req es _

namespace Ex
def rt : ReqType := ⟨"User", ⟨"Action", "view"⟩, "Doc"⟩
def conds : List TExpr := [pol.cond, pol2.cond, pol3.cond]
/-- the analysis' trie before `to_typed` -/
def untyped : RootAccessTrie := match manifestOfEnvs.go [] conds with | .ok t => t | .error _ => []
/-- the manifest entry of the request type -/
def manifest : RootAccessTrie := match manifestOfEnvs schema rt conds with | .ok t => t | .error _ => []
def sliced' : Entities := match sliceStore (some manifest) req store with | .ok es => es | .error _ => []
end Ex

/-- non-vacuity of `response_sliced_static`: every hypothesis holds for the example; nothing about the slice is assumed -/
example :
    isAuthorized Ex.req Ex.sliced' [Ex.pol.toPolicy, Ex.pol2.toPolicy, Ex.pol3.toPolicy] =
      isAuthorized Ex.req Ex.store [Ex.pol.toPolicy, Ex.pol2.toPolicy, Ex.pol3.toPolicy] ∧
    Ex.sliced'.map (·.1) = [Ex.doc, Ex.alice] := by
  constructor
  · have hctx : CtxWF Ex.req := ctxWF_of_check _ (by decide +kernel)
    have hm : manifestOfEnvs Ex.schema Ex.rt ([Ex.pol, Ex.pol2, Ex.pol3].map (·.cond)) = .ok Ex.manifest := by
      obtain ⟨t, ht⟩ := ok_of_check (r := manifestOfEnvs Ex.schema Ex.rt Ex.conds) (by decide +kernel)
      have : Ex.manifest = t := by simp only [Ex.manifest, ht]
      rw [this]; exact ht
    have hs : sliceStore (some Ex.manifest) Ex.req Ex.store = .ok Ex.sliced' := by
      obtain ⟨x, hx⟩ := ok_of_check (r := sliceStore (some Ex.manifest) Ex.req Ex.store) (by decide +kernel)
      have : Ex.sliced' = x := by simp only [Ex.sliced', hx]
      rw [this]; exact hx
    have hconf : ∀ t0, manifestOfEnvs.go [] ([Ex.pol, Ex.pol2, Ex.pol3].map (·.cond)) = .ok t0 →
        ConfRoots Ex.schema Ex.rt Ex.store Ex.req t0 := by
      intro t0 h0
      have : Ex.untyped = t0 := by
        have h0' : manifestOfEnvs.go [] Ex.conds = .ok t0 := h0
        simp only [Ex.untyped, h0']
      rw [← this]
      exact confRootsB_sound _ _ _ _ _ (by decide +kernel)
    refine response_sliced_static Ex.schema Ex.rt Ex.req Ex.store Ex.sliced' [Ex.pol, Ex.pol2, Ex.pol3] Ex.manifest hctx
      ?_ hm hconf hs
    intro p hp
    simp only [List.mem_cons, List.not_mem_nil, or_false] at hp
    rcases hp with e | e | e <;> subst e
    · refine ⟨by simp [Ex.pol, Ex.cond, InFrag, FragOp], ?_, by simp [Ex.pol, Ex.cond, TypesUK, optUK, TypeUK]⟩
      simp only [Ex.pol, Ex.cond, SafeOps, and_true]
      exact ⟨⟨nonRec_of_check rfl, nonRec_of_check rfl⟩, nonRec_of_check rfl, nonRec_of_check rfl⟩
    · refine ⟨by simp [Ex.pol2, InFrag, FragOp], ?_, by simp [Ex.pol2, TypesUK, optUK, TypeUK]⟩
      simp only [Ex.pol2, SafeOps, and_true]
      exact ⟨nonRec_of_check rfl, nonRec_of_check rfl⟩
    · refine ⟨by simp [Ex.pol3, InFrag, FragOp], ?_, by simp [Ex.pol3, TypesUK, optUK, TypeUK]⟩
      simp only [Ex.pol3, SafeOps, and_true]
      exact ⟨nonRec_of_check rfl, nonRec_of_check rfl⟩
  · decide +kernel

/-! ## "a larger trie keeps more ENTITIES": the positive statement, under agreeing annotations -/

/-- C17, STORE-LEVEL MONOTONICITY.  If `t'` requests everything `t` requests (`rootsLe`) and the `is_entity_type` annotations
agree (`FlagsAgreeRoots t t'`: at corresponding nodes — same root, same path of fields — `t'` is annotated entity-typed only
where `t` is; ancestors tries need no condition, nothing reads annotations there), then the store sliced by `t` is a
sub-store of the store sliced by `t'`: every entity of the smaller slice is in the larger one, with at least its attributes
(`TrimKVs`) and at least its ancestors.  (`SubStore big small` reads "small invents nothing over big".)
`slice_monotone_entities_needs_flags` shows that the annotation condition cannot be dropped.  No well-formedness (unique
keys) or conformance hypothesis is needed. -/
theorem slice_monotone_store (t t' : RootAccessTrie) (req : Request) (es s s' : Entities)
    (hle : rootsLe t t') (hfl : FlagsAgreeRoots t t')
    (hs : sliceStore (some t) req es = .ok s) (hs' : sliceStore (some t') req es = .ok s') : SubStore s' s := by
  have e1 : s = sliceStorePure t req es := by
    simp only [sliceStore] at hs
    split at hs
    · cases hs
    · cases hs; rfl
  have e2 : s' = sliceStorePure t' req es := by
    simp only [sliceStore] at hs'
    split at hs'
    · cases hs'
    · cases hs'; rfl
  subst e1; subst e2
  exact sliceStorePure_mono t t' req es (rootsLeA_of_le_agree t t' hle hfl)

/-- the same for the pure result (whether or not one of the slicer's `assert!`s would fire) -/
theorem slice_monotone_store_pure (t t' : RootAccessTrie) (req : Request) (es : Entities)
    (hle : rootsLe t t') (hfl : FlagsAgreeRoots t t') :
    SubStore (sliceStorePure t' req es) (sliceStorePure t req es) :=
  sliceStorePure_mono t t' req es (rootsLeA_of_le_agree t t' hle hfl)

namespace Ex
/-- the manifest entry of the first policy alone -/
def manifest1 : RootAccessTrie := match manifestOfEnvs schema rt [pol.cond] with | .ok t => t | .error _ => []
def sliced1 : Entities := match sliceStore (some manifest1) req store with | .ok es => es | .error _ => []
end Ex

/-- non-vacuity of `slice_monotone_store`: the manifest of `p0` alone against the manifest of `p0, p1, p2` — all
hypotheses hold, and the larger slice is strictly larger (it keeps `alice`'s ancestor `Group::"g"`, requested by `p2` only) -/
example : SubStore Ex.sliced' Ex.sliced1 ∧
    (Ex.sliced1.find? Ex.alice).map (·.ancestors) = some [] ∧ (Ex.sliced'.find? Ex.alice).map (·.ancestors) = some [Ex.grp] := by
  refine ⟨?_, by decide +kernel, by decide +kernel⟩
  have hs : sliceStore (some Ex.manifest1) Ex.req Ex.store = .ok Ex.sliced1 := by
    obtain ⟨x, hx⟩ := ok_of_check (r := sliceStore (some Ex.manifest1) Ex.req Ex.store) (by decide +kernel)
    have : Ex.sliced1 = x := by simp only [Ex.sliced1, hx]
    rw [this]; exact hx
  have hs' : sliceStore (some Ex.manifest) Ex.req Ex.store = .ok Ex.sliced' := by
    obtain ⟨x, hx⟩ := ok_of_check (r := sliceStore (some Ex.manifest) Ex.req Ex.store) (by decide +kernel)
    have : Ex.sliced' = x := by simp only [Ex.sliced', hx]
    rw [this]; exact hx
  exact slice_monotone_store Ex.manifest1 Ex.manifest Ex.req Ex.store _ _
    (rootsLeB_sound _ _ (by decide +kernel)) (flagsAgreeRootsB_sound _ _ (by decide +kernel)) hs hs'

/-- C17: ADDING A POLICY CAN ONLY GROW THE SLICE.  If the analysis succeeds for the typed conditions `ps` and for
`ps ++ [p]` (same schema, same request type), then the manifest entry of `ps ++ [p]` requests everything the entry of `ps`
requests, with agreeing annotations (`rootsLeA` = `rootsLe` + agreeing `is_entity_type` flags: both tries are annotated by
`to_typed` from the same schema types along the same paths), hence — for every request and store — the store sliced for
`ps` is a sub-store of the store sliced for `ps ++ [p]`.  Hypothesis `hself`: the un-annotated trie of `ps` is comparable
with itself (`rootsLe t0 t0`), which holds when root keys and ancestors-trie keys are unique, as they are in Rust's hash
maps (the order looks keys up, so a trie with a duplicated key need not be `≤` itself); it is checkable (`rootsLeB`) and
is NOT derived here from the analysis. -/
theorem manifest_union_grows (s : Schema) (rt : ReqType) (ps : List TExpr) (p : TExpr) (t0 t t' : RootAccessTrie)
    (h0 : manifestOfEnvs.go [] ps = .ok t0) (hself : rootsLe t0 t0)
    (hm : manifestOfEnvs s rt ps = .ok t) (hm' : manifestOfEnvs s rt (ps ++ [p]) = .ok t') :
    rootsLe t t' ∧ rootsLeA t t' ∧
    ∀ (req : Request) (es : Entities), SubStore (sliceStorePure t' req es) (sliceStorePure t req es) := by
  simp only [manifestOfEnvs, h0] at hm
  simp only [manifestOfEnvs, go_snoc, h0] at hm'
  cases hp : manifestOfExpr p with
  | error x => simp [hp] at hm'
  | ok r =>
    simp only [hp] at hm'
    have hle : rootsLe t0 (unionRoots t0 r.global) := rootsLe_union_right r.global t0 t0 hself
    have hA := toTypedRoots_mono s rt _ _ t t' hle hm hm'
    exact ⟨rootsLe_of_rootsLeA _ _ hA, hA, fun req es => sliceStorePure_mono t t' req es hA⟩

namespace Ex
def conds2 : List TExpr := [pol.cond, pol2.cond]
def untyped2 : RootAccessTrie := match manifestOfEnvs.go [] conds2 with | .ok t => t | .error _ => []
def manifest2 : RootAccessTrie := match manifestOfEnvs schema rt conds2 with | .ok t => t | .error _ => []
end Ex

/-- non-vacuity of `manifest_union_grows`: `p0, p1` extended by `p2` (`principal in Group::"g"`): all hypotheses hold; the
grown slice keeps `alice`'s ancestor, the smaller one does not -/
example : SubStore (sliceStorePure Ex.manifest Ex.req Ex.store) (sliceStorePure Ex.manifest2 Ex.req Ex.store) ∧
    ((sliceStorePure Ex.manifest2 Ex.req Ex.store).find? Ex.alice).map (·.ancestors) = some [] ∧
    ((sliceStorePure Ex.manifest Ex.req Ex.store).find? Ex.alice).map (·.ancestors) = some [Ex.grp] := by
  refine ⟨?_, by decide +kernel, by decide +kernel⟩
  have h0 : manifestOfEnvs.go [] Ex.conds2 = .ok Ex.untyped2 := by
    obtain ⟨x, hx⟩ := ok_of_check (r := manifestOfEnvs.go [] Ex.conds2) (by decide +kernel)
    have : Ex.untyped2 = x := by simp only [Ex.untyped2, hx]
    rw [this]; exact hx
  have hm : manifestOfEnvs Ex.schema Ex.rt Ex.conds2 = .ok Ex.manifest2 := by
    obtain ⟨x, hx⟩ := ok_of_check (r := manifestOfEnvs Ex.schema Ex.rt Ex.conds2) (by decide +kernel)
    have : Ex.manifest2 = x := by simp only [Ex.manifest2, hx]
    rw [this]; exact hx
  have hm' : manifestOfEnvs Ex.schema Ex.rt (Ex.conds2 ++ [Ex.pol3.cond]) = .ok Ex.manifest := by
    obtain ⟨x, hx⟩ := ok_of_check (r := manifestOfEnvs Ex.schema Ex.rt Ex.conds) (by decide +kernel)
    have : Ex.manifest = x := by simp only [Ex.manifest, hx]
    rw [this]; exact hx
  exact (manifest_union_grows Ex.schema Ex.rt Ex.conds2 Ex.pol3.cond Ex.untyped2 Ex.manifest2 Ex.manifest h0
    (rootsLeB_sound _ _ (by decide +kernel)) hm hm').2.2 Ex.req Ex.store

/-! ## strictly valid policies, conformant data: the C03 and C11 notions -/

/-- C17 FOR VALID POLICIES AND CONFORMANT DATA (core fragment).  `s` is a schema as Rust constructs them (`SchemaClosed`:
`SchemaWF3` of C03 + no open entity types), `env` the request environment of `req`; request and store conform to the
schema in the sense of C11 / C03 (`ConformsRequest`, `StoreConforms`; the store holds the schema's action entities); every
policy is static, lies in the core fragment (`FragE`: the constructs of `InFrag` and extension function calls), is accepted by the STRICT TYPECHECKER
MODEL of C03 in `env` and not typed `False` there (for those the property fails — known finding — and Rust analyses no AST).
The manifest is computed from the policies' typed ASTs (`typedAst`: annotated with `typeOf`'s types and transformed where
the typechecker short-circuits, as typecheck.rs does), annotated by `to_typed`, and the store is sliced by it.  Then
authorization of THE ORIGINAL POLICIES over the slice gives the same response — decision, determining policies, erroring
policies — as over the full store.  Remaining side conditions: `NoRecOps` (`==` does not compare records and `contains`
does not look for a record, a syntactic condition on the typed AST) and `CtxWF` (the context is a map: unique keys).
Both obligations of `full_statement_of_fragment` are discharged here: `ConfRoots` by `confRoots_all` (C11 conformance ⇒
trie-directed conformance, for every trie), `SafeOps` — in its lazy form `Sim` — by `sim_typed` (C03 type soundness). -/
theorem manifest_sound_valid (s : Schema) (hWF : SchemaClosed s) (env : RequestEnv) (req : Request) (es es' : Entities)
    (ps : List Policy) (t : RootAccessTrie)
    (henv : EnvMatches s env req) (hslots : env.principalSlot = none ∧ env.resourceSlot = none)
    (hreq : ConformsRequest s req) (hst : StoreConforms s es) (hact : Cedar.C03.ActionsPresent s es) (hctx : CtxWF req)
    (hps : ∀ p, p ∈ ps → p.env = [] ∧ FragE p.condition ∧ NoRecOps (typedAst s env p.condition []) ∧
      ∃ v, checkEnv .strict s env p.condition = some v ∧ v ≠ .fail ∧ v ≠ .ff)
    (hm : manifestOfEnvs s ⟨env.principal, env.action, env.resource⟩ (ps.map (fun p => typedAst s env p.condition [])) = .ok t)
    (hs : sliceStore (some t) req es = .ok es') :
    isAuthorized req es' ps = isAuthorized req es ps := by
  obtain ⟨h1, h2, h3, _⟩ := henv
  have henv : EnvMatches s env req := ⟨h1, h2, h3, ‹_›⟩
  have hconf : ∀ t0, manifestOfEnvs.go [] (ps.map (fun p => typedAst s env p.condition [])) = .ok t0 →
      ConfRoots s ⟨env.principal, env.action, env.resource⟩ es req t0 :=
    fun t0 _ => confRoots_all hWF hst hreq h1.symm h2.symm h3.symm t0
  have huk : ∀ e, e ∈ ps.map (fun p => typedAst s env p.condition []) → TypesUK e := by
    intro e he
    simp only [List.mem_map] at he
    obtain ⟨p, hp, e1⟩ := he
    subst e1
    exact typesUK_typed hWF.toSchemaWF3 henv p.condition (hps p hp).2.1 []
  obtain ⟨hsub, hcov⟩ := slice_of_manifest s _ req es es' _ t hctx huk hm hconf hs
  have hsem : Cedar.C03.Sem s env ⟨req, es, []⟩ :=
    ⟨hreq, hst, ⟨fun t ht => (by rw [hslots.1] at ht; cases ht), fun t ht => (by rw [hslots.2] at ht; cases ht)⟩, hact⟩
  apply isAuthorized_congr
  intro p hp
  obtain ⟨hpe, hfrag, hnr, v, hv, hne, _⟩ := hps p hp
  obtain ⟨r, hr, hc⟩ := hcov (typedAst s env p.condition []) (List.mem_map.2 ⟨p, hp, rfl⟩)
  -- the typing of the condition
  have hty : ∃ τ c', typeOf .strict s env p.condition [] = .ok (τ, c') := by
    unfold checkEnv at hv
    cases hE : expectOneOf (typeOf .strict s env p.condition []) [boolT] with
    | error err =>
      rw [hE] at hv
      cases err <;> simp at hv
      exact (hne hv.symm).elim
    | ok q =>
      obtain ⟨τ, c'⟩ := q
      exact ⟨τ, c', (expectOneOf_ok hE).1⟩
  obtain ⟨τ, c', hty⟩ := hty
  have hsim := sim_typed hWF.toSchemaWF3.toSchemaWF2 henv hsem p.condition hfrag [] τ c' hty (capsHold_nil _) hnr
  have h := eval_sim hsub hctx hsim r hr hc
  rw [outcome_eq_outcomeOf, outcome_eq_outcomeOf, hpe]
  exact outcome_of_rel h

/-- `manifest_sound_valid` + C01: over the slice, `Allow` is decided exactly when, over the FULL store, some permit is
satisfied and no forbid is. -/
theorem decision_sliced_valid (s : Schema) (hWF : SchemaClosed s) (env : RequestEnv) (req : Request) (es es' : Entities)
    (ps : List Policy) (t : RootAccessTrie)
    (henv : EnvMatches s env req) (hslots : env.principalSlot = none ∧ env.resourceSlot = none)
    (hreq : ConformsRequest s req) (hst : StoreConforms s es) (hact : Cedar.C03.ActionsPresent s es) (hctx : CtxWF req)
    (hps : ∀ p, p ∈ ps → p.env = [] ∧ FragE p.condition ∧ NoRecOps (typedAst s env p.condition []) ∧
      ∃ v, checkEnv .strict s env p.condition = some v ∧ v ≠ .fail ∧ v ≠ .ff)
    (hm : manifestOfEnvs s ⟨env.principal, env.action, env.resource⟩ (ps.map (fun p => typedAst s env p.condition [])) = .ok t)
    (hs : sliceStore (some t) req es = .ok es') :
    (isAuthorized req es' ps).decision = .allow ↔
      (∃ p, p ∈ ps ∧ p.effect = .permit ∧ Sat req es p) ∧ ¬ (∃ p, p ∈ ps ∧ p.effect = .forbid ∧ Sat req es p) := by
  rw [manifest_sound_valid s hWF env req es es' ps t henv hslots hreq hst hact hctx hps hm hs]
  exact Cedar.C01.allow_iff req es _

/-- `manifest_sound_valid` AT POLICY LEVEL: for static policies of the fragment that the strict typechecker model ACCEPTS
(`checkPolicy .strict … = some vs`, `accepted vs`: no request environment fails — C03's `strict_validation_sound` premise),
the environment of a conformant request is one of the environments typechecked (`conformant_request_env`), and if no policy
is typed `False` in it (and `NoRecOps` holds there), authorization over the store sliced by the manifest of that environment
equals authorization over the full store. -/
theorem manifest_sound_valid_accepted (s : Schema) (hWF : SchemaClosed s) (req : Request) (es : Entities) (ps : List Policy)
    (hreq : ConformsRequest s req) (hst : StoreConforms s es) (hact : Cedar.C03.ActionsPresent s es) (hctx : CtxWF req)
    (hps : ∀ p, p ∈ ps → p.env = [] ∧ FragE p.condition ∧
      ∃ vs, checkPolicy .strict s .absent .absent p.condition = some vs ∧ accepted vs = true) :
    ∃ env, env ∈ s.envs .absent .absent ∧ EnvMatches s env req ∧
      ∀ (t : RootAccessTrie) (es' : Entities),
        (∀ p, p ∈ ps → NoRecOps (typedAst s env p.condition []) ∧ checkEnv .strict s env p.condition ≠ some .ff) →
        manifestOfEnvs s ⟨env.principal, env.action, env.resource⟩ (ps.map (fun p => typedAst s env p.condition [])) = .ok t →
        sliceStore (some t) req es = .ok es' →
        isAuthorized req es' ps = isAuthorized req es ps := by
  obtain ⟨env, hmem, henv, hp, hr⟩ := Cedar.C03.conformant_request_env hreq
  refine ⟨env, hmem, henv, fun t es' hside hm hs => ?_⟩
  refine manifest_sound_valid s hWF env req es es' ps t henv ⟨hp, hr⟩ hreq hst hact hctx ?_ hm hs
  intro p hpm
  obtain ⟨h1, h2, vs, hcp, hacc⟩ := hps p hpm
  obtain ⟨v, hv, hvm⟩ := Cedar.C03.checkPolicy_mem hcp hmem
  have hne : v ≠ .fail := by
    have := List.all_eq_true.mp hacc _ hvm
    simpa using this
  exact ⟨h1, h2, (hside p hpm).1, v, hv, hne, fun e => (hside p hpm).2 (by rw [hv, e])⟩

/-! ### non-vacuity of `manifest_sound_valid`: EVERY hypothesis instantiated

Schema `Ex.schema`; the store of the first example plus the schema's action entity; the three policies of the first example
a fifth one with extension function calls, and a fourth one with a short-circuited disjunct:
`(principal is Doc && principal.title == "t") || principal.name == "alice"` — in the environment `(User, view, Doc)` the
test `principal is Doc` is typed `False`, `principal.title == "t"` is not typechecked (it would not typecheck: `User` has
no `title`) and is absent from the typed AST; the policy is evaluated in full over the slice. -/

namespace ExV
def view : EntityUID := ⟨"Action", "view"⟩
def store : Entities := Ex.store ++ [(view, { attrs := [], ancestors := [], tags := [] })]
def env : RequestEnv := ⟨"User", view, "Doc", Ex.viewAct.context, none, none⟩
def cond4 : Expr :=
  .or (.and (.is (.var .principal) "Doc") (.binaryApp .eq (.getAttr (.var .principal) "title") (.lit (.string "t"))))
      (.binaryApp .eq (.getAttr (.var .principal) "name") (.lit (.string "alice")))
/-- `decimal("1.5").lessThan(decimal("2.0")) && principal.age < 40` -/
def cond5 : Expr :=
  .and (.call "lessThan" [.call "decimal" [.lit (.string "1.5")], .call "decimal" [.lit (.string "2.0")]])
       (.binaryApp .less (.getAttr (.var .principal) "age") (.lit (.int 40)))
def policies : List Policy :=
  [Ex.pol.toPolicy, Ex.pol2.toPolicy, Ex.pol3.toPolicy, ⟨"p3", .permit, cond4, []⟩, ⟨"p4", .permit, cond5, []⟩]
def tasts : List TExpr := policies.map (fun p => typedAst Ex.schema env p.condition [])
def manifest : RootAccessTrie :=
  match manifestOfEnvs Ex.schema ⟨env.principal, env.action, env.resource⟩ tasts with | .ok t => t | .error _ => []
def sliced : Entities := match sliceStore (some manifest) Ex.req store with | .ok es => es | .error _ => []

end ExV

theorem exV_schemaWF2 : Cedar.C03.SchemaWF2 Ex.schema where
  et_mono := by
    intro T et h
    have hm := Cedar.C03.entityType?_mem' h
    simp only [Ex.schema, List.mem_cons, Prod.mk.injEq, List.not_mem_nil, or_false] at hm
    rcases hm with ⟨rfl, rfl⟩ | ⟨rfl, rfl⟩ | ⟨rfl, rfl⟩
    · exact ⟨rfl, fun t ht => by simp [Ex.docTy] at ht⟩
    · exact ⟨rfl, fun t ht => by simp [Ex.groupTy] at ht⟩
    · exact ⟨rfl, fun t ht => by simp [Ex.userTy] at ht⟩
  act_wf := by
    intro u a h
    have hm := Cedar.C03.action?_mem h
    simp only [Ex.schema, List.mem_cons, Prod.mk.injEq, List.not_mem_nil, or_false] at hm
    obtain ⟨rfl, rfl⟩ := hm
    exact ⟨rfl, rfl⟩
  no_action_etype := by
    intro T hT
    cases h : Ex.schema.entityType? T with
    | none => rfl
    | some et =>
      have hm := Cedar.C03.entityType?_mem' h
      simp only [Ex.schema, List.mem_cons, Prod.mk.injEq, List.not_mem_nil, or_false] at hm
      rcases hm with ⟨rfl, _⟩ | ⟨rfl, _⟩ | ⟨rfl, _⟩ <;> exact absurd hT (by decide)
  ets_map := by
    intro p hp
    simp only [Ex.schema, List.mem_cons, List.not_mem_nil, or_false] at hp
    rcases hp with rfl | rfl | rfl <;> rfl
  act_type := by
    intro u a h
    have hm := Cedar.C03.action?_mem h
    simp only [Ex.schema, List.mem_cons, Prod.mk.injEq, List.not_mem_nil, or_false] at hm
    obtain ⟨rfl, _⟩ := hm
    decide
  act_anc_desc := by
    intro u a h p hp
    have hm := Cedar.C03.action?_mem h
    simp only [Ex.schema, List.mem_cons, Prod.mk.injEq, List.not_mem_nil, or_false] at hm
    obtain ⟨rfl, rfl⟩ := hm
    simp [Ex.viewAct] at hp
  act_desc_anc := by
    intro u a h d hd
    have hm := Cedar.C03.action?_mem h
    simp only [Ex.schema, List.mem_cons, Prod.mk.injEq, List.not_mem_nil, or_false] at hm
    obtain ⟨rfl, rfl⟩ := hm
    simp [Ex.viewAct] at hd

theorem exV_schemaClosed : SchemaClosed Ex.schema where
  toSchemaWF2 := exV_schemaWF2
  et_cn := by
    intro T et h
    have hm := Cedar.C03.entityType?_mem' h
    simp only [Ex.schema, List.mem_cons, Prod.mk.injEq, List.not_mem_nil, or_false] at hm
    rcases hm with ⟨rfl, rfl⟩ | ⟨rfl, rfl⟩ | ⟨rfl, rfl⟩
    · exact ⟨rfl, fun t ht => by simp [Ex.docTy] at ht⟩
    · exact ⟨rfl, fun t ht => by simp [Ex.groupTy] at ht⟩
    · exact ⟨rfl, fun t ht => by simp [Ex.userTy] at ht⟩
  act_cn := by
    intro u a h
    have hm := Cedar.C03.action?_mem h
    simp only [Ex.schema, List.mem_cons, Prod.mk.injEq, List.not_mem_nil, or_false] at hm
    obtain ⟨rfl, rfl⟩ := hm
    decide
  acts_map := by
    intro p hp
    simp only [Ex.schema, List.mem_cons, List.not_mem_nil, or_false] at hp
    subst hp
    rfl
  et_closed := by
    intro T et h
    have hm := Cedar.C03.entityType?_mem' h
    simp only [Ex.schema, List.mem_cons, Prod.mk.injEq, List.not_mem_nil, or_false] at hm
    rcases hm with ⟨rfl, rfl⟩ | ⟨rfl, rfl⟩ | ⟨rfl, rfl⟩ <;> rfl

theorem exV_request_conforms : ConformsRequest Ex.schema Ex.req :=
  (Cedar.C11.checkRequest_iff _ _).mp ((ok_iff_isOkB _).mpr (by decide +kernel))

theorem exV_store_conforms : StoreConforms Ex.schema ExV.store := by
  intro uid d h
  have hm := Cedar.C03.entities_find?_mem h
  simp only [ExV.store, Ex.store, List.cons_append, List.nil_append, List.mem_cons, Prod.mk.injEq, List.not_mem_nil, or_false] at hm
  rcases hm with ⟨rfl, rfl⟩ | ⟨rfl, rfl⟩ | ⟨rfl, rfl⟩ | ⟨rfl, rfl⟩ | ⟨rfl, rfl⟩ <;>
    exact (Cedar.C11.checkEntity_iff Ex.schema (by decide +kernel) _ _).mp ((ok_iff_isOkB _).mpr (by decide +kernel))

theorem exV_actions_present : Cedar.C03.ActionsPresent Ex.schema ExV.store := by
  intro u a h
  have hm := Cedar.C03.action?_mem h
  simp only [Ex.schema, List.mem_cons, Prod.mk.injEq, List.not_mem_nil, or_false] at hm
  obtain ⟨rfl, _⟩ := hm
  exact ⟨_, rfl⟩

/-- the typed AST of the fourth policy: the right operand of the `&&` whose left operand is typed `False` is gone; the
slice keeps `alice` (with her requested ancestor) and the document's owner attribute only -/
example : (typedAst Ex.schema ExV.env ExV.cond4 []).erase =
      .or (.is (.var .principal) "Doc") (.binaryApp .eq (.getAttr (.var .principal) "name") (.lit (.string "alice"))) ∧
    ExV.sliced.map (·.1) = [Ex.doc, Ex.alice] := by
  constructor
  · rfl
  · decide +kernel

example : isAuthorized Ex.req ExV.sliced ExV.policies = isAuthorized Ex.req ExV.store ExV.policies ∧
    (isAuthorized Ex.req ExV.store ExV.policies).reasons = ["p0", "p2", "p3", "p4"] := by
  constructor
  · have hm : manifestOfEnvs Ex.schema ⟨ExV.env.principal, ExV.env.action, ExV.env.resource⟩
        (ExV.policies.map (fun p => typedAst Ex.schema ExV.env p.condition [])) = .ok ExV.manifest := by
      obtain ⟨t, ht⟩ := ok_of_check (r := manifestOfEnvs Ex.schema ⟨ExV.env.principal, ExV.env.action, ExV.env.resource⟩ ExV.tasts)
        (by decide +kernel)
      have : ExV.manifest = t := by simp only [ExV.manifest, ht]
      rw [this]; exact ht
    have hs : sliceStore (some ExV.manifest) Ex.req ExV.store = .ok ExV.sliced := by
      obtain ⟨x, hx⟩ := ok_of_check (r := sliceStore (some ExV.manifest) Ex.req ExV.store) (by decide +kernel)
      have : ExV.sliced = x := by simp only [ExV.sliced, hx]
      rw [this]; exact hx
    refine manifest_sound_valid Ex.schema exV_schemaClosed ExV.env Ex.req ExV.store ExV.sliced ExV.policies ExV.manifest
      ⟨rfl, rfl, rfl, Ex.viewAct, rfl, rfl⟩ ⟨rfl, rfl⟩ exV_request_conforms exV_store_conforms exV_actions_present
      (ctxWF_of_check _ (by decide +kernel)) ?_ hm hs
    intro p hp
    simp only [ExV.policies, List.mem_cons, List.not_mem_nil, or_false] at hp
    rcases hp with e | e | e | e | e <;> subst e
    · exact ⟨rfl, by simp [TPolicy.toPolicy, Ex.pol, Ex.cond, TExpr.erase, FragE, FragOp],
        noRecOpsB_sound _ (by decide +kernel), .bool, by decide +kernel, by decide, by decide⟩
    · exact ⟨rfl, by simp [TPolicy.toPolicy, Ex.pol2, TExpr.erase, FragE, FragOp],
        noRecOpsB_sound _ (by decide +kernel), .bool, by decide +kernel, by decide, by decide⟩
    · exact ⟨rfl, by simp [TPolicy.toPolicy, Ex.pol3, TExpr.erase, FragE, FragOp],
        noRecOpsB_sound _ (by decide +kernel), .bool, by decide +kernel, by decide, by decide⟩
    · exact ⟨rfl, by simp [ExV.cond4, FragE, FragOp],
        noRecOpsB_sound _ (by decide +kernel), .bool, by decide +kernel, by decide, by decide⟩
    · exact ⟨rfl, by simp [ExV.cond5, FragE, FragEList, FragOp],
        noRecOpsB_sound _ (by decide +kernel), .bool, by decide +kernel, by decide, by decide⟩
  · decide +kernel

/-! ## record and set literals, whole-value operands: `NoRecOps` removed -/

/-- C17 FOR VALID POLICIES AND CONFORMANT DATA, FRAGMENT WITH RECORD AND SET LITERALS, NO SIDE CONDITION ON RECORD OPERANDS.
As `manifest_sound_valid`, with
  * `FragL` instead of `FragE`: record literals (distinct keys — the parser and `Expr::record` reject duplicates) and set
    literals anywhere, in particular dereferenced (`{x: principal.a}.x.b`), as operands (`[principal.a, resource.b]
    .contains(…)`, `principal in [A::"x", resource.owner]`) and nested;
  * NO `NoRecOps`: `==` may compare records and `contains` / `containsAll` / `containsAny` may look for records — the
    analysis requests the operands' full types (`full_type_required`) and the slice holds them whole (`full_eq`);
  * instead of `CtxWF`: `SortedReq req` and `SortedStore es` — the context and the attribute records of the store are
    key-sorted, recursively through records (Rust `Value` records are `BTreeMap`s; the model's `evaluate` builds records
    with `insertKV`).  `CtxWF` follows (`ctxWF_of_sorted`); it does NOT follow from `ConformsRequest` alone (see
    `ctxWF_not_from_conformance`).  That the SLICE is key-sorted is proved (`sortedStore_slice`), not assumed.
Whole-value equality is where the sortedness is needed: two association lists holding the same fields in different orders
are different `Value`s of the model and `Value.beq` on records is positional. -/
theorem manifest_sound_valid_lit (s : Schema) (hWF : SchemaClosed s) (env : RequestEnv) (req : Request) (es es' : Entities)
    (ps : List Policy) (t : RootAccessTrie)
    (henv : EnvMatches s env req) (hslots : env.principalSlot = none ∧ env.resourceSlot = none)
    (hreq : ConformsRequest s req) (hst : StoreConforms s es) (hact : Cedar.C03.ActionsPresent s es)
    (hsreq : SortedReq req) (hsst : SortedStore es)
    (hps : ∀ p, p ∈ ps → p.env = [] ∧ FragL p.condition ∧
      ∃ v, checkEnv .strict s env p.condition = some v ∧ v ≠ .fail ∧ v ≠ .ff)
    (hm : manifestOfEnvs s ⟨env.principal, env.action, env.resource⟩ (ps.map (fun p => typedAst s env p.condition [])) = .ok t)
    (hs : sliceStore (some t) req es = .ok es') :
    isAuthorized req es' ps = isAuthorized req es ps := by
  obtain ⟨h1, h2, h3, _⟩ := henv
  have henv : EnvMatches s env req := ⟨h1, h2, h3, ‹_›⟩
  have hctx : CtxWF req := ctxWF_of_sorted hsreq
  have hconf : ∀ t0, manifestOfEnvs.go [] (ps.map (fun p => typedAst s env p.condition [])) = .ok t0 →
      ConfRoots s ⟨env.principal, env.action, env.resource⟩ es req t0 :=
    fun t0 _ => confRoots_all hWF hst hreq h1.symm h2.symm h3.symm t0
  have huk : ∀ e, e ∈ ps.map (fun p => typedAst s env p.condition []) → TypesUK e := by
    intro e he
    simp only [List.mem_map] at he
    obtain ⟨p, hp, e1⟩ := he
    subst e1
    exact typesUK_typedL hWF.toSchemaWF3 henv p.condition (hps p hp).2.1 []
  obtain ⟨hsub, hcov⟩ := slice_of_manifest s _ req es es' _ t hctx huk hm hconf hs
  have hsst' : SortedStore es' := sortedStore_sliceStore hsst hs
  have hsem : Cedar.C03.Sem s env ⟨req, es, []⟩ :=
    ⟨hreq, hst, ⟨fun t ht => (by rw [hslots.1] at ht; cases ht), fun t ht => (by rw [hslots.2] at ht; cases ht)⟩, hact⟩
  apply isAuthorized_congr
  intro p hp
  obtain ⟨hpe, hfrag, v, hv, hne, _⟩ := hps p hp
  obtain ⟨r, hr, hc⟩ := hcov (typedAst s env p.condition []) (List.mem_map.2 ⟨p, hp, rfl⟩)
  have hty : ∃ τ c', typeOf .strict s env p.condition [] = .ok (τ, c') := by
    unfold checkEnv at hv
    cases hE : expectOneOf (typeOf .strict s env p.condition []) [boolT] with
    | error err =>
      rw [hE] at hv
      cases err <;> simp at hv
      exact (hne hv.symm).elim
    | ok q =>
      obtain ⟨τ, c'⟩ := q
      exact ⟨τ, c', (expectOneOf_ok hE).1⟩
  obtain ⟨τ, c', hty⟩ := hty
  have hsim := sim_typedL hWF.toSchemaWF3 henv hsem p.condition hfrag [] τ c' hty (capsHold_nil _)
  have h := eval_simL hsub hsst hsst' hsreq hsim r hr hc
  rw [outcome_eq_outcomeOf, outcome_eq_outcomeOf, hpe]
  exact outcome_of_relL h

/-- `manifest_sound_valid_lit` + C01 -/
theorem decision_sliced_valid_lit (s : Schema) (hWF : SchemaClosed s) (env : RequestEnv) (req : Request) (es es' : Entities)
    (ps : List Policy) (t : RootAccessTrie)
    (henv : EnvMatches s env req) (hslots : env.principalSlot = none ∧ env.resourceSlot = none)
    (hreq : ConformsRequest s req) (hst : StoreConforms s es) (hact : Cedar.C03.ActionsPresent s es)
    (hsreq : SortedReq req) (hsst : SortedStore es)
    (hps : ∀ p, p ∈ ps → p.env = [] ∧ FragL p.condition ∧
      ∃ v, checkEnv .strict s env p.condition = some v ∧ v ≠ .fail ∧ v ≠ .ff)
    (hm : manifestOfEnvs s ⟨env.principal, env.action, env.resource⟩ (ps.map (fun p => typedAst s env p.condition [])) = .ok t)
    (hs : sliceStore (some t) req es = .ok es') :
    (isAuthorized req es' ps).decision = .allow ↔
      (∃ p, p ∈ ps ∧ p.effect = .permit ∧ Sat req es p) ∧ ¬ (∃ p, p ∈ ps ∧ p.effect = .forbid ∧ Sat req es p) := by
  rw [manifest_sound_valid_lit s hWF env req es es' ps t henv hslots hreq hst hact hsreq hsst hps hm hs]
  exact Cedar.C01.allow_iff req es _

/-- `CtxWF` IS NOT A CONSEQUENCE OF REQUEST CONFORMANCE: `ConformsRequest` (C11, stated by membership) accepts a context
association list that binds `level` twice, with different longs; `CtxWF` (every binding is the one a lookup finds) fails
for it.  Rust contexts are `BTreeMap`s, so the hypothesis that replaces `CtxWF` is key-sortedness (`SortedReq`). -/
theorem ctxWF_not_from_conformance :
    let req : Request := ⟨Ex.alice, ⟨"Action", "view"⟩, Ex.doc, [("level", .prim (.int 3)), ("level", .prim (.int 4))]⟩
    ConformsRequest Ex.schema req ∧ ¬ CtxWF req := by
  intro req
  refine ⟨(Cedar.C11.checkRequest_iff _ _).mp ((ok_iff_isOkB _).mpr (by decide +kernel)), ?_⟩
  intro h
  simp only [CtxWF, Trim] at h
  obtain ⟨kvs, e, h⟩ := h
  cases e
  simp only [req, TrimKVs, lookupKV, beq_self_eq_true, if_true, Trim] at h
  obtain ⟨_, ⟨v, hv, hv'⟩, _⟩ := h
  simp only [Option.some.injEq] at hv
  subst hv
  cases hv'

/-! ### non-vacuity of `manifest_sound_valid_lit`: literals dereferenced, as operands, records compared -/

namespace ExL
/-- `{x: resource.owner}.x.name == "alice"` — an entity reached THROUGH a record literal is dereferenced -/
def cond5 : Expr :=
  .binaryApp .eq (.getAttr (.getAttr (.record [("x", .getAttr (.var .resource) "owner")]) "x") "name") (.lit (.string "alice"))
/-- `[principal, resource.owner].contains(principal) && {a: principal.age, n: principal.name} == {a: 30, n: "alice"}` — a set
literal as operand, `==` ON RECORDS (excluded by `NoRecOps` before) -/
def cond6 : Expr :=
  .and (.binaryApp .contains (.set [.var .principal, .getAttr (.var .resource) "owner"]) (.var .principal))
       (.binaryApp .eq (.record [("a", .getAttr (.var .principal) "age"), ("n", .getAttr (.var .principal) "name")])
                       (.record [("a", .lit (.int 30)), ("n", .lit (.string "alice"))]))
/-- `resource.owner in [Group::"g"]` — a set literal on the right of `in` -/
def cond7 : Expr :=
  .binaryApp .mem (.getAttr (.var .resource) "owner") (.set [.lit (.entityUID Ex.grp)])
def policies : List Policy :=
  [Ex.pol.toPolicy, ⟨"p5", .permit, cond5, []⟩, ⟨"p6", .permit, cond6, []⟩, ⟨"p7", .permit, cond7, []⟩]
def tasts : List TExpr := policies.map (fun p => typedAst Ex.schema ExV.env p.condition [])
def manifest : RootAccessTrie :=
  match manifestOfEnvs Ex.schema ⟨ExV.env.principal, ExV.env.action, ExV.env.resource⟩ tasts with | .ok t => t | .error _ => []
def sliced : Entities := match sliceStore (some manifest) Ex.req ExV.store with | .ok es => es | .error _ => []
end ExL

example : isAuthorized Ex.req ExL.sliced ExL.policies = isAuthorized Ex.req ExV.store ExL.policies ∧
    (isAuthorized Ex.req ExV.store ExL.policies).reasons = ["p0", "p5", "p6", "p7"] ∧
    ExL.sliced.map (·.1) = [Ex.doc, Ex.alice] := by
  refine ⟨?_, by decide +kernel, by decide +kernel⟩
  have hm : manifestOfEnvs Ex.schema ⟨ExV.env.principal, ExV.env.action, ExV.env.resource⟩
      (ExL.policies.map (fun p => typedAst Ex.schema ExV.env p.condition [])) = .ok ExL.manifest := by
    obtain ⟨t, ht⟩ := ok_of_check (r := manifestOfEnvs Ex.schema ⟨ExV.env.principal, ExV.env.action, ExV.env.resource⟩ ExL.tasts)
      (by decide +kernel)
    have : ExL.manifest = t := by simp only [ExL.manifest, ht]
    rw [this]; exact ht
  have hs : sliceStore (some ExL.manifest) Ex.req ExV.store = .ok ExL.sliced := by
    obtain ⟨x, hx⟩ := ok_of_check (r := sliceStore (some ExL.manifest) Ex.req ExV.store) (by decide +kernel)
    have : ExL.sliced = x := by simp only [ExL.sliced, hx]
    rw [this]; exact hx
  refine manifest_sound_valid_lit Ex.schema exV_schemaClosed ExV.env Ex.req ExV.store ExL.sliced ExL.policies ExL.manifest
    ⟨rfl, rfl, rfl, Ex.viewAct, rfl, rfl⟩ ⟨rfl, rfl⟩ exV_request_conforms exV_store_conforms exV_actions_present
    (sortedReqB_sound _ (by decide +kernel)) (sortedStoreB_sound _ (by decide +kernel)) ?_ hm hs
  intro p hp
  simp only [ExL.policies, List.mem_cons, List.not_mem_nil, or_false] at hp
  rcases hp with e | e | e | e <;> subst e
  · exact ⟨rfl, by simp [TPolicy.toPolicy, Ex.pol, Ex.cond, TExpr.erase, FragL, FragOp], .bool, by decide +kernel, by decide, by decide⟩
  · exact ⟨rfl, by simp [ExL.cond5, FragL, FragLKVs, FragOp], .bool, by decide +kernel, by decide, by decide⟩
  · exact ⟨rfl, by simp [ExL.cond6, FragL, FragLList, FragLKVs, FragOp], .bool, by decide +kernel, by decide, by decide⟩
  · exact ⟨rfl, by simp [ExL.cond7, FragL, FragLList, FragOp], .bool, by decide +kernel, by decide, by decide⟩

/-! ## the full statement -/

/-- The full property, for the model.  `TypedAst s rt p te` stands for "`te` is the typed AST that strict typechecking
of the static policy `p` yields in the request environment `rt`" (C03's subject) and `Conformant` for conformance of
request and store (C11's subject).  PRECISE EXCLUSIONS (each is a hypothesis below or a failure exit of the model):
  * environments in which the typechecker types the policy `False` yield no typed AST — the property FAILS for them
    (`typed_false_environment_breaks_slicing`, known finding), so every policy must come with its typed AST (`hty`);
  * templates: `slot`s are analysed as the request variable — the property FAILS (known finding); `p.env = []` and the
    condition being the erasure of a slot-free typed AST keep them out;
  * entity tags: the analysis rejects `getTag`/`hasTag` with `UnsupportedCedarFeature` (`MErr.unsupported`), so
    `manifestOfEnvs … = .ok t` excludes them;
  * partial expressions (`unknown`): `PartialExpressionError`, excluded the same way;
  * slicer failure exits (`IncompatibleEntityManifest`, `assert!`s): `sliceStore … = .ok es'` excludes them.
Everything else — record / set literals, `==` / `contains` on records, extension calls — is inside the statement and
outside the proved fragment. -/
def FullStatement (TypedAst : Schema → ReqType → Policy → TExpr → Prop)
    (Conformant : Schema → Request → Entities → Prop) : Prop :=
  ∀ (s : Schema) (rt : ReqType) (ps : List Policy) (tps : List TExpr) (t : RootAccessTrie) (req : Request)
    (es es' : Entities),
    ps.length = tps.length →
    (∀ p te, (p, te) ∈ ps.zip tps → TypedAst s rt p te ∧ p.env = [] ∧ p.condition = te.erase) →
    req.principal.ty = rt.principal → req.action = rt.action → req.resource.ty = rt.resource →
    Conformant s req es →
    manifestOfEnvs s rt tps = .ok t →
    sliceStore (some t) req es = .ok es' →
    isAuthorized req es' ps = isAuthorized req es ps

theorem policies_of_zip : ∀ (ps : List Policy) (tps : List TExpr), ps.length = tps.length →
    (∀ p te, (p, te) ∈ ps.zip tps → p.env = [] ∧ p.condition = te.erase) →
    ∃ tpols : List TPolicy, tpols.map TPolicy.toPolicy = ps ∧ tpols.map (·.cond) = tps
  | [], [], _, _ => ⟨[], rfl, rfl⟩
  | [], _ :: _, h, _ => by simp at h
  | _ :: _, [], h, _ => by simp at h
  | p :: ps, te :: tps, hl, h => by
    obtain ⟨tpols, h1, h2⟩ := policies_of_zip ps tps (by simpa using hl)
      (fun p' te' hm => h p' te' (by simp [List.zip_cons_cons, hm]))
    obtain ⟨e1, e2⟩ := h p te (by simp [List.zip_cons_cons])
    refine ⟨⟨p.id, p.effect, te⟩ :: tpols, ?_, ?_⟩
    · simp only [List.map_cons, h1, TPolicy.toPolicy, ← e1, ← e2]
    · simp only [List.map_cons, h2]

/-- C17: THE FULL STATEMENT REDUCED TO ITS TWO REMAINING OBLIGATIONS.  `FullStatement` holds for every notion of typed
AST and of conformance such that (1) typed ASTs are in the proved fragment and carry well-formed record types, and
(2) conformant requests and stores have a context with unique keys, make the operands of the binary operators of the
typed ASTs non-records (type soundness, C03), and conform to the schema as far as the policies' tries look (C11).
What is missing for the unrestricted statement is exactly: enlarging `InFrag` (record / set literals, record operands,
extension calls), and deriving (2) from C03's and C11's theorems. -/
theorem full_statement_of_fragment (TypedAst : Schema → ReqType → Policy → TExpr → Prop)
    (Conformant : Schema → Request → Entities → Prop)
    (hfrag : ∀ s rt p te, TypedAst s rt p te → InFrag te ∧ TypesUK te)
    (hconf : ∀ s rt req es (tps : List TExpr), Conformant s req es →
      req.principal.ty = rt.principal → req.action = rt.action → req.resource.ty = rt.resource →
      (∀ te, te ∈ tps → ∃ p, TypedAst s rt p te) →
      CtxWF req ∧ (∀ te, te ∈ tps → SafeOps req es te) ∧
        (∀ t0, manifestOfEnvs.go [] tps = .ok t0 → ConfRoots s rt es req t0)) :
    FullStatement TypedAst Conformant := by
  intro s rt ps tps t req es es' hlen hty hp ha hr hc hm hs
  obtain ⟨tpols, e1, e2⟩ := policies_of_zip ps tps hlen (fun p te h => (hty p te h).2)
  have hall : ∀ te, te ∈ tps → ∃ p, TypedAst s rt p te := by
    intro te hte
    obtain ⟨i, hi, rfl⟩ := List.getElem_of_mem hte
    have hi' : i < ps.length := by omega
    refine ⟨ps[i], (hty ps[i] tps[i] ?_).1⟩
    have : (ps.zip tps)[i]'(by simp [List.length_zip]; omega) = (ps[i], tps[i]) := by simp
    rw [← this]
    exact List.getElem_mem _
  obtain ⟨hctx, hsafe, hcr⟩ := hconf s rt req es tps hc hp ha hr hall
  subst e1; subst e2
  refine response_sliced_static s rt req es es' tpols t hctx ?_ hm hcr hs
  intro p hpm
  have hmem : p.cond ∈ tpols.map (·.cond) := List.mem_map.2 ⟨p, hpm, rfl⟩
  obtain ⟨q, hq⟩ := hall p.cond hmem
  obtain ⟨h1, h2⟩ := hfrag s rt q p.cond hq
  exact ⟨h1, hsafe p.cond hmem, h2⟩

/-- FINDING (model-level witness; the Rust run is probe `typed-false-negated-action-in` of harness/src/c17.rs): in the
environment `(User, Action::"view", Doc)` with `view in readOnly`, the strictly valid policy
`permit(principal, action, resource) when { !(action in Action::"readOnly") }` is typed `False`, so the environment
contributes no typed AST and its trie is empty; the slice is the empty store; over it the policy is SATISFIED (the
action entity is gone, `in` is false) although it is not over the full store: `Deny` becomes `Allow`. -/
theorem typed_false_environment_breaks_slicing :
    let view : EntityUID := ⟨"Action", "view"⟩
    let ro : EntityUID := ⟨"Action", "readOnly"⟩
    let req : Request := ⟨⟨"User", "a"⟩, view, ⟨"Doc", "d"⟩, []⟩
    let es : Entities := [(view, { attrs := [], ancestors := [ro], tags := [] }), (ro, { attrs := [], ancestors := [], tags := [] })]
    let p : Policy := ⟨"p0", .permit, .unaryApp .not (.binaryApp .mem (.var .action) (.lit (.entityUID ro))), []⟩
    let s : Schema := { ets := [], acts := [] }
    manifestOfEnvs s ⟨"User", view, "Doc"⟩ [] = .ok [] ∧
    sliceStore (some []) req es = .ok [] ∧
    (isAuthorized req es [p]).decision = .deny ∧ (isAuthorized req [] [p]).decision = .allow := by
  intro view ro req es p s
  exact ⟨rfl, rfl, by decide +kernel, by decide +kernel⟩

end Cedar.C17
