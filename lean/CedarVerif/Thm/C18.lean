import CedarVerif.Cedar.SymCC
import CedarVerif.Cedar.SymCompile
import CedarVerif.Lemmas.SymCompile
import CedarVerif.Lemmas.SymCType
import CedarVerif.Lemmas.SymCSet
import CedarVerif.Thm.C01
/-
C18 — Symbolic compilation agrees with evaluation on concrete (literal) environments.

PROVED HERE (full, for arbitrary policy lists, requests and stores): the *skeleton* of cedar-policy-symcc's
verification-condition builders (`Cedar.SymCC`, mirroring symcc/{verifier,authorizer}.rs, symccopt/verifier.rs and the
solver-free shortcut of `check_unsat_asserts`).  GIVEN the compile contract on a literal environment —

    the compiled condition of policy `p` is the constant `some true` / `some false` / `none`
    according to `p.outcome req es` = sat / unsat / err (`compilePolicy`), and
    every enforcer assumption folds to `true` (`hEnf`)

— each verification condition "holds" (its asserts are unsatisfiable, `checkUnsat = true`) exactly when the
corresponding statement about the concrete authorizer model `Cedar.isAuthorized` (Authorizer.lean, C01) is true.

PROVED HERE FOR A FRAGMENT OF THE COMPILER (`Cedar.SymC`, Cedar/SymCompile.lean; mirrors symcc/compiler.rs
`compile_prim/var/app1/app2/if/and/or/attrs_of/has_attr/get_attr` + `compile`, symcc/factory.rs `not and or eq ite bv*
option_get is_none is_some if_false if_some record_get`, with `App` nodes and every non-literal branch kept, record
terms and record term types, and the `Record` arm of `Term::from_value` for a flat context type, `ctxTermOf`):
  first fragment `SFrag` = bool / long / string / entity literals, `principal action resource`,
  `! - && || if == < <= + - *`;  second fragment `SFrag2` = `SFrag` + `context`, `e.a`, `e has a` on RECORD-typed terms
  + (third round) `e like pat` on string-typed terms and `e is T` on entity-typed terms (`compile_like`, factory
  `string_like` with the evaluator's wildcard match, `compile_is`; both wrapped in `if_some(operand, …)`, which is what
  symcc/compiler.rs AND symccopt/compiler.rs do — stream c18symc observes symccopt through
  `CompiledPolicy::compile_with_custom_symenv`; an erroring operand gives `none`).  All `SFrag2` theorems cover them.
  * `compile_correct_fragment2`: on the literal environment of `req` whose context term represents the FLAT context
    (`CtxOK`: required attribute ↦ literal, optional present ↦ `some literal`, optional absent ↦ `none ty`, primitive
    attribute values only), if the compiler ACCEPTS `e ∈ SFrag2` the term it builds is the folded literal
    `some (lit v)` / `some ctxT` / `none` exactly as `evaluate` gives the primitive `v` / the context record / an error
    (overflow and a missing optional attribute ↦ `none`).  `compile_correct_fragment` (first fragment, no hypothesis about
    the context) is its corollary.
  * ill-typed inputs: the compiler either REJECTS (`CompileError::TypeError`; e.g. `1 + true`, `true && 1`,
    `(MAX + 1) + true` — although evaluate reports the overflow first; `context.zz` for an undeclared attribute is
    `NoSuchAttribute`) or accepts and folds because a constant guard / short-circuit drops the ill-typed part
    (`false && (1 + true)` ↦ `some false`, `1 == "a"` ↦ `some false`, `if 1 < 2 then 1 else true` ↦ `some 1`,
    `context has zz` ↦ `some false`); an entity literal outside the schema's types / enum members is rejected although
    evaluate succeeds.
  * `compile_rejects_iff` / `compile_typeOf_ctype` (THIRD ROUND; `ctype`, `ctype_spec` in Lemmas/SymCType.lean): WHEN the
    compiler rejects is now characterised exactly.  `ctype` is the compiler's OWN typing discipline (the checks of
    compile_app1/app2/reducible_eq/if/and/or/attrs_of/has_attr/get_attr on term types — not the validator's); on the literal
    environment (same hypothesis `hctx` about the context term) and for every `e ∈ SFrag2`: `compile` returns error `err`
    (`TypeError` / `NoSuchAttribute` / the model-only `.outside`) iff `ctype e = .error err`, accepts iff `ctype e = .ok ty`,
    and then the term has type `ty`.  The discipline is NOT purely type-directed: `if / && / ||` skip the checks on the
    operand a constant guard discards, and the guard is constant exactly when `evaluate` gives a boolean — `ctype` reads
    that one bit (`guardConst (evaluate …)`) and nothing else from the concrete semantics.  The examples
    (`false && (1 + true)` accepted, `(MAX+1) + true` rejected) are re-derived from it.  "A fragment expression never
    yields `.outside`" remains false for `SFrag2` (`principal.a` gives `.outside`: attribute access on entity-typed terms is
    not modelled; `ctype` says exactly when: `.`/`has` applied to an entity-typed operand in a checked position).
  * `compilePolicy_discharged`, `vc_skeleton_correct_fragment`: for policies whose conditions are in `SFrag2`, the
    compile contract (`compilePolicy`) is what the modelled compiler produces, so `vc_skeleton_correct` holds with the
    enforcer assumption `hEnf` and the context representation `hctx` as the only hypotheses.
  * `ctxTermOf_ctxOK`, `compile_correct_fragment2_conformant` (THIRD ROUND): `ctxTermOf` (the symbolizer's record arm)
    never fails on and satisfies `CtxOK` for EVERY flat context whose attributes are all declared by the flat context type
    and carry primitive values (`FlatConforms`, implied by schema conformance), so `hctx` is discharged for conformant
    requests.

  * FOURTH ROUND — SETS (`SFrag3` = `SFrag2` + set literals `[e, …]`, `contains containsAll containsAny isEmpty`, `==` on
    sets): MODELLED and CHECKED AGAINST RUST, general theorem STATED, NOT PROVED.  Model: `TermType.set`, set terms as cons
    cells `setNil ty` / `setCons t rest` (`Term::Set { elts : BTreeSet, elts_ty }`; the BTreeSet invariant "strictly
    sorted" is the separate predicate `setWF`, the canonical form is built by `setOf` = sorted duplicate-free insertion
    with `termLt`, the derived `Ord for Term` on two prims of one kind), factory `set_of set_member set_subset set_inter
    set_is_empty set_intersects any_none if_all_some` (every branch, also the `App` ones), `compile_set` (empty literal =
    `UnsupportedFeature`, element types must agree, an erroring element makes the whole set `none`), the `isEmpty` arm of
    `compile_app1`, the `contains / containsAll / containsAny` arms of `compile_app2` (`a.containsAll(b)` =
    `set_subset(b, a)`), `compile` on `.set` (first error wins).  PROVED: `set_canonical_members` (the canonical form has
    exactly the members of the element list and the declared type), `set_member_folds`, `set_subset_folds`,
    `set_intersects_folds`, `set_is_empty_folds` (the literal folding of `set_member` / `set_subset` / `set_intersects` /
    `set_is_empty` on canonical sets is membership in / inclusion / overlap / emptiness of the ORIGINAL element lists —
    duplicates and order are irrelevant; these are the evaluator's `Value.elem / subset / any-elem / isEmpty` shapes); the closed examples (`[1,2,2,1].contains(2)`, `[3,1,2] == [2,3,1,1]`,
    `[1, MAX+1].contains(1)` ↦ `none`, containsAll/containsAny both ways, the rejections).  NOT PROVED:
    `CompileCorrectFragment3` (a `def … : Prop`, the full statement in the shape of `compile_correct_fragment2`), in
    particular nothing general about set `==` (`factory::eq` compares the canonical forms structurally; needs extensionality
    of the canonical form, i.e. that `termLt` is a strict total order on literals of one kind), about `if_all_some` /
    `compile_set` (error propagation is shown on examples only), and the factory lemmas are not yet connected to
    `evaluate` through `compile`.  `ctype`, `compile_rejects_iff`,
    `compile_typeOf_ctype`, `compilePolicy_discharged`, `vc_skeleton_correct_fragment` REMAIN ON `SFrag2` (they still hold
    for the extended `compile`, which is the same function).

STILL NOT PROVED, NOT MODELLED: the compiler outside `SFrag3` (attributes / `has` on entities, `in`, tags, record literals,
nested-record / set-typed context attributes, extension functions), symccopt/compiler.rs'
footprint, the rest of the symbolizer (`SymEnv::from_concrete_env`) and the enforcer.  There the contract is *sampled* by
the differential run of `./check C18` (harness/src/c18.rs: real `SymEnv::from_concrete_env`, both compilers, the real
evaluator and authorizer); the fragment itself is additionally checked line by line against the Rust compiler by stream
`c18symc` (schema with a context of required and optional primitive attributes, requests supplying / omitting them;
fourth round: set literals of longs / strings / users with duplicates, `contains*`, `isEmpty`, set `==`, erroring elements).
-/
namespace Cedar.C18
open Cedar Cedar.SymCC

/-! ### the compile contract as data -/

def compileEffect : Cedar.Effect → SymCC.Effect
  | .permit => .permit
  | .forbid => .forbid

/-- what a policy's condition must fold to on the literal environment of `(req, es)` -/
def compileOutcome : Outcome → Option Bool
  | .sat => some true
  | .unsat => some false
  | .err => none

def compilePolicy (req : Request) (es : Entities) (p : Policy) : CPolicy :=
  { effect := compileEffect p.effect, term := compileOutcome (p.outcome req es) }

def compilePolicies (req : Request) (es : Entities) (ps : List Policy) : CPolicies :=
  ps.map (compilePolicy req es)

/-- the enforcer's assumptions all fold to `true` -/
def EnfTrue (enf : Asserts) : Prop := ∀ b, b ∈ enf → b = true

/-! ### helper facts about the skeleton (private to this namespace) -/

theorem fOr_eq (a b : Bool) : fOr a b = (a || b) := by cases a <;> cases b <;> rfl
theorem fAnd_eq (a b : Bool) : fAnd a b = (a && b) := by cases a <;> cases b <;> rfl
theorem fImplies_eq (a b : Bool) : fImplies a b = (!a || b) := by cases a <;> cases b <;> rfl
theorem fEqBool_eq (a b : Bool) : fEqBool a b = (a == b) := by cases a <;> cases b <;> rfl
theorem fEqSomeTrue_iff (t : Option Bool) : fEqSomeTrue t = true ↔ t = some true := by
  cases t with
  | none => simp [fEqSomeTrue]
  | some b => cases b <;> simp [fEqSomeTrue, fEqBool]
theorem fIsSome_iff (t : Option Bool) : fIsSome t = true ↔ t ≠ none := by
  cases t <;> simp [fIsSome, fIsNone, fNot]

theorem enf_no_false {enf : Asserts} (h : EnfTrue enf) : enf.any (fun a => a == false) = false := by
  rw [List.any_eq_false]
  intro x hx
  simp [h x hx]

theorem enf_all_true {enf : Asserts} (h : EnfTrue enf) : enf.all (fun a => a == true) = true := by
  rw [List.all_eq_true]
  intro x hx
  simp [h x hx]

/-- the shape shared by all plain builders: with true assumptions, unsat ⇔ the last assert is `false` ⇔ `phi` is `true` -/
theorem checkUnsat_append {enf : Asserts} (h : EnfTrue enf) (b : Bool) :
    checkUnsat (enf ++ [fNot b]) = b := by
  unfold checkUnsat
  rw [List.any_append, enf_no_false h, List.all_append, enf_all_true h]
  cases b <;> simp [fNot]

/-- the shape shared by all optimised builders -/
theorem checkUnsat_evalOpt {enf : Asserts} (h : EnfTrue enf) (phi : Option Bool → Bool) (t : Option Bool) :
    checkUnsat (verifyEvaluateOpt phi enf t) = phi t := by
  unfold verifyEvaluateOpt
  cases hb : phi t
  · have := checkUnsat_append h false
    simpa [fNot] using this
  · simp [fNot, checkUnsat]

theorem checkUnsat_pairOpt {enf : Asserts} (h : EnfTrue enf) (phi : Option Bool → Option Bool → Bool)
    (t1 t2 : Option Bool) : checkUnsat (verifyEvaluatePairOpt phi enf t1 t2) = phi t1 t2 := by
  unfold verifyEvaluatePairOpt
  cases hb : phi t1 t2
  · have := checkUnsat_append h false
    simpa [fNot] using this
  · simp [fNot, checkUnsat]

theorem checkUnsat_authOpt {enf : Asserts} (h : EnfTrue enf) (phi : Bool → Bool → Bool) (d1 d2 : Bool) :
    checkUnsat (verifyIsAuthorizedOpt phi enf d1 d2) = phi d1 d2 := by
  unfold verifyIsAuthorizedOpt
  cases hb : phi d1 d2
  · have := checkUnsat_append h false
    simpa [fNot] using this
  · simp [fNot, checkUnsat]

theorem anyTrue_aux (f : Option Bool → Bool) (ts : List (Option Bool)) (acc : Bool) :
    ts.foldl (fun acc g => fOr (f g) acc) acc = true ↔ acc = true ∨ ∃ t, t ∈ ts ∧ f t = true := by
  induction ts generalizing acc with
  | nil => simp
  | cons t ts ih =>
    rw [List.foldl_cons, ih, fOr_eq]
    simp only [Bool.or_eq_true, List.mem_cons, exists_eq_or_imp]
    constructor
    · rintro ((h | h) | h)
      · exact Or.inr (Or.inl h)
      · exact Or.inl h
      · exact Or.inr (Or.inr h)
    · rintro (h | h | h)
      · exact Or.inl (Or.inr h)
      · exact Or.inl (Or.inl h)
      · exact Or.inr h

theorem anyTrue_iff (f : Option Bool → Bool) (ts : List (Option Bool)) :
    anyTrue f ts = true ↔ ∃ t, t ∈ ts ∧ f t = true := by
  unfold anyTrue; rw [anyTrue_aux]; simp

/-- `satisfied_policies` on constants: some policy of that effect is `some true` -/
theorem satisfiedPolicies_iff (eff : SymCC.Effect) (ps : CPolicies) :
    satisfiedPolicies eff ps = true ↔ ∃ p, p ∈ ps ∧ p.effect = eff ∧ p.term = some true := by
  unfold satisfiedPolicies
  rw [anyTrue_iff]
  constructor
  · rintro ⟨t, ht, hf⟩
    rw [List.mem_map] at ht
    obtain ⟨p, hp, rfl⟩ := ht
    rw [List.mem_filter] at hp
    exact ⟨p, hp.1, by simpa using hp.2, (fEqSomeTrue_iff _).mp hf⟩
  · rintro ⟨p, hp, he, ht⟩
    refine ⟨p.term, ?_, (fEqSomeTrue_iff _).mpr ht⟩
    rw [List.mem_map]
    exact ⟨p, by rw [List.mem_filter]; exact ⟨hp, by simp [he]⟩, rfl⟩

theorem compileOutcome_some_true (o : Outcome) : compileOutcome o = some true ↔ o = .sat := by
  cases o <;> simp [compileOutcome]

theorem compileOutcome_none (o : Outcome) : compileOutcome o = none ↔ o = .err := by
  cases o <;> simp [compileOutcome]

theorem compileEffect_eq (e : Cedar.Effect) (e' : Cedar.Effect) :
    compileEffect e = compileEffect e' ↔ e = e' := by
  cases e <;> cases e' <;> simp [compileEffect]

variable (req : Request) (es : Entities)

theorem satisfied_compiled (eff : Cedar.Effect) (ps : List Policy) :
    satisfiedPolicies (compileEffect eff) (compilePolicies req es ps) = true ↔
      ∃ p, p ∈ ps ∧ p.effect = eff ∧ Sat req es p := by
  rw [satisfiedPolicies_iff]
  unfold compilePolicies
  constructor
  · rintro ⟨c, hc, he, ht⟩
    rw [List.mem_map] at hc
    obtain ⟨p, hp, rfl⟩ := hc
    exact ⟨p, hp, (compileEffect_eq _ _).mp he, (compileOutcome_some_true _).mp ht⟩
  · rintro ⟨p, hp, he, hs⟩
    exact ⟨compilePolicy req es p, List.mem_map.mpr ⟨p, hp, rfl⟩, by simp [compilePolicy, he],
      (compileOutcome_some_true _).mpr hs⟩

/-- the symbolic authorizer's decision term on the compiled set = the concrete authorizer's decision (via C01) -/
theorem isAuthorized_compiled (ps : List Policy) :
    SymCC.isAuthorized (compilePolicies req es ps) = true ↔ (Cedar.isAuthorized req es ps).decision = .allow := by
  rw [C01.allow_iff]
  unfold SymCC.isAuthorized
  simp only [fAnd_eq, fNot, Bool.and_eq_true, Bool.not_eq_true']
  have hp := satisfied_compiled req es .permit ps
  have hf := satisfied_compiled req es .forbid ps
  simp only [compileEffect] at hp hf
  rw [hp, ← Bool.not_eq_true, hf]

theorem isAuthorized_allowAll : SymCC.isAuthorized allowAll = true := by decide
theorem isAuthorized_nil : SymCC.isAuthorized [] = false := by decide

theorem decision_cases (r : Response) : r.decision = .allow ∨ r.decision = .deny := by
  cases r.decision <;> simp

/-! ### the property: policy-level conditions -/

/-- C18: 'never errors' is REFUTED (asserts satisfiable) exactly when the policy errors. -/
theorem neverErrors_refuted_iff_errors (enf : Asserts) (hEnf : EnfTrue enf) (p : Policy) :
    checkUnsat (verifyNeverErrors enf (compilePolicy req es p).term) = false ↔ Errs req es p := by
  unfold verifyNeverErrors verifyEvaluate
  rw [checkUnsat_append hEnf]
  unfold Errs compilePolicy
  cases p.outcome req es <;> simp [compileOutcome, fIsSome, fIsNone, fNot]

/-- C18: 'always matches' holds exactly when the policy is satisfied. -/
theorem alwaysMatches_iff_satisfied (enf : Asserts) (hEnf : EnfTrue enf) (p : Policy) :
    checkUnsat (verifyAlwaysMatches enf (compilePolicy req es p).term) = true ↔ Sat req es p := by
  unfold verifyAlwaysMatches verifyEvaluate
  rw [checkUnsat_append hEnf, fEqSomeTrue_iff]
  exact compileOutcome_some_true _

/-- C18: 'never matches' holds exactly when the policy is not satisfied. -/
theorem neverMatches_iff_not_satisfied (enf : Asserts) (hEnf : EnfTrue enf) (p : Policy) :
    checkUnsat (verifyNeverMatches enf (compilePolicy req es p).term) = true ↔ ¬ Sat req es p := by
  unfold verifyNeverMatches verifyEvaluate
  rw [checkUnsat_append hEnf]
  simp only [fNot, Bool.not_eq_true']
  rw [← Bool.not_eq_true, fEqSomeTrue_iff]
  exact not_congr (compileOutcome_some_true _)

/-- policy-level pair conditions (`verify_matches_*`): equivalent / implies / disjoint on satisfaction. -/
theorem matches_pair_correct (enf : Asserts) (hEnf : EnfTrue enf) (p q : Policy) :
    let t1 := (compilePolicy req es p).term
    let t2 := (compilePolicy req es q).term
    (checkUnsat (verifyMatchesEquivalent enf t1 t2) = true ↔ (Sat req es p ↔ Sat req es q)) ∧
    (checkUnsat (verifyMatchesImplies enf t1 t2) = true ↔ (Sat req es p → Sat req es q)) ∧
    (checkUnsat (verifyMatchesDisjoint enf t1 t2) = true ↔ ¬ (Sat req es p ∧ Sat req es q)) := by
  simp only [verifyMatchesEquivalent, verifyMatchesImplies, verifyMatchesDisjoint, verifyEvaluatePair]
  rw [checkUnsat_append hEnf, checkUnsat_append hEnf, checkUnsat_append hEnf]
  unfold Sat compilePolicy
  cases p.outcome req es <;> cases q.outcome req es <;>
    simp [compileOutcome, fEqSomeTrue, fEqBool, fImplies, fOr, fNot, fAnd]

/-! ### the property: policy-set conditions vs the concrete authorizer -/

/-- C18: 'always allows' holds exactly when the concrete authorizer allows. -/
theorem alwaysAllows_iff_allow (enf : Asserts) (hEnf : EnfTrue enf) (ps : List Policy) :
    checkUnsat (verifyAlwaysAllows enf (compilePolicies req es ps)) = true ↔
      (Cedar.isAuthorized req es ps).decision = .allow := by
  unfold verifyAlwaysAllows verifyImplies verifyIsAuthorized
  rw [checkUnsat_append hEnf, fImplies_eq, isAuthorized_allowAll, ← isAuthorized_compiled]
  simp

/-- C18: 'always denies' holds exactly when the concrete authorizer denies. -/
theorem alwaysDenies_iff_deny (enf : Asserts) (hEnf : EnfTrue enf) (ps : List Policy) :
    checkUnsat (verifyAlwaysDenies enf (compilePolicies req es ps)) = true ↔
      (Cedar.isAuthorized req es ps).decision = .deny := by
  unfold verifyAlwaysDenies verifyImplies verifyIsAuthorized
  rw [checkUnsat_append hEnf, fImplies_eq, isAuthorized_nil]
  have h := isAuthorized_compiled req es ps
  rcases decision_cases (Cedar.isAuthorized req es ps) with hd | hd
  · have : SymCC.isAuthorized (compilePolicies req es ps) = true := h.mpr hd
    simp [this, hd]
  · have : SymCC.isAuthorized (compilePolicies req es ps) = false := by
      cases hb : SymCC.isAuthorized (compilePolicies req es ps)
      · rfl
      · rw [h.mp hb] at hd; cases hd
    simp [this, hd]

/-- C18: 'implies' holds exactly when (first allows → second allows). -/
theorem implies_iff (enf : Asserts) (hEnf : EnfTrue enf) (ps₁ ps₂ : List Policy) :
    checkUnsat (verifyImplies enf (compilePolicies req es ps₁) (compilePolicies req es ps₂)) = true ↔
      ((Cedar.isAuthorized req es ps₁).decision = .allow → (Cedar.isAuthorized req es ps₂).decision = .allow) := by
  unfold verifyImplies verifyIsAuthorized
  rw [checkUnsat_append hEnf, fImplies_eq, ← isAuthorized_compiled, ← isAuthorized_compiled]
  cases SymCC.isAuthorized (compilePolicies req es ps₁) <;> cases SymCC.isAuthorized (compilePolicies req es ps₂) <;> simp

/-- C18: 'equivalent' holds exactly when the two decisions are equal. -/
theorem equivalent_iff (enf : Asserts) (hEnf : EnfTrue enf) (ps₁ ps₂ : List Policy) :
    checkUnsat (verifyEquivalent enf (compilePolicies req es ps₁) (compilePolicies req es ps₂)) = true ↔
      (Cedar.isAuthorized req es ps₁).decision = (Cedar.isAuthorized req es ps₂).decision := by
  unfold verifyEquivalent verifyIsAuthorized
  rw [checkUnsat_append hEnf, fEqBool_eq]
  have h1 := isAuthorized_compiled req es ps₁
  have h2 := isAuthorized_compiled req es ps₂
  rcases decision_cases (Cedar.isAuthorized req es ps₁) with d1 | d1 <;>
    rcases decision_cases (Cedar.isAuthorized req es ps₂) with d2 | d2 <;>
    cases hb1 : SymCC.isAuthorized (compilePolicies req es ps₁) <;>
    cases hb2 : SymCC.isAuthorized (compilePolicies req es ps₂) <;>
    simp_all

/-- C18: 'disjoint' holds exactly when not both allow. -/
theorem disjoint_iff (enf : Asserts) (hEnf : EnfTrue enf) (ps₁ ps₂ : List Policy) :
    checkUnsat (verifyDisjoint enf (compilePolicies req es ps₁) (compilePolicies req es ps₂)) = true ↔
      ¬ ((Cedar.isAuthorized req es ps₁).decision = .allow ∧ (Cedar.isAuthorized req es ps₂).decision = .allow) := by
  unfold verifyDisjoint verifyIsAuthorized
  rw [checkUnsat_append hEnf]
  simp only [fAnd_eq]
  rw [← isAuthorized_compiled, ← isAuthorized_compiled]
  cases SymCC.isAuthorized (compilePolicies req es ps₁) <;> cases SymCC.isAuthorized (compilePolicies req es ps₂) <;>
    simp [fNot]

/-! ### the optimised builders (symccopt/verifier.rs) give the same constants -/

/-- the constant-false shortcut of symccopt never changes the verdict -/
theorem opt_agrees (enf : Asserts) (hEnf : EnfTrue enf) :
    (∀ p : CPolicy, policyVCsOpt enf p = policyVCs enf p) ∧
    (∀ ps : CPolicies, setVCsOpt enf ps = setVCs enf ps) ∧
    (∀ ps₁ ps₂ : CPolicies, pairVCsOpt enf ps₁ ps₂ = pairVCs enf ps₁ ps₂) ∧
    (∀ t₁ t₂ : Option Bool, matchVCsOpt enf t₁ t₂ = matchVCs enf t₁ t₂) := by
  refine ⟨?_, ?_, ?_, ?_⟩
  · intro p
    simp only [policyVCsOpt, policyVCs, verifyNeverErrorsOpt, verifyAlwaysMatchesOpt, verifyNeverMatchesOpt,
      verifyNeverErrors, verifyAlwaysMatches, verifyNeverMatches, verifyEvaluate,
      checkUnsat_append hEnf, checkUnsat_evalOpt hEnf]
  · intro ps
    simp only [setVCsOpt, setVCs, verifyAlwaysAllowsOpt, verifyAlwaysDeniesOpt,
      verifyAlwaysAllows, verifyAlwaysDenies, verifyImplies, verifyIsAuthorized, compiledSetTerm, allowAllTerm,
      denyAllTerm, checkUnsat_append hEnf, checkUnsat_authOpt hEnf, isAuthorized_allowAll, isAuthorized_nil]
  · intro ps₁ ps₂
    simp only [pairVCsOpt, pairVCs, verifyImpliesOpt, verifyEquivalentOpt, verifyDisjointOpt,
      verifyImplies, verifyEquivalent, verifyDisjoint, verifyIsAuthorized, compiledSetTerm,
      checkUnsat_append hEnf, checkUnsat_authOpt hEnf]
  · intro t₁ t₂
    simp only [matchVCsOpt, matchVCs, verifyMatchesImpliesOpt, verifyMatchesEquivalentOpt, verifyMatchesDisjointOpt,
      verifyMatchesImplies, verifyMatchesEquivalent, verifyMatchesDisjoint, verifyEvaluatePair,
      checkUnsat_append hEnf, checkUnsat_pairOpt hEnf]

/-- true enforcer assumptions are irrelevant: any two all-true lists give the same constants
    (the driver op uses `[true]`) -/
theorem enf_irrelevant (enf enf' : Asserts) (h : EnfTrue enf) (h' : EnfTrue enf') (b : Bool) :
    checkUnsat (enf ++ [fNot b]) = checkUnsat (enf' ++ [fNot b]) := by
  rw [checkUnsat_append h, checkUnsat_append h']

/-! ### the combined statement -/

/-- C18 (skeleton): for constant per-policy outcomes (the compile contract) every verification condition states exactly
    what the concrete authorizer model does, for both families of builders. -/
theorem vc_skeleton_correct (enf : Asserts) (hEnf : EnfTrue enf) (p : Policy) (ps₁ ps₂ : List Policy) :
    let c := compilePolicy req es p
    let c₁ := compilePolicies req es ps₁
    let c₂ := compilePolicies req es ps₂
    let d₁ := (Cedar.isAuthorized req es ps₁).decision
    let d₂ := (Cedar.isAuthorized req es ps₂).decision
    -- policy level
    ((policyVCs enf c).neverErrors = false ↔ Errs req es p) ∧
    ((policyVCs enf c).alwaysMatches = true ↔ Sat req es p) ∧
    ((policyVCs enf c).neverMatches = true ↔ ¬ Sat req es p) ∧
    -- set level
    ((setVCs enf c₁).alwaysAllows = true ↔ d₁ = .allow) ∧
    ((setVCs enf c₁).alwaysDenies = true ↔ d₁ = .deny) ∧
    ((pairVCs enf c₁ c₂).implies = true ↔ (d₁ = .allow → d₂ = .allow)) ∧
    ((pairVCs enf c₁ c₂).equivalent = true ↔ d₁ = d₂) ∧
    ((pairVCs enf c₁ c₂).disjoint = true ↔ ¬ (d₁ = .allow ∧ d₂ = .allow)) ∧
    -- symccopt's builders agree
    (policyVCsOpt enf c = policyVCs enf c ∧ setVCsOpt enf c₁ = setVCs enf c₁ ∧ pairVCsOpt enf c₁ c₂ = pairVCs enf c₁ c₂) := by
  have ho := opt_agrees enf hEnf
  exact ⟨neverErrors_refuted_iff_errors req es enf hEnf p,
    alwaysMatches_iff_satisfied req es enf hEnf p,
    neverMatches_iff_not_satisfied req es enf hEnf p,
    alwaysAllows_iff_allow req es enf hEnf ps₁,
    alwaysDenies_iff_deny req es enf hEnf ps₁,
    implies_iff req es enf hEnf ps₁ ps₂,
    equivalent_iff req es enf hEnf ps₁ ps₂,
    disjoint_iff req es enf hEnf ps₁ ps₂,
    ho.1 _, ho.2.1 _, ho.2.2.1 _ _⟩

/-! ### non-vacuity -/

section Examples

def exReq : Request := { principal := ⟨"User", "a"⟩, action := ⟨"Action", "view"⟩, resource := ⟨"Doc", "d"⟩, context := [] }
def exEs : Entities := []

/-- permit when true;  forbid when 1 + "x" (errors);  permit when principal == resource (false) -/
def pTrue : Policy := { id := "p0", effect := .permit, condition := .lit (.bool true), env := [] }
def pErr : Policy := { id := "p1", effect := .forbid, condition := .binaryApp .add (.lit (.int 1)) (.lit (.string "x")), env := [] }
def pFalse : Policy := { id := "p2", effect := .permit, condition := .binaryApp .eq (.var .principal) (.var .resource), env := [] }

example : EnfTrue [true, true] := by intro b hb; simp at hb; exact hb

-- the three outcomes really occur, so every side of every ↔ is exercised
example : pTrue.outcome exReq exEs = .sat := by decide +kernel
example : pErr.outcome exReq exEs = .err := by decide +kernel
example : pFalse.outcome exReq exEs = .unsat := by decide +kernel

-- never-errors refuted on the erroring policy, not on the others
example : (policyVCs [true] (compilePolicy exReq exEs pErr)).neverErrors = false := by decide +kernel
example : (policyVCs [true] (compilePolicy exReq exEs pTrue)).neverErrors = true := by decide +kernel
example : (policyVCs [true] (compilePolicy exReq exEs pTrue)).alwaysMatches = true := by decide +kernel
example : (policyVCs [true] (compilePolicy exReq exEs pFalse)).neverMatches = true := by decide +kernel
example : (policyVCs [true] (compilePolicy exReq exEs pErr)).alwaysMatches = false := by decide +kernel

-- set level: {pTrue, pErr} allows (the erroring forbid is skipped); {pFalse} denies
example : (Cedar.isAuthorized exReq exEs [pTrue, pErr]).decision = .allow := by decide +kernel
example : (Cedar.isAuthorized exReq exEs [pFalse]).decision = .deny := by decide +kernel
example : (setVCs [true] (compilePolicies exReq exEs [pTrue, pErr])).alwaysAllows = true := by decide +kernel
example : (setVCs [true] (compilePolicies exReq exEs [pFalse])).alwaysDenies = true := by decide +kernel
example : pairVCs [true] (compilePolicies exReq exEs [pTrue, pErr]) (compilePolicies exReq exEs [pFalse])
    = { implies := false, equivalent := false, disjoint := true } := by decide +kernel
example : pairVCs [true] (compilePolicies exReq exEs [pFalse]) (compilePolicies exReq exEs [pTrue, pErr])
    = { implies := true, equivalent := false, disjoint := true } := by decide +kernel
example : pairVCsOpt [true] (compilePolicies exReq exEs [pTrue]) (compilePolicies exReq exEs [pTrue, pErr])
    = { implies := true, equivalent := true, disjoint := false } := by decide +kernel

-- a false enforcer assumption (an ill-formed hierarchy) makes every condition hold vacuously: the hypothesis matters
example : checkUnsat (verifyNeverErrors [false] none) = true := by decide

end Examples

/-! ### the compiler fragment (Cedar/SymCompile.lean): the compile contract PROVED on `SFrag` -/

section Fragment
open Cedar.SymC

/-- C18 on the SECOND fragment (`SFrag2` = `SFrag` + `context`, `e.a`, `e has a` on record-typed terms): on the literal
    environment of `req` whose context term `ctxT` represents the FLAT context `req.context` (`CtxOK`: a record term with,
    per attribute, the literal / `some literal` of the context's primitive value, or `none ty` for an absent attribute, and
    no other attribute — what `Term::from_value(context, context_type)` builds, `ctxTermOf`; the hypothesis is only
    needed when `ctxT` is record-typed, otherwise `compile_var` rejects `context`), whenever the compiler accepts `e` the
    term it builds is ALREADY folded: `some (lit p)` when `evaluate` gives the primitive `p`, `some ctxT` when `evaluate`
    gives the context record itself, `none` (of some type) when `evaluate` errors (overflow, type error, or a missing
    optional attribute).  The store is irrelevant on this fragment. -/
theorem compile_correct_fragment2 (req : Request) (es : Entities) (senv : SlotEnv)
    (etys : List (EntityType × Option (List String))) (ctxT : Term)
    (hctx : ctxT.typeOf.isRecordType = true → CtxOK req.context ctxT)
    (e : Expr) (hf : SFrag2 e) (t : Term)
    (hc : compile (litEnv2 req etys ctxT) e = .ok t) :
    match evaluate req es senv e with
    | .ok v => (∃ p, v = .prim p ∧ t = .some (.prim (litPrim p))) ∨ (v = .record req.context ∧ t = .some ctxT)
    | .error _ => ∃ ty, t = .none ty := by
  have h := compile_rel2 req es senv etys ctxT hctx hf t hc
  rcases h.cases with ⟨p, hev, _, rfl⟩ | ⟨err, ty, hev, rfl⟩ | ⟨hev, rfl, _⟩
  · rw [hev]; exact Or.inl ⟨p, rfl, rfl⟩
  · rw [hev]; exact ⟨ty, rfl⟩
  · rw [hev]; exact Or.inr ⟨rfl, rfl⟩

/-- `ctxTermOf` (the mirror of the `Record` arm of `Term::from_value`) never fails on, and yields a term satisfying
    `CtxOK` for, EVERY flat context all of whose attributes are declared by the flat context type `attrs` and carry
    primitive values (`FlatConforms`; implied by conformance of the request to the schema). -/
theorem ctxTermOf_ctxOK (ctx : List (String × Value)) (attrs : List (Attr × CtxAttrTy × Bool))
    (hconf : FlatConforms ctx attrs) : ∃ t, ctxTermOf ctx attrs = some t ∧ CtxOK ctx t := by
  obtain ⟨t, ht, hrec, hfld, hno⟩ := ctxTermOf_spec ctx (fun a v h => (hconf a v h).1) attrs
  refine ⟨t, ht, hrec, hfld, ?_⟩
  intro a h
  cases hl : lookupKV ctx a with
  | none => rfl
  | some v => exact absurd (hconf a v hl).2 (hno a h)

/-- `compile_correct_fragment2` with the hypothesis about the context term DISCHARGED for conformant requests: the
    context term is the one the symbolizer builds (`ctxTermOf`). -/
theorem compile_correct_fragment2_conformant (req : Request) (es : Entities) (senv : SlotEnv)
    (etys : List (EntityType × Option (List String))) (attrs : List (Attr × CtxAttrTy × Bool))
    (hconf : FlatConforms req.context attrs) :
    ∃ ctxT, ctxTermOf req.context attrs = some ctxT ∧
      ∀ (e : Expr), SFrag2 e → ∀ t, compile (litEnv2 req etys ctxT) e = .ok t →
        match evaluate req es senv e with
        | .ok v => (∃ p, v = .prim p ∧ t = .some (.prim (litPrim p))) ∨ (v = .record req.context ∧ t = .some ctxT)
        | .error _ => ∃ ty, t = .none ty := by
  obtain ⟨ctxT, h, hok⟩ := ctxTermOf_ctxOK req.context attrs hconf
  exact ⟨ctxT, h, fun e hf t hc => compile_correct_fragment2 req es senv etys ctxT (fun _ => hok) e hf t hc⟩

/-! ### WHEN the compiler rejects: its own typing discipline `ctype` (Lemmas/SymCType.lean) -/

/-- soundness of the compiler's typing discipline: an accepted `SFrag2` expression compiles to a term whose type is the
    one `ctype` computes (always an `option` type). -/
theorem compile_typeOf_ctype (req : Request) (es : Entities) (senv : SlotEnv)
    (etys : List (EntityType × Option (List String))) (ctxT : Term)
    (hctx : ctxT.typeOf.isRecordType = true → CtxOK req.context ctxT)
    (e : Expr) (hf : SFrag2 e) (t : Term) (hc : compile (litEnv2 req etys ctxT) e = .ok t) :
    ctype req es senv (litEnv2 req etys ctxT) e = .ok t.typeOf := by
  rw [← ctype_spec req es senv etys ctxT hctx hf, hc]; rfl

/-- C18, ill-typed inputs: on the literal environment of `req` the compiler's outcome class on an `SFrag2` expression
    is decided by `ctype` — the mirror of the checks compiler.rs makes (types of the operands of `! - == < <= + - *`,
    `reducible_eq`, record-typedness and declared attributes for `.`/`has`, `option bool` guards and operands of
    `if && ||`, equal branch types), where `if / && / ||` skip the checks on the operand a CONSTANT guard discards
    (the guard is constant exactly when `evaluate` gives a boolean):
      * it returns the error `err` (`TypeError`, `NoSuchAttribute`; or the model-only `.outside` for `.`/`has` on an
        entity-typed term) iff `ctype` gives that error;
      * it accepts iff `ctype` gives a type. -/
theorem compile_rejects_iff (req : Request) (es : Entities) (senv : SlotEnv)
    (etys : List (EntityType × Option (List String))) (ctxT : Term)
    (hctx : ctxT.typeOf.isRecordType = true → CtxOK req.context ctxT) (e : Expr) (hf : SFrag2 e) :
    (∀ err, compile (litEnv2 req etys ctxT) e = .error err ↔ ctype req es senv (litEnv2 req etys ctxT) e = .error err) ∧
    ((∃ t, compile (litEnv2 req etys ctxT) e = .ok t) ↔ ∃ ty, ctype req es senv (litEnv2 req etys ctxT) e = .ok ty) := by
  have h := ctype_spec req es senv etys ctxT hctx hf
  cases hc : compile (litEnv2 req etys ctxT) e with
  | error e0 =>
    rw [hc] at h
    simp only [resTy] at h
    rw [← h]
    exact ⟨fun err => by simp, by simp⟩
  | ok t =>
    rw [hc] at h
    simp only [resTy] at h
    rw [← h]
    exact ⟨fun err => by simp, by simp⟩

/-- the first fragment (no `context`): corollary of `compile_correct_fragment2` on the context-less environment `litEnv`
    (its context slot is a non-record dummy, so no hypothesis about the context is needed).  Ill-typed inputs: see the
    examples below — a type error of `evaluate` shows up either as the compiler REJECTING (`.error .typeError`, excluded
    here by `hc`) or, when it accepts, as `none` — never as a `some`. -/
theorem compile_correct_fragment (req : Request) (es : Entities) (senv : SlotEnv)
    (etys : List (EntityType × Option (List String))) (e : Expr) (hf : SFrag e) (t : Term)
    (hc : compile (litEnv req etys) e = .ok t) :
    match evaluate req es senv e with
    | .ok v => ∃ p, v = .prim p ∧ t = .some (.prim (litPrim p))
    | .error _ => ∃ ty, t = .none ty := by
  have h := compile_rel2 req es senv etys (.prim (.bool false)) (by simp [Term.typeOf, TermPrim.typeOf, TermType.isRecordType])
    hf.toSFrag2 t hc
  rcases h.cases with ⟨p, hev, _, rfl⟩ | ⟨err, ty, hev, rfl⟩ | ⟨_, _, hck⟩
  · rw [hev]; exact ⟨p, rfl, rfl⟩
  · rw [hev]; exact ⟨ty, rfl⟩
  · exact absurd hck.1 (by simp [Term.isRecord])

/-! ### THIRD fragment (`SFrag3`): set literals, `contains containsAll containsAny isEmpty`, set `==` — MODELLED and checked
    against Rust by stream c18symc; the general correctness statement is STATED (`CompileCorrectFragment3`), NOT proved;
    proved: the canonical form keeps exactly the members, and `set_member` / `set_subset` / `set_intersects` /
    `set_is_empty` fold on it to list membership / inclusion / overlap / emptiness of the ORIGINAL element lists
    (`set_canonical_members`, `set_member_folds`, `set_subset_folds`, `set_intersects_folds`, `set_is_empty_folds`). -/

/-- the FULL statement for the third fragment (same shape as `compile_correct_fragment2`, plus the set case: the folded
    term is `some` of a canonical literal set term `setOf ts ty` whose members are, when the value is a set of primitives,
    exactly the literals of those primitives — "equal up to the canonical form").  NOT PROVED. -/
def CompileCorrectFragment3 : Prop :=
  ∀ (req : Request) (es : Entities) (senv : SlotEnv) (etys : List (EntityType × Option (List String))) (ctxT : Term),
    (ctxT.typeOf.isRecordType = true → CtxOK req.context ctxT) →
    ∀ (e : Expr), SFrag3 e → ∀ (t : Term), compile (litEnv2 req etys ctxT) e = .ok t →
      match evaluate req es senv e with
      | .ok v => (∃ p, v = .prim p ∧ t = .some (.prim (litPrim p))) ∨ (v = .record req.context ∧ t = .some ctxT) ∨
                 (∃ vs ts ty, v = .set vs ∧ t = .some (setOf ts ty) ∧
                    ∀ ps : List Prim, vs = ps.map Value.prim → ∀ y, y ∈ ts ↔ ∃ p, p ∈ ps ∧ y = .prim (litPrim p))
      | .error _ => ∃ ty, t = .none ty

/-- `factory::set_of` (collecting into the BTreeSet, model: sorted duplicate-free insertion) keeps exactly the members -/
theorem set_canonical_members (ts : List Term) (ty : TermType) (y : Term) :
    (y ∈ setElts (setOf ts ty) ↔ y ∈ ts) ∧ (setOf ts ty).typeOf = .set ty :=
  ⟨setOf_mem ts ty y, setOf_typeOf ts ty⟩

/-- `factory::set_member` on literals folds to membership in the ORIGINAL element list (duplicates / order irrelevant) -/
theorem set_member_folds (x : Term) (ts : List Term) (ty : TermType) (hx : x.isLiteral = true)
    (hts : ∀ y, y ∈ ts → y.isLiteral = true) :
    setMember x (setOf ts ty) = .prim (.bool (ts.contains x)) :=
  setMember_setOf x ts ty hx hts

/-- `factory::set_subset` on two canonical literal sets (what `b.containsAll(a)` compiles to) folds to "every element of the
    first list occurs in the second" — the evaluator's `Value.subset` on the element lists -/
theorem set_subset_folds (as bs : List Term) (ty : TermType)
    (has : ∀ y, y ∈ as → y.isLiteral = true) (hbs : ∀ y, y ∈ bs → y.isLiteral = true) :
    setSubset (setOf as ty) (setOf bs ty) = .prim (.bool (as.all (fun x => bs.contains x))) :=
  setSubset_setOf as bs ty has hbs

/-- `factory::set_intersects` (= `not(set_is_empty(set_inter …))`, what `a.containsAny(b)` compiles to) on two canonical
    literal sets folds to "some element of the first list occurs in the second" -/
theorem set_intersects_folds (as bs : List Term) (ty : TermType)
    (has : ∀ y, y ∈ as → y.isLiteral = true) (hbs : ∀ y, y ∈ bs → y.isLiteral = true) :
    setIntersects (setOf as ty) (setOf bs ty) = .prim (.bool (as.any (fun x => bs.contains x))) :=
  setIntersects_setOf as bs ty has hbs

/-- `factory::set_is_empty` on the canonical set folds to emptiness of the element list -/
theorem set_is_empty_folds (ts : List Term) (ty : TermType) : setIsEmpty (setOf ts ty) = .prim (.bool ts.isEmpty) :=
  setIsEmpty_setOf ts ty

/-- `CompiledPolicy::compile_with_custom_symenv` restricted to what the skeleton reads: the compiled condition must be a
    term of type `option bool` (compiler.rs' postcondition for a boolean condition) and is read as a constant -/
def compilePolicyReal (env : SymEnvLit) (p : Policy) : Option CPolicy :=
  match compile env p.condition with
  | .ok t =>
    if t.typeOf = .option .bool then
      match optBoolOf t with
      | some b => some { effect := compileEffect p.effect, term := b }
      | none => none
    else none
  | .error _ => none

def compilePoliciesReal (env : SymEnvLit) : List Policy → Option CPolicies
  | [] => some []
  | p :: ps =>
    match compilePolicyReal env p, compilePoliciesReal env ps with
    | some c, some cs => some (c :: cs)
    | _, _ => none

/-- the compile contract (`compilePolicy`, so far a hypothesis-as-data) is what the modelled compiler produces -/
theorem compilePolicy_discharged (req : Request) (es : Entities) (etys : List (EntityType × Option (List String)))
    (ctxT : Term) (hctx : ctxT.typeOf.isRecordType = true → CtxOK req.context ctxT)
    (p : Policy) (hf : SFrag2 p.condition) (c : CPolicy)
    (h : compilePolicyReal (litEnv2 req etys ctxT) p = some c) : c = compilePolicy req es p := by
  unfold compilePolicyReal at h
  cases hc : compile (litEnv2 req etys ctxT) p.condition with
  | error e => simp [hc] at h
  | ok t =>
    simp only [hc] at h
    split at h
    · rename_i hty
      have hr := compile_rel2 req es p.env etys ctxT hctx hf t hc
      rcases hr.cases with ⟨q, hev, _, rfl⟩ | ⟨err, ty, hev, rfl⟩ | ⟨_, rfl, hck⟩
      rotate_right
      · have hh := isRecord_typeOf hck.1
        simp only [Term.typeOf, TermType.option.injEq] at hty
        rw [hty] at hh
        simp [TermType.isRecordType] at hh
      · obtain ⟨b, rfl⟩ := litPrim_typeOf_bool (p := q) (by simpa [Term.typeOf] using hty)
        simp only [optBoolOf, litPrim, Option.some.injEq] at h
        subst h
        unfold compilePolicy Policy.outcome
        rw [hev]
        cases b <;> simp [Value.asBool, compileOutcome]
      · simp only [optBoolOf, Option.some.injEq] at h
        subst h
        unfold compilePolicy Policy.outcome
        rw [hev]
        simp [compileOutcome]
    · simp at h

theorem compilePolicies_discharged (req : Request) (es : Entities) (etys : List (EntityType × Option (List String)))
    (ctxT : Term) (hctx : ctxT.typeOf.isRecordType = true → CtxOK req.context ctxT)
    (ps : List Policy) (hf : ∀ q, q ∈ ps → SFrag2 q.condition) (cs : CPolicies)
    (h : compilePoliciesReal (litEnv2 req etys ctxT) ps = some cs) : cs = compilePolicies req es ps := by
  induction ps generalizing cs with
  | nil => simp [compilePoliciesReal] at h; subst h; rfl
  | cons p ps ih =>
    unfold compilePoliciesReal at h
    cases h1 : compilePolicyReal (litEnv2 req etys ctxT) p with
    | none => simp [h1] at h
    | some c =>
      cases h2 : compilePoliciesReal (litEnv2 req etys ctxT) ps with
      | none => simp [h1, h2] at h
      | some cs' =>
        simp only [h1, h2, Option.some.injEq] at h
        subst h
        rw [compilePolicy_discharged req es etys ctxT hctx p (hf p (by simp)) c h1,
          ih (fun q hq => hf q (by simp [hq])) cs' h2]
        rfl

/-- C18 on the fragment, WITHOUT the compile contract as a hypothesis: for policies whose conditions are in `SFrag2`
    (on the literal environment with a context term representing the flat context, `hctx`),
    the constants of every verification condition, computed from the terms the MODELLED compiler and factory produce on
    the literal environment, state exactly what the concrete authorizer model does.  Remaining assumption: the
    enforcer's assumptions fold to `true` (`hEnf`; the enforcer is not modelled). -/
theorem vc_skeleton_correct_fragment (etys : List (EntityType × Option (List String)))
    (ctxT : Term) (hctx : ctxT.typeOf.isRecordType = true → CtxOK req.context ctxT)
    (enf : Asserts) (hEnf : EnfTrue enf) (p : Policy) (ps₁ ps₂ : List Policy)
    (hp : SFrag2 p.condition) (h₁ : ∀ q, q ∈ ps₁ → SFrag2 q.condition) (h₂ : ∀ q, q ∈ ps₂ → SFrag2 q.condition)
    (c : CPolicy) (c₁ c₂ : CPolicies)
    (hc : compilePolicyReal (litEnv2 req etys ctxT) p = some c)
    (hc₁ : compilePoliciesReal (litEnv2 req etys ctxT) ps₁ = some c₁)
    (hc₂ : compilePoliciesReal (litEnv2 req etys ctxT) ps₂ = some c₂) :
    let d₁ := (Cedar.isAuthorized req es ps₁).decision
    let d₂ := (Cedar.isAuthorized req es ps₂).decision
    ((policyVCs enf c).neverErrors = false ↔ Errs req es p) ∧
    ((policyVCs enf c).alwaysMatches = true ↔ Sat req es p) ∧
    ((policyVCs enf c).neverMatches = true ↔ ¬ Sat req es p) ∧
    ((setVCs enf c₁).alwaysAllows = true ↔ d₁ = .allow) ∧
    ((setVCs enf c₁).alwaysDenies = true ↔ d₁ = .deny) ∧
    ((pairVCs enf c₁ c₂).implies = true ↔ (d₁ = .allow → d₂ = .allow)) ∧
    ((pairVCs enf c₁ c₂).equivalent = true ↔ d₁ = d₂) ∧
    ((pairVCs enf c₁ c₂).disjoint = true ↔ ¬ (d₁ = .allow ∧ d₂ = .allow)) ∧
    (policyVCsOpt enf c = policyVCs enf c ∧ setVCsOpt enf c₁ = setVCs enf c₁ ∧ pairVCsOpt enf c₁ c₂ = pairVCs enf c₁ c₂) := by
  rw [compilePolicy_discharged req es etys ctxT hctx p hp c hc, compilePolicies_discharged req es etys ctxT hctx ps₁ h₁ c₁ hc₁,
    compilePolicies_discharged req es etys ctxT hctx ps₂ h₂ c₂ hc₂]
  exact vc_skeleton_correct req es enf hEnf p ps₁ ps₂

end Fragment

/-! ### non-vacuity of the fragment theorems -/

section FragmentExamples
open Cedar.SymC

instance decEqCResult : DecidableEq CResult := fun a b =>
  match a, b with
  | .ok x, .ok y => if h : x = y then isTrue (by rw [h]) else isFalse (fun h' => h (by injection h'))
  | .error x, .error y => if h : x = y then isTrue (by rw [h]) else isFalse (fun h' => h (by injection h'))
  | .ok _, .error _ => isFalse (fun h => by cases h)
  | .error _, .ok _ => isFalse (fun h => by cases h)

instance decEqCTyRes : DecidableEq (Except CErr TermType) := fun a b =>
  match a, b with
  | .ok x, .ok y => if h : x = y then isTrue (by rw [h]) else isFalse (fun h' => h (by injection h'))
  | .error x, .error y => if h : x = y then isTrue (by rw [h]) else isFalse (fun h' => h (by injection h'))
  | .ok _, .error _ => isFalse (fun h => by cases h)
  | .error _, .ok _ => isFalse (fun h => by cases h)

def exEtys : List (EntityType × Option (List String)) := [("User", none), ("Doc", none), ("Action", some ["view"])]

/-- `if principal == User::"a" then 1 + 2 < 4 else !(true && false)` -/
def exIf : Expr :=
  .ite (.binaryApp .eq (.var .principal) (.lit (.entityUID ⟨"User", "a"⟩)))
    (.binaryApp .less (.binaryApp .add (.lit (.int 1)) (.lit (.int 2))) (.lit (.int 4)))
    (.unaryApp .not (.and (.lit (.bool true)) (.lit (.bool false))))

/-- `9223372036854775807 + 1 == 0` -/
def exOvf : Expr := .binaryApp .eq (.binaryApp .add (.lit (.int 9223372036854775807)) (.lit (.int 1))) (.lit (.int 0))

example : SFrag exIf := inFrag_sound _ (by decide +kernel)
example : SFrag exOvf := inFrag_sound _ (by decide +kernel)
example : compile (litEnv exReq exEtys) exIf = .ok (.some (.prim (.bool true))) := by decide +kernel
example : compile (litEnv exReq exEtys) exOvf = .ok (.none .bool) := by decide +kernel
example : compile (litEnv { exReq with principal := ⟨"User", "b"⟩ } exEtys) exIf = .ok (.some (.prim (.bool true))) := by
  decide +kernel

-- rejections (ill-typed inputs), exactly as compiler.rs decides them:
-- `1 + true`: rejected (evaluate: type error)
example : compile (litEnv exReq exEtys) (.binaryApp .add (.lit (.int 1)) (.lit (.bool true))) = .error .typeError := by
  decide +kernel
-- `false && (1 + true)`: ACCEPTED, `some false` (the right operand's error is never inspected; evaluate: false)
example : compile (litEnv exReq exEtys) (.and (.lit (.bool false)) (.binaryApp .add (.lit (.int 1)) (.lit (.bool true))))
    = .ok (.some (.prim (.bool false))) := by decide +kernel
-- `true && 1`: rejected (evaluate: type error)
example : compile (litEnv exReq exEtys) (.and (.lit (.bool true)) (.lit (.int 1))) = .error .typeError := by decide +kernel
-- `(9223372036854775807 + 1) + true`: rejected although evaluate errors with overflow before the type error
example : compile (litEnv exReq exEtys)
    (.binaryApp .add (.binaryApp .add (.lit (.int 9223372036854775807)) (.lit (.int 1))) (.lit (.bool true)))
    = .error .typeError := by decide +kernel
-- `1 == "a"`: ACCEPTED, `some false` (both types primitive; evaluate: false)
example : compile (litEnv exReq exEtys) (.binaryApp .eq (.lit (.int 1)) (.lit (.string "a")))
    = .ok (.some (.prim (.bool false))) := by decide +kernel
-- `if 1 < 2 then 1 else true`: ACCEPTED, `some 1` (the guard folds to a constant, the other branch is dropped)
example : compile (litEnv exReq exEtys)
    (.ite (.binaryApp .less (.lit (.int 1)) (.lit (.int 2))) (.lit (.int 1)) (.lit (.bool true)))
    = .ok (.some (.prim (.bitvec 1))) := by decide +kernel
-- an entity literal of a type outside the schema / outside an enumerated type: rejected, although evaluate succeeds
example : compile (litEnv exReq exEtys) (.lit (.entityUID ⟨"Ghost", "x"⟩)) = .error .typeError := by decide +kernel
example : compile (litEnv exReq exEtys) (.lit (.entityUID ⟨"Action", "edit"⟩)) = .error .typeError := by decide +kernel

/-! non-vacuity of `compile_correct_fragment2`: a request with context `{m: 5, n: 1}` for the context type
    `{m?: Long, n: Long, s?: String}`; the context term is what `ctxTermOf` (= `Term::from_value`) builds -/
def exReq2 : Request := { exReq with context := [("m", .prim (.int 5)), ("n", .prim (.int 1))] }
def exCtxT : Term :=
  .recCons "m" (.some (.prim (.bitvec 5))) (.recCons "n" (.prim (.bitvec 1)) (.recCons "s" (.none .string) .recNil))
/-- `context has m && context.m + 1 < context.n + 9` and `context.s == "x"` (absent optional attribute) -/
def exCtxE : Expr :=
  .and (.hasAttr (.var .context) "m")
    (.binaryApp .less (.binaryApp .add (.getAttr (.var .context) "m") (.lit (.int 1)))
      (.binaryApp .add (.getAttr (.var .context) "n") (.lit (.int 9))))
def exCtxS : Expr := .binaryApp .eq (.getAttr (.var .context) "s") (.lit (.string "x"))

example : ctxTermOf exReq2.context [("m", .long, false), ("n", .long, true), ("s", .string, false)] = some exCtxT := by
  decide +kernel
example : CtxOK exReq2.context exCtxT := by
  refine ⟨rfl, ?_, ?_⟩
  · intro a ft h
    by_cases h1 : a = "m"
    · subst h1
      have : ft = .some (.prim (.bitvec 5)) := by simpa [exCtxT, recFind?] using h.symm
      subst this
      exact Or.inl ⟨.int 5, (by decide : inI64 5 = true), by simp [exReq2, lookupKV], Or.inr rfl⟩
    · by_cases h2 : a = "n"
      · subst h2
        have : ft = .prim (.bitvec 1) := by simpa [exCtxT, recFind?] using h.symm
        subst this
        exact Or.inl ⟨.int 1, (by decide : inI64 1 = true), by simp [exReq2, lookupKV], Or.inl rfl⟩
      · by_cases h3 : a = "s"
        · subst h3
          have : ft = .none .string := by simpa [exCtxT, recFind?] using h.symm
          subst this
          exact Or.inr ⟨by simp [exReq2, lookupKV], _, rfl⟩
        · simp [exCtxT, recFind?, Ne.symm h1, Ne.symm h2, Ne.symm h3] at h
  · intro a h
    have h1 : ¬ "m" = a := by intro e; subst e; simp [exCtxT, recFind?] at h
    have h2 : ¬ "n" = a := by intro e; subst e; simp [exCtxT, recFind?] at h
    simp [exReq2, lookupKV, h1, h2]
example : FlatConforms exReq2.context [("m", .long, false), ("n", .long, true), ("s", .string, false)] := by
  intro a v h
  by_cases h1 : a = "m"
  · subst h1; simp [exReq2, lookupKV] at h; subst h; exact ⟨⟨_, rfl, (by decide : inI64 5 = true)⟩, by simp⟩
  · by_cases h2 : a = "n"
    · subst h2; simp [exReq2, lookupKV] at h; subst h; exact ⟨⟨_, rfl, (by decide : inI64 1 = true)⟩, by simp⟩
    · simp [exReq2, lookupKV, Ne.symm h1, Ne.symm h2] at h
example : SFrag2 exCtxE := inFrag2_sound _ (by decide +kernel)
example : compile (litEnv2 exReq2 exEtys exCtxT) exCtxE = .ok (.some (.prim (.bool true))) := by decide +kernel
example : compile (litEnv2 exReq2 exEtys exCtxT) exCtxS = .ok (.none .bool) := by decide +kernel
example : compile (litEnv2 exReq2 exEtys exCtxT) (.var .context) = .ok (.some exCtxT) := by decide +kernel
-- an attribute the context type does not declare: `has` folds to false, `.` is rejected (NoSuchAttribute)
example : compile (litEnv2 exReq2 exEtys exCtxT) (.hasAttr (.var .context) "zz") = .ok (.some (.prim (.bool false))) := by
  decide +kernel
example : compile (litEnv2 exReq2 exEtys exCtxT) (.getAttr (.var .context) "zz") = .error .noSuchAttr := by decide +kernel
-- attribute access on an entity-typed term is outside the model
example : compile (litEnv2 exReq2 exEtys exCtxT) (.getAttr (.var .principal) "name") = .error .outside := by decide +kernel

-- the two rejection examples above FOLLOW from `compile_rejects_iff` by computing `ctype` (no compilation):
-- `false && (1 + true)`: `ctype` accepts (the constant guard `false` discards the ill-typed operand) …
example : ctype exReq exEs [] (litEnv exReq exEtys)
    (.and (.lit (.bool false)) (.binaryApp .add (.lit (.int 1)) (.lit (.bool true)))) = .ok (.option .bool) := by
  decide +kernel
example : ∃ t, compile (litEnv exReq exEtys)
    (.and (.lit (.bool false)) (.binaryApp .add (.lit (.int 1)) (.lit (.bool true)))) = .ok t :=
  ((compile_rejects_iff exReq exEs [] exEtys (.prim (.bool false))
    (by simp [Term.typeOf, TermPrim.typeOf, TermType.isRecordType]) _
    (inFrag2_sound _ (by decide +kernel))).2).mpr ⟨.option .bool, by decide +kernel⟩
-- … `(MAX + 1) + true`: `ctype` rejects (the overflowing operand is not a CONSTANT guard position; `+` checks both types)
example : compile (litEnv exReq exEtys)
    (.binaryApp .add (.binaryApp .add (.lit (.int 9223372036854775807)) (.lit (.int 1))) (.lit (.bool true)))
    = .error .typeError :=
  ((compile_rejects_iff exReq exEs [] exEtys (.prim (.bool false))
    (by simp [Term.typeOf, TermPrim.typeOf, TermType.isRecordType]) _
    (inFrag2_sound _ (by decide +kernel))).1 _).mpr (by decide +kernel)
-- `context.zz` (undeclared): `NoSuchAttribute`;  `principal.name`: outside the model — both read off `ctype`
example : ctype exReq2 exEs [] (litEnv2 exReq2 exEtys exCtxT) (.getAttr (.var .context) "zz") = .error .noSuchAttr := by
  decide +kernel
example : ctype exReq2 exEs [] (litEnv2 exReq2 exEtys exCtxT) (.getAttr (.var .principal) "name") = .error .outside := by
  decide +kernel
example : ctype exReq2 exEs [] (litEnv2 exReq2 exEtys exCtxT) exCtxE = .ok (.option .bool) := by decide +kernel

-- `like` / `is` (in `SFrag2` since the third round): folded by `string_like` / `compile_is`, `none` on an erroring operand,
-- `TypeError` on an operand of another type
example : SFrag2 (.like (.lit (.string "x y")) [.char 'x', .star]) := inFrag2_sound _ (by decide +kernel)
example : compile (litEnv exReq exEtys) (.like (.lit (.string "x y")) [.char 'x', .star]) = .ok (.some (.prim (.bool true))) := by
  decide +kernel
example : compile (litEnv exReq exEtys) (.like (.lit (.string "x*")) [.char 'x', .char '*', .char 'z']) = .ok (.some (.prim (.bool false))) := by
  decide +kernel
example : compile (litEnv exReq exEtys) (.like (.lit (.int 1)) [.star]) = .error .typeError := by decide +kernel
example : compile (litEnv2 exReq2 exEtys exCtxT) (.like (.getAttr (.var .context) "s") [.star]) = .ok (.none .bool) := by
  decide +kernel
example : compile (litEnv exReq exEtys) (.is (.var .principal) "User") = .ok (.some (.prim (.bool true))) := by decide +kernel
example : compile (litEnv exReq exEtys) (.is (.var .principal) "Doc") = .ok (.some (.prim (.bool false))) := by decide +kernel
example : compile (litEnv exReq exEtys) (.is (.lit (.string "a")) "User") = .error .typeError := by decide +kernel
example : ctype exReq exEs [] (litEnv exReq exEtys) (.is (.lit (.string "a")) "User") = .error .typeError := by decide +kernel

/-- permit when exIf;  forbid when exOvf (errors) -/
def pIf : Policy := { id := "q0", effect := .permit, condition := exIf, env := [] }
def pOvf : Policy := { id := "q1", effect := .forbid, condition := exOvf, env := [] }

example : compilePolicyReal (litEnv exReq exEtys) pIf = some { effect := .permit, term := some true } := by decide +kernel
example : compilePolicyReal (litEnv exReq exEtys) pOvf = some { effect := .forbid, term := none } := by decide +kernel
example : compilePoliciesReal (litEnv exReq exEtys) [pIf, pOvf]
    = some [{ effect := .permit, term := some true }, { effect := .forbid, term := none }] := by decide +kernel
example : pOvf.outcome exReq exEs = .err := by decide +kernel

/-! ### third fragment: sets -/

example : setSubset (setOf [.prim (.bitvec 2), .prim (.bitvec 2)] .bitvec64) (setOf [.prim (.bitvec 1), .prim (.bitvec 2)] .bitvec64) = tTrue := by
  decide +kernel
example : setIntersects (setOf [.prim (.bitvec 3)] .bitvec64) (setOf [.prim (.bitvec 1), .prim (.bitvec 2)] .bitvec64) = tFalse := by
  decide +kernel
example : setMember (.prim (.bitvec 2)) (setOf [.prim (.bitvec 1), .prim (.bitvec 2), .prim (.bitvec 2)] .bitvec64) = tTrue := by
  decide +kernel

def exSet (is : List Int) : Expr := .set (is.map (fun i => .lit (.int i)))
def exMax1 : Expr := .binaryApp .add (.lit (.int 9223372036854775807)) (.lit (.int 1))

example : SFrag3 (.binaryApp .contains (exSet [1, 2, 2, 1]) (.lit (.int 2))) := inFrag3_sound _ (by decide +kernel)
-- duplicates and order disappear in the canonical form, which is well-formed (strictly sorted)
example : compile (litEnv exReq exEtys) (exSet [2, 1, 2])
    = .ok (.some (.setCons (.prim (.bitvec 1)) (.setCons (.prim (.bitvec 2)) (.setNil .bitvec64)))) := by decide +kernel
example : setWF (.setCons (.prim (.bitvec 1)) (.setCons (.prim (.bitvec 2)) (.setNil .bitvec64))) = true := by decide +kernel
example : compile (litEnv exReq exEtys) (.binaryApp .contains (exSet [1, 2, 2, 1]) (.lit (.int 2))) = .ok (.some tTrue) := by
  decide +kernel
-- an erroring element makes the whole set `none` (`if_all_some`)
example : compile (litEnv exReq exEtys) (.binaryApp .contains (.set [.lit (.int 1), exMax1]) (.lit (.int 1)))
    = .ok (.none .bool) := by decide +kernel
example : evaluate exReq exEs [] (.binaryApp .contains (.set [.lit (.int 1), exMax1]) (.lit (.int 1))) = .error .overflow := by
  rfl
example : compile (litEnv exReq exEtys) (.binaryApp .eq (exSet [3, 1, 2]) (exSet [2, 3, 1, 1])) = .ok (.some tTrue) := by
  decide +kernel
example : compile (litEnv exReq exEtys) (.binaryApp .eq (exSet [-1, 1]) (exSet [1])) = .ok (.some tFalse) := by decide +kernel
-- `a.containsAll(b)` is `set_subset(b, a)`
example : compile (litEnv exReq exEtys) (.binaryApp .containsAll (exSet [1, 2]) (exSet [2, 2])) = .ok (.some tTrue) := by
  decide +kernel
example : compile (litEnv exReq exEtys) (.binaryApp .containsAll (exSet [2, 2]) (exSet [1, 2])) = .ok (.some tFalse) := by
  decide +kernel
example : compile (litEnv exReq exEtys) (.binaryApp .containsAny (exSet [1, 2]) (exSet [3, 2])) = .ok (.some tTrue) := by
  decide +kernel
example : compile (litEnv exReq exEtys) (.binaryApp .containsAny (exSet [1, 2]) (exSet [3, 4])) = .ok (.some tFalse) := by
  decide +kernel
example : compile (litEnv exReq exEtys) (.unaryApp .isEmpty (exSet [1])) = .ok (.some tFalse) := by decide +kernel
-- rejected: the empty set literal (`UnsupportedFeature`), mixed element types, `contains` with another element type
example : compile (litEnv exReq exEtys) (.set []) = .error .unsupported := by decide +kernel
example : compile (litEnv exReq exEtys) (.set [.lit (.int 1), .lit (.string "x")]) = .error .typeError := by decide +kernel
example : compile (litEnv exReq exEtys) (.binaryApp .contains (exSet [1]) (.lit (.string "x"))) = .error .typeError := by
  decide +kernel
example : compile (litEnv exReq exEtys) (.unaryApp .isEmpty (.lit (.int 1))) = .error .typeError := by decide +kernel

end FragmentExamples

end Cedar.C18
