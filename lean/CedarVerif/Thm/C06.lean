import CedarVerif.Lemmas.EstPolicy
import CedarVerif.Lemmas.EstTrees
/-
C06 — structured formats (JSON/EST, PST, protobuf) are lossless.

Model: `Cedar.Est` (CedarVerif/Cedar/Est/{Json,Est,Policy}.lean) mirrors est/expr.rs, est.rs,
est/scope_constraints.rs, est/annotation.rs and entities/json/value.rs.  The theorems below are about that
model; `./check C06` ties it to the code (`(est to)`, `(est of)`, `(estpol to)` lines) and checks the
property itself on the implementation (JSON, PST, protobuf, policy sets with links, responses, printed text).

Not modelled (sampled only): serde / serde_json (JSON text <-> JSON value), prost's byte encoding, the Cedar
text printer and parser (the "text it prints as" half of the last sentence is checked on the implementation).
-/
namespace Cedar.C06
open Cedar Cedar.Est

/-- JSON round trip of expressions: for every expression satisfying the invariants of parsed Rust ASTs
(`WF`: i64 literals, valid type names, no `Unknown`, known extension functions, folded `&&`/`||` of literals,
key-sorted records) reading back the JSON that is written for it yields the expression itself. -/
theorem est_roundtrip (e : Expr) (h : WF e) : toExpr (ofExpr e) = .ok e :=
  toExpr_ofExpr e h

/-- the same for argument lists -/
theorem est_roundtrip_list (es : List Expr) (h : WFs es) : toExprs (ofExprs es) = .ok es :=
  toExprs_ofExprs es h

/-- JSON round trip of policies and templates (effect, scope constraints with slots and `is`, the condition,
annotations) and of template-link records (template id, link id, slot bindings). -/
theorem est_policy_roundtrip :
    (∀ t : Template, WFT t → toTemplate (ofTemplate t) = .ok t)
    ∧ (∀ l : Linked, WFLink l → toLinked (linkJson l) = .ok l) :=
  ⟨toTemplate_ofTemplate, toLinked_linkJson⟩

/-- a linked policy and the policy rebuilt from the round-tripped template and link record are the same
object, hence produce the same outcome on every request -/
theorem est_link_roundtrip (t : Template) (l : Linked) (ht : WFT t) (hl : WFLink l)
    (req : Request) (es : Entities) :
    (do let t' ← toTemplate (ofTemplate t); let l' ← toLinked (linkJson l)
        pure ((t'.toPolicy l'.id l'.env).outcome req es) : R Outcome)
      = .ok ((t.toPolicy l.id l.env).outcome req es) := by
  simp [toTemplate_ofTemplate t ht, toLinked_linkJson l hl, bind, Except.bind, pure, Except.pure]

/-- An accepted JSON policy evaluates as the policy it denotes (by construction: `from_json` is `toTemplate`
followed by ordinary evaluation; sugar such as `!=`, `>`, `>=`, `has a.b`, `is T in e` is lowered by the reader,
so there is no second evaluator), and the JSON a well-formed policy is written as evaluates like that policy. -/
theorem est_eval (id : String) (env : SlotEnv) (req : Request) (es : Entities) :
    (∀ j t, toTemplate j = .ok t →
        jsonPolicyOutcome j id env req es = .ok ((t.toPolicy id env).outcome req es))
    ∧ (∀ t, WFT t →
        jsonPolicyOutcome (ofTemplate t) id env req es = .ok ((t.toPolicy id env).outcome req es)) := by
  constructor
  · intro j t h; simp [jsonPolicyOutcome, h, Except.map]
  · intro t h; simp [jsonPolicyOutcome, toTemplate_ofTemplate t h, Except.map]

/-- Full statement of the last sentence of C06, kept visible: it additionally involves the Cedar text printer
and parser, which this model does not contain (`print`/`parse` are parameters here). What is proved is
`est_eval`; the printed-text half is checked on the implementation by the harness (checks (f)). -/
def FullStatementEvalAsPrintedText (print : Template → String) (parse : String → Option Template) : Prop :=
  ∀ j t, toTemplate j = .ok t → ∃ t', parse (print t) = some t' ∧
    ∀ id env req es, (t'.toPolicy id env).outcome req es = (t.toPolicy id env).outcome req es

/-- PST round trip on the tree model, expression level: whenever `to_pst` succeeds on a well-formed expression,
`from_pst` of the result is the expression itself. (`to_pst` fails exactly when the tree contains a call that is
not a unary/binary extension operator — unknown name or wrong arity: `Pst.ofAst`.)
`_partial`: expressions only; PST policies, templates, `Clause` lists and `TemplateLink`s are not modelled. -/
theorem pst_roundtrip_partial (e : Expr) (p : Pst.PExpr) (h : WF e) (hp : Pst.ofAst e = .ok p) :
    Pst.toAst p = e := by
  simp only [Pst.ofAst] at hp
  by_cases hb : (Pst.ofAstT e).hasBad = true
  · simp [hb] at hp
  · simp [hb] at hp
    subst hp
    exact Pst.toAst_ofAstT e h

/-- protobuf round trip on the message-tree model, expression level: a well-formed expression is encodable
(the `Unknown` panic site is not reached) and decoding its message tree yields the expression itself.
`_partial`: expressions only (policies, templates, policy sets with links are sampled, not modelled); prost's
byte encoding is not modelled. -/
theorem proto_roundtrip_partial (e : Expr) (h : WF e) :
    ∃ m, Proto.ofAst e = some m ∧ Proto.toAst m = .ok e := by
  refine ⟨Proto.ofAstT e, ?_, Proto.toAst_ofAstT e h⟩
  simp [Proto.ofAst, Proto.noPanic e h]

/-- Full statements kept visible: the PST / protobuf round trips of whole policies, templates and policy sets
with links, over models `M` of those formats that this development does not contain. -/
def FullStatementTreeRoundtrip (Tree : Type) (ofT : Template → Option Tree) (toT : Tree → R Template) : Prop :=
  ∀ t, WFT t → ∀ m, ofT t = some m → toT m = .ok t

/-! ### non-vacuity -/

/-- `principal is User in Group::"a" && !(context.n >= 3) || ip("10.0.0.1").isInRange(ip("10.0.0.0/8"))` with a record -/
def e0 : Expr :=
  .or (.and (.and (.is (.var .principal) "User") (.binaryApp .mem (.var .principal) (.lit (.entityUID ⟨"NS::Group", "a"⟩))))
            (.unaryApp .not (.unaryApp .not (.binaryApp .less (.getAttr (.var .context) "n") (.lit (.int 3))))))
      (.ite (.like (.lit (.string "abc")) [.char 'a', .star])
            (.call "isInRange" [.call "ip" [.lit (.string "10.0.0.1")], .call "ip" [.lit (.string "10.0.0.0/8")]])
            (.hasAttr (.record [("a b", .set [.lit (.bool true)]), ("c", .slot .principal)]) "c"))

set_option linter.defProp false in
def e0_wf : WF e0 := by
  simp [e0, WF, WFs, WFKVs, isBoolLit, SortedKeys, inI64, i64Min, i64Max]
  decide

example : toExpr (ofExpr e0) = .ok e0 := est_roundtrip e0 e0_wf
example : ∃ p, Pst.ofAst e0 = .ok p ∧ Pst.toAst p = e0 :=
  ⟨Pst.ofAstT e0, by rfl, pst_roundtrip_partial e0 _ e0_wf (by rfl)⟩
example : ∃ m, Proto.ofAst e0 = some m ∧ Proto.toAst m = .ok e0 := proto_roundtrip_partial e0 e0_wf
/-- a parsed policy condition without PST: `ip("1.1.1.1").isIpv4(1, 2)` (wrong arity) — finding C06-pst-arity -/
example : Pst.ofAst (.call "isIpv4" [.call "ip" [.lit (.string "1.1.1.1")], .lit (.int 1), .lit (.int 2)]) = .error .badCall := by rfl
/-- `Unknown` cannot be encoded (panic site) and does not survive JSON as an `Unknown` node -/
example : Proto.ofAst (.unknown "x" none) = none := by rfl
example : toExpr (ofExpr (.unknown "x" none)) = .ok (.call "unknown" [.lit (.string "x")]) := by rfl

/-- the sugar the reader lowers: `{"!=":…}`, `{">":…}`, `{"has":{…,"attr":["a","b"]}}`, `{"is":{…,"in":…}}` -/
example : toExpr (.obj [("!=", .obj [("left", .obj [("Value", .num 1)]), ("right", .obj [("Var", .str "context")])])])
    = .ok (.unaryApp .not (.binaryApp .eq (.lit (.int 1)) (.var .context))) := by rfl
example : toExpr (.obj [("has", .obj [("left", .obj [("Var", .str "context")]), ("attr", .arr [.str "a", .str "b"])])])
    = .ok (.and (.hasAttr (.var .context) "a") (.hasAttr (.getAttr (.var .context) "a") "b")) := by rfl
example : toExpr (.obj [("&&", .obj [("left", .obj [("Value", .bool true)]), ("right", .obj [("Value", .bool false)])])])
    = .ok (.lit (.bool false)) := by rfl
/-- rejected shapes: two members, unknown operator, unknown member -/
example : toExpr (.obj [("!", .obj [("arg", .obj [("Value", .bool true)])]), ("neg", .obj [])]) = .error .shape := by rfl
example : toExpr (.obj [("nosuchop", .arr [])]) = .error .shape := by rfl
example : toExpr (.obj [("==", .obj [("left", .obj [("Value", .num 1)]), ("right", .obj [("Value", .num 1)]), ("x", .null)])])
    = .error .shape := by rfl

/-- `@id("x") permit(principal == ?principal, action in [Action::"a", NS::Action::"b"], resource is Doc in ?resource) when { e0' }` -/
def t0 : Template :=
  { effect := .permit
    principal := .eq .slot
    action := .mem [⟨"Action", "a"⟩, ⟨"NS::Action", "b"⟩]
    resource := .isIn "Doc" .slot
    annotations := [("id", "x"), ("reason", "")]
    cond := some (.binaryApp .less (.getAttr (.var .context) "n") (.lit (.int 3))) }

set_option linter.defProp false in
def t0_wf : WFT t0 where
  principal := trivial
  action := by
    intro u hu
    simp at hu
    rcases hu with rfl | rfl <;> exact ⟨by decide, by decide⟩
  resource := ⟨by decide, trivial⟩
  annKeys := by
    intro kv hkv
    simp [t0] at hkv
    rcases hkv with rfl | rfl <;> decide
  annSorted := by simp [t0, SortedKeys]
  cond := by
    intro e he
    simp [t0] at he
    subst he
    exact ⟨by simp [WF, inI64, i64Min, i64Max], by simp [exprHasSlot]⟩

example : toTemplate (ofTemplate t0) = .ok t0 := est_policy_roundtrip.1 t0 t0_wf

def l0 : Linked := { id := "link1", templateId := "t0", env := [(.principal, ⟨"User", "alice"⟩), (.resource, ⟨"Doc", "d"⟩)] }

example : toLinked (linkJson l0) = .ok l0 :=
  est_policy_roundtrip.2 l0 ⟨by intro b hb; simp [l0] at hb; rcases hb with rfl | rfl <;> decide, by decide⟩

end Cedar.C06
