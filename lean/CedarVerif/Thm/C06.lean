import CedarVerif.Lemmas.EstPolicy
import CedarVerif.Lemmas.EstTrees
import CedarVerif.Lemmas.EstTreesPolicy
/-
C06 — structured formats (JSON/EST, PST, protobuf) are lossless.

Model: `Cedar.Est` (CedarVerif/Cedar/Est/{Json,Est,Policy}.lean) mirrors est/expr.rs, est.rs,
est/scope_constraints.rs, est/annotation.rs and entities/json/value.rs.  The theorems below are about that
model; `./check C06` ties it to the code (`(est to)`, `(est of)`, `(estpol to)` lines) and checks the
property itself on the implementation (JSON, PST, protobuf, policy sets with links, responses, printed text).
PST / protobuf: message-tree models, expression level in Cedar/Est/Trees.lean, policy level (templates, scope
constraints with slots, clauses, annotations, static / linked policies, link records, protobuf policy sets) in
Lemmas/EstTreesPolicyDefs.lean (hand mirrors of pst/{policy,constraints,ast_conversions}.rs and proto/policy.rs;
no compiled correspondence stream reads them, their round trips are sampled on the implementation).

What is proved (all `theorem`s, no `_partial` left at policy level):
  JSON      est_roundtrip, est_roundtrip_list, est_policy_roundtrip, est_link_roundtrip, est_eval
  PST       pst_roundtrip_partial (expressions), pst_template_roundtrip (= `FullStatementTreeRoundtrip` for PST:
            effect, scope constraints with slots, clauses, annotations), pst_template_encodable (when `to_pst`
            succeeds), pst_clauses_in_order (several when/unless clauses: JSON and PST agree, in order),
            pst_policy_roundtrip (static / linked `pst::Policy`), pst_link_roundtrip (`TemplateLink`)
  protobuf  proto_roundtrip_partial (expressions), proto_template_roundtrip (= `FullStatementTreeRoundtrip` for
            protobuf, plus encodability), proto_link_roundtrip (`models::Policy`), proto_link_roundtrip_anyorder /
            proto_link_lookup (the same without the list-order hypothesis, up to the order of the slot-value list),
            proto_policyset_roundtrip (templates + links)
Hypotheses that are needed and why (each with a checked counterexample below): a condition with a wrong-arity /
unknown extension call has no PST (finding C06-pst-arity); a static `ast::Policy` carries no link id / slot values
(Rust invariant); the association list standing for the slot-value `HashMap` lists `?principal` first.

Not modelled (sampled only): serde / serde_json (JSON text <-> JSON value), prost's byte encoding, the Cedar
text printer and parser (the "text it prints as" half of the last sentence is checked on the implementation),
the api-level `pst::PolicySet` (three maps keyed by id around the objects modelled here), `pst` <-> `est`
conversions (pst/est_conversions.rs).
-/
namespace Cedar.C06
open Cedar Cedar.Est

/-- JSON round trip of expressions: for every expression satisfying the invariants of parsed Rust ASTs
(`WF`: i64 literals, valid type names, no `Unknown`, known extension functions, folded `&&`/`||` of literals,
key-sorted records) reading back the JSON that is written for it yields the expression itself. -/
theorem est_roundtrip (e : Expr) (h : WF e) : toExpr (ofExpr e) = .ok e :=
  toExpr_ofExpr e h

/-- the same for argument lists -/
theorem est_roundtrip_list (es : List Expr) (h : WFs es) : toExprs (ofExprs es) = .ok es :=
  toExprs_ofExprs es h

/-- JSON round trip of policies and templates (effect, scope constraints with slots and `is`, the condition,
annotations) and of template-link records (template id, link id, slot bindings). -/
theorem est_policy_roundtrip :
    (∀ t : Template, WFT t → toTemplate (ofTemplate t) = .ok t)
    ∧ (∀ l : Linked, WFLink l → toLinked (linkJson l) = .ok l) :=
  ⟨toTemplate_ofTemplate, toLinked_linkJson⟩

/-- a linked policy and the policy rebuilt from the round-tripped template and link record are the same
object, hence produce the same outcome on every request -/
theorem est_link_roundtrip (t : Template) (l : Linked) (ht : WFT t) (hl : WFLink l)
    (req : Request) (es : Entities) :
    (do let t' ← toTemplate (ofTemplate t); let l' ← toLinked (linkJson l)
        pure ((t'.toPolicy l'.id l'.env).outcome req es) : R Outcome)
      = .ok ((t.toPolicy l.id l.env).outcome req es) := by
  simp [toTemplate_ofTemplate t ht, toLinked_linkJson l hl, bind, Except.bind, pure, Except.pure]

/-- An accepted JSON policy evaluates as the policy it denotes (by construction: `from_json` is `toTemplate`
followed by ordinary evaluation; sugar such as `!=`, `>`, `>=`, `has a.b`, `is T in e` is lowered by the reader,
so there is no second evaluator), and the JSON a well-formed policy is written as evaluates like that policy. -/
theorem est_eval (id : String) (env : SlotEnv) (req : Request) (es : Entities) :
    (∀ j t, toTemplate j = .ok t →
        jsonPolicyOutcome j id env req es = .ok ((t.toPolicy id env).outcome req es))
    ∧ (∀ t, WFT t →
        jsonPolicyOutcome (ofTemplate t) id env req es = .ok ((t.toPolicy id env).outcome req es)) := by
  constructor
  · intro j t h; simp [jsonPolicyOutcome, h, Except.map]
  · intro t h; simp [jsonPolicyOutcome, toTemplate_ofTemplate t h, Except.map]

/-- Full statement of the last sentence of C06, kept visible: it additionally involves the Cedar text printer
and parser, which this model does not contain (`print`/`parse` are parameters here). What is proved is
`est_eval`; the printed-text half is checked on the implementation by the harness (checks (f)). -/
def FullStatementEvalAsPrintedText (print : Template → String) (parse : String → Option Template) : Prop :=
  ∀ j t, toTemplate j = .ok t → ∃ t', parse (print t) = some t' ∧
    ∀ id env req es, (t'.toPolicy id env).outcome req es = (t.toPolicy id env).outcome req es

/-- PST round trip on the tree model, expression level: whenever `to_pst` succeeds on a well-formed expression,
`from_pst` of the result is the expression itself. (`to_pst` fails exactly when the tree contains a call that is
not a unary/binary extension operator — unknown name or wrong arity: `Pst.ofAst`.)
`_partial`: expressions only; PST templates, `Clause` lists, policies and `TemplateLink`s: `pst_template_roundtrip`,
`pst_clauses_in_order`, `pst_policy_roundtrip`, `pst_link_roundtrip` below. -/
theorem pst_roundtrip_partial (e : Expr) (p : Pst.PExpr) (h : WF e) (hp : Pst.ofAst e = .ok p) :
    Pst.toAst p = e := by
  simp only [Pst.ofAst] at hp
  by_cases hb : (Pst.ofAstT e).hasBad = true
  · simp [hb] at hp
  · simp [hb] at hp
    subst hp
    exact Pst.toAst_ofAstT e h

/-- protobuf round trip on the message-tree model, expression level: a well-formed expression is encodable
(the `Unknown` panic site is not reached) and decoding its message tree yields the expression itself.
`_partial`: expressions only (templates, link messages, policy sets: `proto_template_roundtrip`,
`proto_link_roundtrip`, `proto_policyset_roundtrip` below); prost's byte encoding is not modelled. -/
theorem proto_roundtrip_partial (e : Expr) (h : WF e) :
    ∃ m, Proto.ofAst e = some m ∧ Proto.toAst m = .ok e := by
  refine ⟨Proto.ofAstT e, ?_, Proto.toAst_ofAstT e h⟩
  simp [Proto.ofAst, Proto.noPanic e h]

/-- Full statement of the policy-level tree round trips, kept visible: over a tree format `Tree` with encoder
`ofT` (`none` = no tree: conversion error or encoder panic) and decoder `toT`, every tree written for a well-formed
template reads back as that template.  Proved for both formats: `pst_template_roundtrip`,
`proto_template_roundtrip`. -/
def FullStatementTreeRoundtrip (Tree : Type) (ofT : Template → Option Tree) (toT : Tree → R Template) : Prop :=
  ∀ t, WFT t → ∀ m, ofT t = some m → toT m = .ok t

/-! ### PST, policy level -/

/-- PST round trip of policies and templates (`TryFrom<ast::Template> for pst::Template` and back): effect,
principal / action / resource constraints with their slots, the condition as a `when` clause, annotations. -/
theorem pst_template_roundtrip :
    FullStatementTreeRoundtrip Pst.PTemplate (fun t => (Pst.ofTemplate t).toOption) Pst.toTemplate := by
  intro t h m hm
  cases hr : Pst.ofTemplate t with
  | error e => simp [hr, Except.toOption] at hm
  | ok m' =>
    simp [hr, Except.toOption] at hm
    subst hm
    exact Pst.toTemplate_ofTemplate t h m' hr

/-- `to_pst` succeeds on a well-formed template exactly when its condition has a PST (every extension call is a
unary / binary extension operator with the right number of arguments); slots / `Unknown` never block it. -/
theorem pst_template_encodable (t : Template) (h : WFT t) :
    (∃ m, Pst.ofTemplate t = .ok m) ↔ (∀ e, t.cond = some e → (Pst.ofAstT e).hasBad = false) :=
  Pst.ofTemplate_isOk t h

/-- Conditions in order: a list of `when` / `unless` clauses written as the JSON `conditions` array and as PST
`clauses` reads back, in both formats, as the same list of expressions in the same order (`unless e` as `!e`),
hence (`foldConds`) as the same condition `c1 && (c2 && (…))`. -/
theorem pst_clauses_in_order (cs : List Pst.SrcClause) (h : ∀ c ∈ cs, WF c.2 ∧ exprHasSlot c.2 = false) :
    readClauses (cs.map Pst.SrcClause.json) = .ok (cs.map Pst.SrcClause.denote)
    ∧ (cs.map Pst.SrcClause.pst).map Pst.clauseExpr = cs.map Pst.SrcClause.denote
    ∧ ∀ m : Pst.PTemplate, m.clauses = cs.map Pst.SrcClause.pst → ∀ t, Pst.toTemplate m = .ok t →
        t.cond = foldConds (cs.map Pst.SrcClause.denote) := by
  refine ⟨Pst.readClauses_srcJson cs h, Pst.clauseExpr_srcPst cs (fun c hc => (h c hc).1), ?_⟩
  intro m hm t ht
  have hcl := Pst.clauseExpr_srcPst cs (fun c hc => (h c hc).1)
  simp only [Pst.toTemplate, bind, Except.bind, hm, hcl] at ht
  cases ha : Pst.toAnnotations m.annotations with
  | error e => simp [ha] at ht
  | ok a =>
    cases hp : Pst.toScope .principal m.principal with
    | error e => simp [ha, hp] at ht
    | ok p =>
      cases hac : Pst.toAction m.action with
      | error e => simp [ha, hp, hac] at ht
      | ok ac =>
        cases hre : Pst.toScope .resource m.resource with
        | error e => simp [ha, hp, hac, hre] at ht
        | ok r =>
          simp [ha, hp, hac, hre] at ht
          rw [← ht]

/-- PST round trip of `ast::Policy` ↔ `pst::Policy` (static policy, or template body + slot values + link id).
`StaticInv` is the Rust invariant that a static policy has neither a link id nor slot values. -/
theorem pst_policy_roundtrip (p : Pst.AstPolicy) (h : WFT p.template) (hi : Pst.StaticInv p) (q : Pst.PPolicy)
    (hq : Pst.ofPolicy p = .ok q) : Pst.toPolicy q = .ok p :=
  Pst.toPolicy_ofPolicy p h hi q hq

/-- PST link records (`pst::TemplateLink`: template id, new id, slot values) -/
theorem pst_link_roundtrip (l : Linked) : Pst.toLink (Pst.ofLink l) = l := rfl

/-! ### protobuf, policy level -/

/-- protobuf round trip of templates / static policy bodies (`models::TemplateBody`): a well-formed template is
encodable (no `Unknown` panic) and its message decodes to the template itself: effect, constraints with slots,
annotations, condition. -/
theorem proto_template_roundtrip :
    FullStatementTreeRoundtrip Proto.TemplateBodyMsg Proto.ofTemplate Proto.toTemplate
    ∧ ∀ t, WFT t → ∃ m, Proto.ofTemplate t = some m := by
  constructor
  · intro t h m hm
    obtain ⟨m', hm', hrt⟩ := Proto.toTemplate_ofTemplate t h
    rw [hm'] at hm
    cases hm
    exact hrt
  · intro t h
    obtain ⟨m, hm, _⟩ := Proto.toTemplate_ofTemplate t h
    exact ⟨m, hm⟩

/-- protobuf link records (`models::Policy`: template id, link id, `is_template_link`, the two slot values), decoded
by `reify_template_link` / `reify_static_policy` against the templates `ts` and the ids `seen` so far. -/
theorem proto_link_roundtrip (ts : List (String × Template)) (seen : List String) (p : Proto.PolicyRef)
    (h : Proto.WFPolicyRef ts seen p) : Proto.toPolicy ts seen (Proto.ofPolicy p) = .ok p :=
  Proto.toPolicy_ofPolicy ts seen p h

/-- … and without the list-order hypothesis (`WFPolicyRef.canon`): the slot values of the message are those of the
policy in the order `?principal`, `?resource`, and bind every slot to the same entity. -/
theorem proto_link_lookup (p : Proto.PolicyRef) (h : ∀ b ∈ p.env, validName b.2.ty = true) :
    Proto.slotValues (Proto.ofPolicy p) = .ok (Proto.canonEnv p.env)
    ∧ ∀ s, Proto.envGet (Proto.canonEnv p.env) s = Proto.envGet p.env s :=
  ⟨Proto.slotValues_ofPolicy p h, Proto.envGet_canonEnv p.env⟩

/-- the link round trip with no hypothesis on the order of the slot-value list: the decoded policy is the original
one with its slot values listed `?principal` first (the same `HashMap`: `proto_link_lookup`). -/
theorem proto_link_roundtrip_anyorder (ts : List (String × Template)) (seen : List String) (p : Proto.PolicyRef)
    (hn : ∀ b ∈ p.env, validName b.2.ty = true)
    (hb : ∃ t, Proto.tlookup ts p.templateId = some t ∧ checkBinding t p.env = true)
    (hs : p.link = none → p.env = [])
    (hf : seen.contains p.id = false)
    (hl : ∀ id, p.link = some id → Proto.tlookup ts id = none) :
    Proto.toPolicy ts seen (Proto.ofPolicy p) = .ok { p with env := Proto.canonEnv p.env } :=
  Proto.toPolicy_ofPolicy_canon ts seen p hn hb hs hf hl

/-- protobuf policy sets (`models::PolicySet`: templates + one `Policy` message per static or linked policy):
a well-formed set is encodable and decodes to itself, templates and links in order. -/
theorem proto_policyset_roundtrip (s : Proto.AstSet) (h : Proto.WFSet s) :
    ∃ m, Proto.ofSet s = some m ∧ Proto.toSet m = .ok s :=
  Proto.toSet_ofSet s h

/-! ### non-vacuity -/

/-- `principal is User in Group::"a" && !(context.n >= 3) || ip("10.0.0.1").isInRange(ip("10.0.0.0/8"))` with a record -/
def e0 : Expr :=
  .or (.and (.and (.is (.var .principal) "User") (.binaryApp .mem (.var .principal) (.lit (.entityUID ⟨"NS::Group", "a"⟩))))
            (.unaryApp .not (.unaryApp .not (.binaryApp .less (.getAttr (.var .context) "n") (.lit (.int 3))))))
      (.ite (.like (.lit (.string "abc")) [.char 'a', .star])
            (.call "isInRange" [.call "ip" [.lit (.string "10.0.0.1")], .call "ip" [.lit (.string "10.0.0.0/8")]])
            (.hasAttr (.record [("a b", .set [.lit (.bool true)]), ("c", .slot .principal)]) "c"))

set_option linter.defProp false in
def e0_wf : WF e0 := by
  simp [e0, WF, WFs, WFKVs, isBoolLit, SortedKeys, inI64, i64Min, i64Max]
  decide

example : toExpr (ofExpr e0) = .ok e0 := est_roundtrip e0 e0_wf
example : ∃ p, Pst.ofAst e0 = .ok p ∧ Pst.toAst p = e0 :=
  ⟨Pst.ofAstT e0, by rfl, pst_roundtrip_partial e0 _ e0_wf (by rfl)⟩
example : ∃ m, Proto.ofAst e0 = some m ∧ Proto.toAst m = .ok e0 := proto_roundtrip_partial e0 e0_wf
/-- a parsed policy condition without PST: `ip("1.1.1.1").isIpv4(1, 2)` (wrong arity) — finding C06-pst-arity -/
example : Pst.ofAst (.call "isIpv4" [.call "ip" [.lit (.string "1.1.1.1")], .lit (.int 1), .lit (.int 2)]) = .error .badCall := by rfl
/-- `Unknown` cannot be encoded (panic site) and does not survive JSON as an `Unknown` node -/
example : Proto.ofAst (.unknown "x" none) = none := by rfl
example : toExpr (ofExpr (.unknown "x" none)) = .ok (.call "unknown" [.lit (.string "x")]) := by rfl

/-- the sugar the reader lowers: `{"!=":…}`, `{">":…}`, `{"has":{…,"attr":["a","b"]}}`, `{"is":{…,"in":…}}` -/
example : toExpr (.obj [("!=", .obj [("left", .obj [("Value", .num 1)]), ("right", .obj [("Var", .str "context")])])])
    = .ok (.unaryApp .not (.binaryApp .eq (.lit (.int 1)) (.var .context))) := by rfl
example : toExpr (.obj [("has", .obj [("left", .obj [("Var", .str "context")]), ("attr", .arr [.str "a", .str "b"])])])
    = .ok (.and (.hasAttr (.var .context) "a") (.hasAttr (.getAttr (.var .context) "a") "b")) := by rfl
example : toExpr (.obj [("&&", .obj [("left", .obj [("Value", .bool true)]), ("right", .obj [("Value", .bool false)])])])
    = .ok (.lit (.bool false)) := by rfl
/-- rejected shapes: two members, unknown operator, unknown member -/
example : toExpr (.obj [("!", .obj [("arg", .obj [("Value", .bool true)])]), ("neg", .obj [])]) = .error .shape := by rfl
example : toExpr (.obj [("nosuchop", .arr [])]) = .error .shape := by rfl
example : toExpr (.obj [("==", .obj [("left", .obj [("Value", .num 1)]), ("right", .obj [("Value", .num 1)]), ("x", .null)])])
    = .error .shape := by rfl

/-- `@id("x") permit(principal == ?principal, action in [Action::"a", NS::Action::"b"], resource is Doc in ?resource) when { e0' }` -/
def t0 : Template :=
  { effect := .permit
    principal := .eq .slot
    action := .mem [⟨"Action", "a"⟩, ⟨"NS::Action", "b"⟩]
    resource := .isIn "Doc" .slot
    annotations := [("id", "x"), ("reason", "")]
    cond := some (.binaryApp .less (.getAttr (.var .context) "n") (.lit (.int 3))) }

set_option linter.defProp false in
def t0_wf : WFT t0 where
  principal := trivial
  action := by
    intro u hu
    simp at hu
    rcases hu with rfl | rfl <;> exact ⟨by decide, by decide⟩
  resource := ⟨by decide, trivial⟩
  annKeys := by
    intro kv hkv
    simp [t0] at hkv
    rcases hkv with rfl | rfl <;> decide
  annSorted := by simp [t0, SortedKeys]
  cond := by
    intro e he
    simp [t0] at he
    subst he
    exact ⟨by simp [WF, inI64, i64Min, i64Max], by simp [exprHasSlot]⟩

example : toTemplate (ofTemplate t0) = .ok t0 := est_policy_roundtrip.1 t0 t0_wf

def l0 : Linked := { id := "link1", templateId := "t0", env := [(.principal, ⟨"User", "alice"⟩), (.resource, ⟨"Doc", "d"⟩)] }

example : toLinked (linkJson l0) = .ok l0 :=
  est_policy_roundtrip.2 l0 ⟨by intro b hb; simp [l0] at hb; rcases hb with rfl | rfl <;> decide, by decide⟩

/-! ### policy-level trees: non-vacuity and the counterexamples behind the hypotheses -/

/-- `e0` with `resource` in place of the slot (a policy condition may not contain slots) -/
def e1 : Expr :=
  .or (.and (.and (.is (.var .principal) "User") (.binaryApp .mem (.var .principal) (.lit (.entityUID ⟨"NS::Group", "a"⟩))))
            (.unaryApp .not (.unaryApp .not (.binaryApp .less (.getAttr (.var .context) "n") (.lit (.int 3))))))
      (.ite (.like (.lit (.string "abc")) [.char 'a', .star])
            (.call "isInRange" [.call "ip" [.lit (.string "10.0.0.1")], .call "ip" [.lit (.string "10.0.0.0/8")]])
            (.hasAttr (.record [("a b", .set [.lit (.bool true)]), ("c", .var .resource)]) "c"))

set_option linter.defProp false in
def e1_wf : WF e1 := by
  simp [e1, WF, WFs, WFKVs, isBoolLit, SortedKeys, inI64, i64Min, i64Max]
  decide

/-- `t0` with the condition `e1`: both slots, an action list, `is … in`, two annotations (one without value) -/
def t1 : Template := { t0 with cond := some e1 }

set_option linter.defProp false in
def t1_wf : WFT t1 where
  principal := t0_wf.principal
  action := t0_wf.action
  resource := t0_wf.resource
  annKeys := t0_wf.annKeys
  annSorted := t0_wf.annSorted
  cond := by
    intro e he
    simp [t1] at he
    subst he
    exact ⟨e1_wf, by rfl⟩

example : ∃ m, Pst.ofTemplate t1 = .ok m ∧ Pst.toTemplate m = .ok t1 := by
  obtain ⟨m, hm⟩ := (pst_template_encodable t1 t1_wf).2 (by intro e he; simp [t1] at he; subst he; rfl)
  exact ⟨m, hm, pst_template_roundtrip t1 t1_wf m (by simp [hm, Except.toOption])⟩

example : ∃ m, Proto.ofTemplate t1 = some m ∧ Proto.toTemplate m = .ok t1 := by
  obtain ⟨m, hm⟩ := proto_template_roundtrip.2 t1 t1_wf
  exact ⟨m, hm, proto_template_roundtrip.1 t1 t1_wf m hm⟩

/-- `@id("x") permit(…) when { c.a } unless { c.b } when { 1 < c.n }`: three clauses, in order, in both formats -/
example :
    let cs : List Pst.SrcClause :=
      [(true, .getAttr (.var .context) "a"), (false, .getAttr (.var .context) "b"),
       (true, .binaryApp .less (.lit (.int 1)) (.getAttr (.var .context) "n"))]
    (readClauses (cs.map Pst.SrcClause.json)).map foldConds
      = .ok (some (.and (.getAttr (.var .context) "a")
              (.and (.unaryApp .not (.getAttr (.var .context) "b"))
                    (.binaryApp .less (.lit (.int 1)) (.getAttr (.var .context) "n")))))
    ∧ foldConds ((cs.map Pst.SrcClause.pst).map Pst.clauseExpr)
      = some (.and (.getAttr (.var .context) "a")
              (.and (.unaryApp .not (.getAttr (.var .context) "b"))
                    (.binaryApp .less (.lit (.int 1)) (.getAttr (.var .context) "n")))) := by
  intro cs
  have h := pst_clauses_in_order cs (by
    intro c hc
    simp [cs] at hc
    rcases hc with rfl | rfl | rfl <;> simp [WF, exprHasSlot, inI64, i64Min, i64Max])
  rw [h.1, h.2.1]
  exact ⟨rfl, rfl⟩

/-- counterexample (finding C06-pst-arity): a well-formed template whose condition `ip("1.1.1.1").isIpv4(1, 2)`
(accepted by the parser, an evaluation error) has no PST, so `to_pst` is not total on parsed policies -/
def tBad : Template :=
  { t0 with cond := some (.call "isIpv4" [.call "ip" [.lit (.string "1.1.1.1")], .lit (.int 1), .lit (.int 2)]) }

set_option linter.defProp false in
def tBad_wf : WFT tBad where
  principal := t0_wf.principal
  action := t0_wf.action
  resource := t0_wf.resource
  annKeys := t0_wf.annKeys
  annSorted := t0_wf.annSorted
  cond := by
    intro e he
    simp [tBad] at he
    subst he
    refine ⟨?_, by rfl⟩
    simp [WF, WFs, inI64, i64Min, i64Max]
    decide

example : Pst.ofTemplate tBad = .error .badCall := by rfl
example : ¬ (∀ t, WFT t → ∃ m, Pst.ofTemplate t = .ok m) := fun h => by
  obtain ⟨m, hm⟩ := h tBad tBad_wf
  rw [show Pst.ofTemplate tBad = .error .badCall from rfl] at hm
  cases hm

/-- a linked policy of `t1` and a static policy -/
def tS : Template :=
  { effect := .forbid, principal := .eq (.euid ⟨"User", "bob"⟩), action := .any, resource := .is "Doc",
    annotations := [], cond := some (.hasAttr (.var .resource) "secret") }

set_option linter.defProp false in
def tS_wf : WFT tS where
  principal := by show validName "User" = true; decide
  action := trivial
  resource := by show validName "Doc" = true; decide
  annKeys := by intro kv hkv; simp [tS] at hkv
  annSorted := trivial
  cond := by
    intro e he
    simp [tS] at he
    subst he
    exact ⟨by simp [WF], by rfl⟩

def pLinked : Pst.AstPolicy := { template := t1, link := some "link1", env := l0.env }
def pStatic : Pst.AstPolicy := { template := tS, link := none, env := [] }

example : ∃ q, Pst.ofPolicy pLinked = .ok q ∧ Pst.toPolicy q = .ok pLinked :=
  ⟨_, rfl, pst_policy_roundtrip pLinked t1_wf (by intro h; simp [pLinked, t1, t0, Template.slots, ScopeC.hasSlot] at h) _ rfl⟩
example : ∃ q, Pst.ofPolicy pStatic = .ok q ∧ Pst.toPolicy q = .ok pStatic :=
  ⟨_, rfl, pst_policy_roundtrip pStatic tS_wf (fun _ => ⟨rfl, rfl⟩) _ rfl⟩
/-- counterexample: without `StaticInv` (an `ast::Policy` value Rust never builds: a static policy with a link id)
the link id is lost -/
example : ∃ q p', Pst.ofPolicy { pStatic with link := some "x" } = .ok q ∧ Pst.toPolicy q = .ok p' ∧ p'.link = none :=
  ⟨_, _, rfl, rfl, rfl⟩

example : Pst.toLink (Pst.ofLink l0) = l0 := pst_link_roundtrip l0

/-- a protobuf policy set: the template `t1`, the static policy `tS`, one link of `t1` -/
def s0 : Proto.AstSet :=
  { templates := [("t1", t1), ("p1", tS)]
    links := [{ templateId := "p1", link := none, env := [] },
              { templateId := "t1", link := some "link1", env := l0.env }] }

set_option linter.defProp false in
def s0_link_wf : Proto.WFPolicyRef s0.templates ["p1"] { templateId := "t1", link := some "link1", env := l0.env } where
  names := by intro b hb; simp [l0] at hb; rcases hb with rfl | rfl <;> decide
  canon := by decide
  binding := ⟨t1, by simp [s0, Proto.tlookup], by decide⟩
  staticEnv := by intro h; cases h
  fresh := by decide
  linkId := by intro id h; cases h; simp [s0, Proto.tlookup]

set_option linter.defProp false in
def s0_wf : Proto.WFSet s0 where
  templates := by
    intro kt hkt
    simp [s0] at hkt
    rcases hkt with rfl | rfl
    · exact t1_wf
    · exact tS_wf
  distinct := by decide
  links := by
    refine ⟨?_, s0_link_wf, trivial⟩
    exact { names := by intro b hb; cases hb
            canon := by decide
            binding := ⟨tS, by simp [s0, Proto.tlookup], by decide⟩
            staticEnv := fun _ => rfl
            fresh := by decide
            linkId := by intro id h; cases h }

example : Proto.toPolicy s0.templates ["p1"] (Proto.ofPolicy { templateId := "t1", link := some "link1", env := l0.env })
    = .ok { templateId := "t1", link := some "link1", env := l0.env } :=
  proto_link_roundtrip _ _ _ s0_link_wf
example : ∃ m, Proto.ofSet s0 = some m ∧ Proto.toSet m = .ok s0 := proto_policyset_roundtrip s0 s0_wf

/-- counterexample behind `WFPolicyRef.canon`: the same slot values listed `?resource` first come back listed
`?principal` first — the same map (`proto_link_lookup`), a different association list -/
def envRev : SlotEnv := [(.resource, ⟨"Doc", "d"⟩), (.principal, ⟨"User", "alice"⟩)]
example : Proto.toPolicy s0.templates ["p1"] (Proto.ofPolicy { templateId := "t1", link := some "l", env := envRev })
      = .ok { templateId := "t1", link := some "l", env := [(.principal, ⟨"User", "alice"⟩), (.resource, ⟨"Doc", "d"⟩)] }
    ∧ Proto.canonEnv envRev ≠ envRev
    ∧ ∀ s, Proto.envGet (Proto.canonEnv envRev) s = Proto.envGet envRev s := by
  have hn : ∀ b ∈ envRev, validName b.2.ty = true := by
    intro b hb; simp [envRev] at hb; rcases hb with rfl | rfl <;> decide
  refine ⟨?_, by decide, (proto_link_lookup { templateId := "t1", link := some "l", env := envRev } hn).2⟩
  exact proto_link_roundtrip_anyorder s0.templates ["p1"] { templateId := "t1", link := some "l", env := envRev } hn
    ⟨t1, by simp [s0, Proto.tlookup], by decide⟩ (by intro h; cases h) (by decide)
    (by intro id h; cases h; simp [s0, Proto.tlookup])

end Cedar.C06
