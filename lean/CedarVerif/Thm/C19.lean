import CedarVerif.Lemmas.Ffi
import CedarVerif.Lemmas.FfiPolicies
import CedarVerif.Lemmas.FfiPoliciesIds
/-
C19 — JSON/FFI, stateful cache and CLI give exactly the API answers.

What is proved here (about the mirror in `Cedar/Ffi.lean`, for ARBITRARY parsers and an ARBITRARY common tail):
* `cache_refines_latest` — after any history of `preparse_policy_set` / `preparse_schema` /
  `stateful_is_authorized` calls on a fresh thread, a stateful call answers exactly what the stateless
  `is_authorized` answers when it is handed the documents most recently registered *successfully* under the
  names the call mentions (read-latest-acknowledged-write); a name never registered successfully gives `Failure`.
* `every_reply_refines_latest` — the same for every stateful call *inside* a history (its prefix counts).
* `failed_preparse_changes_nothing`, `reregistration_overwrites`, `stateful_calls_change_nothing`.
* `exit_code_table`, `authorize_exit_reflects_response` — the CLI's exit-code table is injective with the
  documented numbers, and `cedar authorize`'s status and printed line determine the response's decision.

* POLICY-SET ASSEMBLY (second part of this file; model `Cedar/FfiPolicies.lean` = mirror of `ffi::PolicySet::parse`,
  `StaticPolicySet::parse`, `Policy::parse`, `Template::parse_and_add_to_set`, `TemplateLink::parse_and_add_to_set` in
  cedar-policy/src/ffi/utils.rs, on top of the C08 model of `cedar_policy::PolicySet`):
  `assemble_eq_api_history` / `assemble_ok_iff` — the FFI's set is the set built by the explicit API history
  `add* ++ add_template* ++ link*` from the empty set, with the ids the FFI assigns (`policy{n}` by position for a
  concatenated text, the map key for the map form, the default id for every element of the list form, template-map keys,
  links' `newId`), it exists iff every document parses and every call of that history succeeds, and otherwise the error
  list is exactly: static-part errors (all document errors, or the first failing `add`), then per template and per link, in
  order, its document error or the error of its call — templates and links being processed from the EMPTY set after a
  failed static part; `assemble_inv` — C08's invariants (`ApiPolicySet.WF`, core `WF`, `Strict`) hold of the result;
  `assemble_ids` / `assemble_ids_collision` — policies = static ids ∪ link ids, templates = template ids, all distinct; a
  collision is always reported; `assemble_authorize` — authorizing with the assembled set = authorizing with the API-built set.
  The assembly model is TIED TO THE REAL CODE on every run of `./check C19` by the `ffipols` lines (harness stream `c19p`,
  harness/src/c19_pols.rs; driver op Driver/Ops/FfiPolicies.lean): generated FFI policy sets in every shape (text | list |
  map | absent, Cedar text and EST JSON, templates, links; wrong-kind / unparsable documents, colliding ids, dangling or
  static template ids, missing / extra / unparsable link values) go through serde and the real `ffi::PolicySet::parse`;
  its resulting `cedar_policy::PolicySet` listing, or the sorted classes of its error reports, are diffed against
  `assemble` run on the real parsers' verdicts on the same documents.

What remains trusted / NOT proved here: the text and EST-JSON parsers themselves (documents enter the model as the parser's
verdict; text parser = C05), including that they assign the id they are given and that `Template::parse` refuses slot-less
policies (`TemplatesHaveSlots`); serde's decoding of the JSON envelope (duplicate keys are refused there); the iteration
order of the two `HashMap`s (the theorems hold for every order); schema-directed context/entity parsing, request validation
on/off, validation error ids, formatting, conversions; and that the real `stateful_is_authorized` tail equals the real
`is_authorized` tail. Those are checked by the differential run only (harness/src/c19.rs: FFI vs Rust API on generated
inputs in every accepted input shape; cache histories vs this model; CLI runs vs API).

Spec used below (defined in Lemmas/Ffi.lean, history = oldest call first):
  `latestPolicies π h id` = the document of the LAST `preparsePolicySet id doc` in `h` whose `doc` parses
                            (`h.reverse.findSome? …`), `latestSchema` likewise;
  `specAnswer π h c`      = `.failure` if `c` names a schema / policy set with no such document, otherwise
                            `statelessAuth π { schema := latest schema doc (or none), policies := latest policies doc, rest := c.rest }`.
-/
namespace Cedar.C19
open Cedar.Ffi

section
variable {PDoc SDoc P S R A : Type} (π : Params PDoc SDoc P S R A)

/-! ### the property -/

/-- C19 (stateful part): after ANY sequence of pre-parse and stateful authorization calls, the stateful variant
answers as the stateless one does for the documents currently registered (= most recently registered
successfully) under the names the call mentions; unknown names give `Failure`. -/
theorem cache_refines_latest (h : List (Op PDoc SDoc R)) (c : SCall R) :
    statefulAuth π (run (A := A) π h) c = specAnswer π h c :=
  statefulAuth_of_refines π _ h (refines_run π h) c

theorem replies_append (st : Store P S) (h1 h2 : List (Op PDoc SDoc R)) :
    replies (A := A) π st (h1 ++ h2) = replies π st h1 ++ replies π (runFrom (A := A) π st h1) h2 := by
  induction h1 generalizing st with
  | nil => rfl
  | cons op ops ih => simp [replies, runFrom, ih]

theorem replies_length (st : Store P S) (h : List (Op PDoc SDoc R)) :
    (replies (A := A) π st h).length = h.length := by
  induction h generalizing st with
  | nil => rfl
  | cons op ops ih => simp [replies, ih]

/-- the same for every stateful call inside a history: its reply is the spec's answer for the prefix before it -/
theorem every_reply_refines_latest (h1 h2 : List (Op PDoc SDoc R)) (c : SCall R) :
    (replies (A := A) π {} (h1 ++ .statefulAuth c :: h2))[h1.length]? = some (.answer (specAnswer π h1 c)) := by
  rw [replies_append]
  rw [List.getElem?_append_right (by simp [replies_length])]
  simp only [replies_length, Nat.sub_self, replies, step, List.getElem?_cons_zero]
  have := cache_refines_latest (A := A) π h1 c
  simp only [run] at this
  rw [this]

/-- a failed preparse leaves every later answer unchanged -/
theorem failed_preparse_changes_nothing (h : List (Op PDoc SDoc R)) (c : SCall R) (id : String) (pd : PDoc) (sd : SDoc)
    (hp : π.parsePolicies pd = none) (hs : π.parseSchema sd = none) :
    statefulAuth π (run (A := A) π (h ++ [.preparsePolicySet id pd])) c = statefulAuth π (run (A := A) π h) c ∧
    statefulAuth π (run (A := A) π (h ++ [.preparseSchema id sd])) c = statefulAuth π (run (A := A) π h) c := by
  simp only [cache_refines_latest, specAnswer]
  constructor
  · have h1 : ∀ k, latestPolicies π (h ++ [.preparsePolicySet id pd]) k = latestPolicies π h k := by
      intro k; rw [latestPolicies_snoc]; simp [ackPolicies, hp]
    have h2 : ∀ n, latestOptSchema π (h ++ [.preparsePolicySet id pd]) n = latestOptSchema π h n := by
      intro n; cases n <;> simp [latestOptSchema, latestSchema_snoc, ackSchema]
    rw [h1, h2]
  · have h1 : ∀ k, latestPolicies π (h ++ [.preparseSchema id sd]) k = latestPolicies π h k := by
      intro k; rw [latestPolicies_snoc]; simp [ackPolicies]
    have h2 : ∀ n, latestOptSchema π (h ++ [.preparseSchema id sd]) n = latestOptSchema π h n := by
      intro n; cases n <;> simp [latestOptSchema, latestSchema_snoc, ackSchema, hs]
    rw [h1, h2]

/-- re-registration under the same name overwrites: whatever came before, the last successful document counts -/
theorem reregistration_overwrites (h : List (Op PDoc SDoc R)) (id : String) (pd : PDoc) (r : R)
    (hp : (π.parsePolicies pd).isSome) :
    statefulAuth π (run (A := A) π (h ++ [.preparsePolicySet id pd])) { schemaName := none, policySetId := id, rest := r }
      = statelessAuth π { schema := none, policies := pd, rest := r } := by
  rw [cache_refines_latest]
  simp [specAnswer, latestOptSchema, latestPolicies_snoc, ackPolicies, hp]

/-- stateful authorization calls are reads: they change no later answer -/
theorem stateful_calls_change_nothing (h : List (Op PDoc SDoc R)) (c c' : SCall R) :
    statefulAuth π (run (A := A) π (h ++ [.statefulAuth c'])) c = statefulAuth π (run (A := A) π h) c := by
  simp only [cache_refines_latest, specAnswer]
  have h1 : ∀ k, latestPolicies π (h ++ [.statefulAuth c']) k = latestPolicies π h k := by
    intro k; rw [latestPolicies_snoc]; simp [ackPolicies]
  have h2 : ∀ n, latestOptSchema π (h ++ [.statefulAuth c']) n = latestOptSchema π h n := by
    intro n; cases n <;> simp [latestOptSchema, latestSchema_snoc, ackSchema]
  rw [h1, h2]

end

/-! ### non-vacuity: a concrete instance (documents = (tag, parses?), the tail reports the tags it was given) -/

/-- the instance the driver op `(ffi …)` runs: a document is a tag plus the parser's verdict -/
def tagParams : Params (Nat × Bool) (Nat × Bool) Nat Nat Unit (Nat × Option Nat) where
  parsePolicies d := if d.2 then some d.1 else none
  parseSchema d := if d.2 then some d.1 else none
  core sch ps _ := .success (ps, sch)

/-- register policies 1 under "a", fail to register 2 under "a", register 3 under "b", re-register "a" with 4,
schema 7 under "s", a failing schema 8 under "s": a call naming ("a","s") sees (4, 7); "c" is unknown -/
def demoHistory : List (Op (Nat × Bool) (Nat × Bool) Unit) :=
  [.preparsePolicySet "a" (1, true), .preparsePolicySet "a" (2, false), .preparsePolicySet "b" (3, true),
   .statefulAuth ⟨none, "a", ()⟩, .preparsePolicySet "a" (4, true), .preparseSchema "s" (7, true),
   .preparseSchema "s" (8, false)]

example : statefulAuth tagParams (run (A := Nat × Option Nat) tagParams demoHistory) ⟨some "s", "a", ()⟩ = .success (4, some 7) := by decide
example : specAnswer tagParams demoHistory ⟨some "s", "a", ()⟩ = (.success (4, some 7) : Answer (Nat × Option Nat)) := by decide
example : statefulAuth tagParams (run (A := Nat × Option Nat) tagParams demoHistory) ⟨none, "b", ()⟩ = .success (3, none) := by decide
example : statefulAuth tagParams (run (A := Nat × Option Nat) tagParams demoHistory) ⟨none, "c", ()⟩ = .failure := by decide
example : statefulAuth tagParams (run (A := Nat × Option Nat) tagParams demoHistory) ⟨some "t", "a", ()⟩ = .failure := by decide
/-- the hypotheses of `failed_preparse_changes_nothing` / `reregistration_overwrites` are satisfiable -/
example : tagParams.parsePolicies (2, false) = none ∧ tagParams.parseSchema (8, false) = none ∧
    (tagParams.parsePolicies (4, true)).isSome := by decide
/-- the stateless call really distinguishes documents (the spec is not constantly `failure`) -/
example : statelessAuth tagParams ⟨some (7, true), (4, true), ()⟩ = (.success (4, some 7) : Answer (Nat × Option Nat)) ∧
    statelessAuth tagParams ⟨some (8, false), (4, true), ()⟩ = (.failure : Answer (Nat × Option Nat)) ∧
    statelessAuth tagParams ⟨none, (2, false), ()⟩ = (.failure : Answer (Nat × Option Nat)) := by decide

/-! ### the CLI -/

/-- `CedarExitCode` → process status: the documented numbers, pairwise distinct -/
theorem exit_code_table :
    CedarExitCode.success.report = 0 ∧ CedarExitCode.failure.report = 1 ∧ CedarExitCode.authorizeDeny.report = 2 ∧
    CedarExitCode.validationFailure.report = 3 ∧ CedarExitCode.unknown.report = 4 ∧
    (∀ a b : CedarExitCode, a.report = b.report → a = b) := by
  refine ⟨by decide, by decide, by decide, by decide, by decide, ?_⟩
  intro a b
  cases a <;> cases b <;> decide

/-- `cedar authorize`: status and printed line determine (and are determined by) the response's decision;
`cedar validate`: 3 exactly when inputs were readable and validation did not pass -/
theorem authorize_exit_reflects_response (ans : Answer Ffi.Decision) :
    ((authorizeExit ans).report = 0 ↔ ans = .success .allow) ∧
    ((authorizeExit ans).report = 2 ↔ ans = .success .deny) ∧
    ((authorizeExit ans).report = 1 ↔ ans = .failure) ∧
    (authorizePrinted ans = some "ALLOW" ↔ ans = .success .allow) ∧
    (authorizePrinted ans = some "DENY" ↔ ans = .success .deny) ∧
    (authorizePrinted ans = none ↔ ans = .failure) := by
  cases ans with
  | failure => decide
  | success d => cases d <;> decide

theorem validate_exit_table (inputsOk passed pww deny : Bool) :
    ((validateExit inputsOk passed pww deny).report = 1 ↔ inputsOk = false) ∧
    ((validateExit inputsOk passed pww deny).report = 3 ↔ inputsOk = true ∧ (passed = false ∨ (deny = true ∧ pww = false))) ∧
    ((validateExit inputsOk passed pww deny).report = 0 ↔ inputsOk = true ∧ passed = true ∧ (deny = false ∨ pww = true)) := by
  cases inputsOk <;> cases passed <;> cases pww <;> cases deny <;> decide

example : (authorizeExit (.success .deny)).report = 2 ∧ authorizePrinted (.success .deny) = some "DENY" := by decide

end Cedar.C19

/-! ## policy-set assembly: `ffi::PolicySet::parse` = an explicit history of API calls

Model: `Cedar/FfiPolicies.lean` (mirror of cedar-policy/src/ffi/utils.rs); vocabulary: `Lemmas/FfiPolicies.lean`.
  `staticAdds sp`    the static part's document-level outcome: the bodies WITH THEIR ASSIGNED IDS (`policy{n}` by position
                     for a concatenated text; the map key for the map form; the default id "policy0" / "JSON policy" for every
                     element of the list form) or the errors reported before any API call;
  `tailItems f`      one item per template (in the map's iteration order) then one per link (in list order): a document
                     error, or the API call `add_template (t with id)` / `link tid newId vals` with its error wrapper;
  `apiHistoryOf bs f` = `[add b | b ∈ bs] ++ [add_template …]* ++ [link …]*` — the order of the Rust loops;
  `runStrict s ops`  the history run from `s` where the first failing call aborts;
  `errsOf s items`   the errors the FFI's loops collect from state `s` (a failing call logs and the loop continues). -/
namespace Cedar.C19
open Cedar Cedar.FfiP

/-- C19 (assembly): `ffi::PolicySet::parse` computes exactly the API history `add* ++ add_template* ++ link*` from the
empty set, and reports exactly these errors, in this order:
* static documents that fail (all of them; or "static policy set includes a template"), or else the FIRST failing
  `add` (`from_policies` aborts) — in both cases the templates and links are then processed FROM THE EMPTY SET and their
  errors (including follow-ups such as `link` to a template that is there but whose static namesake is not) are appended;
* then, per template and per link in order, the parse error of the document or the error of the API call. -/
theorem assemble_eq_api_history (f : FfiPolicySet) :
    assemble f =
      (match staticAdds f.staticPolicies with
       | .error es => .error (es ++ errsOf {} (tailItems f))
       | .ok bs =>
         match runStrict {} (bs.map ApiOp.add) with
         | .error e => .error (staticWrap f.staticPolicies e :: errsOf {} (tailItems f))
         | .ok s0 =>
           if (errsOf s0 (tailItems f)).isEmpty then .ok (ApiPolicySet.run {} (apiHistoryOf bs f))
           else .error (errsOf s0 (tailItems f))) := by
  unfold assemble
  rw [assembleSteps_eq, static_parse_eq]
  cases hs : staticAdds f.staticPolicies with
  | error es =>
    have hne := staticAdds_error_ne_nil _ _ hs
    cases es with
    | nil => exact absurd rfl hne
    | cons e es => simp
  | ok bs =>
    dsimp only
    cases hr : runStrict {} (bs.map ApiOp.add) with
    | error e => simp
    | ok s0 =>
      have h0 := runStrict_ok_run _ _ _ hr
      dsimp only
      rw [apiHistoryOf, api_run_append, ← h0]

/-- C19 (assembly), success characterised: the FFI returns a set iff every document parses (static policies, templates,
link values; no template among concatenated policies) and EVERY call of the explicit API history succeeds — and then it
returns the set that history builds. -/
theorem assemble_ok_iff (f : FfiPolicySet) (s : ApiPolicySet) :
    assemble f = .ok s ↔
      ∃ bs, staticAdds f.staticPolicies = .ok bs ∧ noBad (tailItems f) = true ∧
        runStrict {} (apiHistoryOf bs f) = .ok s := by
  rw [assemble_eq_api_history]
  cases hs : staticAdds f.staticPolicies with
  | error es => simp
  | ok bs =>
    dsimp only
    simp only [Except.ok.injEq, exists_eq_left', apiHistoryOf, runStrict_append]
    cases hr : runStrict {} (bs.map ApiOp.add) with
    | error e => simp
    | ok s0 =>
      dsimp only
      have h0 := runStrict_ok_run _ _ _ hr
      by_cases he : errsOf s0 (tailItems f) = []
      · obtain ⟨hb, s', hs'⟩ := (errsOf_nil_iff _ _).mp he
        have h1 := runStrict_ok_run _ _ _ hs'
        simp only [he, List.isEmpty_nil, if_true, Except.ok.injEq, hb, true_and, hs']
        rw [api_run_append, ← h0, ← h1]
      · have hne : (errsOf s0 (tailItems f)).isEmpty = false := by
          cases h : errsOf s0 (tailItems f) with
          | nil => exact absurd h he
          | cons _ _ => rfl
        simp only [hne, Bool.false_eq_true, if_false, reduceCtorEq, false_iff, not_and]
        intro hb hr'
        exact he ((errsOf_nil_iff _ _).mpr ⟨hb, s, hr'⟩)

/-- C19 (assembly): a set the FFI returns satisfies the C08 invariants of API-built sets: the API layer's `WF`, the
core representation invariant (no id shared between maps except the two halves of a static policy, every link's
template present, `template_to_links_map` exact) and `Strict` (the hypothesis of C08 `merge_inv`).
Hypothesis: the template parser returns templates with at least one slot (`Template::parse`: trusted, C05). -/
theorem assemble_inv (f : FfiPolicySet) (s : ApiPolicySet) (hs : f.TemplatesHaveSlots) (h : assemble f = .ok s) :
    s.WF ∧ s.ast.WF ∧ s.ast.Strict := by
  obtain ⟨bs, _, _, hr⟩ := (assemble_ok_iff f s).mp h
  have h0 := runStrict_ok_run _ _ _ hr
  have wt := apiHistoryOf_wellTyped bs f hs
  subst h0
  have wf := ApiPolicySet.run_wf _ {} ApiPolicySet.wf_empty wt
  exact ⟨wf, wf.ast, ApiPolicySet.run_strict _ {} ApiPolicySet.wf_empty (by intro k p h; simp at h) wt⟩

/-- C19 (assembly), corollary: authorizing with the set the FFI assembled is authorizing (C01's `isAuthorized` over
`PolicySet::policies()`) with the set the Rust API builds by the explicit history. -/
theorem assemble_authorize (f : FfiPolicySet) (s : ApiPolicySet) (h : assemble f = .ok s) (req : Request) (es : Entities) :
    s.authorize req es = (ApiPolicySet.run {} (apiHistory f)).authorize req es ∧
    s.authorize req es = isAuthorized req es (ApiPolicySet.run {} (apiHistory f)).ast.policies := by
  obtain ⟨bs, hb, _, hr⟩ := (assemble_ok_iff f s).mp h
  have h0 := runStrict_ok_run _ _ _ hr
  have : apiHistory f = apiHistoryOf bs f := by simp [apiHistory, hb]
  rw [this, ← h0]
  exact ⟨rfl, rfl⟩

/-- C19 (assembly): the ids of the set the FFI returns are exactly the ids it assigned: the policies (`policies()` of
the API, = the core `links`) are the static ids (`policy{n}` by position | the default id per list element | the map
keys) and the links' `newId`s; the templates (`templates()`) are the keys of the `templates` map; and all these ids are
pairwise distinct — ANY collision (between two static policies, a template and a policy, a link and anything) is reported
as an error instead (contrapositive, `assemble_ids_collision`). Via the C08 refinement (`api_op_refines_spec`). -/
theorem assemble_ids (f : FfiPolicySet) (s : ApiPolicySet) (hs : f.TemplatesHaveSlots) (h : assemble f = .ok s) :
    (∀ k, (s.policies.get? k).isSome = true ↔ k ∈ staticIds f.staticPolicies ∨ k ∈ f.linkIds) ∧
    (∀ k, (s.ast.links.get? k).isSome = true ↔ k ∈ staticIds f.staticPolicies ∨ k ∈ f.linkIds) ∧
    (∀ k, (s.templates.get? k).isSome = true ↔ k ∈ f.templateIds) ∧
    (staticIds f.staticPolicies ++ f.templateIds ++ f.linkIds).Nodup := by
  obtain ⟨bs, hb, hnb, hr⟩ := (assemble_ok_iff f s).mp h
  obtain ⟨h1, h2, h3, h4⟩ := runStrict_ids bs f s hs hnb hr
  rw [staticAdds_ids _ _ hb] at h1 h2 h4
  exact ⟨h2, h1, h3, h4⟩

/-- no collision goes unreported: if two of the assigned ids coincide, `ffi::PolicySet::parse` returns errors -/
theorem assemble_ids_collision (f : FfiPolicySet) (hs : f.TemplatesHaveSlots)
    (hc : ¬ (staticIds f.staticPolicies ++ f.templateIds ++ f.linkIds).Nodup) : ∃ es, assemble f = .error es := by
  cases h : assemble f with
  | error es => exact ⟨es, rfl⟩
  | ok s => exact absurd (assemble_ids f s hs h).2.2.2 hc

/-! ### non-vacuity: two static policies in the map form (one Cedar text, one EST JSON), one template, two links -/

def demoBody : TemplateBody :=
  { id := "", annotations := [], effect := .permit, principalC := .any, actionC := .any, resourceC := .any, nonScope := none }
def demoTemplate : Template := { body := { demoBody with principalC := .eq .slot }, slots := [.principal] }
def demoVals : SlotVals := { principal := some ⟨"User", "alice"⟩ }
/-- the second link's id is a parameter: "l2" is fresh, "p1" collides with a static policy -/
def demoFfi (secondLinkId : String) : FfiPolicySet :=
  { staticPolicies := .map [("p1", ⟨.cedar, some demoBody⟩), ("p2", ⟨.json, some { demoBody with effect := .forbid }⟩)],
    templates := [("t", ⟨.cedar, some demoTemplate⟩)],
    templateLinks := [⟨"t", "l1", some demoVals⟩, ⟨"t", secondLinkId, some demoVals⟩] }

/-- success: ids as assigned, in the order of the history; the history is the expected five calls -/
example :
    (match assemble (demoFfi "l2") with
     | .ok s => some (s.policies.keys, s.templates.keys, s.ast.links.keys, s.ast.templates.keys)
     | .error _ => none) = some (["p1", "p2", "l1", "l2"], ["t"], ["p1", "p2", "l1", "l2"], ["p1", "p2", "t"]) ∧
    (apiHistory (demoFfi "l2")).length = 5 ∧ (demoFfi "l2").TemplatesHaveSlots := by
  refine ⟨by decide +kernel, by decide +kernel, ?_⟩
  intro e t he ht
  simp only [demoFfi, List.mem_singleton] at he
  subst he
  cases ht
  simp [demoTemplate]
/-- a duplicate link id: exactly one error, `link`'s `PolicyIdConflict`; the other four calls succeeded -/
example : (match assemble (demoFfi "p1") with | .ok _ => none | .error es => some es) = some [.link .idConflict] := by
  decide +kernel
/-- the list form gives every Cedar-text element the id "policy0": two elements collide in `from_policies` (reported
once, the first failing `add` aborts); template and links are then processed from the empty set and, here, succeed -/
example : (match assemble { demoFfi "l2" with staticPolicies := .set [⟨.cedar, some demoBody⟩, ⟨.cedar, some demoBody⟩] } with
           | .ok _ => none | .error es => some es) = some [.fromPolicies .alreadyDefined] := by
  decide +kernel
/-- a concatenated text: ids by position; a template among the statements is refused -/
example :
    (match assemble { demoFfi "l2" with staticPolicies := .concatenated (some [.static demoBody, .static demoBody]) } with
     | .ok s => some s.ast.links.keys | .error _ => none) = some ["policy0", "policy1", "l1", "l2"] ∧
    (match assemble { demoFfi "l2" with staticPolicies := .concatenated (some [.static demoBody, .template demoTemplate]) } with
     | .ok _ => none | .error es => some es) = some [.templateInStatic] := by
  decide +kernel
/-- a template document that does not parse and a link to it: both errors, in loop order -/
example : (match assemble { demoFfi "l2" with templates := [("t", ⟨.cedar, none⟩)] } with | .ok _ => none | .error es => some es)
    = some [.parseTemplate "t", .link .noSuchTemplate, .link .noSuchTemplate] := by
  decide +kernel

end Cedar.C19
