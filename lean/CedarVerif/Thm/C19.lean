import CedarVerif.Lemmas.Ffi
/-
C19 — JSON/FFI, stateful cache and CLI give exactly the API answers.

What is proved here (about the mirror in `Cedar/Ffi.lean`, for ARBITRARY parsers and an ARBITRARY common tail):
* `cache_refines_latest` — after any history of `preparse_policy_set` / `preparse_schema` /
  `stateful_is_authorized` calls on a fresh thread, a stateful call answers exactly what the stateless
  `is_authorized` answers when it is handed the documents most recently registered *successfully* under the
  names the call mentions (read-latest-acknowledged-write); a name never registered successfully gives `Failure`.
* `every_reply_refines_latest` — the same for every stateful call *inside* a history (its prefix counts).
* `failed_preparse_changes_nothing`, `reregistration_overwrites`, `stateful_calls_change_nothing`.
* `exit_code_table`, `authorize_exit_reflects_response` — the CLI's exit-code table is injective with the
  documented numbers, and `cedar authorize`'s status and printed line determine the response's decision.

What is NOT proved here: that the FFI assembles its inputs as the Rust API does (policy-id assignment for text
policies, template links, schema-directed context/entity parsing, request validation on/off, validation error
ids, formatting, conversions) and that the real `stateful_is_authorized` tail equals the real `is_authorized`
tail. Those equalities are checked by the differential run only (harness/src/c19.rs: FFI vs Rust API on generated
inputs in every accepted input shape; cache histories vs this model; CLI runs vs API).

Spec used below (defined in Lemmas/Ffi.lean, history = oldest call first):
  `latestPolicies π h id` = the document of the LAST `preparsePolicySet id doc` in `h` whose `doc` parses
                            (`h.reverse.findSome? …`), `latestSchema` likewise;
  `specAnswer π h c`      = `.failure` if `c` names a schema / policy set with no such document, otherwise
                            `statelessAuth π { schema := latest schema doc (or none), policies := latest policies doc, rest := c.rest }`.
-/
namespace Cedar.C19
open Cedar.Ffi

section
variable {PDoc SDoc P S R A : Type} (π : Params PDoc SDoc P S R A)

/-! ### the property -/

/-- C19 (stateful part): after ANY sequence of pre-parse and stateful authorization calls, the stateful variant
answers as the stateless one does for the documents currently registered (= most recently registered
successfully) under the names the call mentions; unknown names give `Failure`. -/
theorem cache_refines_latest (h : List (Op PDoc SDoc R)) (c : SCall R) :
    statefulAuth π (run (A := A) π h) c = specAnswer π h c :=
  statefulAuth_of_refines π _ h (refines_run π h) c

theorem replies_append (st : Store P S) (h1 h2 : List (Op PDoc SDoc R)) :
    replies (A := A) π st (h1 ++ h2) = replies π st h1 ++ replies π (runFrom (A := A) π st h1) h2 := by
  induction h1 generalizing st with
  | nil => rfl
  | cons op ops ih => simp [replies, runFrom, ih]

theorem replies_length (st : Store P S) (h : List (Op PDoc SDoc R)) :
    (replies (A := A) π st h).length = h.length := by
  induction h generalizing st with
  | nil => rfl
  | cons op ops ih => simp [replies, ih]

/-- the same for every stateful call inside a history: its reply is the spec's answer for the prefix before it -/
theorem every_reply_refines_latest (h1 h2 : List (Op PDoc SDoc R)) (c : SCall R) :
    (replies (A := A) π {} (h1 ++ .statefulAuth c :: h2))[h1.length]? = some (.answer (specAnswer π h1 c)) := by
  rw [replies_append]
  rw [List.getElem?_append_right (by simp [replies_length])]
  simp only [replies_length, Nat.sub_self, replies, step, List.getElem?_cons_zero]
  have := cache_refines_latest (A := A) π h1 c
  simp only [run] at this
  rw [this]

/-- a failed preparse leaves every later answer unchanged -/
theorem failed_preparse_changes_nothing (h : List (Op PDoc SDoc R)) (c : SCall R) (id : String) (pd : PDoc) (sd : SDoc)
    (hp : π.parsePolicies pd = none) (hs : π.parseSchema sd = none) :
    statefulAuth π (run (A := A) π (h ++ [.preparsePolicySet id pd])) c = statefulAuth π (run (A := A) π h) c ∧
    statefulAuth π (run (A := A) π (h ++ [.preparseSchema id sd])) c = statefulAuth π (run (A := A) π h) c := by
  simp only [cache_refines_latest, specAnswer]
  constructor
  · have h1 : ∀ k, latestPolicies π (h ++ [.preparsePolicySet id pd]) k = latestPolicies π h k := by
      intro k; rw [latestPolicies_snoc]; simp [ackPolicies, hp]
    have h2 : ∀ n, latestOptSchema π (h ++ [.preparsePolicySet id pd]) n = latestOptSchema π h n := by
      intro n; cases n <;> simp [latestOptSchema, latestSchema_snoc, ackSchema]
    rw [h1, h2]
  · have h1 : ∀ k, latestPolicies π (h ++ [.preparseSchema id sd]) k = latestPolicies π h k := by
      intro k; rw [latestPolicies_snoc]; simp [ackPolicies]
    have h2 : ∀ n, latestOptSchema π (h ++ [.preparseSchema id sd]) n = latestOptSchema π h n := by
      intro n; cases n <;> simp [latestOptSchema, latestSchema_snoc, ackSchema, hs]
    rw [h1, h2]

/-- re-registration under the same name overwrites: whatever came before, the last successful document counts -/
theorem reregistration_overwrites (h : List (Op PDoc SDoc R)) (id : String) (pd : PDoc) (r : R)
    (hp : (π.parsePolicies pd).isSome) :
    statefulAuth π (run (A := A) π (h ++ [.preparsePolicySet id pd])) { schemaName := none, policySetId := id, rest := r }
      = statelessAuth π { schema := none, policies := pd, rest := r } := by
  rw [cache_refines_latest]
  simp [specAnswer, latestOptSchema, latestPolicies_snoc, ackPolicies, hp]

/-- stateful authorization calls are reads: they change no later answer -/
theorem stateful_calls_change_nothing (h : List (Op PDoc SDoc R)) (c c' : SCall R) :
    statefulAuth π (run (A := A) π (h ++ [.statefulAuth c'])) c = statefulAuth π (run (A := A) π h) c := by
  simp only [cache_refines_latest, specAnswer]
  have h1 : ∀ k, latestPolicies π (h ++ [.statefulAuth c']) k = latestPolicies π h k := by
    intro k; rw [latestPolicies_snoc]; simp [ackPolicies]
  have h2 : ∀ n, latestOptSchema π (h ++ [.statefulAuth c']) n = latestOptSchema π h n := by
    intro n; cases n <;> simp [latestOptSchema, latestSchema_snoc, ackSchema]
  rw [h1, h2]

end

/-! ### non-vacuity: a concrete instance (documents = (tag, parses?), the tail reports the tags it was given) -/

/-- the instance the driver op `(ffi …)` runs: a document is a tag plus the parser's verdict -/
def tagParams : Params (Nat × Bool) (Nat × Bool) Nat Nat Unit (Nat × Option Nat) where
  parsePolicies d := if d.2 then some d.1 else none
  parseSchema d := if d.2 then some d.1 else none
  core sch ps _ := .success (ps, sch)

/-- register policies 1 under "a", fail to register 2 under "a", register 3 under "b", re-register "a" with 4,
schema 7 under "s", a failing schema 8 under "s": a call naming ("a","s") sees (4, 7); "c" is unknown -/
def demoHistory : List (Op (Nat × Bool) (Nat × Bool) Unit) :=
  [.preparsePolicySet "a" (1, true), .preparsePolicySet "a" (2, false), .preparsePolicySet "b" (3, true),
   .statefulAuth ⟨none, "a", ()⟩, .preparsePolicySet "a" (4, true), .preparseSchema "s" (7, true),
   .preparseSchema "s" (8, false)]

example : statefulAuth tagParams (run (A := Nat × Option Nat) tagParams demoHistory) ⟨some "s", "a", ()⟩ = .success (4, some 7) := by decide
example : specAnswer tagParams demoHistory ⟨some "s", "a", ()⟩ = (.success (4, some 7) : Answer (Nat × Option Nat)) := by decide
example : statefulAuth tagParams (run (A := Nat × Option Nat) tagParams demoHistory) ⟨none, "b", ()⟩ = .success (3, none) := by decide
example : statefulAuth tagParams (run (A := Nat × Option Nat) tagParams demoHistory) ⟨none, "c", ()⟩ = .failure := by decide
example : statefulAuth tagParams (run (A := Nat × Option Nat) tagParams demoHistory) ⟨some "t", "a", ()⟩ = .failure := by decide
/-- the hypotheses of `failed_preparse_changes_nothing` / `reregistration_overwrites` are satisfiable -/
example : tagParams.parsePolicies (2, false) = none ∧ tagParams.parseSchema (8, false) = none ∧
    (tagParams.parsePolicies (4, true)).isSome := by decide
/-- the stateless call really distinguishes documents (the spec is not constantly `failure`) -/
example : statelessAuth tagParams ⟨some (7, true), (4, true), ()⟩ = (.success (4, some 7) : Answer (Nat × Option Nat)) ∧
    statelessAuth tagParams ⟨some (8, false), (4, true), ()⟩ = (.failure : Answer (Nat × Option Nat)) ∧
    statelessAuth tagParams ⟨none, (2, false), ()⟩ = (.failure : Answer (Nat × Option Nat)) := by decide

/-! ### the CLI -/

/-- `CedarExitCode` → process status: the documented numbers, pairwise distinct -/
theorem exit_code_table :
    CedarExitCode.success.report = 0 ∧ CedarExitCode.failure.report = 1 ∧ CedarExitCode.authorizeDeny.report = 2 ∧
    CedarExitCode.validationFailure.report = 3 ∧ CedarExitCode.unknown.report = 4 ∧
    (∀ a b : CedarExitCode, a.report = b.report → a = b) := by
  refine ⟨by decide, by decide, by decide, by decide, by decide, ?_⟩
  intro a b
  cases a <;> cases b <;> decide

/-- `cedar authorize`: status and printed line determine (and are determined by) the response's decision;
`cedar validate`: 3 exactly when inputs were readable and validation did not pass -/
theorem authorize_exit_reflects_response (ans : Answer Decision) :
    ((authorizeExit ans).report = 0 ↔ ans = .success .allow) ∧
    ((authorizeExit ans).report = 2 ↔ ans = .success .deny) ∧
    ((authorizeExit ans).report = 1 ↔ ans = .failure) ∧
    (authorizePrinted ans = some "ALLOW" ↔ ans = .success .allow) ∧
    (authorizePrinted ans = some "DENY" ↔ ans = .success .deny) ∧
    (authorizePrinted ans = none ↔ ans = .failure) := by
  cases ans with
  | failure => decide
  | success d => cases d <;> decide

theorem validate_exit_table (inputsOk passed pww deny : Bool) :
    ((validateExit inputsOk passed pww deny).report = 1 ↔ inputsOk = false) ∧
    ((validateExit inputsOk passed pww deny).report = 3 ↔ inputsOk = true ∧ (passed = false ∨ (deny = true ∧ pww = false))) ∧
    ((validateExit inputsOk passed pww deny).report = 0 ↔ inputsOk = true ∧ passed = true ∧ (deny = false ∨ pww = true)) := by
  cases inputsOk <;> cases passed <;> cases pww <;> cases deny <;> decide

example : (authorizeExit (.success .deny)).report = 2 ∧ authorizePrinted (.success .deny) = some "DENY" := by decide

end Cedar.C19
