import CedarVerif.Lemmas.SchemaSyntax
import CedarVerif.Lemmas.SchemaDecl
import CedarVerif.Lemmas.SchemaDecl2
import CedarVerif.Lemmas.SchemaCollect
import CedarVerif.Cedar.SchemaFmtCheck
import CedarVerif.Lemmas.SchemaAnnot
/-
C09 — the JSON and the Cedar schema syntaxes denote the same schema.

What is proved here (about the model `Cedar/SchemaSyntax.lean`, tied to the code by the `sty print|parse|resolve` differential run):
  * `type_roundtrip`        the parser of the Cedar type grammar inverts the printer of fmt.rs on every Cedar type expression
                            (arbitrary attribute names — quoted exactly when `is_normalized_ident` fails —, `Set` used as a name, `__cedar::` paths);
  * `type_roundtrip_json`   JSON type expression → printed → parsed → JSON = the expression with every leaf turned into an
                            entity-or-common reference (`eocForm`), records unchanged (BTreeMap order);
  * `type_roundtrip_cedar_form`  … which is the expression itself when it has only entity-or-common leaves;
  * `resolve_stable`        on declaration environments without common/entity clashes and without shadowing of empty-namespace
                            definitions (`EnvOK`), turning references into entity-or-common references does not change what any
                            reference resolves to (RFC 24 priorities, namespace-then-empty-namespace, builtin aliases, `__cedar::`);
  * `envOK_needed_clash`, `envOK_needed_shadow`  both hypotheses are necessary (these are the two translation defects the
                            four-way run found in the implementation: fmt.rs checks clashes only in non-empty namespaces);
  * `translation_preserves_types_partial`  the two combined: a resolvable type expression re-reads, after translation, as an
                            expression that resolves to the same thing.
  * `decl_roundtrip`        DECLARATION LEVEL (`Cedar/SchemaDecl.lean`): for standard entity declarations — names (one or several),
                            `memberOf` list, shape = attribute declarations with optional (`?`) fields, `tags` type — the parser of the
                            grammar's `Entity` production inverts the printer of fmt.rs (` in [..]` only when non-empty, ` = {..}` only
                            for a non-empty shape, ` tags T` when present);
  * `decl_roundtrip_json`   a JSON `entityTypes` entry → printed → parsed → JSON entries = the same entry with every type leaf an
                            entity-or-common reference (shape and tags as in `type_roundtrip_json`, `memberOf` unchanged);
  * `decl_parser_accepts_more`  the forms only the Cedar syntax has (several names, no `=`, a bare path after `in`, `{}`) parse to the
                            expected data (examples).
  * DECLARATION LEVEL, the other declarations and whole fragments (`Cedar/SchemaDecl2.lean`, lemmas `Lemmas/SchemaDecl2.lean`; tied to
    the code by the `sty print-frag | parse-frag` differential run on whole schemas):
    `enum_decl_roundtrip`     `entity N enum ["a", …];` reads back as the same enum entry (non-empty list: `enum_nonempty_needed`);
    `common_decl_roundtrip`   `type N = T;` reads back as N with the entity-or-common form of T (N not a reserved common-type name:
                              `common_reserved_needed`);
    `action_decl_roundtrip`   a JSON `actions` entry → `action "N" in [T::"id", …] appliesTo { principal: [..], resource: [..],
                              context: T };` → JSON = `normAction` of the entry: a parent without type gets `Action`, `memberOf: []`
                              becomes absent, an absent OR HALF-EMPTY `appliesTo` becomes the empty `ApplySpec` (fmt.rs prints nothing:
                              `appliesTo_half_empty_lost`, the known finding), a record context keeps its shape with entity-or-common
                              leaves, a context given by a name becomes a must-be-common reference; hypothesis `CtxOK` (the context is
                              a record or a name) is needed: `ctxOK_needed`; `action_parser_accepts_more`: the forms only the Cedar
                              syntax has (bare / several names, single parent, any order of principal/resource/context, trailing
                              comma, `attributes {}`) and what to_json_schema.rs refuses (empty / missing / duplicate lists);
    `fragment_roundtrip`      a WHOLE FRAGMENT (empty namespace + named namespaces, each with common types, standard and enum entity
                              types, actions): parseFragment (printFragmentJ f) = some (normFragment f), with `normFragment` spelled out
                              (type leaves entity-or-common, the action normal form above, an empty-namespace entry without declarations
                              absent), under `WFFrag` (names the grammar's `Ident` accepts, no `__cedar`, `namespace_reserved_needed`)
                              and `SortedFrag` (record attributes in BTreeMap order); non-vacuity: `demoFragment`.
  * THE `BTreeMap` COLLECTION of the parsed declarations (`Cedar/SchemaCollect.lean`: `collectFragment`, mirroring
    `build_namespace_bindings` / `NamespaceRecord::new` / `collect_decls` / `update_namespace_record` of to_json_schema.rs and the
    `.collect()` into `BTreeMap`s):
    `fragment_roundtrip_collected`  for a fragment with the `BTreeMap` key invariant (`FragKeysOK`: keys distinct and in key order at
                              every level; namespace names in the derived `InternalName` order, basename first), print → parse →
                              duplicate checks → collection = `.ok (normFragment f)`;
    `collect_rejects_duplicates`    a repeated entity-type / action / common-type name in one namespace is `DuplicateDeclarations`,
                              otherwise a repeated namespace name `DuplicateNameSpaces`, otherwise accepted; end to end from tokens:
                              `collect_rejects_duplicates_examples`; an entity type and a common type of the SAME name are not a
                              duplicate (`collect_allows_entity_common_clash`); `collect_sorts_example`.
    Not proved: that the output of `collectFragment` is always key-sorted (insertion sort; only used through `FragKeysOK` inputs);
    when a text has both a duplicate and a per-declaration conversion error the model answers `syntax` first, Rust the duplicate.
    TIED TO RUST by the checked correspondence `(sty collect-frag (toks …))` (Driver/Ops/SchemaSyntax.lean, harness/src/c09.rs
    `emit_frag_collect`): `parseFragmentCollected` against `Fragment::from_cedarschema_str`, accepted fragments in `BTreeMap` KEY ORDER
    (no sorting on either side), rejections by the class of the first `ToJsonSchemaError` (`DuplicateDeclarations` / `DuplicateNamespaces`
    / other), on generated texts, their mutations and a family with repeated declarations / namespace blocks; the deviation above is
    skipped and counted (`model:collect-frag:skipped-duplicate-and-conversion-error`).
  * THE REFUSAL CASES OF fmt.rs (`Cedar/SchemaFmtCheck.lean`: `toCedarChecked` = `json_schema_to_cedar_schema_str`):
    (TIED TO RUST by `(sty to-cedar-checked <frag> (nonrec …))` against `Fragment::to_cedarschema()`: tokens, or the error class
    `ToCedarSchemaSyntaxError::NameCollisions` / `UnconvertibleEntityTypeShape`; the colliding names themselves are not compared)
    `toCedar_refuses_iff`     refused iff some NAMED namespace declares a name both as entity type and as common type (`Collides`,
                              error `NameCollisions`, priority) or some standard entity type's shape is not a record literal
                              (`UnconvertibleEntityTypeShape`; such shapes are outside `EntityTypeJ` and passed as a name list);
                              otherwise the printed fragment;
    `finding_clash_not_refused`, `finding_shadow_not_refused`  the two recorded translation defects are NOT refused: the check skips
                              the empty namespace, and does not look at references at all (kernel-checked on the fragments whose
                              declaration environments are those of `envOK_needed_clash` / `envOK_needed_shadow`).
  * ANNOTATIONS (`Cedar/SchemaAnnot.lean`, lemmas `Lemmas/SchemaAnnot.lean`): `est::Annotations` maps (identifier keys in `BTreeMap`
    order, optional values), `Annotations::fmt_indented`, the grammar's `Annotation*` + `deduplicate_annotations`:
    `annotations_roundtrip`   an annotation map comes back with the same keys and values, an absent value (`@key`, JSON `null`) as `""`
                              (`annotation_null_becomes_empty`); `annotations_parser_accepts_more`: sorting, `DuplicateAnnotations`;
    `annotated_namespace_roundtrip`  a namespace body whose common types / entity types / actions each carry an annotation map reads
                              back as the same declarations (`annotated_namespace_strip`: exactly those of `fragment_roundtrip`)
                              each with its normalised annotations;
    `annotated_fragment_roundtrip`  a WHOLE annotated fragment (`FragmentA`: annotations on `namespace` blocks and on every
                              declaration) printed and parsed by `parseItemsA` (`Annotated<Namedspace> | Annotated<Decl>`) gives the
                              items of the un-annotated theorem, each with its normalised annotation map, and these convert to
                              `normFragment f.strip`; non-vacuity: `demoFragmentA`.  Annotations on record ATTRIBUTES are outside the
                              model; values are token-level strings (escaping belongs to the lexer); the JSON-side pairing of
                              converted entries with their annotations is not modelled (AST level only).
                              TIED TO RUST by `(sty print-frag-a <afrag>)` (`printFragmentA` against `to_cedarschema` on fragments whose
                              record attributes carry no annotations) and `(sty parse-frag-a (toks …))` (`parseItemsA` against the
                              real grammar `parse_schema` incl. `deduplicate_annotations`: items in source order, annotation maps,
                              declaration kinds; duplicate / value-less / dangling annotations among the mutations).
NOT modelled (covered only by the four-way differential run of harness/src/c09.rs): the lexer and string escapes, annotations on record
attributes, action `attributes`, records with additional attributes, JSON (de)serialisation, and everything `ValidatorSchema`
construction does after name resolution (common-type inlining, cycle detection, hierarchy closure, action entities).
-/
namespace Cedar.C09
open Cedar.SchemaSyntax

/-- an implementation of both syntaxes -/
structure Impl where
  SchemaJson : Type
  SchemaCedar : Type
  Loaded : Type
  loadJson : SchemaJson → Option Loaded
  loadCedar : SchemaCedar → Option Loaded
  jsonToCedar : SchemaJson → Option SchemaCedar
  cedarToJson : SchemaCedar → Option SchemaJson

/-- the property at full strength: for every accepted schema, whenever translation succeeds, loading the translation gives
the same resolved schema (entity types, attribute/tag types and optionality, memberOf, enum ids, actions, groups, appliesTo,
contexts).  Only the type-expression / name-resolution part is proved below (`…_partial`). -/
def FullStatement (I : Impl) : Prop :=
  (∀ j a c, I.loadJson j = some a → I.jsonToCedar j = some c → I.loadCedar c = some a) ∧
  (∀ c a j, I.loadCedar c = some a → I.cedarToJson c = some j → I.loadJson j = some a)

/-- parse ∘ print = id on Cedar type expressions -/
theorem type_roundtrip (c : TyCedar) (h : WFC c) : parseCedar (printC c) = some c := by
  have := parseC_print c h ((printC c).length + 1) [] (by have := sizeC_le_length c; omega) (by simp [OkRest])
  simp only [List.append_nil] at this
  simp [parseCedar, this]

example : parseCedar (printC (.record (.cons "has space" false (.set (.ident ⟨["A", "B"], "Set"⟩))
    (.cons "if" true (.ident ⟨[], "Set"⟩) (.cons "ok" true (.record .nil) .nil))))) =
    some (.record (.cons "has space" false (.set (.ident ⟨["A", "B"], "Set"⟩))
      (.cons "if" true (.ident ⟨[], "Set"⟩) (.cons "ok" true (.record .nil) .nil)))) := by
  apply type_roundtrip
  simp [WFC, WFA, QName.comps]
  decide

/-- quoting: the printed tokens of that record start `{ "has space" ? : Set < A :: B :: Set > , "if" : Set , ok : { } }` -/
example : printC (.record (.cons "has space" false (.ident ⟨[], "T"⟩) (.cons "if" true (.ident ⟨[], "T"⟩) (.cons "ok" true (.ident ⟨[], "T"⟩) .nil)))) =
    [.lb, .str "has space", .q, .colon, .id "T", .comma, .str "if", .colon, .id "T", .comma, .id "ok", .colon, .id "T", .rb] := by
  decide

/-- JSON → Cedar tokens → JSON -/
theorem type_roundtrip_json (τ : TyJson) (hw : WFJ τ) (hs : SortedT τ) : parseTy (printTy τ) = some (eocForm τ) := by
  simp [parseTy, printTy_eq_printC, type_roundtrip (toCedar τ) (wfc_toCedar τ hw), normalize_eq_eocForm τ hs]

/-- on expressions the Cedar syntax can write directly (all leaves entity-or-common references): parse ∘ print = id -/
theorem type_roundtrip_cedar_form (τ : TyJson) (hw : WFJ τ) (hs : SortedT τ) (hc : eocForm τ = τ) :
    parseTy (printTy τ) = some τ := by
  rw [type_roundtrip_json τ hw hs, hc]

example : parseTy (printTy (.record (.cons "a b" false (.set .long) (.cons "b" true (.entity ⟨["NS"], "User"⟩) .nil)))) =
    some (.record (.cons "a b" false (.set (.entityOrCommon ⟨["__cedar"], "Long"⟩)) (.cons "b" true (.entityOrCommon ⟨["NS"], "User"⟩) .nil))) := by
  have := type_roundtrip_json (.record (.cons "a b" false (.set .long) (.cons "b" true (.entity ⟨["NS"], "User"⟩) .nil)))
    (by simp [WFJ, WFAJ, QName.comps] <;> decide) (by simp [SortedT, SortedA, keysJ] <;> decide)
  simpa [eocForm, eocFormAttrs, cedarName] using this

mutual
/-- losing the kind of every reference (what translation through the Cedar syntax does) keeps every resolution -/
theorem resolve_stable (env : Env) (ok : EnvOK env) (hres : ∀ b, env.commons.contains (cedarName b) = false)
    (ns : List String) (τ : TyJson) (r : RTy) (h : resolveTy env ns τ = some r) :
    resolveTy env ns (eocForm τ) = some r := by
  match τ with
  | .bool =>
    simp only [resolveTy, Option.some.injEq] at h; subst h
    simpa [eocForm, resolveTy] using resolveLeaf_cedar env hres ns "Bool" (by decide)
  | .long =>
    simp only [resolveTy, Option.some.injEq] at h; subst h
    simpa [eocForm, resolveTy] using resolveLeaf_cedar env hres ns "Long" (by decide)
  | .string =>
    simp only [resolveTy, Option.some.injEq] at h; subst h
    simpa [eocForm, resolveTy] using resolveLeaf_cedar env hres ns "String" (by decide)
  | .ext n =>
    simp only [resolveTy] at h
    split at h
    · rename_i hx
      simp only [Option.some.injEq] at h; subst h
      simpa [eocForm, resolveTy] using resolveLeaf_cedar env hres ns n (ext_is_builtin n hx)
    · simp at h
  | .entity n =>
    simp only [resolveTy, resolveLeaf, Option.map_eq_some_iff] at h
    obtain ⟨x, hx, hc⟩ := h
    simp [eocForm, resolveTy, resolveLeaf, resolveRef_kind_stable env ok ns .entity n x hx, hc]
  | .commonRef n =>
    simp only [resolveTy, resolveLeaf, Option.map_eq_some_iff] at h
    obtain ⟨x, hx, hc⟩ := h
    simp [eocForm, resolveTy, resolveLeaf, resolveRef_kind_stable env ok ns .common n x hx, hc]
  | .entityOrCommon n => simpa [eocForm] using h
  | .set e =>
    simp only [resolveTy, Option.map_eq_some_iff] at h
    obtain ⟨x, hx, hc⟩ := h
    simp [eocForm, resolveTy, resolve_stable env ok hres ns e x hx, hc]
  | .record attrs =>
    simp only [resolveTy, Option.map_eq_some_iff] at h
    obtain ⟨x, hx, hc⟩ := h
    simp [eocForm, resolveTy, resolveAttrs_stable env ok hres ns attrs x hx, hc]
theorem resolveAttrs_stable (env : Env) (ok : EnvOK env) (hres : ∀ b, env.commons.contains (cedarName b) = false)
    (ns : List String) (a : AttrsJ) (r : List (String × Bool × RTy)) (h : resolveAttrs env ns a = some r) :
    resolveAttrs env ns (eocFormAttrs a) = some r := by
  match a with
  | .nil => simpa [eocFormAttrs] using h
  | .cons n req t rest =>
    simp only [resolveAttrs] at h
    split at h
    · rename_i t' rest' ht hrest
      simp [eocFormAttrs, resolveAttrs, resolve_stable env ok hres ns t t' ht, resolveAttrs_stable env ok hres ns rest rest' hrest]
      simpa using h
    · simp at h
end

/-- a harmless environment with a common type shadowing an extension type, an entity type shadowing a primitive, and actions -/
def demoEnv : Env := { commons := [⟨[], "ipaddr"⟩, ⟨["NS"], "Ctx"⟩], entities := [⟨["NS"], "User"⟩, ⟨[], "Long"⟩], actionNs := [["NS"]] }

/-- in `demoEnv`: `ipaddr` is the user's common type, `__cedar::ipaddr` the extension type, `Long` the user's entity type,
`{"type":"Long"}` the primitive, `Action` inside NS the action entity type — before and after translation -/
example : resolveRef demoEnv ["NS"] .either ⟨[], "ipaddr"⟩ = some (.common ⟨[], "ipaddr"⟩)
    ∧ resolveRef demoEnv ["NS"] .either ⟨["__cedar"], "ipaddr"⟩ = some (.common ⟨["__cedar"], "ipaddr"⟩)
    ∧ resolveRef demoEnv ["NS"] .either ⟨[], "Long"⟩ = some (.entity ⟨[], "Long"⟩)
    ∧ resolveRef demoEnv ["NS"] .entity ⟨[], "Action"⟩ = some (.entity ⟨["NS"], "Action"⟩)
    ∧ resolveRef demoEnv ["NS"] .common ⟨[], "Ctx"⟩ = some (.common ⟨["NS"], "Ctx"⟩)
    ∧ resolveRef demoEnv ["NS"] .either ⟨[], "decimal"⟩ = some (.common ⟨[], "decimal"⟩)
    ∧ resolveRef demoEnv ["NS"] .either ⟨[], "Nope"⟩ = none
    ∧ shadowing demoEnv = false := by decide

/-- `EnvOK.noClash` is necessary: empty namespace declares `T` as common type and as entity type; the must-be-entity reference
`{"type":"Entity","name":"T"}` resolves to the entity type, its translation `T` to the common type.
(Implementation: known finding C09-entity-ref-rebinds-to-common-type-empty-namespace.) -/
theorem envOK_needed_clash :
    let env : Env := { commons := [⟨[], "T"⟩], entities := [⟨[], "T"⟩], actionNs := [] }
    shadowing env = false ∧ resolveRef env [] .entity ⟨[], "T"⟩ = some (.entity ⟨[], "T"⟩)
      ∧ resolveRef env [] .either ⟨[], "T"⟩ = some (.common ⟨[], "T"⟩) := by decide

/-- `EnvOK.noShadow` is necessary (and the RFC 70 check does not imply it, since the builtin aliases are added after it):
namespace `A` declares an entity type `ipaddr`; the must-be-common reference `{"type":"ipaddr"}` written in `A` resolves to the
builtin alias, its translation `ipaddr` to the entity type `A::ipaddr`.
(Implementation: known finding C09-common-ref-rebinds-to-entity-type.) -/
theorem envOK_needed_shadow :
    let env : Env := { commons := [], entities := [⟨["A"], "ipaddr"⟩], actionNs := [] }
    shadowing env = false ∧ resolveRef env ["A"] .common ⟨[], "ipaddr"⟩ = some (.common ⟨[], "ipaddr"⟩)
      ∧ resolveRef env ["A"] .either ⟨[], "ipaddr"⟩ = some (.entity ⟨["A"], "ipaddr"⟩) := by decide

/-- the type-expression part of the property: a JSON type expression that resolves (in namespace `ns` of an `EnvOK` declaration
environment, which translation keeps: same namespaces, same declared names) is printed by `to_cedarschema` to tokens that parse,
and the parsed expression resolves to the same thing -/
theorem translation_preserves_types_partial (env : Env) (ok : EnvOK env) (hres : ∀ b, env.commons.contains (cedarName b) = false)
    (ns : List String) (τ : TyJson) (hw : WFJ τ) (hs : SortedT τ) (r : RTy) (h : resolveTy env ns τ = some r) :
    ∃ τ', parseTy (printTy τ) = some τ' ∧ resolveTy env ns τ' = some r :=
  ⟨eocForm τ, type_roundtrip_json τ hw hs, resolve_stable env ok hres ns τ r h⟩

/-! ## declaration level: standard entity declarations -/

/-- parse ∘ print = id on standard entity declarations (any number of names ≥ 1, any `memberOf` list, any shape with optional
fields, optional tags), for names the grammar's `Ident` accepts -/
theorem decl_roundtrip (d : EntityDecl) (h : WFD d) : parseEntityDecl (printEntity d) = some d := by
  have := parseEntity_print d h ((printEntity d).length + 1) (declFuel_le_length d) []
  simp only [List.append_nil] at this
  simp [parseEntityDecl, this]

/-- and with any continuation (the next declaration): the parser stops exactly after the `;` -/
theorem decl_roundtrip_prefix (d : EntityDecl) (h : WFD d) (fuel : Nat) (hf : declFuel d ≤ fuel) (rest : List Tok) :
    parseEntity fuel (printEntity d ++ rest) = some (d, rest) :=
  parseEntity_print d h fuel hf rest

/-- JSON entry → Cedar tokens → JSON entries -/
theorem decl_roundtrip_json (name : String) (e : EntityTypeJ) (hn : validId name = true) (hr : name ≠ "__cedar")
    (hm : ∀ q ∈ e.memberOf, ∀ c ∈ q.comps, validId c = true)
    (hws : WFJ (.record e.shape)) (hss : SortedT (.record e.shape))
    (hwt : ∀ t, e.tags = some t → WFJ t ∧ SortedT t) :
    (parseEntityDecl (printEntity (e.toDecl name))).map EntityDecl.toJsonTypes =
      some [(name, { memberOf := e.memberOf, shape := eocFormAttrs e.shape, tags := e.tags.map eocForm })] := by
  have hwf : WFD (e.toDecl name) := by
    refine ⟨by simp [EntityTypeJ.toDecl], ?_, hm, ?_, ?_⟩
    · intro n hn'; simp [EntityTypeJ.toDecl] at hn'; subst hn'; exact ⟨hn, hr⟩
    · have := wfc_toCedar (.record e.shape) hws
      simpa [toCedar, WFC, EntityTypeJ.toDecl] using this
    · intro t ht
      simp only [EntityTypeJ.toDecl, Option.map_eq_some_iff] at ht
      obtain ⟨tj, htj, rfl⟩ := ht
      exact wfc_toCedar tj (hwt tj htj).1
  rw [decl_roundtrip _ hwf]
  have hshape : collectJ .nil (toCedarAttrs e.shape) = eocFormAttrs e.shape := by
    have := normalize_eq_eocForm (.record e.shape) hss
    simpa [toCedar, toJson, eocForm] using this
  have htags : (e.tags.map toCedar).map toJson = e.tags.map eocForm := by
    cases ht : e.tags with
    | none => rfl
    | some t => simp [normalize_eq_eocForm t (hwt t ht).2]
  simp [EntityDecl.toJsonTypes, EntityTypeJ.toDecl, hshape, htags]

-- non-vacuity: every optional part present, an optional field, a quoted attribute name, a qualified parent
example : parseEntityDecl (printEntity ⟨["User"], [⟨["NS"], "Group"⟩, ⟨[], "Team"⟩],
      .cons "name" true (.ident ⟨[], "String"⟩) (.cons "has space" false (.set (.ident ⟨[], "Long"⟩)) .nil),
      some (.set (.ident ⟨[], "String"⟩))⟩) =
    some ⟨["User"], [⟨["NS"], "Group"⟩, ⟨[], "Team"⟩],
      .cons "name" true (.ident ⟨[], "String"⟩) (.cons "has space" false (.set (.ident ⟨[], "Long"⟩)) .nil),
      some (.set (.ident ⟨[], "String"⟩))⟩ := by
  apply decl_roundtrip
  refine ⟨by simp, ?_, ?_, ?_, ?_⟩ <;> simp [WFA, WFC, QName.comps] <;> decide

/-- what is printed: `entity User in [NS::Group, Team] = { name : String, "has space" ? : Set<Long> } tags Set<String> ;` -/
example : printEntity ⟨["User"], [⟨["NS"], "Group"⟩, ⟨[], "Team"⟩],
      .cons "name" true (.ident ⟨[], "String"⟩) (.cons "has space" false (.set (.ident ⟨[], "Long"⟩)) .nil),
      some (.set (.ident ⟨[], "String"⟩))⟩ =
    [.id "entity", .id "User", .id "in", .other "[", .id "NS", .dcolon, .id "Group", .comma, .id "Team", .other "]",
     .other "=", .lb, .id "name", .colon, .id "String", .comma, .str "has space", .q, .colon, .id "Set", .lt, .id "Long", .gt, .rb,
     .id "tags", .id "Set", .lt, .id "String", .gt, .other ";"] := by decide

/-- nothing optional: `entity E;` -/
example : parseEntityDecl (printEntity ⟨["E"], [], .nil, none⟩) = some ⟨["E"], [], .nil, none⟩ :=
  decl_roundtrip _ ⟨by simp, by simp; decide, by simp, by simp [WFA], by simp⟩

/-- the parser accepts the forms only the Cedar syntax has: several names, no `=`, a bare path after `in`, `{}` -/
theorem decl_parser_accepts_more :
    parseEntityDecl [.id "entity", .id "A", .comma, .id "B", .id "in", .id "G", .lb, .id "x", .colon, .id "Long", .rb, .other ";"] =
      some ⟨["A", "B"], [⟨[], "G"⟩], .cons "x" true (.ident ⟨[], "Long"⟩) .nil, none⟩ ∧
    parseEntityDecl [.id "entity", .id "A", .id "in", .other "[", .other "]", .other "=", .lb, .rb, .id "tags", .id "String", .other ";"] =
      some ⟨["A"], [], .nil, some (.ident ⟨[], "String"⟩)⟩ ∧
    parseEntityDecl [.id "entity", .id "A", .other "=", .other ";"] = none ∧
    parseEntityDecl [.id "entity", .id "A", .comma, .other ";"] = none ∧
    parseEntityDecl [.id "entity", .id "if", .other ";"] = none ∧
    parseEntityDecl [.id "entity", .id "__cedar", .other ";"] = none := by
  refine ⟨by rfl, by rfl, by rfl, by rfl, by rfl, by rfl⟩

/-! ## declaration level: enum entities, actions, common types, namespaces, whole fragments (`Cedar/SchemaDecl2.lean`) -/

/-- `entity N enum ["a", …];` reads back as the same enum entry -/
theorem enum_decl_roundtrip (name : String) (cs : List String) (hn : validId name = true) (hr : name ≠ "__cedar") (hc : cs ≠ []) :
    parseEntityAnyDecl (printEnumJ name cs) = some [(name, .enum cs)] := by
  have h := parseEntityAny_enum name cs ((printEnumJ name cs).length + 1) [] hn hr hc
  simp only [List.append_nil] at h
  simp [parseEntityAnyDecl, h, EntDeclC.toJsonKinds]

example : parseEntityAnyDecl (printEnumJ "enum" ["enum", "has space", ""]) = some [("enum", .enum ["enum", "has space", ""])] :=
  enum_decl_roundtrip _ _ (by decide) (by decide) (by simp)

/-- the non-emptiness hypothesis is needed (json_schema.rs has `NonEmpty` there: the JSON form cannot be empty either) -/
theorem enum_nonempty_needed : parseEntityAnyDecl (printEnumJ "E" []) = none := by rfl

/-- `type N = T;` reads back as the entity-or-common form of `T`, for names that are not reserved common-type names -/
theorem common_decl_roundtrip (name : String) (t : TyJson) (hn : validId name = true) (hr : name ≠ "__cedar")
    (hk : reservedCommonNames.contains name = false) (hw : WFJ t) (hs : SortedT t) :
    parseCommonDecl (printCommonJ name t) = some (name, eocForm t) := by
  have h := parseCommon_print name t hn hr hk hw ((printCommonJ name t).length + 1)
    (by have := sizeC_le_length (toCedar t); simp only [printCommonJ, printTy_eq_printC, List.length_append, List.length_cons]; omega) []
  simp only [List.append_nil] at h
  simp [parseCommonDecl, h, normalize_eq_eocForm t hs]

example : parseCommonDecl (printCommonJ "Ctx" (.record (.cons "ip" false (.ext "ipaddr") .nil))) =
    some ("Ctx", .record (.cons "ip" false (.entityOrCommon ⟨["__cedar"], "ipaddr"⟩) .nil)) := by
  have := common_decl_roundtrip "Ctx" (.record (.cons "ip" false (.ext "ipaddr") .nil)) (by decide) (by decide) (by decide)
    (by simp [WFJ, WFAJ, QName.comps, cedarName] <;> decide) (by simp [SortedT, SortedA, keysJ])
  simpa [eocForm, eocFormAttrs, cedarName] using this

/-- the reserved-name hypothesis is needed: a JSON common type cannot be called `Long` either (`CommonTypeId`), and the parser refuses it -/
theorem common_reserved_needed : parseCommonDecl (printCommonJ "Long" .bool) = none := by rfl

/-- JSON `actions` entry → `action "N" in [..] appliesTo {..};` → JSON entries: the entry comes back as `normAction` of itself —
parents get their type written out (`Action` when absent), `memberOf: []` becomes absent, an absent OR HALF-EMPTY `appliesTo`
becomes the empty `ApplySpec` (principal/resource lists and context LOST), the context becomes its `normCtx` -/
theorem action_decl_roundtrip (name : String) (a : ActionJ) (hw : WFAct a)
    (hs : ∀ s, a.appliesTo = some s → SortedT s.context) :
    parseActionDecl (printActionJ name a) = some [(name, normAction a)] := by
  have h := parseAction_print name a hw ((printActionJ name a).length + 1) (by have := actFuel_le_length name a; omega) []
  simp only [List.append_nil] at h
  have hs' : ∀ s, a.appliesTo = some s → SortedT s.context ∧ CtxOK s.context :=
    fun s h' => ⟨hs s h', (hw.2 s h').2.2.2⟩
  simp [parseActionDecl, h, toJsonActions_toDecl name a hs']

/-- an action with a bare and a qualified parent, two principal types, a record context with an optional field -/
def demoAction : ActionJ :=
  { memberOf := some [⟨none, "all"⟩, ⟨some ⟨["NS"], "Action"⟩, "adm in"⟩],
    appliesTo := some ⟨[⟨[], "User"⟩, ⟨["NS"], "Svc"⟩], [⟨[], "Doc"⟩], .record (.cons "ip" false (.ext "ipaddr") (.cons "n" true .long .nil))⟩ }

theorem demoAction_wf : WFAct demoAction ∧ (∀ s, demoAction.appliesTo = some s → SortedT s.context) := by
  refine ⟨⟨?_, ?_⟩, ?_⟩
  · intro l hl r hr q hq
    simp only [demoAction, Option.some.injEq] at hl
    subst hl
    simp only [List.mem_cons, List.not_mem_nil, or_false] at hr
    rcases hr with rfl | rfl
    · simp at hq
    · simp only [Option.some.injEq] at hq; subst hq; simp [QName.comps]; decide
  · intro s hs
    simp only [demoAction, Option.some.injEq] at hs
    subst hs
    refine ⟨?_, ?_, ?_, ?_⟩
    · simp [QName.comps]; decide
    · simp [QName.comps]; decide
    · simp [WFJ, WFAJ]; decide
    · intro e; simp
  · intro s hs
    simp only [demoAction, Option.some.injEq] at hs
    subst hs
    simp [SortedT, SortedA, keysJ]

example : parseActionDecl (printActionJ "view doc" demoAction) = some [("view doc", normAction demoAction)] :=
  action_decl_roundtrip _ _ demoAction_wf.1 demoAction_wf.2

/-- what is printed: `action "view doc" in [Action::"all", NS::Action::"adm in"] appliesTo { principal: [User, NS::Svc], resource: [Doc],
context: { ip?: __cedar::ipaddr, n: __cedar::Long } };` -/
example : printActionJ "view doc" demoAction =
    [.id "action", .str "view doc", .id "in", .other "[", .id "Action", .dcolon, .str "all", .comma, .id "NS", .dcolon, .id "Action",
     .dcolon, .str "adm in", .other "]", .id "appliesTo", .lb, .id "principal", .colon, .other "[", .id "User", .comma, .id "NS",
     .dcolon, .id "Svc", .other "]", .comma, .id "resource", .colon, .other "[", .id "Doc", .other "]", .comma, .id "context", .colon,
     .lb, .id "ip", .q, .colon, .id "__cedar", .dcolon, .id "ipaddr", .comma, .id "n", .colon, .id "__cedar", .dcolon, .id "Long", .rb,
     .rb, .other ";"] := by decide

/-- HALF-EMPTY `appliesTo` (known finding C09-half-empty-appliesTo-dropped): `{principalTypes: [], resourceTypes: [E], context: {x: Long}}`
is printed as `action "a";` and comes back with `resourceTypes: []` and the empty context — `normAction` is NOT the
entity-or-common form here, the declaration is genuinely changed by fmt.rs -/
theorem appliesTo_half_empty_lost :
    let a : ActionJ := ⟨none, some ⟨[], [⟨[], "E"⟩], .record (.cons "x" true .long .nil)⟩⟩
    printActionJ "a" a = [.id "action", .str "a", .other ";"] ∧
    (normAction a).appliesTo.map (·.resources) = some [] ∧
    parseActionDecl (printActionJ "a" a) = parseActionDecl (printActionJ "a" ⟨none, none⟩) := by
  refine ⟨by decide, by decide, by rfl⟩

/-- `CtxOK` is needed: fmt.rs prints any context type, the grammar reads only a record or a name after `context:` -/
theorem ctxOK_needed :
    parseActionDecl (printActionJ "a" ⟨none, some ⟨[⟨[], "E"⟩], [⟨[], "E"⟩], .set .long⟩⟩) = none := by rfl

/-- the forms only the Cedar syntax has: bare names, several names, a single parent without brackets, an unqualified parent,
principal/resource/context in any order with a trailing comma, `context: Path`, `attributes {}`; and what to_json_schema.rs refuses -/
theorem action_parser_accepts_more :
    parseActionDecl [.id "action", .id "a", .comma, .str "b c", .id "in", .str "g", .id "appliesTo", .lb, .id "context", .colon, .id "C",
        .comma, .id "resource", .colon, .id "R", .comma, .id "principal", .colon, .other "[", .id "P", .other "]", .comma, .rb,
        .id "attributes", .lb, .rb, .other ";"] =
      some [("a", ⟨some [⟨none, "g"⟩], some ⟨[⟨[], "P"⟩], [⟨[], "R"⟩], .commonRef ⟨[], "C"⟩⟩⟩),
            ("b c", ⟨some [⟨none, "g"⟩], some ⟨[⟨[], "P"⟩], [⟨[], "R"⟩], .commonRef ⟨[], "C"⟩⟩⟩)] ∧
    -- empty list, missing resource, duplicate principal, empty `in []`
    parseActionDecl [.id "action", .id "a", .id "appliesTo", .lb, .id "principal", .colon, .other "[", .other "]", .comma,
        .id "resource", .colon, .id "R", .rb, .other ";"] = none ∧
    parseActionDecl [.id "action", .id "a", .id "appliesTo", .lb, .id "principal", .colon, .id "P", .rb, .other ";"] = none ∧
    parseActionDecl [.id "action", .id "a", .id "appliesTo", .lb, .id "principal", .colon, .id "P", .comma, .id "principal", .colon,
        .id "P", .comma, .id "resource", .colon, .id "R", .rb, .other ";"] = none ∧
    parseActionDecl [.id "action", .id "a", .id "in", .other "[", .other "]", .other ";"] = none ∧
    parseActionDecl [.id "action", .id "a", .id "appliesTo", .lb, .rb, .other ";"] = none := by
  refine ⟨by rfl, by rfl, by rfl, by rfl, by rfl, by rfl⟩

/-- WHOLE FRAGMENT: a JSON fragment (empty namespace + named namespaces, each with common types, entity types of both kinds, actions)
→ printed by fmt.rs → parsed by the grammar → converted by to_json_schema.rs = `normFragment` of the fragment, where `normFragment`
(Lemmas/SchemaDecl2.lean) is spelled out: every type leaf an entity-or-common reference (`eocForm`), contexts `normCtx`, parents
`normActRef`, `memberOf: []` absent, absent / half-empty `appliesTo` the empty `ApplySpec`, an empty-namespace entry without
declarations absent.  Hypotheses: names are identifiers the grammar accepts (`WFFrag`: no `__cedar`, common-type names not reserved,
enum lists non-empty, contexts records or names), record attributes in `BTreeMap` order (`SortedFrag`). -/
theorem fragment_roundtrip (f : FragmentJ) (hw : WFFrag f) (hs : SortedFrag f) :
    parseFragment (printFragmentJ f) = some (normFragment f) := by
  simp [parseFragment, parseItems_fragment f hw, toJsonFragment_itemsOf f hw hs]

/-- the namespace-name hypothesis of `WFFrag` is needed: `namespace __cedar { … }` is refused (`convert_namespace`) -/
theorem namespace_reserved_needed :
    parseFragment (printFragmentJ ⟨none, [(⟨[], "__cedar"⟩, ⟨[], [("E", .enum ["a"])], []⟩)]⟩) = none := by rfl

/-- two namespaces (the empty one and `NS`), an enum entity, a common type used by an entity, an action with parents and an
`appliesTo` with a record context, a half-empty `appliesTo` -/
def demoFragment : FragmentJ :=
  { empty := some ⟨[("Ctx", .record (.cons "ip" false (.ext "ipaddr") .nil))],
                   [("Color", .enum ["red", "dark blue"]), ("Doc", .standard ⟨[⟨[], "Doc"⟩], .cons "c" true (.commonRef ⟨[], "Ctx"⟩) .nil, none⟩)],
                   [("half", ⟨some [], some ⟨[], [⟨[], "Doc"⟩], .record .nil⟩⟩)]⟩,
    named := [(⟨[], "NS"⟩, ⟨[], [("Svc", .standard ⟨[], .nil, some .string⟩), ("User", .standard ⟨[], .nil, none⟩)],
                            [("all", ⟨none, none⟩), ("view doc", demoAction)]⟩)] }

theorem demoFragment_ok : WFFrag demoFragment ∧ SortedFrag demoFragment := by
  have hA := demoAction_wf
  refine ⟨⟨?_, ?_⟩, ?_, ?_⟩
  · intro d hd
    simp only [demoFragment, Option.some.injEq] at hd
    subst hd
    refine ⟨?_, ?_, ?_⟩
    · intro x hx
      simp only [List.mem_cons, List.not_mem_nil, or_false] at hx
      subst hx
      refine ⟨by decide, by decide, by decide, ?_⟩
      simp [WFJ, WFAJ]; decide
    · intro x hx
      simp only [List.mem_cons, List.not_mem_nil, or_false] at hx
      rcases hx with rfl | rfl
      · exact ⟨by decide, by decide, by simp⟩
      · refine ⟨by decide, by decide, ?_, ?_, ?_⟩
        · simp [QName.comps]; decide
        · simp [WFJ, WFAJ, QName.comps]; decide
        · simp
    · intro x hx
      simp only [List.mem_cons, List.not_mem_nil, or_false] at hx
      subst hx
      refine ⟨?_, ?_⟩
      · intro l hl r hr; simp at hl; subst hl; simp at hr
      · intro s hs'
        simp only [Option.some.injEq] at hs'
        subst hs'
        refine ⟨by simp, ?_, by simp [WFJ, WFAJ], by intro e; simp⟩
        simp [QName.comps]; decide
  · intro x hx
    simp only [demoFragment, List.mem_cons, List.not_mem_nil, or_false] at hx
    subst hx
    refine ⟨by simp [QName.comps]; decide, by decide, ?_, ?_, ?_⟩
    · intro x hx; simp at hx
    · intro x hx
      simp only [List.mem_cons, List.not_mem_nil, or_false] at hx
      rcases hx with rfl | rfl
      · refine ⟨by decide, by decide, by simp, by simp [WFJ, WFAJ], ?_⟩
        intro t ht; simp at ht; subst ht; simp [WFJ]
      · exact ⟨by decide, by decide, by simp, by simp [WFJ, WFAJ], by simp⟩
    · intro x hx
      simp only [List.mem_cons, List.not_mem_nil, or_false] at hx
      rcases hx with rfl | rfl
      · exact ⟨by simp, by simp⟩
      · exact hA.1
  · intro d hd
    simp only [demoFragment, Option.some.injEq] at hd
    subst hd
    refine ⟨?_, ?_, ?_⟩
    · intro x hx
      simp only [List.mem_cons, List.not_mem_nil, or_false] at hx
      subst hx
      simp [SortedT, SortedA, keysJ]
    · intro x hx
      simp only [List.mem_cons, List.not_mem_nil, or_false] at hx
      rcases hx with rfl | rfl
      · trivial
      · exact ⟨by simp [SortedT, SortedA, keysJ], by simp⟩
    · intro x hx s hs'
      simp only [List.mem_cons, List.not_mem_nil, or_false] at hx
      subst hx
      simp only [Option.some.injEq] at hs'
      subst hs'
      simp [SortedT, SortedA]
  · intro x hx
    simp only [demoFragment, List.mem_cons, List.not_mem_nil, or_false] at hx
    subst hx
    refine ⟨by intro x hx; simp at hx, ?_, ?_⟩
    · intro x hx
      simp only [List.mem_cons, List.not_mem_nil, or_false] at hx
      rcases hx with rfl | rfl
      · refine ⟨by simp [SortedT, SortedA], ?_⟩
        intro t ht; simp at ht; subst ht; simp [SortedT]
      · exact ⟨by simp [SortedT, SortedA], by simp⟩
    · intro x hx s hs'
      simp only [List.mem_cons, List.not_mem_nil, or_false] at hx
      rcases hx with rfl | rfl
      · simp at hs'
      · exact hA.2 s hs'

example : parseFragment (printFragmentJ demoFragment) = some (normFragment demoFragment) :=
  fragment_roundtrip _ demoFragment_ok.1 demoFragment_ok.2

/-- … and that normal form, computed: the common-type reference of `Doc.c` is now entity-or-common, the half-empty `appliesTo` of
`half` is empty, `all` got the empty `ApplySpec`, the bare parent of `view doc` its `Action` type -/
example : (normFragment demoFragment).empty.map (fun d => d.actions.map fun x => (x.1, x.2.memberOf, x.2.appliesTo.map (·.resources)))
      = some [("half", none, some [])] ∧
    (normFragment demoFragment).named.map (fun x => x.2.actions.map fun y => (y.1, y.2.memberOf)) =
      [[("all", none), ("view doc", some [⟨some ⟨[], "Action"⟩, "all"⟩, ⟨some ⟨["NS"], "Action"⟩, "adm in"⟩])]] := by
  refine ⟨by decide, by decide⟩

/-! ## the `BTreeMap` collection of the parsed declarations (`Cedar/SchemaCollect.lean`, lemmas `Lemmas/SchemaCollect.lean`) -/

/-- WHOLE FRAGMENT, COLLECTED: for a JSON fragment with the `BTreeMap` invariant at every level (`FragKeysOK`: keys distinct and in
key order — `SmolStr` order for declaration names, the derived `InternalName` order, basename first, for namespace names), printing,
parsing, the duplicate checks of `build_namespace_bindings` and the `BTreeMap` collection give exactly `normFragment f`: nothing is
refused as a duplicate and no entry moves. -/
theorem fragment_roundtrip_collected (f : FragmentJ) (hw : WFFrag f) (hs : SortedFrag f) (hk : FragKeysOK f) :
    parseFragmentCollected (printFragmentJ f) = .ok (normFragment f) := by
  simp only [parseFragmentCollected, fragment_roundtrip f hw hs]
  exact collectFragment_of_keysOK _ (fragKeysOK_normFragment f hk)

/-- the same statement with the two stages visible -/
theorem fragment_roundtrip_collected_bind (f : FragmentJ) (hw : WFFrag f) (hs : SortedFrag f) (hk : FragKeysOK f) :
    (parseFragment (printFragmentJ f)).map collectFragment = some (.ok (normFragment f)) := by
  rw [fragment_roundtrip f hw hs]
  simp [collectFragment_of_keysOK _ (fragKeysOK_normFragment f hk)]

theorem demoFragment_keysOK : FragKeysOK demoFragment := by
  refine ⟨?_, ?_, ?_⟩
  · intro d hd
    simp only [demoFragment, Option.some.injEq] at hd
    subst hd
    refine ⟨?_, ?_, ?_⟩ <;> simp [KeysSorted] <;> decide +kernel
  · intro x hx
    simp only [demoFragment, List.mem_cons, List.not_mem_nil, or_false] at hx
    subst hx
    refine ⟨?_, ?_, ?_⟩ <;> simp [KeysSorted] <;> decide +kernel
  · simp [demoFragment]

example : parseFragmentCollected (printFragmentJ demoFragment) = .ok (normFragment demoFragment) :=
  fragment_roundtrip_collected _ demoFragment_ok.1 demoFragment_ok.2 demoFragment_keysOK

/-- some namespace of the fragment declares an entity type, an action or a common type twice -/
def DupDecl (f : FragmentJ) : Prop :=
  ∃ d, (f.empty = some d ∨ ∃ q, (q, d) ∈ f.named) ∧
    (hasDupKeys (d.entities.map (·.1)) = true ∨ hasDupKeys (d.actions.map (·.1)) = true ∨ hasDupKeys (d.commons.map (·.1)) = true)

theorem dupDecl_iff (f : FragmentJ) : DupDecl f ↔ (f.named.any (fun x => nsHasDup x.2) || optNsHasDup f.empty) = true := by
  simp only [DupDecl, Bool.or_eq_true, List.any_eq_true]
  constructor
  · rintro ⟨d, hd | ⟨q, hq⟩, h⟩
    · right; simpa [hd, optNsHasDup, nsHasDup, or_assoc] using h
    · left; exact ⟨(q, d), hq, by simpa [nsHasDup, or_assoc] using h⟩
  · rintro (⟨x, hx, h⟩ | h)
    · exact ⟨x.2, Or.inr ⟨x.1, hx⟩, by simpa [nsHasDup, or_assoc] using h⟩
    · cases he : f.empty with
      | none => simp [he, optNsHasDup] at h
      | some d => exact ⟨d, Or.inl rfl, by simpa [he, optNsHasDup, nsHasDup, or_assoc] using h⟩

/-- DUPLICATES are refused with the modelled error class, and only they are refused: a repeated entity-type / action / common-type
name in one namespace is `DuplicateDeclarations` (whatever else the fragment contains); otherwise a repeated namespace name is
`DuplicateNameSpaces`; otherwise the fragment is accepted (its entries sorted).  A name declared BOTH as an entity type and as a
common type is no duplicate (`collect_allows_entity_common_clash`). -/
theorem collect_rejects_duplicates (f : FragmentJ) :
    (DupDecl f → collectFragment f = .error .duplicateDecl) ∧
    (¬ DupDecl f → hasDupKeys (f.named.map (·.1)) = true → collectFragment f = .error .duplicateNamespace) ∧
    (¬ DupDecl f → hasDupKeys (f.named.map (·.1)) = false → ∃ g, collectFragment f = .ok g) := by
  refine ⟨?_, ?_, ?_⟩
  · intro h
    simp [collectFragment, (dupDecl_iff f).1 h]
  · intro h h2
    have : (f.named.any (fun x => nsHasDup x.2) || optNsHasDup f.empty) = false := by
      cases hb : (f.named.any (fun x => nsHasDup x.2) || optNsHasDup f.empty) with
      | false => rfl
      | true => exact absurd ((dupDecl_iff f).2 hb) h
    simp [collectFragment, this, h2]
  · intro h h2
    have : (f.named.any (fun x => nsHasDup x.2) || optNsHasDup f.empty) = false := by
      cases hb : (f.named.any (fun x => nsHasDup x.2) || optNsHasDup f.empty) with
      | false => rfl
      | true => exact absurd ((dupDecl_iff f).2 hb) h
    simp [collectFragment, this, h2]

/-- the keys of one namespace: common types, entity types, actions -/
structure NsKeys where
  commons : List String
  entities : List String
  actions : List String
deriving DecidableEq, Repr

/-- what a text is answered: the error class, or the keys in collected order -/
structure CollectOutcome where
  err : Option DeclErr
  empty : Option NsKeys
  named : List (QName × NsKeys)
deriving DecidableEq, Repr

def nsKeysOf (d : NamespaceJ) : NsKeys := ⟨d.commons.map (·.1), d.entities.map (·.1), d.actions.map (·.1)⟩

def collectOutcome (toks : List Tok) : CollectOutcome :=
  match parseFragmentCollected toks with
  | .error e => ⟨some e, none, []⟩
  | .ok g => ⟨none, g.empty.map nsKeysOf, g.named.map fun x => (x.1, nsKeysOf x.2)⟩

/-- each duplicate kind, end to end from tokens: `entity A; entity A;` · `entity A, A;` · `entity A; entity A enum ["x"];` ·
`action a; action "a";` · `type T = Long; type T = Bool;` (all `DuplicateDeclarations`) · `namespace N {} namespace N {}`
(`DuplicateNameSpaces`) · a duplicate declaration wins over a duplicate namespace · the same name in DIFFERENT namespaces is fine -/
theorem collect_rejects_duplicates_examples :
    (collectOutcome [.id "entity", .id "A", .other ";", .id "entity", .id "A", .other ";"]).err = some .duplicateDecl ∧
    (collectOutcome [.id "entity", .id "A", .comma, .id "A", .other ";"]).err = some .duplicateDecl ∧
    (collectOutcome [.id "entity", .id "A", .other ";", .id "entity", .id "A", .id "enum", .other "[", .str "x", .other "]", .other ";"]).err = some .duplicateDecl ∧
    (collectOutcome [.id "action", .id "a", .other ";", .id "action", .str "a", .other ";"]).err = some .duplicateDecl ∧
    (collectOutcome [.id "type", .id "T", .other "=", .id "Long", .other ";", .id "type", .id "T", .other "=", .id "Bool", .other ";"]).err = some .duplicateDecl ∧
    (collectOutcome [.id "namespace", .id "N", .lb, .rb, .id "namespace", .id "N", .lb, .rb]).err = some .duplicateNamespace ∧
    (collectOutcome [.id "namespace", .id "N", .lb, .id "entity", .id "A", .comma, .id "A", .other ";", .rb, .id "namespace", .id "N", .lb, .rb]).err = some .duplicateDecl ∧
    collectOutcome [.id "namespace", .id "N", .lb, .id "entity", .id "A", .other ";", .rb, .id "entity", .id "A", .other ";"] =
      ⟨none, some ⟨[], ["A"], []⟩, [(⟨[], "N"⟩, ⟨[], ["A"], []⟩)]⟩ := by
  refine ⟨by decide +kernel, by decide +kernel, by decide +kernel, by decide +kernel, by decide +kernel, by decide +kernel,
    by decide +kernel, by decide +kernel⟩

/-- `entity T; type T = Long;`: entity names and common-type names are collected into different maps — NOT refused here (whether the
pair is usable is decided by name resolution: `envOK_needed_clash`) -/
theorem collect_allows_entity_common_clash :
    collectOutcome [.id "entity", .id "T", .other ";", .id "type", .id "T", .other "=", .id "Long", .other ";"] =
      ⟨none, some ⟨["T"], ["T"], []⟩, []⟩ := by decide +kernel

/-- the collection SORTS: declarations and namespaces written out of order come back in key order; namespace names are ordered by
BASENAME first (`B::A` before `A::B`: derived `Ord` of `InternalName`) -/
theorem collect_sorts_example :
    collectOutcome [.id "entity", .id "b", .comma, .id "a", .other ";", .id "action", .id "z", .comma, .str "A b", .other ";",
        .id "namespace", .id "A", .dcolon, .id "B", .lb, .rb, .id "namespace", .id "B", .dcolon, .id "A", .lb, .rb, .id "entity", .id "B", .other ";"] =
      ⟨none, some ⟨[], ["B", "a", "b"], ["A b", "z"]⟩, [(⟨["B"], "A"⟩, ⟨[], [], []⟩), (⟨["A"], "B"⟩, ⟨[], [], []⟩)]⟩ := by decide +kernel

/-! ## the refusal cases of fmt.rs (`Cedar/SchemaFmtCheck.lean`) -/

/-- some NAMED namespace declares the same name as an entity type and as a common type -/
def Collides (f : FragmentJ) : Prop :=
  ∃ x ∈ f.named, ∃ n, n ∈ x.2.entities.map (·.1) ∧ n ∈ x.2.commons.map (·.1)

theorem fragCollisions_eq_nil_iff (l : List (QName × NamespaceJ)) :
    fragCollisions l = [] ↔ ∀ x ∈ l, ∀ n, n ∈ x.2.entities.map (·.1) → ¬ n ∈ x.2.commons.map (·.1) := by
  induction l with
  | nil => simp [fragCollisions]
  | cons x rest ih =>
    obtain ⟨q, d⟩ := x
    simp only [fragCollisions, List.append_eq_nil_iff, ih, List.forall_mem_cons, nsCollisions, List.map_eq_nil_iff,
      List.filter_eq_nil_iff, List.contains_iff_mem]

theorem fragCollisions_ne_nil_iff (l : List (QName × NamespaceJ)) :
    fragCollisions l ≠ [] ↔ ∃ x ∈ l, ∃ n, n ∈ x.2.entities.map (·.1) ∧ n ∈ x.2.commons.map (·.1) := by
  constructor
  · intro h
    apply Classical.byContradiction
    intro hn
    exact h ((fragCollisions_eq_nil_iff l).2 fun x hx n he hc => hn ⟨x, hx, n, he, hc⟩)
  · rintro ⟨x, hx, n, he, hc⟩ h
    exact (fragCollisions_eq_nil_iff l).1 h x hx n he hc

/-- fmt.rs REFUSES EXACTLY on the modelled predicates: a fragment is refused iff a named namespace has an entity-type / common-type
name collision or some standard entity type's shape is not a record literal; the collision error has priority; otherwise the result
is the printed fragment. -/
theorem toCedar_refuses_iff (f : FragmentJ) (nonRec : List QName) :
    ((∃ e, toCedarChecked f nonRec = .error e) ↔ (Collides f ∨ nonRec ≠ [])) ∧
    (Collides f → ∃ l, l ≠ [] ∧ toCedarChecked f nonRec = .error (.nameCollisions l)) ∧
    (¬ Collides f → nonRec ≠ [] → toCedarChecked f nonRec = .error (.unconvertibleShape nonRec)) ∧
    (¬ Collides f → nonRec = [] → toCedarChecked f nonRec = .ok (printFragmentJ f)) := by
  have hc := fragCollisions_ne_nil_iff f.named
  unfold Collides
  rw [← hc]
  cases hfc : fragCollisions f.named with
  | cons c cs => simp [toCedarChecked, hfc]
  | nil =>
    cases nonRec with
    | nil => simp [toCedarChecked, hfc]
    | cons n ns => simp [toCedarChecked, hfc]

/-- a collision in namespace `NS` is refused (with the qualified name); the same collision in the EMPTY namespace is not -/
example :
    toCedarChecked ⟨none, [(⟨[], "NS"⟩, ⟨[("T", .long)], [("T", .standard ⟨[], .nil, none⟩)], []⟩)]⟩ = .error (.nameCollisions [⟨["NS"], "T"⟩]) ∧
    toCedarChecked ⟨some ⟨[("T", .long)], [("T", .standard ⟨[], .nil, none⟩)], []⟩, []⟩ =
      .ok [.id "type", .id "T", .other "=", .id "__cedar", .dcolon, .id "Long", .other ";", .id "entity", .id "T", .other ";"] := by
  refine ⟨by decide +kernel, by decide +kernel⟩

/-- FINDING 1 (C09-entity-ref-rebinds-to-common-type-empty-namespace) IS NOT COVERED BY THE CHECK: the empty namespace declares `T` as
a common type and as an entity type and `U.x` is the must-be-entity reference `{"type":"Entity","name":"T"}`.  fmt.rs does not refuse
(the collision check skips the empty namespace), prints the reference as the bare `T`, and in the fragment's own declaration
environment — exactly the one of `envOK_needed_clash` — the entity reference resolves to the entity type, the printed `T` to the
common type. -/
theorem finding_clash_not_refused :
    let f : FragmentJ := ⟨some ⟨[("T", .long)],
        [("T", .standard ⟨[], .nil, none⟩), ("U", .standard ⟨[], .cons "x" true (.entity ⟨[], "T"⟩) .nil, none⟩)], []⟩, []⟩
    toCedarChecked f = .ok [.id "type", .id "T", .other "=", .id "__cedar", .dcolon, .id "Long", .other ";", .id "entity", .id "T", .other ";",
        .id "entity", .id "U", .other "=", .lb, .id "x", .colon, .id "T", .rb, .other ";"] ∧
    (envOfFragment f).commons = [⟨[], "T"⟩] ∧ (envOfFragment f).entities = [⟨[], "T"⟩, ⟨[], "U"⟩] ∧
    resolveRef (envOfFragment f) [] .entity ⟨[], "T"⟩ = some (.entity ⟨[], "T"⟩) ∧
    resolveRef (envOfFragment f) [] .either ⟨[], "T"⟩ = some (.common ⟨[], "T"⟩) := by
  refine ⟨by decide +kernel, by decide +kernel, by decide +kernel, by decide +kernel, by decide +kernel⟩

/-- FINDING 2 (C09-common-ref-rebinds-to-entity-type) IS NOT COVERED EITHER: namespace `A` declares an entity type `ipaddr` and `E.x` is
the must-be-common reference `{"type":"ipaddr"}`.  No common type is declared, so nothing collides; fmt.rs prints the bare `ipaddr`,
which in `A` resolves to the entity type `A::ipaddr` while the original resolved to the builtin alias. -/
theorem finding_shadow_not_refused :
    let f : FragmentJ := ⟨none, [(⟨[], "A"⟩, ⟨[],
        [("E", .standard ⟨[], .cons "x" true (.commonRef ⟨[], "ipaddr"⟩) .nil, none⟩), ("ipaddr", .standard ⟨[], .nil, none⟩)], []⟩)]⟩
    toCedarChecked f = .ok [.id "namespace", .id "A", .lb, .id "entity", .id "E", .other "=", .lb, .id "x", .colon, .id "ipaddr", .rb, .other ";",
        .id "entity", .id "ipaddr", .other ";", .rb] ∧
    (envOfFragment f).commons = [] ∧ (envOfFragment f).entities = [⟨["A"], "E"⟩, ⟨["A"], "ipaddr"⟩] ∧
    resolveRef (envOfFragment f) ["A"] .common ⟨[], "ipaddr"⟩ = some (.common ⟨[], "ipaddr"⟩) ∧
    resolveRef (envOfFragment f) ["A"] .either ⟨[], "ipaddr"⟩ = some (.entity ⟨["A"], "ipaddr"⟩) := by
  refine ⟨by decide +kernel, by decide +kernel, by decide +kernel, by decide +kernel, by decide +kernel⟩

/-- an entity type whose shape is a common-type reference (not expressible as `EntityTypeJ`) is refused when nothing collides -/
example : toCedarChecked ⟨none, [(⟨[], "NS"⟩, ⟨[("S", .record .nil)], [], []⟩)]⟩ [⟨["NS"], "E"⟩] = .error (.unconvertibleShape [⟨["NS"], "E"⟩]) := by
  decide +kernel

/-! ## annotations (`Cedar/SchemaAnnot.lean`, lemmas `Lemmas/SchemaAnnot.lean`) -/

/-- an ANNOTATION MAP (`est::Annotations`: identifier keys in `BTreeMap` order, values optional) printed by `Annotations::fmt_indented`
(`@key("value")`, `@key` for an absent value) and read by the grammar's `Annotation*` + `deduplicate_annotations` comes back as
`normAnns` of itself: same keys, same values, an ABSENT value (`null` in JSON) becomes `""`.  `R` is what follows (a declaration, the
`namespace` keyword, `}` or the end of the input — anything not starting with a punctuation token like `@` or `(`). -/
theorem annotations_roundtrip (a : AnnsJ) (hw : WFAnns a) (hk : KeysSorted a) (R : List Tok) (hR : startsId R = true) :
    parseAnnotations (printAnns a ++ R) = some (normAnns a, R) :=
  parseAnnotations_print a hw hk R hR

example : parseAnnotations (printAnns [("doc", some "a \"doc\""), ("if", none), ("z", some "")] ++ [.id "entity", .id "E", .other ";"]) =
    some ([("doc", some "a \"doc\""), ("if", some ""), ("z", some "")], [.id "entity", .id "E", .other ";"]) :=
  annotations_roundtrip _ (by intro x hx; simp at hx; rcases hx with rfl | rfl | rfl <;> decide +kernel)
    (by simp [KeysSorted]; decide +kernel) _ (by decide +kernel)

/-- what the parser does beyond the printed forms: annotations in any order are SORTED, a repeated key is refused
(`DuplicateAnnotations`), a key must be identifier-shaped, the value a single string literal in parentheses -/
theorem annotations_parser_accepts_more :
    parseAnnotations [.other "@", .id "z", .other "@", .id "a", .other "(", .str "v", .other ")", .id "type"] =
      some ([("a", some "v"), ("z", some "")], [.id "type"]) ∧
    parseAnnotations [.other "@", .id "a", .other "@", .id "a", .other "(", .str "v", .other ")", .id "type"] = none ∧
    parseAnnotations [.other "@", .str "a", .id "type"] = none ∧
    parseAnnotations [.other "@", .id "a b", .id "type"] = none ∧
    parseAnnotations [.id "type"] = some ([], [.id "type"]) := by
  refine ⟨by decide +kernel, by decide +kernel, by decide +kernel, by decide +kernel, by decide +kernel⟩

/-- the absent-value normalisation is a genuine change of the JSON fragment: `{"annotations": {"a": null}}` comes back as
`{"annotations": {"a": ""}}` (both denote the annotation value `""`: `Annotation::with_optional_value`) -/
theorem annotation_null_becomes_empty :
    parseAnnotations (printAnns [("a", none)] ++ [.id "entity"]) = some ([("a", some "")], [.id "entity"]) := by decide +kernel

/-- an ANNOTATED NAMESPACE BODY (`Annotated<Decl>*`): common types, entity types of both kinds and actions, each with its annotation
map, printed by `NamespaceDefinition::fmt_indented` and read by the grammar, come back as the Cedar declarations the un-annotated
theorems talk about (`fragment_roundtrip`), each with `normAnns` of its annotations; `rest` is what follows the body (`}` or the
end of the input). -/
theorem annotated_namespace_roundtrip (d : NamespaceA) (hw : WFNs d.strip) (ha : AnnsOKNs d) (fuel : Nat)
    (rest : List Tok) (hr : isDeclStart rest = false) (hs : startsId rest = true) (hf : nsCount d.strip < fuel) :
    parseDeclListA fuel (printNsA d ++ rest) =
      some ((triplesOfNsA d).map (fun x => (normAnns x.1, x.2.2)), rest) := by
  have h := parseDeclListA_triples (triplesOfNsA d) fuel rest (good_triplesOfNsA d hw ha) hr hs
    (by simpa [triplesOfNsA, nsCount, NamespaceA.strip] using (by simp [nsCount, NamespaceA.strip] at hf; omega))
  rwa [printTriples_nsA] at h

/-- forgetting the annotations of the parsed body gives exactly the declarations of the un-annotated theorem (`declsOfNs`), so
`convertDecls` (to_json_schema.rs) turns them into `normNs d.strip` as in `fragment_roundtrip` -/
theorem annotated_namespace_strip (d : NamespaceA) : (triplesOfNsA d).map (·.2.2) = declsOfNs d.strip := by
  simp [triplesOfNsA, declsOfNs, pairsOfNs, pairsOfCommons, pairsOfEntities, pairsOfActions, NamespaceA.strip, Function.comp_def]

/-- `@doc("types") type Ctx = {…};  @a @b("x") entity Color enum [..];  action "view doc" …;` followed by `}` -/
def demoNsA : NamespaceA :=
  { commons := [([("doc", some "types")], "Ctx", .record (.cons "ip" false (.ext "ipaddr") .nil))],
    entities := [([("a", none), ("b", some "x")], "Color", .enum ["red", "dark blue"])],
    actions := [([], "view doc", demoAction)] }

theorem demoNsA_ok : WFNs demoNsA.strip ∧ AnnsOKNs demoNsA := by
  refine ⟨?_, ?_⟩
  · refine ⟨?_, ?_, ?_⟩
    · intro x hx
      simp only [demoNsA, NamespaceA.strip, List.map_cons, List.map_nil, List.mem_cons, List.not_mem_nil, or_false] at hx
      subst hx
      refine ⟨by decide, by decide, by decide, ?_⟩
      simp [WFJ, WFAJ]; decide
    · intro x hx
      simp only [demoNsA, NamespaceA.strip, List.map_cons, List.map_nil, List.mem_cons, List.not_mem_nil, or_false] at hx
      subst hx
      exact ⟨by decide, by decide, by simp⟩
    · intro x hx
      simp only [demoNsA, NamespaceA.strip, List.map_cons, List.map_nil, List.mem_cons, List.not_mem_nil, or_false] at hx
      subst hx
      exact demoAction_wf.1
  · refine ⟨?_, ?_, ?_⟩ <;> intro x hx <;>
      simp only [demoNsA, List.mem_cons, List.not_mem_nil, or_false] at hx <;> subst hx
    · exact ⟨by intro y hy; simp at hy; subst hy; decide +kernel, by simp [KeysSorted]⟩
    · exact ⟨by intro y hy; simp at hy; rcases hy with rfl | rfl <;> decide +kernel, by simp [KeysSorted]; decide +kernel⟩
    · exact ⟨by intro y hy; simp at hy, by simp [KeysSorted]⟩

example : ∃ ds, parseDeclListA 10 (printNsA demoNsA ++ [.rb]) = some (ds, [.rb]) ∧
    ds.map (·.1) = [[("doc", some "types")], [("a", some ""), ("b", some "x")], []] :=
  ⟨_, annotated_namespace_roundtrip demoNsA demoNsA_ok.1 demoNsA_ok.2 10 [.rb] (by decide) (by decide) (by decide), by decide +kernel⟩

/-- WHOLE ANNOTATED FRAGMENT: annotations on `namespace` blocks and on every declaration (`FragmentA`; the empty namespace has none of
its own, as the JSON deserialiser demands).  The printed fragment parses (`parseItemsA`: `Annotated<Namedspace> | Annotated<Decl>`) to
`itemsOfA f` — every annotation map in its `normAnns` form (same keys and values, absent value ↦ `""`) — and, forgetting the
annotations, these are exactly the items of the un-annotated theorem, which to_json_schema.rs converts to `normFragment f.strip`.
Not covered: annotations on record ATTRIBUTES (inside type expressions), and the JSON-side pairing of each converted entry with its
annotations (`convert_entity_decl` clones the annotations of a multi-name declaration onto every name; trivial for printed
fragments, where every declaration has one name). -/
theorem annotated_fragment_roundtrip (f : FragmentA) (hw : WFFragA f) (hs : SortedFrag f.strip) :
    parseItemsA ((printFragmentA f).length + 1) (printFragmentA f) = some (itemsOfA f) ∧
    toJsonFragment ((itemsOfA f).map ItemA.strip) = some (normFragment f.strip) := by
  refine ⟨parseItemsA_fragment f hw.1 hw.2, ?_⟩
  rw [itemsOfA_strip]
  exact toJsonFragment_itemsOf f.strip (wfFrag_strip f hw) hs

/-- `@doc("ns") @internal namespace NS { <demoNsA> }` -/
def demoFragmentA : FragmentA := ⟨none, [(⟨[], "NS"⟩, [("doc", some "ns"), ("internal", none)], demoNsA)]⟩

example : ∃ its, parseItemsA ((printFragmentA demoFragmentA).length + 1) (printFragmentA demoFragmentA) = some its ∧
    its.map (fun | .ns a q ds => (a, q, ds.map (·.1)) | .decl a _ => (a, ⟨[], ""⟩, [])) =
      [([("doc", some "ns"), ("internal", some "")], ⟨[], "NS"⟩, [[("doc", some "types")], [("a", some ""), ("b", some "x")], []])] := by
  refine ⟨_, (annotated_fragment_roundtrip demoFragmentA ⟨by intro d hd; simp [demoFragmentA] at hd, ?_⟩ ?_).1, by decide +kernel⟩
  · intro x hx
    simp only [demoFragmentA, List.mem_cons, List.not_mem_nil, or_false] at hx
    subst hx
    refine ⟨by simp [QName.comps]; decide, by decide, demoNsA_ok.1, ?_, ?_, demoNsA_ok.2⟩
    · intro y hy; simp at hy; rcases hy with rfl | rfl <;> decide +kernel
    · simp [KeysSorted]; decide +kernel
  · refine ⟨by intro d hd; simp [demoFragmentA, FragmentA.strip] at hd, ?_⟩
    intro x hx
    simp only [demoFragmentA, FragmentA.strip, List.map_cons, List.map_nil, List.mem_cons, List.not_mem_nil, or_false] at hx
    subst hx
    refine ⟨?_, ?_, ?_⟩ <;> intro y hy <;>
      simp only [demoNsA, NamespaceA.strip, List.map_cons, List.map_nil, List.mem_cons, List.not_mem_nil, or_false] at hy <;> subst hy
    · simp [SortedT, SortedA, keysJ]
    · trivial
    · exact demoAction_wf.2

end Cedar.C09
