import CedarVerif.Lemmas.SchemaSyntax
import CedarVerif.Lemmas.SchemaDecl
/-
C09 — the JSON and the Cedar schema syntaxes denote the same schema.

What is proved here (about the model `Cedar/SchemaSyntax.lean`, tied to the code by the `sty print|parse|resolve` differential run):
  * `type_roundtrip`        the parser of the Cedar type grammar inverts the printer of fmt.rs on every Cedar type expression
                            (arbitrary attribute names — quoted exactly when `is_normalized_ident` fails —, `Set` used as a name, `__cedar::` paths);
  * `type_roundtrip_json`   JSON type expression → printed → parsed → JSON = the expression with every leaf turned into an
                            entity-or-common reference (`eocForm`), records unchanged (BTreeMap order);
  * `type_roundtrip_cedar_form`  … which is the expression itself when it has only entity-or-common leaves;
  * `resolve_stable`        on declaration environments without common/entity clashes and without shadowing of empty-namespace
                            definitions (`EnvOK`), turning references into entity-or-common references does not change what any
                            reference resolves to (RFC 24 priorities, namespace-then-empty-namespace, builtin aliases, `__cedar::`);
  * `envOK_needed_clash`, `envOK_needed_shadow`  both hypotheses are necessary (these are the two translation defects the
                            four-way run found in the implementation: fmt.rs checks clashes only in non-empty namespaces);
  * `translation_preserves_types_partial`  the two combined: a resolvable type expression re-reads, after translation, as an
                            expression that resolves to the same thing.
  * `decl_roundtrip`        DECLARATION LEVEL (`Cedar/SchemaDecl.lean`): for standard entity declarations — names (one or several),
                            `memberOf` list, shape = attribute declarations with optional (`?`) fields, `tags` type — the parser of the
                            grammar's `Entity` production inverts the printer of fmt.rs (` in [..]` only when non-empty, ` = {..}` only
                            for a non-empty shape, ` tags T` when present);
  * `decl_roundtrip_json`   a JSON `entityTypes` entry → printed → parsed → JSON entries = the same entry with every type leaf an
                            entity-or-common reference (shape and tags as in `type_roundtrip_json`, `memberOf` unchanged);
  * `decl_parser_accepts_more`  the forms only the Cedar syntax has (several names, no `=`, a bare path after `in`, `{}`) parse to the
                            expected data (examples).
NOT modelled (covered only by the four-way differential run of harness/src/c09.rs): the other declarations (enum entities, action
declarations with `in` / `appliesTo` / context, common-type and namespace declarations), annotations, the lexer and string escapes, the
collision / unconvertible-shape checks of fmt.rs, JSON (de)serialisation, and everything `ValidatorSchema` construction does after
name resolution (common-type inlining, cycle detection, hierarchy closure, action entities).
-/
namespace Cedar.C09
open Cedar.SchemaSyntax

/-- an implementation of both syntaxes -/
structure Impl where
  SchemaJson : Type
  SchemaCedar : Type
  Loaded : Type
  loadJson : SchemaJson → Option Loaded
  loadCedar : SchemaCedar → Option Loaded
  jsonToCedar : SchemaJson → Option SchemaCedar
  cedarToJson : SchemaCedar → Option SchemaJson

/-- the property at full strength: for every accepted schema, whenever translation succeeds, loading the translation gives
the same resolved schema (entity types, attribute/tag types and optionality, memberOf, enum ids, actions, groups, appliesTo,
contexts).  Only the type-expression / name-resolution part is proved below (`…_partial`). -/
def FullStatement (I : Impl) : Prop :=
  (∀ j a c, I.loadJson j = some a → I.jsonToCedar j = some c → I.loadCedar c = some a) ∧
  (∀ c a j, I.loadCedar c = some a → I.cedarToJson c = some j → I.loadJson j = some a)

/-- parse ∘ print = id on Cedar type expressions -/
theorem type_roundtrip (c : TyCedar) (h : WFC c) : parseCedar (printC c) = some c := by
  have := parseC_print c h ((printC c).length + 1) [] (by have := sizeC_le_length c; omega) (by simp [OkRest])
  simp only [List.append_nil] at this
  simp [parseCedar, this]

example : parseCedar (printC (.record (.cons "has space" false (.set (.ident ⟨["A", "B"], "Set"⟩))
    (.cons "if" true (.ident ⟨[], "Set"⟩) (.cons "ok" true (.record .nil) .nil))))) =
    some (.record (.cons "has space" false (.set (.ident ⟨["A", "B"], "Set"⟩))
      (.cons "if" true (.ident ⟨[], "Set"⟩) (.cons "ok" true (.record .nil) .nil)))) := by
  apply type_roundtrip
  simp [WFC, WFA, QName.comps]
  decide

/-- quoting: the printed tokens of that record start `{ "has space" ? : Set < A :: B :: Set > , "if" : Set , ok : { } }` -/
example : printC (.record (.cons "has space" false (.ident ⟨[], "T"⟩) (.cons "if" true (.ident ⟨[], "T"⟩) (.cons "ok" true (.ident ⟨[], "T"⟩) .nil)))) =
    [.lb, .str "has space", .q, .colon, .id "T", .comma, .str "if", .colon, .id "T", .comma, .id "ok", .colon, .id "T", .rb] := by
  decide

/-- JSON → Cedar tokens → JSON -/
theorem type_roundtrip_json (τ : TyJson) (hw : WFJ τ) (hs : SortedT τ) : parseTy (printTy τ) = some (eocForm τ) := by
  simp [parseTy, printTy_eq_printC, type_roundtrip (toCedar τ) (wfc_toCedar τ hw), normalize_eq_eocForm τ hs]

/-- on expressions the Cedar syntax can write directly (all leaves entity-or-common references): parse ∘ print = id -/
theorem type_roundtrip_cedar_form (τ : TyJson) (hw : WFJ τ) (hs : SortedT τ) (hc : eocForm τ = τ) :
    parseTy (printTy τ) = some τ := by
  rw [type_roundtrip_json τ hw hs, hc]

example : parseTy (printTy (.record (.cons "a b" false (.set .long) (.cons "b" true (.entity ⟨["NS"], "User"⟩) .nil)))) =
    some (.record (.cons "a b" false (.set (.entityOrCommon ⟨["__cedar"], "Long"⟩)) (.cons "b" true (.entityOrCommon ⟨["NS"], "User"⟩) .nil))) := by
  have := type_roundtrip_json (.record (.cons "a b" false (.set .long) (.cons "b" true (.entity ⟨["NS"], "User"⟩) .nil)))
    (by simp [WFJ, WFAJ, QName.comps] <;> decide) (by simp [SortedT, SortedA, keysJ] <;> decide)
  simpa [eocForm, eocFormAttrs, cedarName] using this

mutual
/-- losing the kind of every reference (what translation through the Cedar syntax does) keeps every resolution -/
theorem resolve_stable (env : Env) (ok : EnvOK env) (hres : ∀ b, env.commons.contains (cedarName b) = false)
    (ns : List String) (τ : TyJson) (r : RTy) (h : resolveTy env ns τ = some r) :
    resolveTy env ns (eocForm τ) = some r := by
  match τ with
  | .bool =>
    simp only [resolveTy, Option.some.injEq] at h; subst h
    simpa [eocForm, resolveTy] using resolveLeaf_cedar env hres ns "Bool" (by decide)
  | .long =>
    simp only [resolveTy, Option.some.injEq] at h; subst h
    simpa [eocForm, resolveTy] using resolveLeaf_cedar env hres ns "Long" (by decide)
  | .string =>
    simp only [resolveTy, Option.some.injEq] at h; subst h
    simpa [eocForm, resolveTy] using resolveLeaf_cedar env hres ns "String" (by decide)
  | .ext n =>
    simp only [resolveTy] at h
    split at h
    · rename_i hx
      simp only [Option.some.injEq] at h; subst h
      simpa [eocForm, resolveTy] using resolveLeaf_cedar env hres ns n (ext_is_builtin n hx)
    · simp at h
  | .entity n =>
    simp only [resolveTy, resolveLeaf, Option.map_eq_some_iff] at h
    obtain ⟨x, hx, hc⟩ := h
    simp [eocForm, resolveTy, resolveLeaf, resolveRef_kind_stable env ok ns .entity n x hx, hc]
  | .commonRef n =>
    simp only [resolveTy, resolveLeaf, Option.map_eq_some_iff] at h
    obtain ⟨x, hx, hc⟩ := h
    simp [eocForm, resolveTy, resolveLeaf, resolveRef_kind_stable env ok ns .common n x hx, hc]
  | .entityOrCommon n => simpa [eocForm] using h
  | .set e =>
    simp only [resolveTy, Option.map_eq_some_iff] at h
    obtain ⟨x, hx, hc⟩ := h
    simp [eocForm, resolveTy, resolve_stable env ok hres ns e x hx, hc]
  | .record attrs =>
    simp only [resolveTy, Option.map_eq_some_iff] at h
    obtain ⟨x, hx, hc⟩ := h
    simp [eocForm, resolveTy, resolveAttrs_stable env ok hres ns attrs x hx, hc]
theorem resolveAttrs_stable (env : Env) (ok : EnvOK env) (hres : ∀ b, env.commons.contains (cedarName b) = false)
    (ns : List String) (a : AttrsJ) (r : List (String × Bool × RTy)) (h : resolveAttrs env ns a = some r) :
    resolveAttrs env ns (eocFormAttrs a) = some r := by
  match a with
  | .nil => simpa [eocFormAttrs] using h
  | .cons n req t rest =>
    simp only [resolveAttrs] at h
    split at h
    · rename_i t' rest' ht hrest
      simp [eocFormAttrs, resolveAttrs, resolve_stable env ok hres ns t t' ht, resolveAttrs_stable env ok hres ns rest rest' hrest]
      simpa using h
    · simp at h
end

/-- a harmless environment with a common type shadowing an extension type, an entity type shadowing a primitive, and actions -/
def demoEnv : Env := { commons := [⟨[], "ipaddr"⟩, ⟨["NS"], "Ctx"⟩], entities := [⟨["NS"], "User"⟩, ⟨[], "Long"⟩], actionNs := [["NS"]] }

/-- in `demoEnv`: `ipaddr` is the user's common type, `__cedar::ipaddr` the extension type, `Long` the user's entity type,
`{"type":"Long"}` the primitive, `Action` inside NS the action entity type — before and after translation -/
example : resolveRef demoEnv ["NS"] .either ⟨[], "ipaddr"⟩ = some (.common ⟨[], "ipaddr"⟩)
    ∧ resolveRef demoEnv ["NS"] .either ⟨["__cedar"], "ipaddr"⟩ = some (.common ⟨["__cedar"], "ipaddr"⟩)
    ∧ resolveRef demoEnv ["NS"] .either ⟨[], "Long"⟩ = some (.entity ⟨[], "Long"⟩)
    ∧ resolveRef demoEnv ["NS"] .entity ⟨[], "Action"⟩ = some (.entity ⟨["NS"], "Action"⟩)
    ∧ resolveRef demoEnv ["NS"] .common ⟨[], "Ctx"⟩ = some (.common ⟨["NS"], "Ctx"⟩)
    ∧ resolveRef demoEnv ["NS"] .either ⟨[], "decimal"⟩ = some (.common ⟨[], "decimal"⟩)
    ∧ resolveRef demoEnv ["NS"] .either ⟨[], "Nope"⟩ = none
    ∧ shadowing demoEnv = false := by decide

/-- `EnvOK.noClash` is necessary: empty namespace declares `T` as common type and as entity type; the must-be-entity reference
`{"type":"Entity","name":"T"}` resolves to the entity type, its translation `T` to the common type.
(Implementation: known finding C09-entity-ref-rebinds-to-common-type-empty-namespace.) -/
theorem envOK_needed_clash :
    let env : Env := { commons := [⟨[], "T"⟩], entities := [⟨[], "T"⟩], actionNs := [] }
    shadowing env = false ∧ resolveRef env [] .entity ⟨[], "T"⟩ = some (.entity ⟨[], "T"⟩)
      ∧ resolveRef env [] .either ⟨[], "T"⟩ = some (.common ⟨[], "T"⟩) := by decide

/-- `EnvOK.noShadow` is necessary (and the RFC 70 check does not imply it, since the builtin aliases are added after it):
namespace `A` declares an entity type `ipaddr`; the must-be-common reference `{"type":"ipaddr"}` written in `A` resolves to the
builtin alias, its translation `ipaddr` to the entity type `A::ipaddr`.
(Implementation: known finding C09-common-ref-rebinds-to-entity-type.) -/
theorem envOK_needed_shadow :
    let env : Env := { commons := [], entities := [⟨["A"], "ipaddr"⟩], actionNs := [] }
    shadowing env = false ∧ resolveRef env ["A"] .common ⟨[], "ipaddr"⟩ = some (.common ⟨[], "ipaddr"⟩)
      ∧ resolveRef env ["A"] .either ⟨[], "ipaddr"⟩ = some (.entity ⟨["A"], "ipaddr"⟩) := by decide

/-- the type-expression part of the property: a JSON type expression that resolves (in namespace `ns` of an `EnvOK` declaration
environment, which translation keeps: same namespaces, same declared names) is printed by `to_cedarschema` to tokens that parse,
and the parsed expression resolves to the same thing -/
theorem translation_preserves_types_partial (env : Env) (ok : EnvOK env) (hres : ∀ b, env.commons.contains (cedarName b) = false)
    (ns : List String) (τ : TyJson) (hw : WFJ τ) (hs : SortedT τ) (r : RTy) (h : resolveTy env ns τ = some r) :
    ∃ τ', parseTy (printTy τ) = some τ' ∧ resolveTy env ns τ' = some r :=
  ⟨eocForm τ, type_roundtrip_json τ hw hs, resolve_stable env ok hres ns τ r h⟩

/-! ## declaration level: standard entity declarations -/

/-- parse ∘ print = id on standard entity declarations (any number of names ≥ 1, any `memberOf` list, any shape with optional
fields, optional tags), for names the grammar's `Ident` accepts -/
theorem decl_roundtrip (d : EntityDecl) (h : WFD d) : parseEntityDecl (printEntity d) = some d := by
  have := parseEntity_print d h ((printEntity d).length + 1) (declFuel_le_length d) []
  simp only [List.append_nil] at this
  simp [parseEntityDecl, this]

/-- and with any continuation (the next declaration): the parser stops exactly after the `;` -/
theorem decl_roundtrip_prefix (d : EntityDecl) (h : WFD d) (fuel : Nat) (hf : declFuel d ≤ fuel) (rest : List Tok) :
    parseEntity fuel (printEntity d ++ rest) = some (d, rest) :=
  parseEntity_print d h fuel hf rest

/-- JSON entry → Cedar tokens → JSON entries -/
theorem decl_roundtrip_json (name : String) (e : EntityTypeJ) (hn : validId name = true) (hr : name ≠ "__cedar")
    (hm : ∀ q ∈ e.memberOf, ∀ c ∈ q.comps, validId c = true)
    (hws : WFJ (.record e.shape)) (hss : SortedT (.record e.shape))
    (hwt : ∀ t, e.tags = some t → WFJ t ∧ SortedT t) :
    (parseEntityDecl (printEntity (e.toDecl name))).map EntityDecl.toJsonTypes =
      some [(name, { memberOf := e.memberOf, shape := eocFormAttrs e.shape, tags := e.tags.map eocForm })] := by
  have hwf : WFD (e.toDecl name) := by
    refine ⟨by simp [EntityTypeJ.toDecl], ?_, hm, ?_, ?_⟩
    · intro n hn'; simp [EntityTypeJ.toDecl] at hn'; subst hn'; exact ⟨hn, hr⟩
    · have := wfc_toCedar (.record e.shape) hws
      simpa [toCedar, WFC, EntityTypeJ.toDecl] using this
    · intro t ht
      simp only [EntityTypeJ.toDecl, Option.map_eq_some_iff] at ht
      obtain ⟨tj, htj, rfl⟩ := ht
      exact wfc_toCedar tj (hwt tj htj).1
  rw [decl_roundtrip _ hwf]
  have hshape : collectJ .nil (toCedarAttrs e.shape) = eocFormAttrs e.shape := by
    have := normalize_eq_eocForm (.record e.shape) hss
    simpa [toCedar, toJson, eocForm] using this
  have htags : (e.tags.map toCedar).map toJson = e.tags.map eocForm := by
    cases ht : e.tags with
    | none => rfl
    | some t => simp [normalize_eq_eocForm t (hwt t ht).2]
  simp [EntityDecl.toJsonTypes, EntityTypeJ.toDecl, hshape, htags]

-- non-vacuity: every optional part present, an optional field, a quoted attribute name, a qualified parent
example : parseEntityDecl (printEntity ⟨["User"], [⟨["NS"], "Group"⟩, ⟨[], "Team"⟩],
      .cons "name" true (.ident ⟨[], "String"⟩) (.cons "has space" false (.set (.ident ⟨[], "Long"⟩)) .nil),
      some (.set (.ident ⟨[], "String"⟩))⟩) =
    some ⟨["User"], [⟨["NS"], "Group"⟩, ⟨[], "Team"⟩],
      .cons "name" true (.ident ⟨[], "String"⟩) (.cons "has space" false (.set (.ident ⟨[], "Long"⟩)) .nil),
      some (.set (.ident ⟨[], "String"⟩))⟩ := by
  apply decl_roundtrip
  refine ⟨by simp, ?_, ?_, ?_, ?_⟩ <;> simp [WFA, WFC, QName.comps] <;> decide

/-- what is printed: `entity User in [NS::Group, Team] = { name : String, "has space" ? : Set<Long> } tags Set<String> ;` -/
example : printEntity ⟨["User"], [⟨["NS"], "Group"⟩, ⟨[], "Team"⟩],
      .cons "name" true (.ident ⟨[], "String"⟩) (.cons "has space" false (.set (.ident ⟨[], "Long"⟩)) .nil),
      some (.set (.ident ⟨[], "String"⟩))⟩ =
    [.id "entity", .id "User", .id "in", .other "[", .id "NS", .dcolon, .id "Group", .comma, .id "Team", .other "]",
     .other "=", .lb, .id "name", .colon, .id "String", .comma, .str "has space", .q, .colon, .id "Set", .lt, .id "Long", .gt, .rb,
     .id "tags", .id "Set", .lt, .id "String", .gt, .other ";"] := by decide

/-- nothing optional: `entity E;` -/
example : parseEntityDecl (printEntity ⟨["E"], [], .nil, none⟩) = some ⟨["E"], [], .nil, none⟩ :=
  decl_roundtrip _ ⟨by simp, by simp; decide, by simp, by simp [WFA], by simp⟩

/-- the parser accepts the forms only the Cedar syntax has: several names, no `=`, a bare path after `in`, `{}` -/
theorem decl_parser_accepts_more :
    parseEntityDecl [.id "entity", .id "A", .comma, .id "B", .id "in", .id "G", .lb, .id "x", .colon, .id "Long", .rb, .other ";"] =
      some ⟨["A", "B"], [⟨[], "G"⟩], .cons "x" true (.ident ⟨[], "Long"⟩) .nil, none⟩ ∧
    parseEntityDecl [.id "entity", .id "A", .id "in", .other "[", .other "]", .other "=", .lb, .rb, .id "tags", .id "String", .other ";"] =
      some ⟨["A"], [], .nil, some (.ident ⟨[], "String"⟩)⟩ ∧
    parseEntityDecl [.id "entity", .id "A", .other "=", .other ";"] = none ∧
    parseEntityDecl [.id "entity", .id "A", .comma, .other ";"] = none ∧
    parseEntityDecl [.id "entity", .id "if", .other ";"] = none ∧
    parseEntityDecl [.id "entity", .id "__cedar", .other ";"] = none := by
  refine ⟨by rfl, by rfl, by rfl, by rfl, by rfl, by rfl⟩

end Cedar.C09
