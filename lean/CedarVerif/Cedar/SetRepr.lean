import CedarVerif.Cedar.Data
/-
Mirror of `ast::value::Set` (cedar-policy-core/src/ast/value.rs): the authoritative element collection
plus the optional all-literal `fast` representation, and the operations choosing their path exactly as
the Rust code does (`contains`, `is_subset`, `is_disjoint`, `eq`).  Import-free.
-/
namespace Cedar

def Value.asLit? : Value → Option Prim
  | .prim p => some p
  | _ => none

/-- `v.try_as_lit()` over all elements: `some` iff every element is a literal -/
def allLits? : List Value → Option (List Prim)
  | [] => some []
  | v :: vs => match v.asLit?, allLits? vs with
    | some p, some ps => some (p :: ps)
    | _, _ => none

structure SetRepr where
  authoritative : List Value
  fast : Option (List Prim)
deriving Repr, Inhabited

/-- `Set::new` / `FromIterator<Value>`: collect (dedup), then `fast` iff all elements are literals -/
def SetRepr.make (vs : List Value) : SetRepr :=
  let a := Value.mkSet vs
  { authoritative := a, fast := allLits? a }

/-- INVARIANT (FastRepr) of the Rust type -/
def SetRepr.FastRepr (s : SetRepr) : Prop := s.fast = allLits? s.authoritative

def SetRepr.contains (s : SetRepr) (v : Value) : Bool :=
  match s.fast, v with
  | some ls, .prim p => ls.contains p
  | some _, _ => false
  | none, _ => Value.elem v s.authoritative

def SetRepr.isSubset (s o : SetRepr) : Bool :=
  match s.fast, o.fast with
  | some l1, some l2 => l1.all (fun p => l2.contains p)
  | none, some _ => false
  | _, _ => Value.subset s.authoritative o.authoritative

def SetRepr.isDisjoint (s o : SetRepr) : Bool :=
  match s.fast, o.fast with
  | some l1, some l2 => !(l1.any (fun p => l2.contains p))
  | _, _ => !(s.authoritative.any (fun v => Value.elem v o.authoritative))

def SetRepr.eq (s o : SetRepr) : Bool :=
  match s.fast, o.fast with
  | some l1, some l2 => l1.all (fun p => l2.contains p) && l2.all (fun p => l1.contains p)
  | some _, none => false
  | none, some _ => false
  | none, none => Value.subset s.authoritative o.authoritative && Value.subset o.authoritative s.authoritative

end Cedar
