import CedarVerif.Cedar.SchemaDecl2
/-
C09, fragment level, part 3: the COLLECTION of the parsed declarations into the `BTreeMap`s of `json_schema::Fragment`
(to_json_schema.rs `cedar_schema_to_json_schema`):

  `build_namespace_bindings`   for every namespace (the named ones in source order, then the merged unqualified one)
     `NamespaceRecord::new`      `collect_decls` on the declared ENTITY names (standard and enum, every name of a multi-name
                                 declaration), then on the ACTION names, then on the COMMON-TYPE names: a repeated key is
                                 `ToJsonSchemaError::DuplicateDeclarations`.  Entity names and common-type names live in DIFFERENT
                                 maps: a name declared both as an entity type and as a common type is NOT an error here.
     `update_namespace_record`   a repeated namespace name is `ToJsonSchemaError::DuplicateNameSpaces` (only reached when no
                                 `NamespaceRecord::new` failed: `collect_all_errors(…)?` comes first).  The bare declarations are
                                 merged into ONE unqualified namespace beforehand, so the empty namespace is never a duplicate.
  `.collect()`                 into `BTreeMap<Option<Name>, NamespaceDefinition>` / `BTreeMap<CommonTypeId | UnreservedId | SmolStr, _>`:
                                 keys sorted (`SmolStr`: byte-wise = code-point-wise; `Name`: derived `Ord` of `InternalName`, BASENAME
                                 first, then the path, lexicographically); the key `None` (our `FragmentJ.empty`) comes first.

`collectFragment` works on the source-order entry lists returned by `parseFragment` (one entry per declared name, duplicates still
visible).  The error is the CLASS of the first error of Rust's error list.  Rust checks duplicates BEFORE converting declarations;
`parseFragmentCollected` converts first, so for a text with both a duplicate and a conversion error (e.g. `appliesTo` without
`resource`) the model answers `syntax` where Rust's list starts with the duplicate — on accepted texts and on texts with only one
kind of error they agree.
-/
namespace Cedar.SchemaSyntax

/-- error classes of `ToJsonSchemaError` seen at fragment level -/
inductive DeclErr where
  | syntax               -- parse error or a conversion error of a single declaration (`parseFragment = none`)
  | duplicateDecl        -- `DuplicateDeclarations`
  | duplicateNamespace   -- `DuplicateNameSpaces`
deriving DecidableEq, Repr

/-- `collect_decls`: is some key seen twice? -/
def hasDupKeys {κ : Type} [DecidableEq κ] : List κ → Bool
  | [] => false
  | k :: ks => ks.contains k || hasDupKeys ks

/-- `BTreeMap::insert` of an EARLIER entry into the map of the later ones (on an equal key the later entry stays) -/
def insertKey {κ α : Type} (lt : κ → κ → Bool) (k : κ) (v : α) : List (κ × α) → List (κ × α)
  | [] => [(k, v)]
  | (k', v') :: rest =>
    if lt k k' then (k, v) :: (k', v') :: rest
    else if lt k' k then (k', v') :: insertKey lt k v rest
    else (k', v') :: rest

/-- `.collect::<BTreeMap<_, _>>()` -/
def sortKeys {κ α : Type} (lt : κ → κ → Bool) : List (κ × α) → List (κ × α)
  | [] => []
  | (k, v) :: rest => insertKey lt k v (sortKeys lt rest)

/-- `Ord for SmolStr` -/
def strKeyLt (a b : String) : Bool := decide (a < b)

/-- derived `Ord for InternalName`: `id`, then `path` -/
def qnameKeyLt (a b : QName) : Bool := decide (a.base < b.base) || (a.base == b.base && decide (a.path < b.path))

/-- `NamespaceRecord::new`: entities, then actions, then common types -/
def nsHasDup (d : NamespaceJ) : Bool :=
  hasDupKeys (d.entities.map (·.1)) || hasDupKeys (d.actions.map (·.1)) || hasDupKeys (d.commons.map (·.1))

def sortNs (d : NamespaceJ) : NamespaceJ :=
  ⟨sortKeys strKeyLt d.commons, sortKeys strKeyLt d.entities, sortKeys strKeyLt d.actions⟩

def optNsHasDup : Option NamespaceJ → Bool
  | some d => nsHasDup d
  | none => false

/-- `build_namespace_bindings` + the `BTreeMap` collection -/
def collectFragment (f : FragmentJ) : Except DeclErr FragmentJ :=
  if f.named.any (fun x => nsHasDup x.2) || optNsHasDup f.empty then .error .duplicateDecl
  else if hasDupKeys (f.named.map (·.1)) then .error .duplicateNamespace
  else .ok ⟨f.empty.map sortNs, sortKeys qnameKeyLt (f.named.map fun x => (x.1, sortNs x.2))⟩

/-- Cedar tokens → collected JSON fragment -/
def parseFragmentCollected (toks : List Tok) : Except DeclErr FragmentJ :=
  match parseFragment toks with
  | none => .error .syntax
  | some f => collectFragment f

end Cedar.SchemaSyntax
