import CedarVerif.Cedar.SchemaDecl
/-
C09, declaration level, part 2: the REMAINING DECLARATIONS of the Cedar schema syntax and whole fragments.

JSON side (json_schema.rs): `ActionEntityUID` (`ActRef`), `ApplySpec` (`ApplySpecJ`), `ActionType` (`ActionJ`, without
`attributes`), `EntityTypeKind` (`EntityKindJ`: standard | enum), `NamespaceDefinition` (`NamespaceJ`: the three maps as entry
lists in `BTreeMap` iteration order), `Fragment` (`FragmentJ`: the empty namespace — `BTreeMap` key `None`, iterated first — and
the named namespaces in iteration order).

Printer = cedar_schema/fmt.rs on tokens:
  `NamespaceDefinition::fmt_indented`  common types, then entity types, then actions; `type N = T;`, `entity N<body>;`,
                                       `action "N"<body>;` (action names are ALWAYS printed as string literals)
  `EntityType::fmt_indented`           ` enum ["a", "b"]`
  `ActionType::fmt_indented`           ` in [T::"id", …]` only for a non-empty `member_of` (a parent without type prints `Action::"id"`);
                                       ` appliesTo { principal: [..], resource: [..], context: T }` only when BOTH lists are
                                       non-empty (otherwise NOTHING is printed: the other list and the context are lost);
                                       the context is always printed (`{}` for the empty record)
  `Fragment::fmt`                      the empty namespace's declarations bare, `namespace N { … }` for the others

Parser = cedar_schema/grammar.lalrpop (`Schema`, `Namespace`, `Decl`, `Entity` (both forms), `Action`, `TypeDecl`, `AppDecls`,
`QualName`, `Names`, `Eids`) followed by to_json_schema.rs (`cedar_schema_to_json_schema`: the top-level declarations are merged
into ONE unqualified namespace; `convert_action_decl`: an absent `appliesTo` becomes the empty `ApplySpec`; `convert_app_decls`:
duplicate / empty / missing principal or resource lists are errors, `context: Path` is a must-be-common reference;
`convert_qual_name`; `CommonTypeId::new`: reserved common-type names; `convert_namespace`: `__cedar` in a namespace name).
The parser returns the declared entries in SOURCE ORDER (one entry per declared name); the `BTreeMap` collection of these entries
(sorting, duplicate-key errors of `build_namespace_bindings`) is not modelled.  Annotations (`@…`) are not modelled.
-/
namespace Cedar.SchemaSyntax

/-! ## JSON side -/

/-- `json_schema::ActionEntityUID`: `{"id": …, "type": …?}` -/
structure ActRef where
  ty : Option QName
  id : String
deriving DecidableEq, Repr

/-- `json_schema::ApplySpec` -/
structure ApplySpecJ where
  principals : List QName
  resources : List QName
  context : TyJson

/-- `json_schema::ActionType` (`attributes` is not modelled: the Cedar syntax cannot write it) -/
structure ActionJ where
  memberOf : Option (List ActRef)
  appliesTo : Option ApplySpecJ

/-- `json_schema::EntityTypeKind` -/
inductive EntityKindJ where
  | standard (e : EntityTypeJ)
  | enum (choices : List String)

/-- `json_schema::NamespaceDefinition`: entries in `BTreeMap` order -/
structure NamespaceJ where
  commons : List (String × TyJson)
  entities : List (String × EntityKindJ)
  actions : List (String × ActionJ)

/-- `json_schema::Fragment` -/
structure FragmentJ where
  empty : Option NamespaceJ
  named : List (QName × NamespaceJ)

/-! ## Cedar side (cedar_schema/ast.rs) -/

/-- `EntityDecl` -/
inductive EntDeclC where
  | standard (d : EntityDecl)
  | enum (names : List String) (choices : List String)

/-- `AppDecl` -/
inductive AppItem where
  | pr (isPrincipal : Bool) (tys : List QName)
  | ctxPath (p : QName)
  | ctxRec (attrs : AttrsC)

/-- `ActionDecl` -/
structure ActionDeclC where
  names : List String
  parents : Option (List ActRef)
  app : Option (List AppItem)

/-- `Declaration` -/
inductive DeclC where
  | ent (d : EntDeclC)
  | action (d : ActionDeclC)
  | common (name : String) (ty : TyCedar)

/-- a top-level item of `Schema`: a `namespace` block or a bare declaration (its own unqualified `Namespace`) -/
inductive ItemC where
  | ns (name : QName) (decls : List DeclC)
  | decl (d : DeclC)

/-! ## printer (fmt.rs) -/

/-- `choices.iter().map(|e| "\"…\"").join(", ")` -/
def printStrs : List String → List Tok
  | [] => []
  | [s] => [.str s]
  | s :: rest => .str s :: .comma :: printStrs rest

/-- `entity N enum ["a", "b"];` -/
def printEnumJ (name : String) (choices : List String) : List Tok :=
  .id "entity" :: .id name :: .id "enum" :: tLbrack :: (printStrs choices ++ [tRbrack, tSemi])

def actionTy : QName := ⟨[], "Action"⟩

/-- `impl Display for ActionEntityUID`: `T::"id"`, `Action::"id"` without a type -/
def printActRef (r : ActRef) : List Tok := printName (r.ty.getD actionTy) ++ [.dcolon, .str r.id]

def printActRefs : List ActRef → List Tok
  | [] => []
  | [r] => printActRef r
  | r :: rest => printActRef r ++ .comma :: printActRefs rest

/-- ` in [..]` only for `Some(non-empty)` -/
def printParentsPart : Option (List ActRef) → List Tok
  | some (p :: ps) => .id "in" :: tLbrack :: (printActRefs (p :: ps) ++ [tRbrack])
  | _ => []

/-- ` appliesTo {principal: [..], resource: [..], context: T}` only when both lists are non-empty -/
def printAppliesPart : Option ApplySpecJ → List Tok
  | some ⟨p :: ps, r :: rs, ctx⟩ =>
    .id "appliesTo" :: .lb :: .id "principal" :: .colon :: tLbrack :: (printNames (p :: ps) ++ tRbrack :: .comma ::
      .id "resource" :: .colon :: tLbrack :: (printNames (r :: rs) ++ tRbrack :: .comma ::
      .id "context" :: .colon :: (printTy ctx ++ [.rb])))
  | _ => []

/-- `action "N"<body>;` -/
def printActionJ (name : String) (a : ActionJ) : List Tok :=
  .id "action" :: .str name :: (printParentsPart a.memberOf ++ (printAppliesPart a.appliesTo ++ [tSemi]))

/-- `type N = T;` -/
def printCommonJ (name : String) (t : TyJson) : List Tok :=
  .id "type" :: .id name :: tEq :: (printTy t ++ [tSemi])

def printEntityKindJ (name : String) : EntityKindJ → List Tok
  | .standard e => printEntity (e.toDecl name)
  | .enum cs => printEnumJ name cs

def printCommonsJ : List (String × TyJson) → List Tok
  | [] => []
  | (n, t) :: rest => printCommonJ n t ++ printCommonsJ rest

def printEntitiesJ : List (String × EntityKindJ) → List Tok
  | [] => []
  | (n, e) :: rest => printEntityKindJ n e ++ printEntitiesJ rest

def printActionsJ : List (String × ActionJ) → List Tok
  | [] => []
  | (n, a) :: rest => printActionJ n a ++ printActionsJ rest

/-- `NamespaceDefinition::fmt_indented` -/
def printNsJ (d : NamespaceJ) : List Tok :=
  printCommonsJ d.commons ++ (printEntitiesJ d.entities ++ printActionsJ d.actions)

def printNamedJ : List (QName × NamespaceJ) → List Tok
  | [] => []
  | (q, d) :: rest => .id "namespace" :: (printName q ++ .lb :: (printNsJ d ++ .rb :: printNamedJ rest))

/-- `impl Display for Fragment` -/
def printFragmentJ (f : FragmentJ) : List Tok :=
  (match f.empty with | some d => printNsJ d | none => []) ++ printNamedJ f.named

/-! ## parser (grammar.lalrpop) -/

/-- `Eids ']'`: `STR {',' STR} ']'` (NonEmptyComma: no trailing comma) -/
def parseEidsTail : List Tok → Option (List String × List Tok)
  | .str s :: .comma :: r =>
    (match parseEidsTail r with
      | some (ss, r') => some (s :: ss, r')
      | none => none)
  | .str s :: .other "]" :: r => some ([s], r)
  | _ => none

/-- `Entity`, both productions -/
def parseEntityAny (fuel : Nat) (toks : List Tok) : Option (EntDeclC × List Tok) :=
  match toks with
  | .id "entity" :: r =>
    (match parseIdents r with
      | some (names, .id "enum" :: .other "[" :: r1) =>
        (match parseEidsTail r1 with
          | some (cs, .other ";" :: r2) => if names.contains "__cedar" then none else some (.enum names cs, r2)
          | _ => none)
      | _ =>
        (match parseEntity fuel toks with
          | some (d, r') => some (.standard d, r')
          | none => none))
  | _ => none

/-- `Names := Name {',' Name}` -/
def parseNames : List Tok → Option (List String × List Tok)
  | t :: .comma :: r =>
    (match parseAttrNameTok t with
      | some n =>
        (match parseNames r with
          | some (ns, r') => some (n :: ns, r')
          | none => none)
      | none => none)
  | t :: r =>
    (match parseAttrNameTok t with
      | some n => some ([n], r)
      | none => none)
  | [] => none

/-- after the first identifier of a qualified name: `{'::' IDENT} '::' STR` -/
def parseQualTail : List Tok → Option (List String × String × List Tok)
  | .dcolon :: .str e :: r => some ([], e, r)
  | .dcolon :: .id s :: r =>
    if validId s then
      (match parseQualTail r with
        | some (cs, e, r') => some (s :: cs, e, r')
        | none => none)
    else none
  | _ => none

/-- `QualName := Name | Path '::' STR` -/
def parseQualName : List Tok → Option (ActRef × List Tok)
  | .str s :: r => some (⟨none, s⟩, r)
  | .id s :: r =>
    if validId s then
      (match r with
        | .dcolon :: _ =>
          (match parseQualTail r with
            | some (cs, e, r') => some (⟨some (QName.ofComps s cs), e⟩, r')
            | none => none)
        | _ => some (⟨none, s⟩, r))
    else none
  | _ => none

/-- `QualName {',' QualName} ']'` -/
def parseQualNamesTail : Nat → List Tok → Option (List ActRef × List Tok)
  | 0, _ => none
  | fuel + 1, toks =>
    match parseQualName toks with
    | some (q, .comma :: r) =>
      (match parseQualNamesTail fuel r with
        | some (qs, r') => some (q :: qs, r')
        | none => none)
    | some (q, .other "]" :: r) => some ([q], r)
    | _ => none

/-- `['in' QualNameOrQualNames]` -/
def parseParentsPart (fuel : Nat) (r1 : List Tok) : Option (Option (List ActRef) × List Tok) :=
  match r1 with
  | .id "in" :: .other "[" :: r =>
    (match parseQualNamesTail fuel r with
      | some (qs, r') => some (some qs, r')
      | none => none)
  | .id "in" :: r =>
    (match parseQualName r with
      | some (q, r') => some (some [q], r')
      | none => none)
  | _ => some (none, r1)

/-- one `AppDecls` item -/
def parseAppItem (fuel : Nat) : List Tok → Option (AppItem × List Tok)
  | .id "principal" :: .colon :: r =>
    (match parseEntTypes fuel r with
      | some (ts, r') => some (.pr true ts, r')
      | none => none)
  | .id "resource" :: .colon :: r =>
    (match parseEntTypes fuel r with
      | some (ts, r') => some (.pr false ts, r')
      | none => none)
  | .id "context" :: .colon :: .lb :: r =>
    (match parseC fuel (.lb :: r) with
      | some (.record as, r') => some (.ctxRec as, r')
      | _ => none)
  | .id "context" :: .colon :: .id s :: r =>
    (match parsePath s r with
      | some (.ident q, r') => some (.ctxPath q, r')
      | _ => none)
  | _ => none

/-- `AppDecls '}'`: items separated by commas, optional trailing comma -/
def parseAppDecls : Nat → List Tok → Option (List AppItem × List Tok)
  | 0, _ => none
  | fuel + 1, toks =>
    match parseAppItem fuel toks with
    | some (it, .rb :: r) => some ([it], r)
    | some (it, .comma :: .rb :: r) => some ([it], r)
    | some (it, .comma :: r) =>
      (match parseAppDecls fuel r with
        | some (its, r') => some (it :: its, r')
        | none => none)
    | _ => none

/-- `['appliesTo' '{' AppDecls '}']` -/
def parseAppliesPart (fuel : Nat) (r2 : List Tok) : Option (Option (List AppItem) × List Tok) :=
  match r2 with
  | .id "appliesTo" :: .lb :: r =>
    (match parseAppDecls fuel r with
      | some (its, r') => some (some its, r')
      | none => none)
  | .id "appliesTo" :: _ => none
  | _ => some (none, r2)

/-- `Action := 'action' Names ['in' …] ['appliesTo' '{' AppDecls '}'] ['attributes' '{' '}'] ';'` -/
def parseAction (fuel : Nat) : List Tok → Option (ActionDeclC × List Tok)
  | .id "action" :: r =>
    match parseNames r with
    | none => none
    | some (names, r1) =>
      match parseParentsPart fuel r1 with
      | none => none
      | some (parents, r2) =>
        match parseAppliesPart fuel r2 with
        | none => none
        | some (app, r3) =>
          match r3 with
          | .id "attributes" :: .lb :: .rb :: .other ";" :: r5 => some ({ names, parents, app }, r5)
          | .other ";" :: r5 => some ({ names, parents, app }, r5)
          | _ => none
  | _ => none

/-- json_schema.rs `CommonTypeId::new`: `is_reserved_schema_keyword` -/
def reservedCommonNames : List String := ["Bool", "Boolean", "Entity", "Extension", "Long", "Record", "Set", "String"]

/-- `TypeDecl := 'type' Ident '=' Type ';'` (+ `UnreservedId`, `CommonTypeId::new`) -/
def parseCommon (fuel : Nat) : List Tok → Option ((String × TyCedar) × List Tok)
  | .id "type" :: .id n :: .other "=" :: r =>
    if validId n && n != "__cedar" && !reservedCommonNames.contains n then
      (match parseC fuel r with
        | some (t, .other ";" :: r') => some ((n, t), r')
        | _ => none)
    else none
  | _ => none

/-- `Decl := Entity | Action | TypeDecl` (the nesting fuel of the type parser is the number of tokens) -/
def parseDecl (toks : List Tok) : Option (DeclC × List Tok) :=
  let fuel := toks.length + 1
  match toks with
  | .id "entity" :: _ =>
    (match parseEntityAny fuel toks with
      | some (d, r) => some (.ent d, r)
      | none => none)
  | .id "action" :: _ =>
    (match parseAction fuel toks with
      | some (d, r) => some (.action d, r)
      | none => none)
  | .id "type" :: _ =>
    (match parseCommon fuel toks with
      | some ((n, t), r) => some (.common n t, r)
      | none => none)
  | _ => none

def isDeclStart : List Tok → Bool
  | .id "entity" :: _ => true
  | .id "action" :: _ => true
  | .id "type" :: _ => true
  | _ => false

/-- `Decl*` (fuel bounds the number of declarations) -/
def parseDeclList : Nat → List Tok → Option (List DeclC × List Tok)
  | 0, _ => none
  | fuel + 1, toks =>
    if isDeclStart toks then
      match parseDecl toks with
      | some (d, r) =>
        (match parseDeclList fuel r with
          | some (ds, r') => some (d :: ds, r')
          | none => none)
      | none => none
    else some ([], toks)

/-- `Schema := Namespace*`, `Namespace := 'namespace' Path '{' Decl* '}' | Decl` (fuel bounds the number of items) -/
def parseItems : Nat → List Tok → Option (List ItemC)
  | 0, _ => none
  | _ + 1, [] => some []
  | fuel + 1, .id "namespace" :: .id s :: r =>
    (match parsePath s r with
      | some (.ident q, .lb :: r1) =>
        (match parseDeclList fuel r1 with
          | some (ds, .rb :: r2) =>
            -- `convert_namespace`: `Name::try_from(internal_name)` refuses `__cedar`
            if q.isReserved then none
            else (match parseItems fuel r2 with
              | some its => some (.ns q ds :: its)
              | none => none)
          | _ => none)
      | _ => none)
  | fuel + 1, toks =>
    match parseDecl toks with
    | some (d, r) =>
      (match parseItems fuel r with
        | some its => some (.decl d :: its)
        | none => none)
    | none => none

/-! ## Cedar AST → JSON form (to_json_schema.rs) -/

/-- `convert_entity_decl`: one entry per declared name -/
def EntDeclC.toJsonKinds : EntDeclC → List (String × EntityKindJ)
  | .standard d => d.toJsonTypes.map fun (n, e) => (n, .standard e)
  | .enum names cs => names.map fun n => (n, .enum cs)

/-- accumulator of `convert_app_decls` -/
structure AppAcc where
  p : Option (List QName)
  r : Option (List QName)
  c : Option TyJson

/-- `convert_app_decls`: `none` = duplicate / empty / missing principal or resource list, duplicate context -/
def convertApp : List AppItem → AppAcc → Option ApplySpecJ
  | [], acc =>
    (match acc.r, acc.p with
      | some r, some p => some ⟨p, r, acc.c.getD (.record .nil)⟩
      | _, _ => none)
  | .pr true ts :: rest, acc =>
    (match acc.p, ts with
      | some _, _ => none
      | none, [] => none
      | none, t :: ts => convertApp rest { acc with p := some (t :: ts) })
  | .pr false ts :: rest, acc =>
    (match acc.r, ts with
      | some _, _ => none
      | none, [] => none
      | none, t :: ts => convertApp rest { acc with r := some (t :: ts) })
  | .ctxPath q :: rest, acc =>
    (match acc.c with
      | some _ => none
      | none => convertApp rest { acc with c := some (.commonRef q) })
  | .ctxRec as :: rest, acc =>
    (match acc.c with
      | some _ => none
      | none => convertApp rest { acc with c := some (.record (collectJ .nil as)) })

/-- `convert_action_decl`: one entry per declared name; an absent `appliesTo` is the empty `ApplySpec` -/
def ActionDeclC.toJsonActions (d : ActionDeclC) : Option (List (String × ActionJ)) :=
  let spec : Option ApplySpecJ := match d.app with
    | none => some ⟨[], [], .record .nil⟩
    | some its => convertApp its ⟨none, none, none⟩
  match spec with
  | none => none
  | some spec => some (d.names.map fun n => (n, { memberOf := d.parents, appliesTo := some spec }))

/-- `TryFrom<Annotated<Namespace>> for NamespaceDefinition`: partition the declarations, convert, keep source order -/
def convertDecls : List DeclC → Option NamespaceJ
  | [] => some ⟨[], [], []⟩
  | d :: rest =>
    match convertDecls rest with
    | none => none
    | some ns =>
      match d with
      | .common n t => some { ns with commons := (n, toJson t) :: ns.commons }
      | .ent e => some { ns with entities := e.toJsonKinds ++ ns.entities }
      | .action a =>
        (match a.toJsonActions with
          | some l => some { ns with actions := l ++ ns.actions }
          | none => none)

/-- `split_unqualified_namespace` + `convert_namespace`: the bare declarations (in order) and the named namespaces (in order) -/
def convertItems : List ItemC → Option (List DeclC × List (QName × NamespaceJ))
  | [] => some ([], [])
  | .decl d :: rest =>
    (match convertItems rest with
      | some (u, n) => some (d :: u, n)
      | none => none)
  | .ns q ds :: rest =>
    (match convertDecls ds, convertItems rest with
      | some d, some (u, n) => some (u, (q, d) :: n)
      | _, _ => none)

/-- `cedar_schema_to_json_schema`: the unqualified namespace exists iff there is a bare declaration -/
def toJsonFragment (items : List ItemC) : Option FragmentJ :=
  match convertItems items with
  | none => none
  | some ([], n) => some ⟨none, n⟩
  | some (d :: u, n) =>
    (match convertDecls (d :: u) with
      | some e => some ⟨some e, n⟩
      | none => none)

/-- Cedar tokens → JSON fragment -/
def parseFragment (toks : List Tok) : Option FragmentJ :=
  match parseItems (toks.length + 1) toks with
  | some items => toJsonFragment items
  | none => none

/-- one complete action declaration → its JSON entries -/
def parseActionDecl (toks : List Tok) : Option (List (String × ActionJ)) :=
  match parseAction (toks.length + 1) toks with
  | some (d, []) => d.toJsonActions
  | _ => none

/-- one complete entity declaration of either form → its JSON entries -/
def parseEntityAnyDecl (toks : List Tok) : Option (List (String × EntityKindJ)) :=
  match parseEntityAny (toks.length + 1) toks with
  | some (d, []) => some d.toJsonKinds
  | _ => none

/-- one complete common-type declaration -/
def parseCommonDecl (toks : List Tok) : Option (String × TyJson) :=
  match parseCommon (toks.length + 1) toks with
  | some ((n, t), []) => some (n, toJson t)
  | _ => none

end Cedar.SchemaSyntax
