import CedarVerif.Cedar.Expr
/-
Structural equality of expressions (Rust: derived `PartialEq` ignoring source locations / `ExprShapeOnly`).
Shared by the policy-set model (C08) and the typechecker model (C03).  Import-free.
-/
namespace Cedar

/-! ### structural equality of expressions (Rust: derived `PartialEq` ignoring source locations) -/
mutual
def Expr.beq : Expr → Expr → Bool
  | .lit a, .lit b => a == b
  | .var a, .var b => a == b
  | .slot a, .slot b => a == b
  | .unknown n t, .unknown n' t' => n == n' && t == t'
  | .ite a b c, .ite a' b' c' => Expr.beq a a' && Expr.beq b b' && Expr.beq c c'
  | .and a b, .and a' b' => Expr.beq a a' && Expr.beq b b'
  | .or a b, .or a' b' => Expr.beq a a' && Expr.beq b b'
  | .unaryApp o a, .unaryApp o' a' => o == o' && Expr.beq a a'
  | .binaryApp o a b, .binaryApp o' a' b' => o == o' && Expr.beq a a' && Expr.beq b b'
  | .call f xs, .call f' xs' => f == f' && Expr.beqList xs xs'
  | .getAttr a k, .getAttr a' k' => Expr.beq a a' && k == k'
  | .hasAttr a k, .hasAttr a' k' => Expr.beq a a' && k == k'
  | .like a p, .like a' p' => Expr.beq a a' && p == p'
  | .is a t, .is a' t' => Expr.beq a a' && t == t'
  | .set xs, .set xs' => Expr.beqList xs xs'
  | .record kvs, .record kvs' => Expr.beqKVs kvs kvs'
  | _, _ => false
def Expr.beqList : List Expr → List Expr → Bool
  | [], [] => true
  | x :: xs, y :: ys => Expr.beq x y && Expr.beqList xs ys
  | _, _ => false
def Expr.beqKVs : List (String × Expr) → List (String × Expr) → Bool
  | [], [] => true
  | (k, x) :: xs, (k', y) :: ys => k == k' && Expr.beq x y && Expr.beqKVs xs ys
  | _, _ => false
end

end Cedar
