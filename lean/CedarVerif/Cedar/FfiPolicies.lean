import CedarVerif.Cedar.PolicySet
/-
C19 model, part 2: how the FFI assembles a policy set (cedar-policy/src/ffi/utils.rs).

Mirrors, function by function,
  * `ffi::Policy::parse(self, id: Option<PolicyId>)`            -> `PolicyDoc.parse`
  * `ffi::Template::parse` / `Template::parse_and_add_to_set`     -> `addTemplateStep`
  * `ffi::StaticPolicySet::parse` (Concatenated | Set | Map)      -> `StaticPolicySet.parse`
      - `PolicySet::from_str` (cedar-policy/src/api.rs; ids `policy{n}` by position in the text, from
        `cst::Policies::with_generated_policyids`, parser/cst_to_ast.rs)                   -> `fromStr`
      - `PolicySet::from_policies` (`set.add(policy)?` one by one, first error aborts)      -> `fromPolicies`
  * `ffi::TemplateLink::parse_and_add_to_set`                     -> `linkStep`
  * `ffi::PolicySet::parse`                                       -> `assembleSteps`, `assemble`
on top of the C08 model of the public `cedar_policy::PolicySet` (`ApiPolicySet.add / addTemplate / link`).

What is abstract (trusted, not modelled here): the text / EST-JSON parsers themselves (C05) and serde's decoding of
the JSON envelope. A document is represented by the parser's verdict on it:
  * a static-policy document = its format + `Option TemplateBody` (`none` = `Policy::parse` / `Policy::from_json`
    fails, which includes "a template was given"); the id the caller passes is *assigned* to the parsed body
    (`parse_policy(id, text)` builds the body with that id; `None` = the default id "policy0" for Cedar text,
    "JSON policy" for EST JSON);
  * a template document = `Option Template` (`none` = parse error, which includes "no slot");
  * a concatenated text = `Option (List ConcatItem)` (`none` = some policy of the text fails to parse/convert:
    `to_policyset` "fails on any error"), items in text order;
  * link values = `Option SlotVals` (`none` = some `EntityUid` fails to parse: "failed to parse link values").
`HashMap` arguments (`Map`, `templates`) are given as the list of their entries in the iteration order the Rust
code happens to see; every statement below holds for every such order.
Import-free (model files only), total, computable.
-/
namespace Cedar.FfiP

/-- `ffi::Policy` / `ffi::Template`: Cedar text or EST JSON -/
inductive Fmt where
  | cedar | json
deriving Repr, DecidableEq, Inhabited

/-- the id `Policy::parse(None, …)` / `Policy::from_json(None, …)` assigns -/
def Fmt.defaultId : Fmt → String
  | .cedar => "policy0"
  | .json => "JSON policy"

/-- a static-policy document and the parser's verdict on it -/
structure PolicyDoc where
  fmt : Fmt := .cedar
  parsed : Option TemplateBody
deriving Repr, Inhabited

/-- a template document and the parser's verdict on it -/
structure TemplateDoc where
  fmt : Fmt := .cedar
  parsed : Option Template
deriving Repr, Inhabited

/-- one statement of a concatenated policy text, as `to_policy_or_template` classifies it -/
inductive ConcatItem where
  | static (b : TemplateBody)
  | template (t : Template)
deriving Repr, Inhabited

/-- `ffi::StaticPolicySet` -/
inductive StaticPolicySet where
  | concatenated (parsed : Option (List ConcatItem))
  | set (docs : List PolicyDoc)
  | map (entries : List (String × PolicyDoc))
deriving Repr, Inhabited

/-- `ffi::TemplateLink` -/
structure TemplateLink where
  templateId : String
  newId : String
  values : Option SlotVals
deriving Repr, Inhabited

/-- `ffi::PolicySet` -/
structure FfiPolicySet where
  staticPolicies : StaticPolicySet := .set []
  templates : List (String × TemplateDoc) := []
  templateLinks : List TemplateLink := []
deriving Repr, Inhabited

/-- the `miette::Report`s of `ffi::PolicySet::parse`, by origin (messages are not modelled) -/
inductive Err where
  | parsePolicies                               -- "failed to parse policies from string"
  | templateInStatic                            -- "static policy set includes a template"
  | parsePolicy (id : Option String)            -- "failed to parse policy{ with id `id`} from string/JSON"
  | fromPolicies (e : PSError)                  -- the `PolicySetError` of `PolicySet::from_policies`
  | parseTemplate (id : String)                 -- "failed to parse template with id `id` from string/JSON"
  | addTemplate (id : String) (e : PSError)     -- "failed to add template with id `id` to policy set"
  | linkValues                                  -- "failed to parse link values"
  | link (e : PSError)                          -- the `PolicySetError` of `PolicySet::link`
deriving Repr, DecidableEq, Inhabited

/-- `ffi::Policy::parse(self, id)`: the body carries the given id, or the format's default id -/
def PolicyDoc.parse (d : PolicyDoc) (id : Option String) : Except Err TemplateBody :=
  match d.parsed with
  | none => .error (.parsePolicy id)
  | some b => .ok (b.newId (match id with | some i => i | none => d.fmt.defaultId))

/-- `PolicySet::from_policies` continued from `s`: `set.add(policy)?` for each policy, the first error aborts -/
def fromPoliciesFrom (s : ApiPolicySet) : List TemplateBody → Except PSError ApiPolicySet
  | [] => .ok s
  | b :: bs =>
    let r := s.add (linkStaticPolicy b).2
    match r.err with
    | some e => .error e
    | none => fromPoliciesFrom r.ps bs

/-- `PolicySet::from_policies` -/
def fromPolicies (bs : List TemplateBody) : Except PSError ApiPolicySet := fromPoliciesFrom {} bs

/-- the `.map(parse).filter_map(|r| r.map_err(|e| errs.push(e)).ok())` pipeline of the `Set` / `Map` arms:
parsed bodies and errors, both in input order -/
def parseDocs : List (Option String × PolicyDoc) → List TemplateBody × List Err
  | [] => ([], [])
  | (id, d) :: rest =>
    let (bs, es) := parseDocs rest
    match d.parse id with
    | .ok b => (b :: bs, es)
    | .error e => (bs, e :: es)

/-- the ids `with_generated_policyids` gives the statements of a text: `policy{n}`, n = position -/
def numbered : Nat → List ConcatItem → List ConcatItem
  | _, [] => []
  | n, .static b :: rest => .static (b.newId s!"policy{n}") :: numbered (n + 1) rest
  | n, .template t :: rest => .template (t.newId s!"policy{n}") :: numbered (n + 1) rest

def ConcatItem.isTemplate : ConcatItem → Bool
  | .template _ => true
  | .static _ => false

def staticBodies : List ConcatItem → List TemplateBody
  | [] => []
  | .static b :: rest => b :: staticBodies rest
  | .template _ :: rest => staticBodies rest

/-- `StaticPolicySet::parse`, arm `Concatenated`: `PolicySet::from_str`, then the check
`policies.templates().count() > 0`. `from_str` numbers every statement (templates included) by position; a set that
contains a template is refused, so only the all-static case builds a set: the statements are added in text order
(core `add_static`, which on the sets reachable here is the API's `add`: C08 `api_add_is_add_static`).
A failing add (impossible: the generated ids are distinct) is a `DuplicatePolicyId` parse error of `from_str`. -/
def fromStr (items : List ConcatItem) : Except (List Err) ApiPolicySet :=
  let its := numbered 0 items
  if its.any ConcatItem.isTemplate then .error [.templateInStatic]
  else match fromPolicies (staticBodies its) with
    | .ok s => .ok s
    | .error _ => .error [.parsePolicies]

/-- `ffi::StaticPolicySet::parse` -/
def StaticPolicySet.parse : StaticPolicySet → Except (List Err) ApiPolicySet
  | .concatenated none => .error [.parsePolicies]
  | .concatenated (some items) => fromStr items
  | .set docs =>
    let (bs, errs) := parseDocs (docs.map (fun d => (none, d)))
    if errs.isEmpty then
      match fromPolicies bs with
      | .ok s => .ok s
      | .error e => .error [.fromPolicies e]
    else .error errs
  | .map entries =>
    let (bs, errs) := parseDocs (entries.map (fun e => (some e.1, e.2)))
    if errs.isEmpty then
      match fromPolicies bs with
      | .ok s => .ok s
      | .error e => .error [.fromPolicies e]
    else .error errs

/-- one iteration of `self.templates.into_iter().for_each(…)`: `Template::parse_and_add_to_set(Some(id), &mut policies)`
with `.unwrap_or_else(|e| errs.push(e))` -/
def addTemplateStep (acc : ApiPolicySet × List Err) (e : String × TemplateDoc) : ApiPolicySet × List Err :=
  match e.2.parsed with
  | none => (acc.1, acc.2 ++ [.parseTemplate e.1])
  | some t =>
    let r := acc.1.addTemplate (t.newId e.1)
    match r.err with
    | some er => (r.ps, acc.2 ++ [.addTemplate e.1 er])
    | none => (r.ps, acc.2)

/-- one iteration of `self.template_links.into_iter().for_each(…)`: `TemplateLink::parse_and_add_to_set` -/
def linkStep (acc : ApiPolicySet × List Err) (l : TemplateLink) : ApiPolicySet × List Err :=
  match l.values with
  | none => (acc.1, acc.2 ++ [.linkValues])
  | some v =>
    let r := acc.1.link l.templateId l.newId v
    match r.err with
    | some er => (r.ps, acc.2 ++ [.link er])
    | none => (r.ps, acc.2)

/-- `ffi::PolicySet::parse` up to its last `if`: the set built and the errors collected.
A failing static part contributes its errors and the EMPTY set (`unwrap_or_else(|e| { errs.append(e); PolicySet::new() })`);
templates and links are still processed (and may produce follow-up errors). -/
def assembleSteps (f : FfiPolicySet) : ApiPolicySet × List Err :=
  let start : ApiPolicySet × List Err :=
    match f.staticPolicies.parse with
    | .ok s => (s, [])
    | .error es => ({}, es)
  let afterTemplates := f.templates.foldl addTemplateStep start
  f.templateLinks.foldl linkStep afterTemplates

/-- `ffi::PolicySet::parse` -/
def assemble (f : FfiPolicySet) : Except (List Err) ApiPolicySet :=
  let r := assembleSteps f
  if r.2.isEmpty then .ok r.1 else .error r.2

/-- the ids the static part is given (whether or not the documents parse) -/
def staticIds : StaticPolicySet → List String
  | .concatenated none => []
  | .concatenated (some items) => (List.range items.length).map (fun n => s!"policy{n}")
  | .set docs => docs.map (fun d => d.fmt.defaultId)
  | .map entries => entries.map (·.1)

def FfiPolicySet.templateIds (f : FfiPolicySet) : List String := f.templates.map (·.1)
def FfiPolicySet.linkIds (f : FfiPolicySet) : List String := f.templateLinks.map (·.newId)

end Cedar.FfiP
