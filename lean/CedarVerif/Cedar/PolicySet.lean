import CedarVerif.Cedar.Authorizer
import CedarVerif.Cedar.ExprOps
/-
C08 model: templates, linking, and the policy-set state machine.

Mirrors
  * cedar-policy-core/src/ast/policy.rs : `TemplateBody::condition`, `PrincipalOrResourceConstraint::as_expr`,
    `ActionConstraint::as_expr`, `Template::check_binding`, `Template::link`, `Template::link_static_policy`,
    `Policy::{id,new_id,new_template_id,is_static}`, `*Constraint::with_filled_slot`
  * cedar-policy-core/src/ast/policy_set.rs : `PolicySet` (three `LinkedHashMap`s) with `add`, `add_static`,
    `add_template`, `link`, `unlink`, `remove_static`, `remove_template`, `merge_policyset`
    (same check-then-mutate order, same error kinds, `panic!`/`unwrap` sites as explicit outcomes)
  * cedar-policy/src/api.rs : the public `PolicySet` (its own `policies`/`templates` maps on top of the core set).
`LinkedHashMap` = association list in insertion order (`insert` of an existing key moves it to the back,
as linked-hash-map 0.5 does); the order is observable through the fresh ids `policy{n}` of `merge`.
Import-free (model files only), total, computable.
-/
namespace Cedar

/-! ### templates -/

/-- `EntityReference` -/
inductive EntityRef where
  | euid (u : EntityUID)
  | slot
deriving Repr, DecidableEq, Inhabited

/-- `PrincipalOrResourceConstraint` -/
inductive ScopeC where
  | any
  | mem (r : EntityRef)
  | eq (r : EntityRef)
  | is (ty : EntityType)
  | isIn (ty : EntityType) (r : EntityRef)
deriving Repr, DecidableEq, Inhabited

/-- `ActionConstraint` -/
inductive ActionC where
  | any
  | mem (us : List EntityUID)
  | eq (u : EntityUID)
deriving Repr, DecidableEq, Inhabited

/-- `TemplateBodyImpl` (source locations dropped: they are ignored by `PartialEq`) -/
structure TemplateBody where
  id : String
  annotations : List (String × String)
  effect : Effect
  principalC : ScopeC
  actionC : ActionC
  resourceC : ScopeC
  nonScope : Option Expr
deriving Repr, Inhabited

/-- `Template`: body + the slot cache -/
structure Template where
  body : TemplateBody
  slots : List SlotId
deriving Repr, Inhabited

def optExprBeq : Option Expr → Option Expr → Bool
  | none, none => true
  | some a, some b => Expr.beq a b
  | _, _ => false

def TemplateBody.beq (a b : TemplateBody) : Bool :=
  a.id == b.id && a.annotations == b.annotations && a.effect == b.effect && a.principalC == b.principalC &&
  a.actionC == b.actionC && a.resourceC == b.resourceC && optExprBeq a.nonScope b.nonScope

def Template.beq (a b : Template) : Bool := a.body.beq b.body && a.slots == b.slots

def Template.id (t : Template) : String := t.body.id
def Template.effect (t : Template) : Effect := t.body.effect
def Template.isStatic (t : Template) : Bool := t.slots.isEmpty
def TemplateBody.newId (b : TemplateBody) (id : String) : TemplateBody := { b with id := id }
def Template.newId (t : Template) (id : String) : Template := { t with body := t.body.newId id }

/-- `EntityReference::into_expr` -/
def EntityRef.toExpr (r : EntityRef) (s : SlotId) : Expr :=
  match r with
  | .euid u => .lit (.entityUID u)
  | .slot => .slot s

/-- `PrincipalOrResourceConstraint::as_expr` -/
def ScopeC.toExpr (c : ScopeC) (v : Var) (s : SlotId) : Expr :=
  match c with
  | .any => .lit (.bool true)
  | .eq r => .binaryApp .eq (.var v) (r.toExpr s)
  | .mem r => .binaryApp .mem (.var v) (r.toExpr s)
  | .isIn ty r => .and (.is (.var v) ty) (.binaryApp .mem (.var v) (r.toExpr s))  -- `Expr::and` of two non-literals
  | .is ty => .is (.var v) ty

/-- `ActionConstraint::as_expr` -/
def ActionC.toExpr (c : ActionC) : Expr :=
  match c with
  | .any => .lit (.bool true)
  | .mem us => .binaryApp .mem (.var .action) (.set (us.map (fun u => .lit (.entityUID u))))
  | .eq u => .binaryApp .eq (.var .action) (.lit (.entityUID u))

def Expr.asBoolLit : Expr → Option Bool
  | .lit (.bool b) => some b
  | _ => none

/-- the constructor `Expr::and` (`ExprBuilder::and`): two Boolean literals are folded -/
def mkAnd (a b : Expr) : Expr :=
  match a.asBoolLit, b.asBoolLit with
  | some x, some y => .lit (.bool (x && y))
  | _, _ => .and a b

/-- `TemplateBody::condition` : `Expr::and(principalC, Expr::and(actionC, Expr::and(resourceC, nonScope)))` -/
def TemplateBody.condition (b : TemplateBody) : Expr :=
  mkAnd (b.principalC.toExpr .principal .principal)
    (mkAnd b.actionC.toExpr
      (mkAnd (b.resourceC.toExpr .resource .resource)
        (match b.nonScope with | some e => e | none => .lit (.bool true))))

def Template.condition (t : Template) : Expr := t.body.condition

/-- `HashMap<SlotId, EntityUID>`: there are only two slot ids, so the map is a pair of options (canonical) -/
structure SlotVals where
  principal : Option EntityUID := none
  resource : Option EntityUID := none
deriving Repr, DecidableEq, Inhabited

def SlotVals.get (v : SlotVals) : SlotId → Option EntityUID
  | .principal => v.principal
  | .resource => v.resource

def SlotVals.keys (v : SlotVals) : List SlotId :=
  (if v.principal.isSome then [SlotId.principal] else []) ++ (if v.resource.isSome then [SlotId.resource] else [])

/-- the evaluator's view of the slot environment -/
def SlotVals.toEnv (v : SlotVals) : SlotEnv :=
  (match v.principal with | some u => [(SlotId.principal, u)] | none => []) ++
  (match v.resource with | some u => [(SlotId.resource, u)] | none => [])

/-- `Template::check_binding`: every slot of the template is bound and nothing else is -/
def Template.checkBinding (t : Template) (vals : SlotVals) : Bool :=
  let unbound := t.slots.filter (fun s => (vals.get s).isNone)
  let extra := vals.keys.filter (fun s => !(t.slots.any (fun ts => ts == s)))
  unbound.isEmpty && extra.isEmpty

/-- `ast::Policy`: template + link id (none = static) + slot values -/
structure TPolicy where
  template : Template
  link : Option String
  values : SlotVals
deriving Repr, Inhabited

def TPolicy.id (p : TPolicy) : String :=
  match p.link with
  | some l => l
  | none => p.template.id
def TPolicy.isStatic (p : TPolicy) : Bool := p.link.isNone
def TPolicy.beq (a b : TPolicy) : Bool := a.template.beq b.template && a.link == b.link && a.values == b.values

/-- `Policy::new_id` -/
def TPolicy.newId (p : TPolicy) (id : String) : TPolicy :=
  match p.link with
  | none => { p with template := p.template.newId id }
  | some _ => { p with link := some id }

/-- `Policy::new_template_id` (`None` for a static policy) -/
def TPolicy.newTemplateId (p : TPolicy) (id : String) : Option TPolicy :=
  match p.link with
  | none => none
  | some l => some { template := p.template.newId id, link := some l, values := p.values }

/-- `Template::link` -/
def Template.link (t : Template) (newId : String) (vals : SlotVals) : Option TPolicy :=
  if t.checkBinding vals then some { template := t, link := some newId, values := vals } else none

/-- `Template::link_static_policy` (a `StaticPolicy` is a body without slots) -/
def linkStaticPolicy (b : TemplateBody) : Template × TPolicy :=
  let t : Template := { body := b, slots := [] }
  (t, { template := t, link := none, values := {} })

/-- what the authorizer evaluates for a policy: the template's condition under the link's environment -/
def TPolicy.toPolicy (p : TPolicy) : Policy :=
  { id := p.id, effect := p.template.effect, condition := p.template.condition, env := p.values.toEnv }

/-! ### substitution -/

/-- `EntityReference` with the slot filled -/
def EntityRef.fill (r : EntityRef) (u : Option EntityUID) : EntityRef :=
  match r, u with
  | .slot, some u => .euid u
  | r, _ => r

/-- `PrincipalConstraint::with_filled_slot` / `ResourceConstraint::with_filled_slot` (no value: unchanged,
as in `Policy::principal_constraint`) -/
def ScopeC.fill (c : ScopeC) (u : Option EntityUID) : ScopeC :=
  match c with
  | .eq r => .eq (r.fill u)
  | .mem r => .mem (r.fill u)
  | .isIn ty r => .isIn ty (r.fill u)
  | .is ty => .is ty
  | .any => .any

/-- the static policy body obtained from a template and slot values: scope constraints as
`Policy::principal_constraint`/`resource_constraint` compute them; the non-scope condition with slots
replaced (the parser rejects slots there, so this is the identity on parsed templates). -/
def Template.substitute (t : Template) (vals : SlotVals) (newId : String) : TemplateBody :=
  { t.body with
    id := newId,
    principalC := t.body.principalC.fill vals.principal,
    resourceC := t.body.resourceC.fill vals.resource,
    nonScope := t.body.nonScope.map (Expr.subst vals.toEnv) }

/-! ### LinkedHashMap / LinkedHashSet as insertion-ordered lists -/

abbrev LHM (α : Type) := List (String × α)

def LHM.get? {α} (m : LHM α) (k : String) : Option α :=
  match m with
  | [] => none
  | (k', v) :: rest => if k' == k then some v else LHM.get? rest k

def LHM.contains {α} (m : LHM α) (k : String) : Bool := (m.get? k).isSome

def LHM.erase {α} (m : LHM α) (k : String) : LHM α := m.filter (fun e => !(e.1 == k))

/-- `LinkedHashMap::insert`: replace-and-move-to-back, or append -/
def LHM.insert {α} (m : LHM α) (k : String) (v : α) : LHM α := m.erase k ++ [(k, v)]

/-- in-place update through `entry(k)` / `get_mut` (position kept) -/
def LHM.modify {α} (m : LHM α) (k : String) (f : α → α) : LHM α :=
  m.map (fun e => if e.1 == k then (e.1, f e.2) else e)

def LHM.keys {α} (m : LHM α) : List String := m.map (·.1)

/-- `LinkedHashSet::insert` (moves an existing element to the back) -/
def lhsInsert (s : List String) (x : String) : List String := s.filter (fun y => !(y == x)) ++ [x]
def lhsRemove (s : List String) (x : String) : List String := s.filter (fun y => !(y == x))

/-! ### the core policy set -/

structure PolicySet where
  templates : LHM Template := []
  links : LHM TPolicy := []
  t2l : LHM (List String) := []
deriving Repr, Inhabited

/-- error kinds of the core and of the API layer, plus the explicit `panic!`/`unwrap` sites -/
inductive PSError where
  -- core
  | occupied            -- PolicySetError::Occupied
  | arity               -- LinkingError::ArityError
  | noSuchTemplate      -- LinkingError::NoSuchTemplate
  | idConflict          -- LinkingError::PolicyIdConflict
  | unlinkMissing       -- PolicySetUnlinkError::UnlinkingError
  | notLink             -- PolicySetUnlinkError::NotLinkError
  | rmtNoTemplate       -- PolicySetTemplateRemovalError::RemovePolicyNoTemplateError
  | rmtWithLinks        -- PolicySetTemplateRemovalError::RemoveTemplateWithLinksError
  | rmtNotTemplate      -- PolicySetTemplateRemovalError::NotTemplateError
  | rmsNoLink           -- PolicySetPolicyRemovalError::RemovePolicyNoLinkError
  | rmsNoTemplate       -- PolicySetPolicyRemovalError::RemovePolicyNoTemplateError
  -- API layer (cedar_policy::PolicySetError)
  | alreadyDefined | expectedStatic | expectedTemplate | policyNonexistent | templateNonexistent
  | removeTemplateWithActiveLinks | removeTemplateNotTemplate | linkNonexistent | unlinkLinkNotLink
  | panic (site : String)
deriving Repr, DecidableEq, Inhabited

/-- outcome of one `&mut self` call: the state afterwards (also after a failure), the error if any,
and the renaming returned by `merge` -/
structure Step (σ : Type) where
  ps : σ
  err : Option PSError := none
  rename : List (String × String) := []
deriving Repr

namespace PolicySet

/-- `PolicySet::add` -/
def add (ps : PolicySet) (p : TPolicy) : Step PolicySet :=
  let t := p.template
  -- `templates.entry(t.id)`: vacant, or occupied by an equal template
  match (match ps.templates.get? t.id with
         | none => some true
         | some t' => if !(t'.beq t) then none else some false) with
  | none => { ps := ps, err := some .occupied }
  | some templateVacant =>
    if ps.links.contains p.id then { ps := ps, err := some .occupied }
    else
      let (templates, t2l) :=
        if templateVacant then
          (ps.templates ++ [(t.id, t)], ps.t2l.insert t.id [p.id])
        else
          (ps.templates,
            if ps.t2l.contains t.id then ps.t2l.modify t.id (fun s => lhsInsert s p.id)
            else ps.t2l ++ [(t.id, [p.id])])
      { ps := { templates := templates, links := ps.links ++ [(p.id, p)], t2l := t2l } }

/-- `PolicySet::add_static` -/
def addStatic (ps : PolicySet) (b : TemplateBody) : Step PolicySet :=
  let (t, p) := linkStaticPolicy b
  if ps.templates.contains t.id then { ps := ps, err := some .occupied }
  else if ps.links.contains t.id then { ps := ps, err := some .occupied }
  else { ps := { templates := ps.templates ++ [(t.id, t)], links := ps.links ++ [(t.id, p)],
                 t2l := ps.t2l.insert t.id [p.id] } }

/-- `PolicySet::add_template` -/
def addTemplate (ps : PolicySet) (t : Template) : Step PolicySet :=
  if ps.links.contains t.id then { ps := ps, err := some .occupied }
  else if ps.templates.contains t.id then { ps := ps, err := some .occupied }
  else { ps := { ps with templates := ps.templates ++ [(t.id, t)], t2l := ps.t2l.insert t.id [] } }

/-- `PolicySet::remove_template` -/
def removeTemplate (ps : PolicySet) (id : String) : Step PolicySet :=
  if ps.links.contains id then { ps := ps, err := some .rmtNotTemplate }
  else match ps.t2l.get? id with
    | none => { ps := ps, err := some .rmtNoTemplate }
    | some s =>
      if !s.isEmpty then { ps := ps, err := some .rmtWithLinks }
      else match ps.templates.get? id with
        | some _ => { ps := { ps with templates := ps.templates.erase id, t2l := ps.t2l.erase id } }
        | none => { ps := ps, err := some (.panic "Found in template_to_links_map but not in templates") }

/-- `PolicySet::link` -/
def link (ps : PolicySet) (tid newId : String) (vals : SlotVals) : Step PolicySet :=
  match ps.templates.get? tid with
  | none => { ps := ps, err := some .noSuchTemplate }
  | some t =>
    match t.link newId vals with
    | none => { ps := ps, err := some .arity }
    | some r =>
      if ps.links.contains newId then { ps := ps, err := some .idConflict }
      else if ps.templates.contains newId then { ps := ps, err := some .idConflict }
      else
        let t2l := if ps.t2l.contains tid then ps.t2l.modify tid (fun s => lhsInsert s newId)
                   else ps.t2l ++ [(tid, [newId])]
        { ps := { ps with links := ps.links ++ [(newId, r)], t2l := t2l } }

/-- `PolicySet::unlink` -/
def unlink (ps : PolicySet) (id : String) : Step PolicySet :=
  if ps.templates.contains id then { ps := ps, err := some .notLink }
  else match ps.links.get? id with
    | none => { ps := ps, err := some .unlinkMissing }
    | some p =>
      let links := ps.links.erase id
      if ps.t2l.contains p.template.id then
        { ps := { ps with links := links, t2l := ps.t2l.modify p.template.id (fun s => lhsRemove s id) } }
      else { ps := { ps with links := links }, err := some (.panic "No template found for linked policy") }

/-- `PolicySet::remove_static` (note: on the `RemovePolicyNoTemplateError` path the link is removed and
re-inserted, i.e. moved to the back of `links`) -/
def removeStatic (ps : PolicySet) (id : String) : Step PolicySet :=
  match ps.links.get? id with
  | none => { ps := ps, err := some .rmsNoLink }
  | some p =>
    let links := ps.links.erase id
    match ps.templates.get? id with
    | some _ => { ps := { templates := ps.templates.erase id, links := links, t2l := ps.t2l.erase id } }
    | none => { ps := { ps with links := links ++ [(id, p)] }, err := some .rmsNoTemplate }

def idIsBound (ps : PolicySet) (id : String) : Bool := ps.templates.contains id || ps.links.contains id

/-- `get_fresh_id`: first `policy{n}`, n ≥ start, bound in neither set; returns the id and the next index.
`fuel` bounds the `while` loop (one more than the number of bound ids always suffices). -/
def freshId (ps other : PolicySet) : Nat → Nat → String × Nat
  | 0, start => (s!"policy{start}", start + 1)
  | fuel + 1, start =>
    let cand := s!"policy{start}"
    if ps.idIsBound cand || other.idIsBound cand then freshId ps other fuel (start + 1)
    else (cand, start + 1)

def freshFuel (ps other : PolicySet) : Nat :=
  ps.templates.length + ps.links.length + other.templates.length + other.links.length + 1

/-- renaming under construction: insertion-ordered old ↦ new, and the counter `min_id` -/
structure RenSt where
  ren : LHM String := []
  next : Nat := 0

def RenSt.addFresh (st : RenSt) (ps other : PolicySet) (pid : String) : RenSt :=
  let (n, next) := freshId ps other (freshFuel ps other) st.next
  { ren := st.ren.insert pid n, next := next }

/-- `update_renaming` -/
def updateRenaming {α} (ps other : PolicySet) (beq : α → α → Bool) (thisC otherC : LHM α) (st : RenSt) : RenSt :=
  otherC.foldl (fun st (e : String × α) =>
    match thisC.get? e.1 with
    | some tt => if !(beq tt e.2) && !(st.ren.contains e.1) then st.addFresh ps other e.1 else st
    | none => st) st

/-- the renaming computed by `merge_policyset` -/
def mergeRenaming (ps other : PolicySet) : LHM String :=
  let st : RenSt := {}
  let st := updateRenaming ps other Template.beq ps.templates other.templates st
  let st := updateRenaming ps other TPolicy.beq ps.links other.links st
  let st := other.templates.foldl (fun st (e : String × Template) =>
    if !e.2.isStatic && ps.links.contains e.1 && !(st.ren.contains e.1) then st.addFresh ps other e.1 else st) st
  let st := other.links.foldl (fun st (e : String × TPolicy) =>
    if !e.2.isStatic && ps.templates.contains e.1 && !(st.ren.contains e.1) then st.addFresh ps other e.1 else st) st
  st.ren

def renamed (ren : LHM String) (id : String) : String :=
  match ren.get? id with
  | some n => n
  | none => id

/-- the link stored by `merge_policyset` for `other`'s link `(pid, p)` (`none` = the `unwrap` of
`new_template_id` on a static policy, excluded by the guard `!other_policy.is_static()`) -/
def mergeLink (ren : LHM String) (pid : String) (p : TPolicy) : Option (String × TPolicy) :=
  let (newPid, p1) := match ren.get? pid with
    | some n => (n, p.newId n)
    | none => (pid, p)
  match ren.get? p1.template.id with
  | some ntid =>
    if !p1.isStatic then (p1.newTemplateId ntid).map (fun p2 => (newPid, p2)) else some (newPid, p1)
  | none => some (newPid, p1)

/-- `PolicySet::merge_policyset` -/
def merge (ps other : PolicySet) (renameDuplicates : Bool) : Step PolicySet :=
  let ren := mergeRenaming ps other
  if !renameDuplicates && !ren.isEmpty then { ps := ps, err := some .occupied }
  else
    let templates := other.templates.foldl (fun (m : LHM Template) (e : String × Template) =>
      match ren.get? e.1 with
      | some n => m.insert n (e.2.newId n)
      | none => m.insert e.1 e.2) ps.templates
    let links := other.links.foldl (fun (acc : Option (LHM TPolicy)) (e : String × TPolicy) =>
      match acc with
      | none => none
      | some m => match mergeLink ren e.1 e.2 with
        | some (k, p) => some (m.insert k p)
        | none => none) (some ps.links)
    let t2l := other.t2l.foldl (fun (m : LHM (List String)) (e : String × List String) =>
      let tid := renamed ren e.1
      let cur := match m.get? tid with | some s => s | none => []
      let cur := e.2.foldl (fun s pid => lhsInsert s (renamed ren pid)) cur
      (m.erase tid) ++ [(tid, cur)]) ps.t2l
    match links with
    | none => { ps := ps, err := some (.panic "new_template_id on a static policy") }
    | some links => { ps := { templates := templates, links := links, t2l := t2l }, rename := ren }

/-- what the authorizer iterates over: `PolicySet::policies()` = `links.values()` -/
def policies (ps : PolicySet) : List Policy := ps.links.map (fun e => e.2.toPolicy)

def authorize (ps : PolicySet) (req : Request) (es : Entities) : Response := isAuthorized req es ps.policies

end PolicySet

/-! ### the public API layer (cedar_policy::PolicySet) -/

/-- `cedar_policy::PolicySet`: the core set plus its own `policies` / `templates` maps
(the lossless source representation kept next to each AST is not modelled) -/
structure ApiPolicySet where
  ast : PolicySet := {}
  policies : LHM TPolicy := []
  templates : LHM Template := []
deriving Repr, Inhabited

namespace ApiPolicySet

def coreErr : PSError → PSError
  | .occupied => .alreadyDefined
  | e => e

/-- `PolicySet::add` -/
def add (s : ApiPolicySet) (p : TPolicy) : Step ApiPolicySet :=
  if p.isStatic then
    let r := s.ast.add p
    match r.err with
    | some e => { ps := { s with ast := r.ps }, err := some (coreErr e) }
    | none => { ps := { s with ast := r.ps, policies := s.policies.insert p.id p } }
  else { ps := s, err := some .expectedStatic }

/-- `PolicySet::remove_static` -/
def removeStatic (s : ApiPolicySet) (id : String) : Step ApiPolicySet :=
  match s.policies.get? id with
  | none => { ps := s, err := some .policyNonexistent }
  | some p =>
    let policies := s.policies.erase id
    let r := s.ast.removeStatic id
    match r.err with
    | none => { ps := { s with ast := r.ps, policies := policies } }
    | some _ => { ps := { s with ast := r.ps, policies := policies.insert id p }, err := some .policyNonexistent }

/-- `PolicySet::add_template` -/
def addTemplate (s : ApiPolicySet) (t : Template) : Step ApiPolicySet :=
  let r := s.ast.addTemplate t
  match r.err with
  | some e => { ps := { s with ast := r.ps }, err := some (coreErr e) }
  | none => { ps := { s with ast := r.ps, templates := s.templates.insert t.id t } }

/-- `PolicySet::remove_template` -/
def removeTemplate (s : ApiPolicySet) (id : String) : Step ApiPolicySet :=
  match s.templates.get? id with
  | none => { ps := s, err := some .templateNonexistent }
  | some t =>
    let templates := s.templates.erase id
    let r := s.ast.removeTemplate id
    match r.err with
    | none => { ps := { s with ast := r.ps, templates := templates } }
    | some .rmtWithLinks => { ps := { s with ast := r.ps, templates := templates.insert id t }, err := some .removeTemplateWithActiveLinks }
    | some .rmtNotTemplate => { ps := { s with ast := r.ps, templates := templates.insert id t }, err := some .removeTemplateNotTemplate }
    | some (.panic m) => { ps := { s with ast := r.ps, templates := templates }, err := some (.panic m) }
    | some _ => { ps := { s with ast := r.ps, templates := templates },
                  err := some (.panic "Found template policy in self.templates but not in self.ast") }

/-- `PolicySet::link` -/
def link (s : ApiPolicySet) (tid newId : String) (vals : SlotVals) : Step ApiPolicySet :=
  match s.templates.get? tid with
  | none =>
    if s.policies.contains tid then { ps := s, err := some .expectedTemplate }
    else { ps := s, err := some .noSuchTemplate }
  | some _ =>
    let r := s.ast.link tid newId vals
    match r.err with
    | some e => { ps := { s with ast := r.ps }, err := some e }
    | none => match r.ps.links.get? newId with
      | some linked => { ps := { s with ast := r.ps, policies := s.policies.insert newId linked } }
      | none => { ps := { s with ast := r.ps }, err := some (.panic "link result") }

/-- `PolicySet::unlink` -/
def unlink (s : ApiPolicySet) (id : String) : Step ApiPolicySet :=
  match s.policies.get? id with
  | none => { ps := s, err := some .linkNonexistent }
  | some p =>
    let policies := s.policies.erase id
    let r := s.ast.unlink id
    match r.err with
    | none => { ps := { s with ast := r.ps, policies := policies } }
    | some .notLink => { ps := { s with ast := r.ps, policies := policies.insert id p }, err := some .unlinkLinkNotLink }
    | some (.panic m) => { ps := { s with ast := r.ps, policies := policies }, err := some (.panic m) }
    | some _ => { ps := { s with ast := r.ps, policies := policies },
                  err := some (.panic "Found linked policy in self.policies but not in self.ast") }

/-- `PolicySet::merge` -/
def merge (s other : ApiPolicySet) (renameDuplicates : Bool) : Step ApiPolicySet :=
  let r := s.ast.merge other.ast renameDuplicates
  match r.err with
  | some e => { ps := { s with ast := r.ps }, err := some (coreErr e) }
  | none =>
    let ren := r.rename
    let policies := other.policies.foldl (fun (acc : Option (LHM TPolicy)) (e : String × TPolicy) =>
      match acc with
      | none => none
      | some m =>
        let pid := PolicySet.renamed ren e.1
        if m.contains pid then some m
        else match r.ps.links.get? pid with
          | some p => some (m.insert pid p)
          | none => none) (some s.policies)
    let templates := other.templates.foldl (fun (acc : Option (LHM Template)) (e : String × Template) =>
      match acc with
      | none => none
      | some m =>
        let pid := PolicySet.renamed ren e.1
        if m.contains pid then some m
        else match r.ps.templates.get? pid with
          | some t => some (m.insert pid t)
          | none => none) (some s.templates)
    match policies, templates with
    | some policies, some templates => { ps := { ast := r.ps, policies := policies, templates := templates }, rename := ren }
    | _, _ => { ps := { s with ast := r.ps }, err := some (.panic "merge: get(pid).unwrap()") }

def authorize (s : ApiPolicySet) (req : Request) (es : Entities) : Response := s.ast.authorize req es

end ApiPolicySet

/-! ### abstract specification: a set of static policies, a set of templates, a map link-id ↦ (template-id, env) -/

structure Spec where
  statics : List (String × TemplateBody) := []
  templates : List (String × Template) := []
  links : List (String × (String × SlotVals)) := []
deriving Repr, Inhabited

namespace Spec

def hasId (sp : Spec) (id : String) : Bool :=
  sp.statics.any (·.1 == id) || sp.templates.any (·.1 == id) || sp.links.any (·.1 == id)

def getTemplate (sp : Spec) (id : String) : Option Template := LHM.get? sp.templates id

/-- operations of the public API on the abstract state; `none` = the operation fails (state unchanged) -/
inductive Op where
  | add (b : TemplateBody)                        -- a static policy
  | addTemplate (t : Template)
  | link (tid newId : String) (vals : SlotVals)
  | unlink (id : String)
  | removeStatic (id : String)
  | removeTemplate (id : String)
deriving Repr

def apply (sp : Spec) : Op → Option Spec
  | .add b => if sp.hasId b.id then none else some { sp with statics := sp.statics ++ [(b.id, b)] }
  | .addTemplate t => if sp.hasId t.id then none else some { sp with templates := sp.templates ++ [(t.id, t)] }
  | .link tid newId vals =>
    match sp.getTemplate tid with
    | none => none
    | some t =>
      if !(t.checkBinding vals) then none
      else if sp.hasId newId then none
      else some { sp with links := sp.links ++ [(newId, (tid, vals))] }
  | .unlink id =>
    if sp.links.any (·.1 == id) then some { sp with links := sp.links.filter (fun e => !(e.1 == id)) } else none
  | .removeStatic id =>
    if sp.statics.any (·.1 == id) then some { sp with statics := sp.statics.filter (fun e => !(e.1 == id)) } else none
  | .removeTemplate id =>
    if sp.templates.any (·.1 == id) && !(sp.links.any (fun e => e.2.1 == id)) then
      some { sp with templates := sp.templates.filter (fun e => !(e.1 == id)) }
    else none

/-- the policies the specification says authorization must consider: each static policy, and for each link
the static policy obtained by substitution -/
def policies (sp : Spec) : List Policy :=
  sp.statics.map (fun e => { id := e.1, effect := e.2.effect, condition := e.2.condition, env := [] }) ++
  sp.links.filterMap (fun e =>
    match sp.getTemplate e.2.1 with
    | some t => some { id := e.1, effect := t.effect, condition := (t.substitute e.2.2 e.1).condition, env := [] }
    | none => none)

end Spec

/-- abstraction of the core policy set: static policies are the links without link id; templates are the
entries of `templates` that are not the body of a static policy; links are the links with a link id -/
def PolicySet.abs (ps : PolicySet) : Spec :=
  { statics := ps.links.filterMap (fun e => if e.2.isStatic then some (e.1, e.2.template.body) else none),
    templates := ps.templates.filter (fun e => !(ps.links.contains e.1)),
    links := ps.links.filterMap (fun e => if e.2.isStatic then none else some (e.1, (e.2.template.id, e.2.values))) }

def ApiPolicySet.abs (s : ApiPolicySet) : Spec := s.ast.abs

end Cedar
