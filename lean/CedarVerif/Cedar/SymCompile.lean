import CedarVerif.Cedar.Expr
/-
SymCompile: a first FRAGMENT of cedar-policy-symcc's symbolic compiler and term factory, on a LITERAL environment.
Model file (imports only the model's `Expr`).  Everything lives in `Cedar.SymC`.

Mirrors, function by function (read next to the Rust):
  * symcc/term.rs       `Term` (Prim / None / Some / App), `type_of`, `is_literal`  — restricted to the term
                        types bool, bitvec 64, string, entity, option; `App` nodes are kept (arity 1/2/3) because the
                        compiler really builds them on literal inputs (`option_get(None)` is an `App`), they are only
                        *folded away* afterwards by `if_some`;
  * symcc/factory.rs    `not opposites and or eq ite  bvneg bvadd bvsub bvmul bvslt bvsle bvnego bvsaddo bvssubo bvsmulo
                        option_get is_none if_false if_some some_of none_of`, every branch of each function
                        (also the non-literal ones);
  * symcc/bitvec.rs     a 64-bit `BitVec` is Lean's `BitVec 64` (the Rust type is a port of it): `of_i128` = `ofInt`,
                        `to_int` = `toInt`, `add/sub/mul/neg` wrap, `overflows(64, i)` = `i < -2^63 || i > 2^63-1`;
  * symcc/compiler.rs   `compile_prim compile_var compile_app1 compile_app2 reducible_eq compile_if compile_and compile_or`
                        and the corresponding arms of `compile` (eager compilation of both operands, `r2`/`r3` inspected
                        only where the Rust code applies `?`).

SECOND FRAGMENT (`SFrag2`): record terms / record term types (`recNil`/`recCons`), `context` (`compile_var`), attribute
access `e.a` and `e has a` on RECORD-typed terms (`compile_attrs_of`, `compile_has_attr`, `compile_get_attr`, factory
`record_get`, `is_some`), the context term of a FLAT context type as `Term::from_value` builds it (`ctxTermOf`: required
attribute ↦ literal, optional present ↦ `some lit`, optional absent ↦ `none ty`).

LATER ADDITION to `SFrag2`: `e like pat` (`compile_like`, factory `string_like`) and `e is T` (`compile_is`), both wrapped
in `if_some(t1, …)` exactly as symcc/compiler.rs AND symccopt/compiler.rs do (an erroring operand gives `none`).

Outside this model (`CErr.outside`): slots, unknowns, `has`/`.` on ENTITY-typed terms, sets, record
literals, extension calls, `isEmpty`, `in`, `contains*`, `hasTag/getTag`, extension-typed terms, non-flat contexts.
-/
namespace Cedar.SymC
open Cedar

abbrev Attr := String

inductive TermType where
  | bool
  | bitvec64
  | string
  | entity (ety : EntityType)
  | option (ty : TermType)
  /-- `TermType::Set { ty }` -/
  | set (ty : TermType)
  /-- `TermType::Record { rty : BTreeMap<Attr, TermType> }` as its sorted listing, inlined as cons cells (a nested
      `List` would lose `deriving DecidableEq`): `recNil` = the empty map, `recCons a ty rest` = entry `a ↦ ty` then `rest` -/
  | recNil
  | recCons (a : Attr) (ty : TermType) (rest : TermType)
deriving DecidableEq, Repr, Inhabited

inductive TermPrim where
  | bool (b : Bool)
  | bitvec (bv : BitVec 64)
  | string (s : String)
  | entity (uid : EntityUID)
deriving DecidableEq, Repr, Inhabited

inductive Op where
  | not | and | or | eq | ite
  | bvneg | bvadd | bvsub | bvmul | bvslt | bvsle | bvnego | bvsaddo | bvssubo | bvsmulo
  | optionGet
  | recordGet (a : Attr)
  | stringLike (p : Pattern)
  | setMember | setSubset | setInter
deriving DecidableEq, Repr, Inhabited

/-- `Term`; `App { op, args, ret_ty }` with 1, 2 or 3 arguments -/
inductive Term where
  | prim (p : TermPrim)
  | none (ty : TermType)
  | some (t : Term)
  /-- `Term::Record(BTreeMap<Attr, Term>)`, sorted listing as cons cells (see `TermType.recCons`) -/
  | recNil
  | recCons (a : Attr) (t : Term) (rest : Term)
  /-- `Term::Set { elts : BTreeSet<Term>, elts_ty }` as cons cells: `setNil ty` = the empty set of element type `ty`
      (`elts_ty` sits at the end of the spine), `setCons t rest` = element `t` then `rest`.  The BTreeSet invariant
      (strictly sorted, hence duplicate-free) is the separate predicate `setWF`; `setOf` establishes it. -/
  | setNil (ty : TermType)
  | setCons (t : Term) (rest : Term)
  | app1 (op : Op) (a : Term) (retTy : TermType)
  | app2 (op : Op) (a b : Term) (retTy : TermType)
  | app3 (op : Op) (a b c : Term) (retTy : TermType)
deriving DecidableEq, Repr, Inhabited

def TermPrim.typeOf : TermPrim → TermType
  | .bool _ => .bool
  | .bitvec _ => .bitvec64
  | .string _ => .string
  | .entity uid => .entity uid.ty

/-- `Term::type_of` -/
def Term.typeOf : Term → TermType
  | .prim p => p.typeOf
  | .none ty => .option ty
  | .some t => .option t.typeOf
  | .recNil => .recNil
  | .recCons a t rest => .recCons a t.typeOf rest.typeOf
  | .setNil ty => .set ty
  | .setCons _ rest => rest.typeOf
  | .app1 _ _ ty => ty
  | .app2 _ _ _ ty => ty
  | .app3 _ _ _ _ ty => ty

/-- `Term::is_literal` -/
def Term.isLiteral : Term → Bool
  | .prim _ => true
  | .none _ => true
  | .some t => t.isLiteral
  | .recNil => true
  | .recCons _ t rest => t.isLiteral && rest.isLiteral
  | .setNil _ => true
  | .setCons t rest => t.isLiteral && rest.isLiteral
  | _ => false

def TermType.isPrimType : TermType → Bool
  | .bool | .bitvec64 | .string | .entity _ => true
  | _ => false

def TermType.isOptionType : TermType → Bool
  | .option _ => true
  | _ => false

def TermType.isRecordType : TermType → Bool
  | .recNil | .recCons _ _ _ => true
  | _ => false

/-- the term is a `Term::Record` (a well-formed cons spine) -/
def Term.isRecord : Term → Bool
  | .recNil => true
  | .recCons _ _ rest => rest.isRecord
  | _ => false

/-- `BTreeMap::get` on the fields of a `Term::Record` -/
def recFind? : Term → Attr → Option Term
  | .recCons a t rest, b => if a == b then some t else recFind? rest b
  | _, _ => none

/-- `BTreeMap::get` on the fields of a `TermType::Record` -/
def tyFind? : TermType → Attr → Option TermType
  | .recCons a ty rest, b => if a == b then some ty else tyFind? rest b
  | _, _ => none

def TermType.isEntityType : TermType → Bool
  | .entity _ => true
  | _ => false

abbrev tTrue : Term := .prim (.bool true)
abbrev tFalse : Term := .prim (.bool false)

/-! ### factory.rs -/

def someOf (t : Term) : Term := .some t
def noneOf (ty : TermType) : Term := .none ty

/-- `factory::not` -/
def fnot : Term → Term
  | .prim (.bool b) => .prim (.bool (!b))
  | .app1 .not a _ => a
  | t => .app1 .not t .bool

/-- `factory::opposites` -/
def opposites (t1 t2 : Term) : Bool :=
  match t1, t2 with
  | t1, .app1 .not a _ => t1 == a
  | .app1 .not a _, t2 => a == t2
  | _, _ => false

/-- `factory::and` -/
def fand (t1 t2 : Term) : Term :=
  if t1 == t2 || t2 == tTrue then t1
  else if t1 == tTrue then t2
  else if t1 == tFalse || t2 == tFalse || opposites t1 t2 then tFalse
  else .app2 .and t1 t2 .bool

/-- `factory::or` -/
def for' (t1 t2 : Term) : Term :=
  if t1 == t2 || t2 == tFalse then t1
  else if t1 == tFalse then t2
  else if t1 == tTrue || t2 == tTrue || opposites t1 t2 then tTrue
  else .app2 .or t1 t2 .bool

/-- the closure `simplify` of `factory::eq` -/
def eqSimplify (t1 t2 : Term) : Term :=
  if t1 == t2 then tTrue
  else if t1.isLiteral && t2.isLiteral then tFalse
  else if t1 == tTrue && t2.typeOf == .bool then t2
  else if t2 == tTrue && t1.typeOf == .bool then t1
  else if t1 == tFalse && t2.typeOf == .bool then fnot t2
  else if t2 == tFalse && t1.typeOf == .bool then fnot t1
  else .app2 .eq t1 t2 .bool

/-- `factory::eq` -/
def feq (t1 t2 : Term) : Term :=
  match t1, t2 with
  | .some a, .some b => eqSimplify a b
  | .some _, .none _ => tFalse
  | .none _, .some _ => tFalse
  | t1, t2 => eqSimplify t1 t2

/-- the closure `simplify` of `factory::ite` (captures `t1`) -/
def iteSimplify (t1 t2 t3 : Term) : Term :=
  if t1 == tTrue || t2 == t3 then t2
  else if t1 == tFalse then t3
  else match t2, t3 with
    | .prim (.bool true), .prim (.bool false) => t1
    | .prim (.bool false), .prim (.bool true) => fnot t1
    | t2, .prim (.bool false) => fand t1 t2
    | .prim (.bool true), t3 => for' t1 t3
    | t2, t3 => .app3 .ite t1 t2 t3 t2.typeOf

/-- `factory::ite` -/
def fite (t1 t2 t3 : Term) : Term :=
  match t2, t3 with
  | .some a, .some b => .some (iteSimplify t1 a b)
  | t2, t3 => iteSimplify t1 t2 t3

/-- `BitVec::overflows(64, i)` -/
def overflows (i : Int) : Bool := decide (i < -9223372036854775808) || decide (i > 9223372036854775807)

/-- `factory::bvneg` -/
def bvneg : Term → Term
  | .prim (.bitvec b) => .prim (.bitvec (-b))
  | .app1 .bvneg a _ => a
  | t => .app1 .bvneg t t.typeOf

/-- `factory::bvapp` -/
def bvapp (op : Op) (f : BitVec 64 → BitVec 64 → BitVec 64) (t1 t2 : Term) : Term :=
  match t1, t2 with
  | .prim (.bitvec b1), .prim (.bitvec b2) => .prim (.bitvec (f b1 b2))
  | t1, t2 => .app2 op t1 t2 t1.typeOf

def bvadd (t1 t2 : Term) : Term := bvapp .bvadd (· + ·) t1 t2
def bvsub (t1 t2 : Term) : Term := bvapp .bvsub (· - ·) t1 t2
def bvmul (t1 t2 : Term) : Term := bvapp .bvmul (· * ·) t1 t2

/-- `factory::bvcmp` -/
def bvcmp (op : Op) (cmp : BitVec 64 → BitVec 64 → Bool) (t1 t2 : Term) : Term :=
  match t1, t2 with
  | .prim (.bitvec b1), .prim (.bitvec b2) => .prim (.bool (cmp b1 b2))
  | t1, t2 => .app2 op t1 t2 .bool

/-- `BitVec::slt` / `sle`: comparison of `to_int` -/
def bvslt (t1 t2 : Term) : Term := bvcmp .bvslt (fun a b => decide (a.toInt < b.toInt)) t1 t2
def bvsle (t1 t2 : Term) : Term := bvcmp .bvsle (fun a b => decide (a.toInt ≤ b.toInt)) t1 t2

/-- `factory::bvnego` -/
def bvnego : Term → Term
  | .prim (.bitvec b) => .prim (.bool (overflows (-b.toInt)))
  | t => .app1 .bvnego t .bool

/-- `factory::bvso` -/
def bvso (op : Op) (f : Int → Int → Int) (t1 t2 : Term) : Term :=
  match t1, t2 with
  | .prim (.bitvec b1), .prim (.bitvec b2) => .prim (.bool (overflows (f b1.toInt b2.toInt)))
  | t1, t2 => .app2 op t1 t2 .bool

def bvsaddo (t1 t2 : Term) : Term := bvso .bvsaddo (· + ·) t1 t2
def bvssubo (t1 t2 : Term) : Term := bvso .bvssubo (· - ·) t1 t2
def bvsmulo (t1 t2 : Term) : Term := bvso .bvsmulo (· * ·) t1 t2

/-- `factory::option_get` -/
def optionGet (t : Term) : Term :=
  match t with
  | .some a => a
  | t => match t.typeOf with
    | .option ty => .app1 .optionGet t ty
    | _ => t

/-- `factory::record_get` -/
def recordGet (t : Term) (a : Attr) : Term :=
  if t.isRecord then
    match recFind? t a with
    | some ta => ta
    | none => t
  else
    match tyFind? t.typeOf a with
    | some ty => .app1 (.recordGet a) t ty
    | none => t

/-- `factory::string_like` (`OrdPattern::wildcard_match` is the evaluator's `Pattern::wildcard_match`, model `wm`) -/
def stringLike (t : Term) (p : Pattern) : Term :=
  match t with
  | .prim (.string s) => .prim (.bool (wm p s.toList))
  | t => .app1 (.stringLike p) t .bool

/-- the fall-through arm of `factory::is_none` -/
def isNoneDefault (t : Term) : Term :=
  match t.typeOf with
  | .option ty => feq t (.none ty)
  | _ => tFalse

/-- `factory::is_none` -/
def isNone (t : Term) : Term :=
  match t with
  | .none _ => tTrue
  | .some _ => tFalse
  | .app3 .ite g a b _ =>
    match a, b with
    | .some _, .some _ => tFalse
    | .some _, .none _ => fnot g
    | .none _, .some _ => g
    | _, _ => isNoneDefault t
  | t => isNoneDefault t

/-- `factory::is_some` -/
def isSome (t : Term) : Term := fnot (isNone t)

/-- `factory::if_false` -/
def ifFalse (g t : Term) : Term := fite g (noneOf t.typeOf) (someOf t)

/-- `factory::if_some` -/
def ifSome (g t : Term) : Term :=
  match t.typeOf with
  | .option ty => fite (isNone g) (noneOf ty) t
  | _ => ifFalse (isNone g) t

/-! ### set terms (`Term::Set`) and the finite-set part of factory.rs -/

/-- the term is a `Term::Set` (a well-formed cons spine) -/
def Term.isSet : Term → Bool
  | .setNil _ => true
  | .setCons _ rest => rest.isSet
  | _ => false

/-- `elts` (in BTreeSet iteration order) -/
def setElts : Term → List Term
  | .setCons t rest => t :: setElts rest
  | _ => []

/-- `elts_ty` -/
def setEltsTy : Term → TermType
  | .setNil ty => ty
  | .setCons _ rest => setEltsTy rest
  | _ => .bool

def setMk (ty : TermType) : List Term → Term
  | [] => .setNil ty
  | t :: ts => .setCons t (setMk ty ts)

/-- the derived `Ord for Term` restricted to two `Prim`s of the same kind (all a well-typed set literal of primitives
    ever compares): `BitVec` = `(width, BigUint)`, i.e. UNSIGNED order; `bool`; `EntityUID` type then id; `SmolStr` bytewise
    (= code-point order).  Only membership / equality / emptiness of BTreeSets are consumed by the modelled functions, so
    the order itself is not observable in the fragment; it fixes the canonical form. -/
def termLt : Term → Term → Bool
  | .prim (.bitvec a), .prim (.bitvec b) => decide (a.toNat < b.toNat)
  | .prim (.bool a), .prim (.bool b) => !a && b
  | .prim (.string a), .prim (.string b) => decide (a < b)
  | .prim (.entity a), .prim (.entity b) => decide (a.ty < b.ty) || (a.ty == b.ty && decide (a.eid < b.eid))
  | _, _ => false

/-- `BTreeSet::insert` on the sorted listing -/
def setInsert (x : Term) : List Term → List Term
  | [] => [x]
  | y :: ys => if x == y then y :: ys else if termLt x y then x :: y :: ys else y :: setInsert x ys

/-- the BTreeSet invariant: strictly sorted listing -/
def sortedLt : List Term → Bool
  | [] => true
  | [_] => true
  | x :: y :: ys => termLt x y && sortedLt (y :: ys)

/-- well-formedness of a set term (kept separate from the type) -/
def setWF (t : Term) : Bool := t.isSet && sortedLt (setElts t)

/-- `factory::set_of` (`collect()` into a BTreeSet) -/
def setOf (ts : List Term) (ty : TermType) : Term := setMk ty (ts.foldl (fun acc t => setInsert t acc) [])

/-- `factory::set_member` -/
def setMember (t ts : Term) : Term :=
  if ts.isSet then
    if (setElts ts).isEmpty then tFalse
    else if t.isLiteral && ts.isLiteral then .prim (.bool ((setElts ts).contains t))
    else .app2 .setMember t ts .bool
  else .app2 .setMember t ts .bool

/-- `factory::set_subset` -/
def setSubset (sub sup : Term) : Term :=
  if sub == sup then tTrue
  else if sub.isSet && (setElts sub).isEmpty then tTrue
  else if sub.isSet && sup.isSet && sub.isLiteral && sup.isLiteral then
    .prim (.bool ((setElts sub).all (fun x => (setElts sup).contains x)))
  else .app2 .setSubset sub sup .bool

/-- `factory::set_inter` -/
def setInter (ts1 ts2 : Term) : Term :=
  if ts1 == ts2 then ts1
  else if ts1.isSet && (setElts ts1).isEmpty then ts1
  else if ts2.isSet && (setElts ts2).isEmpty then ts2
  else if ts1.isSet && ts2.isSet && ts1.isLiteral && ts2.isLiteral then
    setMk (setEltsTy ts1) ((setElts ts1).filter (fun x => (setElts ts2).contains x))
  else .app2 .setInter ts1 ts2 ts1.typeOf

/-- `factory::set_is_empty` -/
def setIsEmpty (t : Term) : Term :=
  if t.isSet then .prim (.bool (setElts t).isEmpty)
  else match t.typeOf with
    | .set ty => feq t (.setNil ty)
    | _ => tFalse

/-- `factory::set_intersects` -/
def setIntersects (ts1 ts2 : Term) : Term := fnot (setIsEmpty (setInter ts1 ts2))

/-- `factory::any_none` = `any_true(is_none, gs)`: a left fold with `or(is_none(g), acc)` -/
def anyNone (gs : List Term) : Term := gs.foldl (fun acc g => for' (isNone g) acc) tFalse

/-- `factory::if_all_some` -/
def ifAllSome (gs : List Term) (t : Term) : Term :=
  match t.typeOf with
  | .option ty => fite (anyNone gs) (noneOf ty) t
  | _ => ifFalse (anyNone gs) t

/-! ### the literal environment -/

/-- what the fragment reads of `SymEnv::from_concrete_env(req, store)`: the three request terms (literal entity uids) and,
    per entity type of the schema, `SymEntityData::members` (`none` = standard type: every eid is valid;
    `some ids` = enum / action type) for `SymEntities::is_valid_entity_uid` -/
structure SymEnvLit where
  principal : EntityUID
  action : EntityUID
  resource : EntityUID
  etys : List (EntityType × Option (List String))
  /-- `SymRequest::context`: on a literal environment the record term `Term::from_value(context, context_type)` -/
  context : Term
deriving Repr, Inhabited

def lookupEty (etys : List (EntityType × Option (List String))) (ty : EntityType) : Option (Option (List String)) :=
  match etys with
  | [] => none
  | (k, v) :: rest => if k == ty then some v else lookupEty rest ty

/-- `SymEntities::is_valid_entity_uid` -/
def SymEnvLit.isValidEntityUID (env : SymEnvLit) (uid : EntityUID) : Bool :=
  match lookupEty env.etys uid.ty with
  | some (some eids) => eids.contains uid.eid
  | some none => true
  | none => false

/-- the literal environment of a concrete request WITHOUT its context (entity-type table given separately: it comes from
    the schema).  The context slot holds a non-record dummy, so `compile_var` rejects `context` on it. -/
def litEnv (req : Request) (etys : List (EntityType × Option (List String))) : SymEnvLit :=
  { principal := req.principal, action := req.action, resource := req.resource, etys := etys, context := .prim (.bool false) }

/-- the literal environment with the context term `ctxT` (what `Term::from_value(req.context, context_type)` builds) -/
def litEnv2 (req : Request) (etys : List (EntityType × Option (List String))) (ctxT : Term) : SymEnvLit :=
  { litEnv req etys with context := ctxT }

/-- the context attribute types the model covers (FLAT contexts: primitive attribute types) -/
inductive CtxAttrTy where
  | bool | long | string | entity (ety : EntityType)
deriving DecidableEq, Repr, Inhabited

def CtxAttrTy.termType : CtxAttrTy → TermType
  | .bool => .bool
  | .long => .bitvec64
  | .string => .string
  | .entity ety => .entity ety

/-- `Term::from_literal` -/
def termOfPrim : Prim → Term
  | .bool b => .prim (.bool b)
  | .int i => .prim (.bitvec (BitVec.ofInt 64 i))
  | .string s => .prim (.string s)
  | .entityUID uid => .prim (.entity uid)

/-- the `Record` arm of `Term::from_value` for a flat context type `attrs` (sorted by attribute name, `required` flag):
    required attribute ↦ its literal, optional present ↦ `some lit`, absent ↦ `none ty`.
    `none` = `SymbolizeError` (a non-primitive value) -/
def ctxTermOf (ctx : List (Attr × Value)) : List (Attr × CtxAttrTy × Bool) → Option Term
  | [] => some .recNil
  | (a, ty, required) :: rest =>
    match ctxTermOf ctx rest with
    | none => none
    | some restT =>
      match lookupKV ctx a with
      | some (.prim p) => some (.recCons a (if required then termOfPrim p else someOf (termOfPrim p)) restT)
      | some _ => none
      | none => some (.recCons a (noneOf ty.termType) restT)

/-! ### compiler.rs -/

inductive CErr where
  | typeError       -- `CompileError::TypeError`
  | noSuchAttr      -- `CompileError::NoSuchAttribute`
  | unsupported     -- `CompileError::UnsupportedFeature` (the empty set literal)
  | outside         -- construct outside this model (NOT a Rust outcome)
deriving DecidableEq, Repr, Inhabited

abbrev CResult := Except CErr Term

/-- `compile_prim` -/
def compilePrim (p : Prim) (env : SymEnvLit) : CResult :=
  match p with
  | .bool b => .ok (someOf (.prim (.bool b)))
  | .int i => .ok (someOf (.prim (.bitvec (BitVec.ofInt 64 i))))
  | .string s => .ok (someOf (.prim (.string s)))
  | .entityUID uid =>
    if env.isValidEntityUID uid then .ok (someOf (.prim (.entity uid))) else .error .typeError

/-- `compile_var` (on a literal environment `req.principal` is the term `Prim(Entity uid)`) -/
def compileVar (v : Var) (env : SymEnvLit) : CResult :=
  match v with
  | .principal =>
    let t : Term := .prim (.entity env.principal)
    if t.typeOf.isEntityType then .ok (someOf t) else .error .typeError
  | .action =>
    let t : Term := .prim (.entity env.action)
    if t.typeOf.isEntityType then .ok (someOf t) else .error .typeError
  | .resource =>
    let t : Term := .prim (.entity env.resource)
    if t.typeOf.isEntityType then .ok (someOf t) else .error .typeError
  | .context =>
    if env.context.typeOf.isRecordType then .ok (someOf env.context) else .error .typeError

/-- `compile_attrs_of` (entity-typed terms need `SymEntities::attrs`: outside this model) -/
def compileAttrsOf (t : Term) : CResult :=
  match t.typeOf with
  | .entity _ => .error .outside
  | .recNil | .recCons _ _ _ => .ok t
  | _ => .error .typeError

/-- `compile_has_attr` -/
def compileHasAttr (t : Term) (a : Attr) : CResult :=
  match compileAttrsOf t with
  | .error e => .error e
  | .ok attrs =>
    if attrs.typeOf.isRecordType then
      match tyFind? attrs.typeOf a with
      | some ty => if ty.isOptionType then .ok (someOf (isSome (recordGet attrs a))) else .ok (someOf tTrue)
      | none => .ok (someOf tFalse)
    else .error .typeError

/-- `compile_get_attr` -/
def compileGetAttr (t : Term) (a : Attr) : CResult :=
  match compileAttrsOf t with
  | .error e => .error e
  | .ok attrs =>
    if attrs.typeOf.isRecordType then
      match tyFind? attrs.typeOf a with
      | some ty => if ty.isOptionType then .ok (recordGet attrs a) else .ok (someOf (recordGet attrs a))
      | none => .error .noSuchAttr
    else .error .typeError

/-- `compile_app1` -/
def compileApp1 (op : UnaryOp) (t : Term) : CResult :=
  match op, t.typeOf with
  | .not, .bool => .ok (someOf (fnot t))
  | .neg, .bitvec64 => .ok (ifFalse (bvnego t) (bvneg t))
  | .isEmpty, .set _ => .ok (someOf (setIsEmpty t))
  | _, _ => .error .typeError

/-- `compile_like` -/
def compileLike (t : Term) (p : Pattern) : CResult :=
  match t.typeOf with
  | .string => .ok (someOf (stringLike t p))
  | _ => .error .typeError

/-- `compile_is` -/
def compileIs (t : Term) (ety1 : EntityType) : CResult :=
  match t.typeOf with
  | .entity ety2 => .ok (someOf (.prim (.bool (ety1 == ety2))))
  | _ => .error .typeError

/-- `reducible_eq` -/
def reducibleEq (ty1 ty2 : TermType) : Except CErr Bool :=
  if ty1 == ty2 then .ok true
  else if ty1.isPrimType && ty2.isPrimType then .ok false
  else .error .typeError

/-- `compile_app2`, arms for `== < <= + - *`; the other operators need sets / the hierarchy / tags -/
def compileApp2 (op : BinaryOp) (t1 t2 : Term) : CResult :=
  match op, t1.typeOf, t2.typeOf with
  | .eq, ty1, ty2 =>
    match reducibleEq ty1 ty2 with
    | .error e => .error e
    | .ok true => .ok (someOf (feq t1 t2))
    | .ok false => .ok (someOf tFalse)
  | .less, .bitvec64, .bitvec64 => .ok (someOf (bvslt t1 t2))
  | .lessEq, .bitvec64, .bitvec64 => .ok (someOf (bvsle t1 t2))
  | .add, .bitvec64, .bitvec64 => .ok (ifFalse (bvsaddo t1 t2) (bvadd t1 t2))
  | .sub, .bitvec64, .bitvec64 => .ok (ifFalse (bvssubo t1 t2) (bvsub t1 t2))
  | .mul, .bitvec64, .bitvec64 => .ok (ifFalse (bvsmulo t1 t2) (bvmul t1 t2))
  | .contains, .set ty1, ty2 =>
    if ty1 == ty2 then .ok (someOf (setMember t2 t1)) else .error .typeError
  | .containsAll, .set ty1, .set ty2 =>
    if ty1 == ty2 then .ok (someOf (setSubset t2 t1)) else .error .typeError
  | .containsAny, .set ty1, .set ty2 =>
    if ty1 == ty2 then .ok (someOf (setIntersects t1 t2)) else .error .typeError
  | .less, _, _ | .lessEq, _, _ | .add, _, _ | .sub, _, _ | .mul, _, _ => .error .typeError
  | .contains, _, _ | .containsAll, _, _ | .containsAny, _, _ => .error .typeError
  | _, _, _ => .error .outside

/-- `compile_if` -/
def compileIf (t1 : Term) (r2 r3 : CResult) : CResult :=
  match t1 with
  | .some (.prim (.bool true)) => r2
  | .some (.prim (.bool false)) => r3
  | _ =>
    match t1.typeOf with
    | .option .bool =>
      match r2 with
      | .error e => .error e
      | .ok t2 =>
        match r3 with
        | .error e => .error e
        | .ok t3 =>
          if t2.typeOf == t3.typeOf then .ok (ifSome t1 (fite (optionGet t1) t2 t3))
          else .error .typeError
    | _ => .error .typeError

/-- `compile_and` -/
def compileAnd (t1 : Term) (r2 : CResult) : CResult :=
  match t1 with
  | .some (.prim (.bool false)) => .ok t1
  | _ =>
    match t1.typeOf with
    | .option .bool =>
      match r2 with
      | .error e => .error e
      | .ok t2 =>
        if t2.typeOf == .option .bool then .ok (ifSome t1 (fite (optionGet t1) t2 (someOf tFalse)))
        else .error .typeError
    | _ => .error .typeError

/-- `compile_or` -/
def compileOr (t1 : Term) (r2 : CResult) : CResult :=
  match t1 with
  | .some (.prim (.bool true)) => .ok t1
  | _ =>
    match t1.typeOf with
    | .option .bool =>
      match r2 with
      | .error e => .error e
      | .ok t2 =>
        if t2.typeOf == .option .bool then .ok (ifSome t1 (fite (optionGet t1) (someOf tTrue) t2))
        else .error .typeError
    | _ => .error .typeError

/-- `compile_set` -/
def compileSet (ts : List Term) : CResult :=
  match ts with
  | [] => .error .unsupported
  | t0 :: _ =>
    match t0.typeOf with
    | .option ity =>
      if ts.all (fun it => it.typeOf == .option ity) then .ok (ifAllSome ts (someOf (setOf (ts.map optionGet) ity)))
      else .error .typeError
    | _ => .error .typeError

mutual
/-- `compile` (both operands are compiled eagerly, as in Rust; an operand's error matters only where Rust applies `?`) -/
def compile (env : SymEnvLit) : Expr → CResult
  | .lit p => compilePrim p env
  | .var v => compileVar v env
  | .ite x1 x2 x3 =>
    match compile env x1 with
    | .error e => .error e
    | .ok t1 => compileIf t1 (compile env x2) (compile env x3)
  | .and x1 x2 =>
    match compile env x1 with
    | .error e => .error e
    | .ok t1 => compileAnd t1 (compile env x2)
  | .or x1 x2 =>
    match compile env x1 with
    | .error e => .error e
    | .ok t1 => compileOr t1 (compile env x2)
  | .unaryApp op a =>
    match compile env a with
    | .error e => .error e
    | .ok t1 =>
      match compileApp1 op (optionGet t1) with
      | .error e => .error e
      | .ok r => .ok (ifSome t1 r)
  | .binaryApp op a b =>
    match compile env a with
    | .error e => .error e
    | .ok t1 =>
      match compile env b with
      | .error e => .error e
      | .ok t2 =>
        match compileApp2 op (optionGet t1) (optionGet t2) with
        | .error e => .error e
        | .ok r => .ok (ifSome t1 (ifSome t2 r))
  | .hasAttr a attr =>
    match compile env a with
    | .error e => .error e
    | .ok t1 =>
      match compileHasAttr (optionGet t1) attr with
      | .error e => .error e
      | .ok r => .ok (ifSome t1 r)
  | .getAttr a attr =>
    match compile env a with
    | .error e => .error e
    | .ok t1 =>
      match compileGetAttr (optionGet t1) attr with
      | .error e => .error e
      | .ok r => .ok (ifSome t1 r)
  | .like a p =>
    match compile env a with
    | .error e => .error e
    | .ok t1 =>
      match compileLike (optionGet t1) p with
      | .error e => .error e
      | .ok r => .ok (ifSome t1 r)
  | .is a ety =>
    match compile env a with
    | .error e => .error e
    | .ok t1 =>
      match compileIs (optionGet t1) ety with
      | .error e => .error e
      | .ok r => .ok (ifSome t1 r)
  | .set xs =>
    match compileList env xs with
    | .error e => .error e
    | .ok ts => compileSet ts
  | _ => .error .outside
/-- `xs.iter().map(|x| compile(x, env)).collect::<Result<Vec<_>>>()`: the first error wins -/
def compileList (env : SymEnvLit) : List Expr → Except CErr (List Term)
  | [] => .ok []
  | x :: xs =>
    match compile env x with
    | .error e => .error e
    | .ok t =>
      match compileList env xs with
      | .error e => .error e
      | .ok ts => .ok (t :: ts)
end

/-! ### the declared fragment and the reading of a folded term -/

/-- expressions of the fragment: bool / long (in range, as the parser guarantees) / string / entity literals,
    `principal action resource`, `! - && || if == < <= + - *` -/
inductive SFrag : Expr → Prop where
  | litBool (b : Bool) : SFrag (.lit (.bool b))
  | litInt (i : Int) (h : inI64 i = true) : SFrag (.lit (.int i))
  | litString (s : String) : SFrag (.lit (.string s))
  | litEntity (uid : EntityUID) : SFrag (.lit (.entityUID uid))
  | principal : SFrag (.var .principal)
  | action : SFrag (.var .action)
  | resource : SFrag (.var .resource)
  | ite {c t e : Expr} : SFrag c → SFrag t → SFrag e → SFrag (.ite c t e)
  | and {a b : Expr} : SFrag a → SFrag b → SFrag (.and a b)
  | or {a b : Expr} : SFrag a → SFrag b → SFrag (.or a b)
  | not {a : Expr} : SFrag a → SFrag (.unaryApp .not a)
  | neg {a : Expr} : SFrag a → SFrag (.unaryApp .neg a)
  | eq {a b : Expr} : SFrag a → SFrag b → SFrag (.binaryApp .eq a b)
  | less {a b : Expr} : SFrag a → SFrag b → SFrag (.binaryApp .less a b)
  | lessEq {a b : Expr} : SFrag a → SFrag b → SFrag (.binaryApp .lessEq a b)
  | add {a b : Expr} : SFrag a → SFrag b → SFrag (.binaryApp .add a b)
  | sub {a b : Expr} : SFrag a → SFrag b → SFrag (.binaryApp .sub a b)
  | mul {a b : Expr} : SFrag a → SFrag b → SFrag (.binaryApp .mul a b)

/-- the second fragment: `SFrag` + `context`, `e.a`, `e has a` (on record-typed terms; FLAT contexts) -/
inductive SFrag2 : Expr → Prop where
  | litBool (b : Bool) : SFrag2 (.lit (.bool b))
  | litInt (i : Int) (h : inI64 i = true) : SFrag2 (.lit (.int i))
  | litString (s : String) : SFrag2 (.lit (.string s))
  | litEntity (uid : EntityUID) : SFrag2 (.lit (.entityUID uid))
  | principal : SFrag2 (.var .principal)
  | action : SFrag2 (.var .action)
  | resource : SFrag2 (.var .resource)
  | context : SFrag2 (.var .context)
  | ite {c t e : Expr} : SFrag2 c → SFrag2 t → SFrag2 e → SFrag2 (.ite c t e)
  | and {a b : Expr} : SFrag2 a → SFrag2 b → SFrag2 (.and a b)
  | or {a b : Expr} : SFrag2 a → SFrag2 b → SFrag2 (.or a b)
  | not {a : Expr} : SFrag2 a → SFrag2 (.unaryApp .not a)
  | neg {a : Expr} : SFrag2 a → SFrag2 (.unaryApp .neg a)
  | eq {a b : Expr} : SFrag2 a → SFrag2 b → SFrag2 (.binaryApp .eq a b)
  | less {a b : Expr} : SFrag2 a → SFrag2 b → SFrag2 (.binaryApp .less a b)
  | lessEq {a b : Expr} : SFrag2 a → SFrag2 b → SFrag2 (.binaryApp .lessEq a b)
  | add {a b : Expr} : SFrag2 a → SFrag2 b → SFrag2 (.binaryApp .add a b)
  | sub {a b : Expr} : SFrag2 a → SFrag2 b → SFrag2 (.binaryApp .sub a b)
  | mul {a b : Expr} : SFrag2 a → SFrag2 b → SFrag2 (.binaryApp .mul a b)
  | getAttr {a : Expr} (attr : Attr) : SFrag2 a → SFrag2 (.getAttr a attr)
  | hasAttr {a : Expr} (attr : Attr) : SFrag2 a → SFrag2 (.hasAttr a attr)
  /-- FOURTH addition: `e like pat` (string-typed operand) and `e is T` (entity-typed operand) -/
  | like {a : Expr} (p : Pattern) : SFrag2 a → SFrag2 (.like a p)
  | is {a : Expr} (ety : EntityType) : SFrag2 a → SFrag2 (.is a ety)

/-- decidable version of `SFrag2`, for the driver -/
def inFrag2 : Expr → Bool
  | .lit (.int i) => inI64 i
  | .lit _ => true
  | .var _ => true
  | .ite c t e => inFrag2 c && inFrag2 t && inFrag2 e
  | .and a b => inFrag2 a && inFrag2 b
  | .or a b => inFrag2 a && inFrag2 b
  | .unaryApp .not a => inFrag2 a
  | .unaryApp .neg a => inFrag2 a
  | .binaryApp op a b =>
    (match op with | .eq | .less | .lessEq | .add | .sub | .mul => true | _ => false) && inFrag2 a && inFrag2 b
  | .getAttr a _ => inFrag2 a
  | .hasAttr a _ => inFrag2 a
  | .like a _ => inFrag2 a
  | .is a _ => inFrag2 a
  | _ => false

/-- THIRD fragment: `SFrag2` + set literals `[e, …]`, `contains containsAll containsAny isEmpty` (and `==` on sets) -/
inductive SFrag3 : Expr → Prop where
  | litBool (b : Bool) : SFrag3 (.lit (.bool b))
  | litInt (i : Int) (h : inI64 i = true) : SFrag3 (.lit (.int i))
  | litString (s : String) : SFrag3 (.lit (.string s))
  | litEntity (uid : EntityUID) : SFrag3 (.lit (.entityUID uid))
  | principal : SFrag3 (.var .principal)
  | action : SFrag3 (.var .action)
  | resource : SFrag3 (.var .resource)
  | context : SFrag3 (.var .context)
  | ite {c t e : Expr} : SFrag3 c → SFrag3 t → SFrag3 e → SFrag3 (.ite c t e)
  | and {a b : Expr} : SFrag3 a → SFrag3 b → SFrag3 (.and a b)
  | or {a b : Expr} : SFrag3 a → SFrag3 b → SFrag3 (.or a b)
  | not {a : Expr} : SFrag3 a → SFrag3 (.unaryApp .not a)
  | neg {a : Expr} : SFrag3 a → SFrag3 (.unaryApp .neg a)
  | isEmpty {a : Expr} : SFrag3 a → SFrag3 (.unaryApp .isEmpty a)
  | eq {a b : Expr} : SFrag3 a → SFrag3 b → SFrag3 (.binaryApp .eq a b)
  | less {a b : Expr} : SFrag3 a → SFrag3 b → SFrag3 (.binaryApp .less a b)
  | lessEq {a b : Expr} : SFrag3 a → SFrag3 b → SFrag3 (.binaryApp .lessEq a b)
  | add {a b : Expr} : SFrag3 a → SFrag3 b → SFrag3 (.binaryApp .add a b)
  | sub {a b : Expr} : SFrag3 a → SFrag3 b → SFrag3 (.binaryApp .sub a b)
  | mul {a b : Expr} : SFrag3 a → SFrag3 b → SFrag3 (.binaryApp .mul a b)
  | contains {a b : Expr} : SFrag3 a → SFrag3 b → SFrag3 (.binaryApp .contains a b)
  | containsAll {a b : Expr} : SFrag3 a → SFrag3 b → SFrag3 (.binaryApp .containsAll a b)
  | containsAny {a b : Expr} : SFrag3 a → SFrag3 b → SFrag3 (.binaryApp .containsAny a b)
  | getAttr {a : Expr} (attr : Attr) : SFrag3 a → SFrag3 (.getAttr a attr)
  | hasAttr {a : Expr} (attr : Attr) : SFrag3 a → SFrag3 (.hasAttr a attr)
  | like {a : Expr} (p : Pattern) : SFrag3 a → SFrag3 (.like a p)
  | is {a : Expr} (ety : EntityType) : SFrag3 a → SFrag3 (.is a ety)
  | set {xs : List Expr} : (∀ x, x ∈ xs → SFrag3 x) → SFrag3 (.set xs)

mutual
/-- decidable version of `SFrag3`, for the driver -/
def inFrag3 : Expr → Bool
  | .lit (.int i) => inI64 i
  | .lit _ => true
  | .var _ => true
  | .ite c t e => inFrag3 c && inFrag3 t && inFrag3 e
  | .and a b => inFrag3 a && inFrag3 b
  | .or a b => inFrag3 a && inFrag3 b
  | .unaryApp .not a => inFrag3 a
  | .unaryApp .neg a => inFrag3 a
  | .unaryApp .isEmpty a => inFrag3 a
  | .binaryApp op a b =>
    (match op with
     | .eq | .less | .lessEq | .add | .sub | .mul | .contains | .containsAll | .containsAny => true
     | _ => false) && inFrag3 a && inFrag3 b
  | .getAttr a _ => inFrag3 a
  | .hasAttr a _ => inFrag3 a
  | .like a _ => inFrag3 a
  | .is a _ => inFrag3 a
  | .set xs => inFrag3List xs
  | _ => false
def inFrag3List : List Expr → Bool
  | [] => true
  | x :: xs => inFrag3 x && inFrag3List xs
end

/-- decidable version, for the driver -/
def inFrag : Expr → Bool
  | .lit (.int i) => inI64 i
  | .lit _ => true
  | .var .context => false
  | .var _ => true
  | .ite c t e => inFrag c && inFrag t && inFrag e
  | .and a b => inFrag a && inFrag b
  | .or a b => inFrag a && inFrag b
  | .unaryApp .not a => inFrag a
  | .unaryApp .neg a => inFrag a
  | .binaryApp op a b =>
    (match op with | .eq | .less | .lessEq | .add | .sub | .mul => true | _ => false) && inFrag a && inFrag b
  | _ => false

/-- the literal term of a primitive value -/
def litPrim : Prim → TermPrim
  | .bool b => .bool b
  | .int i => .bitvec (BitVec.ofInt 64 i)
  | .string s => .string s
  | .entityUID uid => .entity uid

/-- a folded condition read as the option-boolean constant of the skeleton (`Cedar.SymCC.CPolicy.term`) -/
def optBoolOf : Term → Option (Option Bool)
  | .some (.prim (.bool b)) => some (some b)
  | .none _ => some none
  | _ => none

end Cedar.SymC
