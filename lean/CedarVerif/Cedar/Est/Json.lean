/-
JSON values as seen by the JSON policy format (EST).  Import-free.
Numbers are integers only: the EST never writes a non-integer number and `serde` rejects them wherever
the EST accepts a number (`CedarValueJson::Long(i64)`); the harness never sends one.
Objects keep the order of their members; the readers below never depend on it.
-/
namespace Cedar.Est

inductive Json where
  | null
  | bool (b : Bool)
  | num (i : Int)
  | str (s : String)
  | arr (xs : List Json)
  | obj (kvs : List (String × Json))
deriving Repr, Inhabited

/-- error classes of the JSON readers (the correspondence compares only accept / reject) -/
inductive Err where
  | shape        -- serde: wrong JSON shape for the expected type / missing / unknown / duplicate field
  | badName      -- `Name::from_normalized_str` / `EntityType::from_normalized_str` failed
  | unknownExt   -- `FromJsonError::UnknownExtensionFunction`
  | exprEscape   -- the removed `__expr` escape
  | nullValue    -- JSON null where a Cedar value is expected
  | slotInClause -- `SlotsInConditionClause`
  | slot         -- wrong slot / slot in the action constraint
  | actionType   -- `InvalidActionType`
  | dupKey
deriving Repr, DecidableEq, Inhabited

abbrev R := Except Err

def jlookup (kvs : List (String × Json)) (k : String) : Option Json :=
  match kvs with
  | [] => none
  | (k', v) :: rest => if k' == k then some v else jlookup rest k

def hasKey {α} (kvs : List (String × α)) (k : String) : Bool :=
  match kvs with
  | [] => false
  | (k', _) :: rest => k' == k || hasKey rest k

/-- no member name occurs twice (`serde_json::Value` cannot hold duplicates; the typed readers reject them) -/
def noDupKeys {α} : List (String × α) → Bool
  | [] => true
  | (k, _) :: rest => !hasKey rest k && noDupKeys rest

/-- every member name is one of `allowed` (`#[serde(deny_unknown_fields)]`) -/
def onlyKeys {α} (kvs : List (String × α)) (allowed : List String) : Bool :=
  kvs.all (fun kv => allowed.contains kv.1)

/-- insert into a key-sorted list; `none` on a duplicate key (`BTreeMap` + `MapPreventDuplicates`) -/
def insertSortedKV {α} (k : String) (v : α) : List (String × α) → Option (List (String × α))
  | [] => some [(k, v)]
  | (k', v') :: rest =>
    if k < k' then some ((k, v) :: (k', v') :: rest)
    else if k == k' then none
    else (insertSortedKV k v rest).map ((k', v') :: ·)

/-- sort by key, rejecting duplicates -/
def sortKVs {α} : List (String × α) → Option (List (String × α))
  | [] => some []
  | (k, v) :: rest => (sortKVs rest).bind (insertSortedKV k v)

/-- adjacent keys strictly increasing (Rust `BTreeMap` iteration order) -/
def SortedKeys {α} : List (String × α) → Prop
  | [] => True
  | [_] => True
  | (k, _) :: (k', v') :: rest => k < k' ∧ SortedKeys ((k', v') :: rest)

end Cedar.Est
