import CedarVerif.Cedar.Est.Est
/-
Message-tree models of the two other structured formats, expression level.
 * `Cedar.Pst`   : the programmatic syntax tree (cedar-policy-core/src/pst/expr.rs, pst/ast_conversions.rs):
                   extension calls become unary / binary operators (so a call with the wrong number of
                   arguments or an unknown name has no PST: `ofAst` fails), `&&`/`||` are binary operators,
                   `has` carries an attribute list, `is` an optional `in`, sugar operators `!= > >=` exist.
 * `Cedar.Proto` : the protobuf message tree (cedar-policy/protobuf_schema/core.proto `message Expr`,
                   cedar-policy/src/proto/ast.rs): one message kind per `ExprKind`; `Unknown` has no message
                   (`unimplemented!` in the encoder, kept as an explicit outcome); decoding rebuilds `&&`/`||`
                   with the folding constructors and records through `Expr::record` (duplicate keys rejected).
prost's byte encoding is not modelled. Decoding of messages with absent sub-messages (never produced by the
encoder) is not modelled.  Import-free (model files only).
-/
namespace Cedar.Pst
open Cedar Cedar.Est

def unaryExtFns : List String :=
  ["decimal", "ip", "datetime", "duration", "isIpv4", "isIpv6", "isLoopback", "isMulticast",
   "toDate", "toTime", "toMilliseconds", "toSeconds", "toMinutes", "toHours", "toDays"]
def binaryExtFns : List String :=
  ["lessThan", "lessThanOrEqual", "greaterThan", "greaterThanOrEqual", "isInRange", "offset", "durationSince"]

inductive Op1 where
  | ast (op : UnaryOp)
  | ext (fn : String)
deriving Repr, DecidableEq, Inhabited

inductive Op2 where
  | ast (op : BinaryOp)
  | notEq | greater | greaterEq | and | or
  | ext (fn : String)
deriving Repr, DecidableEq, Inhabited

inductive PExpr where
  | lit (p : Prim)
  | var (v : Var)
  | slot (s : SlotId)
  | unary (op : Op1) (e : PExpr)
  | binary (op : Op2) (l r : PExpr)
  | getAttr (e : PExpr) (a : String)
  | hasAttr (e : PExpr) (a : String) (as : List String)
  | like (e : PExpr) (p : Pattern)
  | is (e : PExpr) (ty : EntityType)
  | isIn (e : PExpr) (ty : EntityType) (r : PExpr)
  | ite (c t e : PExpr)
  | set (es : List PExpr)
  | record (kvs : List (String × PExpr))
  | unknown (name : String)
  /-- outcome marker: `Expr::from_function_ast_name_and_args` returned an error (unknown function or wrong
  number of arguments); a tree containing it is not a PST, `ofAst` fails -/
  | badCall (fn : String) (args : List PExpr)
deriving Repr, Inhabited

inductive PErr where | badCall
deriving Repr, DecidableEq, Inhabited

/-- `Expr::from_function_ast_name_and_args`: a unary / binary extension operator, or the failure marker -/
def mkCall (fn : String) (as : List PExpr) : PExpr :=
  match as with
  | [a] => if unaryExtFns.contains fn then .unary (.ext fn) a else .badCall fn [a]
  | [a, b] => if binaryExtFns.contains fn then .binary (.ext fn) a b else .badCall fn [a, b]
  | as => .badCall fn as

-- `ast::Expr::try_into_expr::<PstBuilder>`, with failures left in place as `badCall` nodes
mutual
def ofAstT : Expr → PExpr
  | .lit p => .lit p
  | .var v => .var v
  | .slot s => .slot s
  | .unknown n _ => .unknown n
  | .ite c t e => .ite (ofAstT c) (ofAstT t) (ofAstT e)
  | .and a b => .binary .and (ofAstT a) (ofAstT b)
  | .or a b => .binary .or (ofAstT a) (ofAstT b)
  | .unaryApp op a => .unary (.ast op) (ofAstT a)
  | .binaryApp op a b => .binary (.ast op) (ofAstT a) (ofAstT b)
  | .call fn args => mkCall fn (ofAstTs args)
  | .getAttr e a => .getAttr (ofAstT e) a
  | .hasAttr e a => .hasAttr (ofAstT e) a []
  | .like e p => .like (ofAstT e) p
  | .is e ty => .is (ofAstT e) ty
  | .set es => .set (ofAstTs es)
  | .record kvs => .record (ofAstTKVs kvs)
def ofAstTs : List Expr → List PExpr
  | [] => []
  | e :: es => ofAstT e :: ofAstTs es
def ofAstTKVs : List (String × Expr) → List (String × PExpr)
  | [] => []
  | (k, e) :: kvs => (k, ofAstT e) :: ofAstTKVs kvs
end

mutual
def PExpr.hasBad : PExpr → Bool
  | .badCall _ _ => true
  | .lit _ => false
  | .var _ => false
  | .slot _ => false
  | .unknown _ => false
  | .unary _ e => e.hasBad
  | .binary _ l r => l.hasBad || r.hasBad
  | .getAttr e _ => e.hasBad
  | .hasAttr e _ _ => e.hasBad
  | .like e _ => e.hasBad
  | .is e _ => e.hasBad
  | .isIn e _ r => e.hasBad || r.hasBad
  | .ite c t e => c.hasBad || t.hasBad || e.hasBad
  | .set es => PExpr.hasBadList es
  | .record kvs => PExpr.hasBadKVs kvs
def PExpr.hasBadList : List PExpr → Bool
  | [] => false
  | e :: es => e.hasBad || PExpr.hasBadList es
def PExpr.hasBadKVs : List (String × PExpr) → Bool
  | [] => false
  | (_, e) :: kvs => e.hasBad || PExpr.hasBadKVs kvs
end

/-- `TryFrom<ast::Expr> for pst::Expr` (`to_pst` on the condition) -/
def ofAst (e : Expr) : Except PErr PExpr :=
  let p := ofAstT e
  if p.hasBad then .error .badCall else .ok p

-- `From<pst::Expr> for ast::Expr` (`into_expr::<ast::ExprBuilder>`)
mutual
def toAst : PExpr → Expr
  | .lit p => .lit p
  | .var v => .var v
  | .slot s => .slot s
  | .unknown n => .unknown n none
  | .unary (.ast op) e => .unaryApp op (toAst e)
  | .unary (.ext fn) e => .call fn [toAst e]
  | .binary (.ast op) l r => .binaryApp op (toAst l) (toAst r)
  | .binary .notEq l r => .unaryApp .not (.binaryApp .eq (toAst l) (toAst r))
  | .binary .greater l r => .unaryApp .not (.binaryApp .lessEq (toAst l) (toAst r))
  | .binary .greaterEq l r => .unaryApp .not (.binaryApp .less (toAst l) (toAst r))
  | .binary .and l r => mkAnd (toAst l) (toAst r)
  | .binary .or l r => mkOr (toAst l) (toAst r)
  | .binary (.ext fn) l r => .call fn [toAst l, toAst r]
  | .getAttr e a => .getAttr (toAst e) a
  | .hasAttr e a as => extendedHas (toAst e) a as
  | .like e p => .like (toAst e) p
  | .is e ty => .is (toAst e) ty
  | .isIn e ty r => mkAnd (.is (toAst e) ty) (.binaryApp .mem (toAst e) (toAst r))
  | .ite c t e => .ite (toAst c) (toAst t) (toAst e)
  | .set es => .set (toAsts es)
  | .record kvs => .record (toAstKVs kvs)
  | .badCall fn args => .call fn (toAsts args)
def toAsts : List PExpr → List Expr
  | [] => []
  | e :: es => toAst e :: toAsts es
def toAstKVs : List (String × PExpr) → List (String × Expr)
  | [] => []
  | (k, e) :: kvs => (k, toAst e) :: toAstKVs kvs
end

end Cedar.Pst

namespace Cedar.Proto
open Cedar Cedar.Est

/-- `models::Expr` (`oneof expr_kind`), all sub-messages present -/
inductive Msg where
  | lit (p : Prim)
  | var (v : Var)
  | slot (s : SlotId)
  | ite (c t e : Msg)
  | and (a b : Msg)
  | or (a b : Msg)
  | uApp (op : UnaryOp) (a : Msg)
  | bApp (op : BinaryOp) (a b : Msg)
  | extApp (fn : String) (args : List Msg)
  | getAttr (a : Msg) (attr : String)
  | hasAttr (a : Msg) (attr : String)
  | like (a : Msg) (p : Pattern)
  | is (a : Msg) (ty : EntityType)
  | set (es : List Msg)
  | record (items : List (String × Msg))
  /-- outcome marker: the encoder hit `unimplemented!("… does not support Unknown expressions")` -/
  | panicUnknown
deriving Repr, Inhabited

-- `From<&ast::Expr> for models::Expr`
mutual
def ofAstT : Expr → Msg
  | .lit p => .lit p
  | .var v => .var v
  | .slot s => .slot s
  | .unknown _ _ => .panicUnknown
  | .ite c t e => .ite (ofAstT c) (ofAstT t) (ofAstT e)
  | .and a b => .and (ofAstT a) (ofAstT b)
  | .or a b => .or (ofAstT a) (ofAstT b)
  | .unaryApp op a => .uApp op (ofAstT a)
  | .binaryApp op a b => .bApp op (ofAstT a) (ofAstT b)
  | .call fn args => .extApp fn (ofAstTs args)
  | .getAttr e a => .getAttr (ofAstT e) a
  | .hasAttr e a => .hasAttr (ofAstT e) a
  | .like e p => .like (ofAstT e) p
  | .is e ty => .is (ofAstT e) ty
  | .set es => .set (ofAstTs es)
  | .record kvs => .record (ofAstTKVs kvs)
def ofAstTs : List Expr → List Msg
  | [] => []
  | e :: es => ofAstT e :: ofAstTs es
def ofAstTKVs : List (String × Expr) → List (String × Msg)
  | [] => []
  | (k, e) :: kvs => (k, ofAstT e) :: ofAstTKVs kvs
end

mutual
def Msg.hasPanic : Msg → Bool
  | .panicUnknown => true
  | .lit _ => false
  | .var _ => false
  | .slot _ => false
  | .ite c t e => c.hasPanic || t.hasPanic || e.hasPanic
  | .and a b => a.hasPanic || b.hasPanic
  | .or a b => a.hasPanic || b.hasPanic
  | .uApp _ a => a.hasPanic
  | .bApp _ a b => a.hasPanic || b.hasPanic
  | .extApp _ args => Msg.hasPanicList args
  | .getAttr a _ => a.hasPanic
  | .hasAttr a _ => a.hasPanic
  | .like a _ => a.hasPanic
  | .is a _ => a.hasPanic
  | .set es => Msg.hasPanicList es
  | .record items => Msg.hasPanicKVs items
def Msg.hasPanicList : List Msg → Bool
  | [] => false
  | e :: es => e.hasPanic || Msg.hasPanicList es
def Msg.hasPanicKVs : List (String × Msg) → Bool
  | [] => false
  | (_, e) :: kvs => e.hasPanic || Msg.hasPanicKVs kvs
end

/-- the encoder: `none` = panic -/
def ofAst (e : Expr) : Option Msg :=
  let m := ofAstT e
  if m.hasPanic then none else some m

-- `TryFrom<models::Expr> for ast::Expr`
mutual
def toAst : Msg → R Expr
  | .lit p => .ok (.lit p)
  | .var v => .ok (.var v)
  | .slot s => .ok (.slot s)
  | .panicUnknown => .error .shape
  | .ite c t e => do let c ← toAst c; let t ← toAst t; let e ← toAst e; .ok (.ite c t e)
  | .and a b => do let a ← toAst a; let b ← toAst b; .ok (mkAnd a b)
  | .or a b => do let a ← toAst a; let b ← toAst b; .ok (mkOr a b)
  | .uApp op a => do let a ← toAst a; .ok (.unaryApp op a)
  | .bApp op a b => do let a ← toAst a; let b ← toAst b; .ok (.binaryApp op a b)
  | .extApp fn args => do let args ← toAsts args; .ok (.call fn args)
  | .getAttr a attr => do let a ← toAst a; .ok (.getAttr a attr)
  | .hasAttr a attr => do let a ← toAst a; .ok (.hasAttr a attr)
  | .like a p => do let a ← toAst a; .ok (.like a p)
  | .is a ty => do let a ← toAst a; .ok (.is a ty)
  | .set es => do let es ← toAsts es; .ok (.set es)
  | .record items => recordOf (toAstFields items)
def toAsts : List Msg → R (List Expr)
  | [] => .ok []
  | m :: ms => do let e ← toAst m; let es ← toAsts ms; .ok (e :: es)
def toAstFields : List (String × Msg) → List (String × R Expr)
  | [] => []
  | (k, m) :: rest => (k, toAst m) :: toAstFields rest
end

end Cedar.Proto
