import CedarVerif.Cedar.Authorizer
import CedarVerif.Cedar.Est.Est
/-
The JSON policy format, policy level.  Mirrors cedar-policy-core/src/est.rs (`est::Policy`, `Clause`,
`try_into_ast_policy_or_template`, `From<ast::Template>`), est/scope_constraints.rs, est/annotation.rs,
and template linking (`ast::Template::link` / `Policy::env`).
A `Template` without slots is a static policy.  Import-free (model files only).
-/
namespace Cedar.Est
open Cedar

inductive EntityRef where
  | euid (u : EntityUID)
  | slot
deriving Repr, DecidableEq, Inhabited

/-- `ast::PrincipalOrResourceConstraint` -/
inductive ScopeC where
  | any
  | eq (r : EntityRef)
  | mem (r : EntityRef)
  | is (ty : EntityType)
  | isIn (ty : EntityType) (r : EntityRef)
deriving Repr, DecidableEq, Inhabited

/-- `ast::ActionConstraint` -/
inductive ActionC where
  | any
  | eq (u : EntityUID)
  | mem (us : List EntityUID)
deriving Repr, DecidableEq, Inhabited

/-- `ast::Template` without its id (the id is supplied by the caller of `from_json`) -/
structure Template where
  effect : Effect
  principal : ScopeC
  action : ActionC
  resource : ScopeC
  /-- key-sorted (`BTreeMap<AnyId, Annotation>`) -/
  annotations : List (String × String)
  /-- `non_scope_constraints` -/
  cond : Option Expr
deriving Repr, Inhabited

/-! ### writer: `From<ast::Template> for est::Policy`, `Serialize` -/

def effectName : Effect → String
  | .permit => "permit" | .forbid => "forbid"

def refMember (slot : SlotId) : EntityRef → String × Json
  | .euid u => ("entity", uidJson u)
  | .slot => ("slot", .str (slotName slot))

def scopeJson (slot : SlotId) : ScopeC → Json
  | .any => .obj [("op", .str "All")]
  | .eq r => .obj [("op", .str "=="), refMember slot r]
  | .mem r => .obj [("op", .str "in"), refMember slot r]
  | .is ty => .obj [("op", .str "is"), ("entity_type", .str ty)]
  | .isIn ty r => .obj [("op", .str "is"), ("entity_type", .str ty), ("in", .obj [refMember slot r])]

def actionJson : ActionC → Json
  | .any => .obj [("op", .str "All")]
  | .eq u => .obj [("op", .str "=="), ("entity", uidJson u)]
  | .mem [u] => .obj [("op", .str "in"), ("entity", uidJson u)]
  | .mem us => .obj [("op", .str "in"), ("entities", .arr (us.map uidJson))]

def condsJson : Option Expr → Json
  | none => .arr []
  | some e => .arr [.obj [("kind", .str "when"), ("body", ofExpr e)]]

def ofTemplate (t : Template) : Json :=
  .obj ([("effect", .str (effectName t.effect)),
         ("principal", scopeJson .principal t.principal),
         ("action", actionJson t.action),
         ("resource", scopeJson .resource t.resource),
         ("conditions", condsJson t.cond)]
        ++ (if t.annotations.isEmpty then []
            else [("annotations", .obj (t.annotations.map (fun (k, v) => (k, .str v))))]))

/-! ### reader -/

def readEffect : Json → R Effect
  | .str "permit" => .ok .permit
  | .str "forbid" => .ok .forbid
  | .obj [("permit", .null)] => .ok .permit
  | .obj [("forbid", .null)] => .ok .forbid
  | _ => .error .shape

/-- `TypeAndId` read from an object (unknown members ignored) -/
def readTypeAndId (j : Json) : Option (String × String) :=
  match j with
  | .obj r => match jlookup r "type", jlookup r "id" with
    | some (.str ty), some (.str eid) => some (ty, eid)
    | _, _ => none
  | _ => none

/-- `EntityUidJson` (untagged: `__expr` escape, explicit `__entity`, implicit `{type,id}`, anything else)
followed by `into_euid` -/
def readEntityUid (j : Json) : R EntityUID :=
  match j with
  | .obj r =>
    match jlookup r "__expr" with
    | some (.str _) => .error .exprEscape
    | _ =>
      match (jlookup r "__entity").bind readTypeAndId with
      | some (ty, eid) => uidOf ty eid
      | none =>
        match readTypeAndId j with
        | some (ty, eid) => uidOf ty eid
        | none => .error .shape
  | _ => .error .shape

/-- `EqConstraint` / `PrincipalOrResourceInConstraint` (untagged `{entity}` | `{slot}`) and the slot check -/
def readRef (slot : SlotId) (fields : List (String × Json)) : R EntityRef :=
  match jlookup fields "entity" with
  | some j => (readEntityUid j).map .euid
  | none =>
    match jlookup fields "slot" with
    | some j => do
      let s ← readSlot j
      if s == slot then .ok .slot else .error .slot
    | none => .error .shape

def readScope (slot : SlotId) (j : Json) : R ScopeC :=
  match j with
  | .obj fields =>
    if !noDupKeys fields then .error .shape else
    match jlookup fields "op" with
    | some (.str "All") | some (.str "all") => .ok .any
    | some (.str "==") => (readRef slot fields).map .eq
    | some (.str "in") => (readRef slot fields).map .mem
    | some (.str "is") =>
      if onlyKeys fields ["op", "entity_type", "in"] then do
        let ty ← getS fields "entity_type"
        match jlookup fields "in" with
        | none => if validName ty then .ok (.is ty) else .error .badName
        | some (.obj inner) =>
          if validName ty then (readRef slot inner).map (.isIn ty) else .error .badName
        | some _ => .error .shape
      else .error .shape
    | _ => .error .shape
  | _ => .error .shape

def readUids : List Json → R (List EntityUID)
  | [] => .ok []
  | x :: xs => do let u ← readEntityUid x; let us ← readUids xs; .ok (u :: us)

/-- `EntityType::is_action`: the basename is `Action` -/
def isActionType (ty : String) : Bool :=
  (splitColons ty.toList []).getLast? == some "Action".toList

def checkActions (c : ActionC) : R ActionC :=
  match c with
  | .any => .ok c
  | .eq u => if isActionType u.ty then .ok c else .error .actionType
  | .mem us => if us.all (fun u => isActionType u.ty) then .ok c else .error .actionType

def readAction (j : Json) : R ActionC :=
  match j with
  | .obj fields =>
    if !noDupKeys fields then .error .shape else
    match jlookup fields "op" with
    | some (.str "All") | some (.str "all") => .ok .any
    | some (.str "==") =>
      match jlookup fields "entity" with
      | some e => do let u ← readEntityUid e; checkActions (.eq u)
      | none => if hasKey fields "slot" then .error .slot else .error .shape
    | some (.str "in") =>
      match jlookup fields "entity" with
      | some e => do let u ← readEntityUid e; checkActions (.mem [u])
      | none =>
        match jlookup fields "entities" with
        | some (.arr xs) => do let us ← readUids xs; checkActions (.mem us)
        | _ => .error .shape
    | _ => .error .shape
  | _ => .error .shape

mutual
def exprHasSlot : Expr → Bool
  | .slot _ => true
  | .lit _ => false
  | .var _ => false
  | .unknown _ _ => false
  | .ite c t e => exprHasSlot c || exprHasSlot t || exprHasSlot e
  | .and a b => exprHasSlot a || exprHasSlot b
  | .or a b => exprHasSlot a || exprHasSlot b
  | .binaryApp _ a b => exprHasSlot a || exprHasSlot b
  | .unaryApp _ a => exprHasSlot a
  | .getAttr a _ => exprHasSlot a
  | .hasAttr a _ => exprHasSlot a
  | .like a _ => exprHasSlot a
  | .is a _ => exprHasSlot a
  | .call _ args => exprHasSlotList args
  | .set args => exprHasSlotList args
  | .record kvs => exprHasSlotKVs kvs
def exprHasSlotList : List Expr → Bool
  | [] => false
  | e :: es => exprHasSlot e || exprHasSlotList es
def exprHasSlotKVs : List (String × Expr) → Bool
  | [] => false
  | (_, e) :: kvs => exprHasSlot e || exprHasSlotKVs kvs
end

/-- `Clause::try_into_ast` with `filter_slots` -/
def readClause (j : Json) : R Expr :=
  match j with
  | .obj fields =>
    if exactKeys fields ["kind", "body"] then
      match jlookup fields "kind", jlookup fields "body" with
      | some (.str "when"), some b => do
        let e ← toExpr b
        if exprHasSlot e then .error .slotInClause else .ok e
      | some (.str "unless"), some b => do
        let e ← toExpr b
        if exprHasSlot e then .error .slotInClause else .ok (.unaryApp .not e)
      | _, _ => .error .shape
    else .error .shape
  | _ => .error .shape

def readClauses : List Json → R (List Expr)
  | [] => .ok []
  | x :: xs => do let e ← readClause x; let es ← readClauses xs; .ok (e :: es)

/-- the right fold `[c1, c2, c3] ↦ c1 && (c2 && c3)` -/
def foldConds : List Expr → Option Expr
  | [] => none
  | [e] => some e
  | e :: es => match foldConds es with
    | some r => some (mkAnd e r)
    | none => some e

/-- `AnyId`: `^[_a-zA-Z][_a-zA-Z0-9]*$` (reserved words allowed) -/
def validAnyId (s : String) : Bool :=
  match s.toList with
  | [] => false
  | c :: rest => isIdentStart c && rest.all isIdentChar

def readAnnValues : List (String × Json) → R (List (String × String))
  | [] => .ok []
  | (k, v) :: rest => do
    let s ← (match v with | .str s => .ok s | .null => .ok "" | _ => .error .shape : R String)
    if validAnyId k then do let r ← readAnnValues rest; .ok ((k, s) :: r) else .error .badName

def readAnnotations (j : Option Json) : R (List (String × String)) :=
  match j with
  | none => .ok []
  | some (.obj kvs) => do
    let vs ← readAnnValues kvs
    match sortKVs vs with
    | some s => .ok s
    | none => .error .dupKey
  | some _ => .error .shape

def policyKeys : List String := ["effect", "principal", "action", "resource", "conditions", "annotations"]

def toTemplate (j : Json) : R Template :=
  match j with
  | .obj fields =>
    if onlyKeys fields policyKeys && noDupKeys fields then
      match jlookup fields "effect", jlookup fields "principal", jlookup fields "action",
            jlookup fields "resource", jlookup fields "conditions" with
      | some e, some p, some a, some r, some (.arr cs) => do
        let effect ← readEffect e
        let principal ← readScope .principal p
        let action ← readAction a
        let resource ← readScope .resource r
        let conds ← readClauses cs
        let anns ← readAnnotations (jlookup fields "annotations")
        .ok { effect, principal, action, resource, annotations := anns, cond := foldConds conds }
      | _, _, _, _, _ => .error .shape
    else .error .shape
  | _ => .error .shape

/-! ### template links -/

def ScopeC.hasSlot : ScopeC → Bool
  | .eq .slot | .mem .slot | .isIn _ .slot => true
  | _ => false

def Template.slots (t : Template) : List SlotId :=
  (if t.principal.hasSlot then [.principal] else []) ++ (if t.resource.hasSlot then [SlotId.resource] else [])

/-- a linked policy: template + slot values (`ast::Policy { template, link, values }`) -/
structure Linked where
  id : String
  templateId : String
  env : SlotEnv
deriving Repr, Inhabited

/-- `Template::check_binding`: exactly the template's slots are bound -/
def checkBinding (t : Template) (env : SlotEnv) : Bool :=
  t.slots.all (fun s => env.any (fun b => b.1 == s)) && env.all (fun b => t.slots.contains b.1)
  && (env.map (·.1)).eraseDups.length == env.length

/-- `est::TemplateLink` JSON: `{"templateId": …, "newId": …, "values": {"?principal": uid, …}}` -/
def linkJson (l : Linked) : Json :=
  .obj [("templateId", .str l.templateId), ("newId", .str l.id),
        ("values", .obj (l.env.map (fun (s, u) => (slotName s, uidJson u))))]

def readLinkValues : List (String × Json) → R SlotEnv
  | [] => .ok []
  | (k, v) :: rest => do
    let s ← readSlot (.str k)
    let u ← readEntityUid v
    let r ← readLinkValues rest
    .ok ((s, u) :: r)

def toLinked (j : Json) : R Linked :=
  match j with
  | .obj fields =>
    if exactKeys fields ["templateId", "newId", "values"] then
      match jlookup fields "templateId", jlookup fields "newId", jlookup fields "values" with
      | some (.str t), some (.str n), some (.obj vs) => do
        if !noDupKeys vs then .error .dupKey else
        let env ← readLinkValues vs
        .ok { id := n, templateId := t, env }
      | _, _, _ => .error .shape
    else .error .shape
  | _ => .error .shape

/-! ### the condition a policy is evaluated with (`ast::Template::condition`) -/

def refExpr (slot : SlotId) : EntityRef → Expr
  | .euid u => .lit (.entityUID u)
  | .slot => .slot slot

def scopeExpr (v : Var) (slot : SlotId) : ScopeC → Expr
  | .any => .lit (.bool true)
  | .eq r => .binaryApp .eq (.var v) (refExpr slot r)
  | .mem r => .binaryApp .mem (.var v) (refExpr slot r)
  | .is ty => .is (.var v) ty
  | .isIn ty r => .and (.is (.var v) ty) (.binaryApp .mem (.var v) (refExpr slot r))

def actionExpr : ActionC → Expr
  | .any => .lit (.bool true)
  | .eq u => .binaryApp .eq (.var .action) (.lit (.entityUID u))
  | .mem us => .binaryApp .mem (.var .action) (.set (us.map (fun u => .lit (.entityUID u))))

/-- `principal_constraint && action_constraint && resource_constraint && non_scope_constraints` -/
def Template.condition (t : Template) : Expr :=
  .and (.and (.and (scopeExpr .principal .principal t.principal) (actionExpr t.action))
             (scopeExpr .resource .resource t.resource))
       (match t.cond with | some e => e | none => .lit (.bool true))

/-- the `Policy` the authorizer sees for a static policy or a link -/
def Template.toPolicy (t : Template) (id : String) (env : SlotEnv) : Policy :=
  { id, effect := t.effect, condition := t.condition, env }

/-- what the authorizer computes for a JSON policy: read it (`from_json`), then evaluate the policy it denotes -/
def jsonPolicyOutcome (j : Json) (id : String) (env : SlotEnv) (req : Request) (es : Entities) : R Outcome :=
  (toTemplate j).map (fun t => (t.toPolicy id env).outcome req es)

end Cedar.Est
