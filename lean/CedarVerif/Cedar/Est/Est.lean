import CedarVerif.Cedar.Expr
import CedarVerif.Cedar.Est.Json
/-
The JSON policy format (EST), expression level.  Mirrors cedar-policy-core/src/est/expr.rs
 * `ofExpr`  : `impl From<ast::Expr> for est::Expr` (`into_expr::<est::Builder>`) followed by `Serialize`
 * `toExpr`  : `Deserialize for est::Expr` (single-key object; extension-function keys first; typed bodies
               with `deny_unknown_fields`) followed by `est::Expr::try_into_ast`
 * `valueToExpr` : `CedarValueJson` (`__entity` / `__extn` / `__expr` escapes, sets, records) and `into_expr`
`&&` / `||` are built with the AST's folding constructors (`mkAnd`, `mkOr`).
Lowering done by `try_into_ast`: `!=` ↦ `!(==)`, `>` ↦ `!(<=)`, `>=` ↦ `!(<)`, `has a.b.c` ↦ left-nested `&&`
of `has` over `.`-chains, `is T in e` ↦ `(x is T) && (x in e)`.
Recursion is structural: every member of a body object is parsed as an expression first (`toExprFields`)
and the typed reader (`nodeOfFields`) picks the results it needs; acceptance is unaffected because serde
reports only success or failure.  Import-free (model files only).
-/
namespace Cedar.Est
open Cedar

/-- `Extensions::all_available().all_funcs()` names (features: decimal, ipaddr, datetime, partial-eval) -/
def knownExtFns : List String :=
  ["decimal", "lessThan", "lessThanOrEqual", "greaterThan", "greaterThanOrEqual",
   "ip", "isIpv4", "isIpv6", "isLoopback", "isMulticast", "isInRange",
   "datetime", "duration", "offset", "durationSince", "toDate", "toTime",
   "toMilliseconds", "toSeconds", "toMinutes", "toHours", "toDays",
   "unknown"]

def isKnownExt (k : String) : Bool := knownExtFns.contains k

/-! ### `Name::from_normalized_str` -/

def isIdentStart (c : Char) : Bool := c == '_' || c.isAlpha
def isIdentChar (c : Char) : Bool := c == '_' || c.isAlphanum
def reservedIds : List String := ["true", "false", "if", "then", "else", "in", "is", "like", "has", "__cedar"]

def validIdent (cs : List Char) : Bool :=
  match cs with
  | [] => false
  | c :: rest => isIdentStart c && rest.all isIdentChar && !(reservedIds.contains (String.ofList cs))

/-- `s.split("::")` -/
def splitColons : List Char → List Char → List (List Char)
  | [], acc => [acc.reverse]
  | ':' :: ':' :: rest, acc => acc.reverse :: splitColons rest []
  | c :: rest, acc => splitColons rest (c :: acc)

def validName (s : String) : Bool := (splitColons s.toList []).all validIdent

/-! ### writer -/

def jobj1 (k : String) (v : Json) : Json := .obj [(k, v)]
def jLR (k : String) (l r : Json) : Json := jobj1 k (.obj [("left", l), ("right", r)])
def jArg (k : String) (a : Json) : Json := jobj1 k (.obj [("arg", a)])

def varName : Var → String
  | .principal => "principal" | .action => "action" | .resource => "resource" | .context => "context"
def slotName : SlotId → String
  | .principal => "?principal" | .resource => "?resource"
def unKey : UnaryOp → String
  | .not => "!" | .neg => "neg" | .isEmpty => "isEmpty"
def binKey : BinaryOp → String
  | .eq => "==" | .less => "<" | .lessEq => "<=" | .add => "+" | .sub => "-" | .mul => "*" | .mem => "in"
  | .contains => "contains" | .containsAll => "containsAll" | .containsAny => "containsAny"
  | .getTag => "getTag" | .hasTag => "hasTag"

def uidJson (u : EntityUID) : Json := .obj [("type", .str u.ty), ("id", .str u.eid)]

def primJson : Prim → Json
  | .bool b => .bool b
  | .int i => .num i
  | .string s => .str s
  | .entityUID u => .obj [("__entity", uidJson u)]

def patElemJson : PatElem → Json
  | .star => .str "Wildcard"
  | .char c => .obj [("Literal", .str (String.singleton c))]

mutual
def ofExpr : Expr → Json
  | .lit p => jobj1 "Value" (primJson p)
  | .var v => jobj1 "Var" (.str (varName v))
  | .slot s => jobj1 "Slot" (.str (slotName s))
  | .unknown n _ => jobj1 "unknown" (.arr [jobj1 "Value" (.str n)])
  | .ite c t e => jobj1 "if-then-else" (.obj [("if", ofExpr c), ("then", ofExpr t), ("else", ofExpr e)])
  | .and a b => jLR "&&" (ofExpr a) (ofExpr b)
  | .or a b => jLR "||" (ofExpr a) (ofExpr b)
  | .unaryApp op a => jArg (unKey op) (ofExpr a)
  | .binaryApp op a b => jLR (binKey op) (ofExpr a) (ofExpr b)
  | .call fn args => jobj1 fn (.arr (ofExprs args))
  | .getAttr e a => jobj1 "." (.obj [("left", ofExpr e), ("attr", .str a)])
  | .hasAttr e a => jobj1 "has" (.obj [("left", ofExpr e), ("attr", .str a)])
  | .like e p => jobj1 "like" (.obj [("left", ofExpr e), ("pattern", .arr (p.map patElemJson))])
  | .is e ty => jobj1 "is" (.obj [("left", ofExpr e), ("entity_type", .str ty)])
  | .set es => jobj1 "Set" (.arr (ofExprs es))
  | .record kvs => jobj1 "Record" (.obj (ofExprKVs kvs))
def ofExprs : List Expr → List Json
  | [] => []
  | e :: es => ofExpr e :: ofExprs es
def ofExprKVs : List (String × Expr) → List (String × Json)
  | [] => []
  | (k, e) :: kvs => (k, ofExpr e) :: ofExprKVs kvs
end

/-! ### reader: Cedar values (`{"Value": …}`) -/

def seqKVs {α} : List (String × R α) → R (List (String × α))
  | [] => .ok []
  | (k, r) :: rest => do let v ← r; let vs ← seqKVs rest; .ok ((k, v) :: vs)

/-- `RestrictedExpr::record` after reading into a `BTreeMap` with `MapPreventDuplicates` -/
def recordOf (fs : List (String × R Expr)) : R Expr := do
  let kvs ← seqKVs fs
  match sortKVs kvs with
  | some s => .ok (.record s)
  | none => .error .dupKey

def getR {α} (fs : List (String × R α)) (k : String) : R α :=
  match fs with
  | [] => .error .shape
  | (k', r) :: rest => if k' == k then r else getR rest k

def getS (fields : List (String × Json)) (k : String) : R String :=
  match jlookup fields k with
  | some (.str s) => .ok s
  | _ => .error .shape

/-- `TryFrom<TypeAndId> for EntityUID` -/
def uidOf (ty eid : String) : R EntityUID :=
  if validName ty then .ok ⟨ty, eid⟩ else .error .badName

/-- the escape test of `From<RawCedarValueJson> for CedarValueJson` on a one-member record `{k: {r…}}`;
`rs` are the members of `r` read as values. `none` = no escape, an ordinary record. -/
def escapeOf (k : String) (r : List (String × Json)) (rs : List (String × R Expr)) : Option (R Expr) :=
  if k == "__extn" && decide (2 ≤ r.length) then
    match jlookup r "fn" with
    | some (.str f) =>
      if hasKey r "arg" then
        some (if !noDupKeys r then .error .dupKey
              else if validName f then (getR rs "arg").map (fun a => .call f [a]) else .error .badName)
      else match jlookup r "args" with
        | some (.arr _) =>
          some (if !noDupKeys r then .error .dupKey
                else if validName f then
                  (match getR rs "args" with
                   | .ok (.set es) => .ok (.call f es)
                   | .ok _ => .error .shape
                   | .error e => .error e)
                else .error .badName)
        | _ => none
    | _ => none
  else if k == "__entity" && decide (2 ≤ r.length) then
    match jlookup r "type", jlookup r "id" with
    | some (.str ty), some (.str eid) =>
      some (if !noDupKeys r then .error .dupKey else (uidOf ty eid).map (fun u => .lit (.entityUID u)))
    | _, _ => none
  else none

/-- a JSON object read as a Cedar value: `fs` = its members read as values, `inner` = (for a one-member
object whose member is an object) the members of that inner object read as values -/
def valueObj (kvs : List (String × Json)) (fs inner : List (String × R Expr)) : R Expr :=
  match kvs with
  | [(k, .obj r)] =>
    match escapeOf k r inner with
    | some res => res
    | none => recordOf fs
  | [(k, .str _)] => if k == "__expr" then .error .exprEscape else recordOf fs
  | _ => recordOf fs

mutual
def valueToExpr : Json → R Expr
  | .null => .error .nullValue
  | .bool b => .ok (.lit (.bool b))
  | .num i => if inI64 i then .ok (.lit (.int i)) else .error .shape
  | .str s => .ok (.lit (.string s))
  | .arr xs => (valueToExprs xs).map .set
  | .obj kvs => valueObj kvs (valueToExprFields kvs) (valueInner kvs)
def valueToExprs : List Json → R (List Expr)
  | [] => .ok []
  | x :: xs => do let e ← valueToExpr x; let es ← valueToExprs xs; .ok (e :: es)
def valueToExprFields : List (String × Json) → List (String × R Expr)
  | [] => []
  | (k, v) :: rest => (k, valueToExpr v) :: valueToExprFields rest
def valueInner : List (String × Json) → List (String × R Expr)
  | [] => []
  | (_, v) :: _ => valueInner1 v
def valueInner1 : Json → List (String × R Expr)
  | .obj r => valueToExprFields r
  | _ => []
end

/-! ### reader: expressions -/

/-- members are exactly `names` (which are distinct): `deny_unknown_fields`, no missing, no duplicate field -/
def exactKeys (fields : List (String × Json)) (names : List String) : Bool :=
  fields.length == names.length && names.all (hasKey fields)

def readVar : Json → R Var
  | .str "principal" => .ok .principal
  | .str "action" => .ok .action
  | .str "resource" => .ok .resource
  | .str "context" => .ok .context
  | .obj [("principal", .null)] => .ok .principal     -- serde: a unit variant may be written `{"v": null}`
  | .obj [("action", .null)] => .ok .action
  | .obj [("resource", .null)] => .ok .resource
  | .obj [("context", .null)] => .ok .context
  | _ => .error .shape

def readSlot : Json → R SlotId
  | .str "?principal" => .ok .principal
  | .str "?resource" => .ok .resource
  | .obj [("?principal", .null)] => .ok .principal
  | .obj [("?resource", .null)] => .ok .resource
  | _ => .error .shape

def readPatElem : Json → R Pattern
  | .str "Wildcard" => .ok [.star]
  | .obj [("Wildcard", .null)] => .ok [.star]
  | .obj [("Literal", .str s)] => .ok (s.toList.map .char)
  | _ => .error .shape

def readPattern : List Json → R Pattern
  | [] => .ok []
  | x :: xs => do let p ← readPatElem x; let ps ← readPattern xs; .ok (p ++ ps)

def readStrs : List Json → R (List String)
  | [] => .ok []
  | .str s :: xs => do let ss ← readStrs xs; .ok (s :: ss)
  | _ :: _ => .error .shape

/-- `ast::ExprBuilder::and`: two Boolean literals are folded (ast/expr.rs) -/
def mkAnd (a b : Expr) : Expr :=
  match a, b with
  | .lit (.bool x), .lit (.bool y) => .lit (.bool (x && y))
  | _, _ => .and a b

/-- `ast::ExprBuilder::or`: two Boolean literals are folded -/
def mkOr (a b : Expr) : Expr :=
  match a, b with
  | .lit (.bool x), .lit (.bool y) => .lit (.bool (x || y))
  | _, _ => .or a b

/-- `ExprBuilder::extended_has_attr` (the left fold of `expr_builder.rs`) -/
def extHasFold : Expr × Expr → List String → Expr × Expr
  | acc, [] => acc
  | (h, g), a :: as => extHasFold (mkAnd h (.hasAttr g a), .getAttr g a) as

def extendedHas (e : Expr) (a : String) (as : List String) : Expr :=
  (extHasFold (.hasAttr e a, .getAttr e a) as).1

def readArg (fields : List (String × Json)) (fs : List (String × R Expr)) (f : Expr → Expr) : R Expr :=
  if exactKeys fields ["arg"] then (getR fs "arg").map f else .error .shape

def readLR (fields : List (String × Json)) (fs : List (String × R Expr)) (f : Expr → Expr → Expr) : R Expr :=
  if exactKeys fields ["left", "right"] then do
    let l ← getR fs "left"; let r ← getR fs "right"; .ok (f l r)
  else .error .shape

/-- the typed body of a non-extension operator key `k`; `fs` = members of the body read as expressions -/
def nodeOfFields (k : String) (fields : List (String × Json)) (fs : List (String × R Expr)) : R Expr :=
  match k with
  | "!" => readArg fields fs (.unaryApp .not)
  | "neg" => readArg fields fs (.unaryApp .neg)
  | "isEmpty" => readArg fields fs (.unaryApp .isEmpty)
  | "==" => readLR fields fs (.binaryApp .eq)
  | "!=" => readLR fields fs (fun a b => .unaryApp .not (.binaryApp .eq a b))
  | "in" => readLR fields fs (.binaryApp .mem)
  | "<" => readLR fields fs (.binaryApp .less)
  | "<=" => readLR fields fs (.binaryApp .lessEq)
  | ">" => readLR fields fs (fun a b => .unaryApp .not (.binaryApp .lessEq a b))
  | ">=" => readLR fields fs (fun a b => .unaryApp .not (.binaryApp .less a b))
  | "&&" => readLR fields fs mkAnd
  | "||" => readLR fields fs mkOr
  | "+" => readLR fields fs (.binaryApp .add)
  | "-" => readLR fields fs (.binaryApp .sub)
  | "*" => readLR fields fs (.binaryApp .mul)
  | "contains" => readLR fields fs (.binaryApp .contains)
  | "containsAll" => readLR fields fs (.binaryApp .containsAll)
  | "containsAny" => readLR fields fs (.binaryApp .containsAny)
  | "getTag" => readLR fields fs (.binaryApp .getTag)
  | "hasTag" => readLR fields fs (.binaryApp .hasTag)
  | "." =>
    if exactKeys fields ["left", "attr"] then do
      let l ← getR fs "left"; let a ← getS fields "attr"; .ok (.getAttr l a)
    else .error .shape
  | "has" =>
    -- `HasAttrRepr` is `untagged` without `deny_unknown_fields`: other members are ignored
    if noDupKeys fields then
      match jlookup fields "attr" with
      | some (.str a) => (getR fs "left").map (fun l => .hasAttr l a)
      | some (.arr xs) => do
        let l ← getR fs "left"
        match ← readStrs xs with
        | [] => .error .shape
        | a :: as => .ok (extendedHas l a as)
      | _ => .error .shape
    else .error .shape
  | "like" =>
    if exactKeys fields ["left", "pattern"] then do
      let l ← getR fs "left"
      match jlookup fields "pattern" with
      | some (.arr xs) => do let p ← readPattern xs; .ok (.like l p)
      | _ => .error .shape
    else .error .shape
  | "is" =>
    if exactKeys fields ["left", "entity_type"] then do
      let ty ← getS fields "entity_type"
      if validName ty then do let l ← getR fs "left"; .ok (.is l ty) else .error .badName
    else if exactKeys fields ["left", "entity_type", "in"] then do
      let ty ← getS fields "entity_type"
      if validName ty then do
        let l ← getR fs "left"; let r ← getR fs "in"
        .ok (mkAnd (.is l ty) (.binaryApp .mem l r))
      else .error .badName
    else .error .shape
  | "if-then-else" =>
    if exactKeys fields ["if", "then", "else"] then do
      let c ← getR fs "if"; let t ← getR fs "then"; let e ← getR fs "else"; .ok (.ite c t e)
    else .error .shape
  | _ => .error .shape

mutual
def toExpr : Json → R Expr
  | .obj kvs => toExprObj kvs
  | _ => .error .shape
/-- `Deserialize for est::Expr`: exactly one member -/
def toExprObj : List (String × Json) → R Expr
  | [] => .error .shape
  | (k, v) :: rest => match rest with
    | [] => toExprNode v k
    | _ :: _ => .error .shape
/-- the body `v` of the single member `k` -/
def toExprNode : Json → String → R Expr
  | .arr xs, k =>
    if isKnownExt k then (toExprs xs).map (.call k)
    else if k == "Value" then valueToExpr (.arr xs)
    else if k == "Set" then (toExprs xs).map .set
    else .error .shape
  | .obj fields, k =>
    if isKnownExt k then .error .shape
    else if k == "Value" then valueToExpr (.obj fields)
    else if k == "Var" then (readVar (.obj fields)).map .var
    else if k == "Slot" then (readSlot (.obj fields)).map .slot
    else if k == "Record" then recordOf (toExprFields fields)
    else nodeOfFields k fields (toExprFields fields)
  | v, k =>
    if isKnownExt k then .error .shape
    else if k == "Value" then valueToExpr v
    else if k == "Var" then (readVar v).map .var
    else if k == "Slot" then (readSlot v).map .slot
    else .error .shape
def toExprs : List Json → R (List Expr)
  | [] => .ok []
  | x :: xs => do let e ← toExpr x; let es ← toExprs xs; .ok (e :: es)
def toExprFields : List (String × Json) → List (String × R Expr)
  | [] => []
  | (k, v) :: rest => (k, toExpr v) :: toExprFields rest
end

end Cedar.Est
