import CedarVerif.Cedar.Eval
/-
Policies and the authorizer. Mirrors `Authorizer::is_authorized_core_internal` (bucket loop with
`ErrorHandling::Skip`) and `impl From<PartialResponse> for Response` (cedar-policy-core/src/authorizer.rs,
authorizer/partial_response.rs). In the concrete case the residual buckets stay empty.  Import-free.
-/
namespace Cedar

inductive Effect where | permit | forbid
deriving Repr, DecidableEq, Inhabited

structure Policy where
  id : String
  effect : Effect
  condition : Expr
  env : SlotEnv
deriving Repr, Inhabited

inductive Outcome where | sat | unsat | err
deriving Repr, DecidableEq, Inhabited

def Policy.outcome (p : Policy) (req : Request) (es : Entities) : Outcome :=
  match evaluate req es p.env p.condition with
  | .error _ => .err
  | .ok v => match v.asBool with
    | .ok true => .sat
    | .ok false => .unsat
    | .error _ => .err

inductive Decision where | allow | deny
deriving Repr, DecidableEq, Inhabited

/-- mirror of the bucket loop (residual buckets always empty in the concrete case) -/
structure Buckets where
  satPermits : List String := []
  falsePermits : List (String × Bool) := []     -- (id, errored?)
  satForbids : List String := []
  falseForbids : List (String × Bool) := []
  errors : List String := []
deriving Repr, Inhabited

def Buckets.step (req : Request) (es : Entities) (b : Buckets) (p : Policy) : Buckets :=
  match p.outcome req es, p.effect with
  | .sat, .permit => { b with satPermits := b.satPermits ++ [p.id] }
  | .sat, .forbid => { b with satForbids := b.satForbids ++ [p.id] }
  | .unsat, .permit => { b with falsePermits := b.falsePermits ++ [(p.id, false)] }
  | .unsat, .forbid => { b with falseForbids := b.falseForbids ++ [(p.id, false)] }
  | .err, .permit => { b with falsePermits := b.falsePermits ++ [(p.id, true)], errors := b.errors ++ [p.id] }
  | .err, .forbid => { b with falseForbids := b.falseForbids ++ [(p.id, true)], errors := b.errors ++ [p.id] }

structure Response where
  decision : Decision
  reasons : List String
  errors : List String
deriving Repr, Inhabited

def Buckets.concretize (b : Buckets) : Response :=
  { decision := if !b.satPermits.isEmpty && b.satForbids.isEmpty then .allow else .deny,
    reasons := if b.satForbids.isEmpty then b.satPermits else b.satForbids,
    errors := b.errors }

def isAuthorized (req : Request) (es : Entities) (ps : List Policy) : Response :=
  (ps.foldl (Buckets.step req es) {}).concretize

end Cedar
