import CedarVerif.Cedar.Data
import CedarVerif.Cedar.Pattern
/-
Expressions (cedar-policy-core/src/ast/expr.rs `ExprKind`), requests, entity stores.  Import-free.
-/
namespace Cedar

inductive Var where | principal | action | resource | context
deriving Repr, DecidableEq, Inhabited
inductive UnaryOp where | not | neg | isEmpty
deriving Repr, DecidableEq, Inhabited
inductive BinaryOp where
  | eq | less | lessEq | add | sub | mul | mem | contains | containsAll | containsAny | getTag | hasTag
deriving Repr, DecidableEq, Inhabited
inductive SlotId where | principal | resource
deriving Repr, DecidableEq, Inhabited

/-- `ast::Type` (the dynamic type tags used by typed unknowns) -/
inductive TyAnn where
  | bool | long | string | set | record
  | entity (ty : EntityType)
  | ext (name : String)
deriving Repr, DecidableEq, Inhabited

inductive Expr where
  | lit (p : Prim)
  | var (v : Var)
  | slot (s : SlotId)
  | unknown (name : String) (ty : Option TyAnn)
  | ite (c t e : Expr)
  | and (a b : Expr)
  | or (a b : Expr)
  | unaryApp (op : UnaryOp) (a : Expr)
  | binaryApp (op : BinaryOp) (a b : Expr)
  | call (fn : String) (args : List Expr)
  | getAttr (e : Expr) (attr : String)
  | hasAttr (e : Expr) (attr : String)
  | like (e : Expr) (p : Pattern)
  | is (e : Expr) (ty : EntityType)
  | set (es : List Expr)
  | record (kvs : List (String × Expr))
deriving Repr, Inhabited

structure EntityData where
  attrs : List (String × Value)
  ancestors : List EntityUID
  tags : List (String × Value)
deriving Repr, Inhabited

abbrev Entities := List (EntityUID × EntityData)

def Entities.find? (es : Entities) (uid : EntityUID) : Option EntityData :=
  match es with
  | [] => none
  | (u, d) :: rest => if u == uid then some d else Entities.find? rest uid

structure Request where
  principal : EntityUID
  action : EntityUID
  resource : EntityUID
  context : List (String × Value)
deriving Repr, Inhabited

abbrev SlotEnv := List (SlotId × EntityUID)

end Cedar
