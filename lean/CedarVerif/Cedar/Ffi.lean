/-
Model of the stateful part of the JSON/FFI interface (cedar-policy/src/ffi/is_authorized.rs) and of the
CLI's exit-code table (cedar-policy-cli/src/lib.rs). Import-free.

What is mirrored
* `PREPARSED_POLICY_SETS`, `PREPARSED_SCHEMAS` : two thread-local `HashMap<String, _>` — here two
  association lists without duplicate keys (`Map.insert` replaces, as `HashMap::insert` does).
* `preparse_policy_set(id, doc)` : `match doc.parse() { Ok(p) => { cache.insert(id, p); Success } Err(_) => Failure }`
* `preparse_schema(name, doc)`   : same shape, on the schema cache.
* `stateful_is_authorized(call)` / `StatefulAuthorizationCall::parse` : look the schema name up (only if one is
  given; a missing entry is an error), look the policy-set id up (a missing entry is an error), and only then
  assemble request/context/entities and authorize, exactly as `AuthorizationCall::parse` does after *its*
  schema and policies have been parsed.
* `is_authorized(call)` / `AuthorizationCall::parse` : parse the optional schema document and the policies
  document; if either fails the answer is `Failure`; otherwise the common tail.

What is a parameter (opaque): the two document parsers (`PolicySet::parse`, `Schema::parse` of ffi/utils.rs) and
the common tail `core` (= parse principal/action/resource/context/entities against the optional schema, build the
`Request` with or without request validation, call `Authorizer::is_authorized`, convert the response).
That the tail and the parsers assemble their inputs as the Rust API does is NOT a statement of this model; it is
checked by the differential run only (harness/src/c19.rs).
-/
namespace Cedar.Ffi

/-! ## association-list maps (HashMap<String, V>) -/

abbrev Map (V : Type) := List (String × V)

namespace Map
variable {V : Type}

def lookup (k : String) : Map V → Option V
  | [] => none
  | (k', v) :: m => if k' = k then some v else lookup k m

def erase (k : String) : Map V → Map V
  | [] => []
  | (k', v) :: m => if k' = k then erase k m else (k', v) :: erase k m

/-- `HashMap::insert`: the old entry for the key (if any) is replaced -/
def insert (k : String) (v : V) (m : Map V) : Map V := (k, v) :: erase k m

theorem lookup_erase_same (k : String) (m : Map V) : lookup k (erase k m) = none := by
  induction m with
  | nil => rfl
  | cons kv m ih =>
    obtain ⟨k', v⟩ := kv
    by_cases h : k' = k
    · simp [erase, h, ih]
    · simp [erase, lookup, h, ih]

theorem lookup_erase_other {k k' : String} (h : k' ≠ k) (m : Map V) : lookup k (erase k' m) = lookup k m := by
  induction m with
  | nil => rfl
  | cons kv m ih =>
    obtain ⟨k'', v⟩ := kv
    by_cases h1 : k'' = k'
    · subst h1
      simp [erase, lookup, h, ih]
    · by_cases h2 : k'' = k
      · subst h2
        simp [erase, lookup, h1]
      · simp [erase, lookup, h1, h2, ih]

theorem lookup_insert_same (k : String) (v : V) (m : Map V) : lookup k (insert k v m) = some v := by
  simp [insert, lookup]

theorem lookup_insert_other {k k' : String} (h : k' ≠ k) (v : V) (m : Map V) :
    lookup k (insert k' v m) = lookup k m := by
  simp [insert, lookup, h, lookup_erase_other h]

end Map

/-! ## the interface, parametrised by the parsers and the common tail -/

/-- `AuthorizationAnswer` up to what the property observes: `Failure` or `Success` with a response -/
inductive Answer (A : Type) where
  | failure
  | success (a : A)
deriving Repr, DecidableEq

/-- `CheckParseAnswer` -/
inductive CheckParse where
  | success
  | failure
deriving Repr, DecidableEq

/-- The opaque parts. `PDoc`/`SDoc`: submitted documents (ffi `PolicySet` / `Schema` values);
`P`/`S`: parsed objects (`crate::PolicySet` / `crate::Schema`); `R`: the rest of a call
(principal, action, resource, context, entities, validate_request); `A`: responses. -/
structure Params (PDoc SDoc P S R A : Type) where
  parsePolicies : PDoc → Option P
  parseSchema : SDoc → Option S
  core : Option S → P → R → Answer A

/-- the two thread-local caches -/
structure Store (P S : Type) where
  policies : Map P := []
  schemas : Map S := []

/-- `AuthorizationCall` -/
structure Call (PDoc SDoc R : Type) where
  schema : Option SDoc
  policies : PDoc
  rest : R

/-- `StatefulAuthorizationCall` -/
structure SCall (R : Type) where
  schemaName : Option String
  policySetId : String
  rest : R

section
variable {PDoc SDoc P S R A : Type} (π : Params PDoc SDoc P S R A)

/-- `preparse_policy_set` -/
def preparsePolicySet (st : Store P S) (id : String) (doc : PDoc) : Store P S × CheckParse :=
  match π.parsePolicies doc with
  | some p => ({ st with policies := st.policies.insert id p }, .success)
  | none => (st, .failure)

/-- `preparse_schema` -/
def preparseSchema (st : Store P S) (name : String) (doc : SDoc) : Store P S × CheckParse :=
  match π.parseSchema doc with
  | some s => ({ st with schemas := st.schemas.insert name s }, .success)
  | none => (st, .failure)

/-- `maybe_schema` of `StatefulAuthorizationCall::parse`: `Ok(None)` without a name, `Err` for an unknown name -/
def lookupSchema (st : Store P S) : Option String → Option (Option S)
  | none => some none
  | some n => match st.schemas.lookup n with
    | some s => some (some s)
    | none => none

/-- `stateful_is_authorized` -/
def statefulAuth (st : Store P S) (c : SCall R) : Answer A :=
  match lookupSchema st c.schemaName, st.policies.lookup c.policySetId with
  | some sch, some ps => π.core sch ps c.rest
  | _, _ => .failure

/-- `maybe_schema` of `AuthorizationCall::parse`: `schema.map(parse).transpose()` -/
def parseOptSchema : Option SDoc → Option (Option S)
  | none => some none
  | some d => match π.parseSchema d with
    | some s => some (some s)
    | none => none

/-- `is_authorized` -/
def statelessAuth (c : Call PDoc SDoc R) : Answer A :=
  match parseOptSchema π c.schema, π.parsePolicies c.policies with
  | some sch, some ps => π.core sch ps c.rest
  | _, _ => .failure

/-- one FFI call of a history -/
inductive Op (PDoc SDoc R : Type) where
  | preparsePolicySet (id : String) (doc : PDoc)
  | preparseSchema (name : String) (doc : SDoc)
  | statefulAuth (c : SCall R)

/-- reply to one call -/
inductive Reply (A : Type) where
  | checkParse (r : CheckParse)
  | answer (a : Answer A)

def step (st : Store P S) : Op PDoc SDoc R → Store P S × Reply A
  | .preparsePolicySet id doc => let (st', r) := preparsePolicySet π st id doc; (st', .checkParse r)
  | .preparseSchema n doc => let (st', r) := preparseSchema π st n doc; (st', .checkParse r)
  | .statefulAuth c => (st, .answer (statefulAuth π st c))

/-- the store after a history (oldest call first), starting from `st` -/
def runFrom (st : Store P S) : List (Op PDoc SDoc R) → Store P S
  | [] => st
  | op :: ops => runFrom (step π st op).1 ops

/-- the store after a history, starting from the empty caches (a fresh thread) -/
def run (h : List (Op PDoc SDoc R)) : Store P S := runFrom π {} h

/-- all replies of a history -/
def replies (st : Store P S) : List (Op PDoc SDoc R) → List (Reply A)
  | [] => []
  | op :: ops => (step π st op).2 :: replies (step π st op).1 ops

end

/-! ## the CLI's exit codes (`impl Termination for CedarExitCode`) -/

inductive CedarExitCode where
  | success
  | failure
  | authorizeDeny
  | validationFailure
  | unknown
deriving Repr, DecidableEq

def CedarExitCode.report : CedarExitCode → Nat
  | .success => 0            -- ExitCode::SUCCESS
  | .failure => 1            -- ExitCode::FAILURE
  | .authorizeDeny => 2
  | .validationFailure => 3
  | .unknown => 4

inductive Decision where
  | allow
  | deny
deriving Repr, DecidableEq

/-- `authorize` (command/authorize.rs): `Ok(ans)` ↦ by decision, `Err(_)` ↦ Failure -/
def authorizeExit : Answer Decision → CedarExitCode
  | .success .allow => .success
  | .success .deny => .authorizeDeny
  | .failure => .failure

/-- the decision line `authorize` prints -/
def authorizePrinted : Answer Decision → Option String
  | .success .allow => some "ALLOW"
  | .success .deny => some "DENY"
  | .failure => none

/-- `validate` (command/validate.rs): inputs unreadable ↦ Failure; otherwise by `validation_passed()`
(and, under `--deny-warnings`, `validation_passed_without_warnings()`) -/
def validateExit (inputsOk passed passedWithoutWarnings denyWarnings : Bool) : CedarExitCode :=
  if !inputsOk then .failure
  else if !passed || (denyWarnings && !passedWithoutWarnings) then .validationFailure
  else .success

/-- `check-parse`, `translate-policy`, `translate-schema`, `format` without `--check` -/
def okOrFailure (ok : Bool) : CedarExitCode := if ok then .success else .failure

end Cedar.Ffi
