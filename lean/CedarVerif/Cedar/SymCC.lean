/-
SymCC: the *option-boolean skeleton* of cedar-policy-symcc's verification-condition builders on a LITERAL
symbolic environment.  Import-free.

What is modelled (mirrors, function by function):
  * symcc/factory.rs     `not and or implies eq is_some any_true` restricted to literal (constant) arguments,
  * symcc/authorizer.rs  `satisfied_policies`, `is_authorized`                (= symccopt/authorizer.rs on terms),
  * symcc/verifier.rs    `verify_evaluate`, `verify_evaluate_pair`, `verify_is_authorized` and the eleven
                         `verify_*` conditions; `allow_all` / the empty set,
  * symccopt/verifier.rs `verify_evaluate_opt`, `verify_evaluate_pair_opt`, `verify_is_authorized_opt`
                         (the constant-false shortcut) and `CompiledPolicySet::{allow_all, deny_all}`,
  * symcc.rs             `check_unsat_asserts` (the solver-free shortcut: some assert is the literal `false` ⇒ unsat;
                         all asserts are the literal `true` ⇒ sat).

What is NOT modelled HERE (a first fragment of the compiler and factory is modelled in Cedar/SymCompile.lean and
connected to this skeleton by `Cedar.C18.vc_skeleton_correct_fragment`): the compiler `Expr → Term` (symcc/compiler.rs, symccopt/compiler.rs, extfun.rs, bitvec.rs,
extension_types/), the term factory's constant folding on non-boolean terms, the symbolizer
(`SymEnv::from_concrete_env`) and the enforcer's term construction.  Their contract on a literal environment is

    the compiled condition of a policy reduces to the constant `some b` when `evaluate` gives the boolean `b`,
    and to `none` when `evaluate` errors; every enforcer assumption reduces to the literal `true`

and it enters this model only as DATA: a compiled policy here *is* its effect together with that constant
(`CPolicy.term : Option Bool`, `none` = error), and the enforcer's assumptions are a list of booleans `enf`.
The differential run of C18 samples exactly this contract on the Rust code (harness/src/c18.rs).
-/
namespace Cedar.SymCC

inductive Effect where | permit | forbid
deriving Repr, DecidableEq, Inhabited

/-- a policy compiled against a literal environment: effect + the constant its condition folds to
    (`Term` of type `.option .bool`: `some true`, `some false`, or `none` for an evaluation error) -/
structure CPolicy where
  effect : Effect
  term : Option Bool
deriving Repr, DecidableEq, Inhabited

abbrev CPolicies := List CPolicy

/-! ### factory.rs on literal arguments -/

/-- `factory::not` on `Term::Prim(Bool b)` -/
def fNot (b : Bool) : Bool := !b

/-- `factory::and` on two boolean literals (first three branches of the Rust `if` chain) -/
def fAnd (t1 t2 : Bool) : Bool :=
  if t1 == t2 || t2 == true then t1
  else if t1 == true then t2
  else false

/-- `factory::or` on two boolean literals -/
def fOr (t1 t2 : Bool) : Bool :=
  if t1 == t2 || t2 == false then t1
  else if t1 == false then t2
  else true

/-- `factory::implies` = `or(not(t1), t2)` -/
def fImplies (t1 t2 : Bool) : Bool := fOr (fNot t1) t2

/-- `factory::eq` on two boolean literals: `t1 == t2 ⇒ true`, both literal ⇒ `false` -/
def fEqBool (t1 t2 : Bool) : Bool := if t1 == t2 then true else false

/-- `factory::eq(t, some_of(true))` on a literal option-bool term:
    `(Some a, Some b)` ⇒ `simplify a b`; `(None, Some _)` ⇒ `false` -/
def fEqSomeTrue (t : Option Bool) : Bool :=
  match t with
  | some b => fEqBool b true
  | none => false

/-- `factory::is_none` on a literal option term -/
def fIsNone (t : Option Bool) : Bool :=
  match t with
  | none => true
  | some _ => false

/-- `factory::is_some` = `not(is_none(t))` -/
def fIsSome (t : Option Bool) : Bool := fNot (fIsNone t)

/-- `factory::any_true f ts` = `ts.fold(false, |acc, g| or(f(g), acc))` -/
def anyTrue (f : Option Bool → Bool) (ts : List (Option Bool)) : Bool :=
  ts.foldl (fun acc g => fOr (f g) acc) false

/-! ### authorizer.rs -/

/-- `satisfied_policies(effect, policies, env)`: terms of the policies with that effect, `any_true(eq(·, some true))` -/
def satisfiedPolicies (eff : Effect) (ps : CPolicies) : Bool :=
  anyTrue fEqSomeTrue ((ps.filter (fun p => p.effect == eff)).map (·.term))

/-- `is_authorized(policies, env)` = `and(permits, not(forbids))`: a `Term` of type `.bool` -/
def isAuthorized (ps : CPolicies) : Bool :=
  let forbids := satisfiedPolicies .forbid ps
  let permits := satisfiedPolicies .permit ps
  fAnd permits (fNot forbids)

/-! ### verifier.rs: asserts whose conjunction is UNSATISFIABLE iff the verified property holds -/

/-- on a literal environment every assert is a boolean literal -/
abbrev Asserts := List Bool

/-- `verify_evaluate(phi, policy, env)` = `enforce([x], env) ++ [not(phi(compile x env))]`;
    `enf` = the enforcer's assumptions (acyclicity / transitivity over the footprint) as they fold on the literal store -/
def verifyEvaluate (phi : Option Bool → Bool) (enf : Asserts) (t : Option Bool) : Asserts :=
  enf ++ [fNot (phi t)]

def verifyEvaluatePair (phi : Option Bool → Option Bool → Bool) (enf : Asserts) (t1 t2 : Option Bool) : Asserts :=
  enf ++ [fNot (phi t1 t2)]

def verifyIsAuthorized (phi : Bool → Bool → Bool) (enf : Asserts) (ps1 ps2 : CPolicies) : Asserts :=
  enf ++ [fNot (phi (isAuthorized ps1) (isAuthorized ps2))]

def verifyNeverErrors (enf : Asserts) (t : Option Bool) : Asserts := verifyEvaluate fIsSome enf t
def verifyAlwaysMatches (enf : Asserts) (t : Option Bool) : Asserts := verifyEvaluate fEqSomeTrue enf t
def verifyNeverMatches (enf : Asserts) (t : Option Bool) : Asserts := verifyEvaluate (fun t => fNot (fEqSomeTrue t)) enf t

def verifyMatchesEquivalent (enf : Asserts) (t1 t2 : Option Bool) : Asserts :=
  verifyEvaluatePair (fun t1 t2 => fEqBool (fEqSomeTrue t1) (fEqSomeTrue t2)) enf t1 t2
def verifyMatchesImplies (enf : Asserts) (t1 t2 : Option Bool) : Asserts :=
  verifyEvaluatePair (fun t1 t2 => fImplies (fEqSomeTrue t1) (fEqSomeTrue t2)) enf t1 t2
def verifyMatchesDisjoint (enf : Asserts) (t1 t2 : Option Bool) : Asserts :=
  verifyEvaluatePair (fun t1 t2 => fNot (fAnd (fEqSomeTrue t1) (fEqSomeTrue t2))) enf t1 t2

def verifyImplies (enf : Asserts) (ps1 ps2 : CPolicies) : Asserts := verifyIsAuthorized fImplies enf ps1 ps2

/-- `allow_all()`: `permit … when { true && (true && (true && true)) }`, whose condition compiles to `some true` -/
def allowAll : CPolicies := [{ effect := .permit, term := some true }]

/-- `verify_always_allows(ps)` = `verify_implies(allow_all_pset, ps)` -/
def verifyAlwaysAllows (enf : Asserts) (ps : CPolicies) : Asserts := verifyImplies enf allowAll ps
/-- `verify_always_denies(ps)` = `verify_implies(ps, PolicySet::new())` -/
def verifyAlwaysDenies (enf : Asserts) (ps : CPolicies) : Asserts := verifyImplies enf ps []
def verifyEquivalent (enf : Asserts) (ps1 ps2 : CPolicies) : Asserts := verifyIsAuthorized fEqBool enf ps1 ps2
def verifyDisjoint (enf : Asserts) (ps1 ps2 : CPolicies) : Asserts :=
  verifyIsAuthorized (fun t1 t2 => fNot (fAnd t1 t2)) enf ps1 ps2

/-! ### symccopt/verifier.rs: same conditions from pre-compiled terms, with the constant-false shortcut -/

def verifyEvaluateOpt (phi : Option Bool → Bool) (enf : Asserts) (t : Option Bool) : Asserts :=
  match fNot (phi t) with
  | false => [false]
  | a => enf ++ [a]

def verifyEvaluatePairOpt (phi : Option Bool → Option Bool → Bool) (enf : Asserts) (t1 t2 : Option Bool) : Asserts :=
  match fNot (phi t1 t2) with
  | false => [false]
  | a => enf ++ [a]

/-- `verify_is_authorized_opt` works on the decision terms of the two compiled policy sets -/
def verifyIsAuthorizedOpt (phi : Bool → Bool → Bool) (enf : Asserts) (d1 d2 : Bool) : Asserts :=
  match fNot (phi d1 d2) with
  | false => [false]
  | a => enf ++ [a]

def verifyNeverErrorsOpt (enf : Asserts) (t : Option Bool) : Asserts := verifyEvaluateOpt fIsSome enf t
def verifyAlwaysMatchesOpt (enf : Asserts) (t : Option Bool) : Asserts := verifyEvaluateOpt fEqSomeTrue enf t
def verifyNeverMatchesOpt (enf : Asserts) (t : Option Bool) : Asserts :=
  verifyEvaluateOpt (fun t => fNot (fEqSomeTrue t)) enf t
def verifyMatchesEquivalentOpt (enf : Asserts) (t1 t2 : Option Bool) : Asserts :=
  verifyEvaluatePairOpt (fun t1 t2 => fEqBool (fEqSomeTrue t1) (fEqSomeTrue t2)) enf t1 t2
def verifyMatchesImpliesOpt (enf : Asserts) (t1 t2 : Option Bool) : Asserts :=
  verifyEvaluatePairOpt (fun t1 t2 => fImplies (fEqSomeTrue t1) (fEqSomeTrue t2)) enf t1 t2
def verifyMatchesDisjointOpt (enf : Asserts) (t1 t2 : Option Bool) : Asserts :=
  verifyEvaluatePairOpt (fun t1 t2 => fNot (fAnd (fEqSomeTrue t1) (fEqSomeTrue t2))) enf t1 t2

/-- `CompiledPolicySet::compile*`: the decision term of a set -/
def compiledSetTerm (ps : CPolicies) : Bool := isAuthorized ps
/-- `CompiledPolicySet::allow_all`: term `true`;  `deny_all`: term `false` -/
def allowAllTerm : Bool := true
def denyAllTerm : Bool := false

def verifyImpliesOpt (enf : Asserts) (ps1 ps2 : CPolicies) : Asserts :=
  verifyIsAuthorizedOpt fImplies enf (compiledSetTerm ps1) (compiledSetTerm ps2)
def verifyAlwaysAllowsOpt (enf : Asserts) (ps : CPolicies) : Asserts :=
  verifyIsAuthorizedOpt fImplies enf allowAllTerm (compiledSetTerm ps)
def verifyAlwaysDeniesOpt (enf : Asserts) (ps : CPolicies) : Asserts :=
  verifyIsAuthorizedOpt fImplies enf (compiledSetTerm ps) denyAllTerm
def verifyEquivalentOpt (enf : Asserts) (ps1 ps2 : CPolicies) : Asserts :=
  verifyIsAuthorizedOpt fEqBool enf (compiledSetTerm ps1) (compiledSetTerm ps2)
def verifyDisjointOpt (enf : Asserts) (ps1 ps2 : CPolicies) : Asserts :=
  verifyIsAuthorizedOpt (fun t1 t2 => fNot (fAnd t1 t2)) enf (compiledSetTerm ps1) (compiledSetTerm ps2)

/-! ### symcc.rs `check_unsat_asserts` without a solver -/

/-- `true` = "unsat" = the verified property HOLDS.  On literal asserts the Rust function never reaches the solver:
    some assert `== false` ⇒ `Ok(true)`; otherwise all asserts `== true` ⇒ `Ok(false)`. -/
def checkUnsat (as : Asserts) : Bool :=
  if as.any (fun a => a == false) then true
  else if as.all (fun a => a == true) then false
  else false  -- unreachable for boolean literals (the Rust code would call the solver here)

/-! ### the observable of the differential run: every condition's constant for one or two policy sets -/

structure PolicyVCs where
  neverErrors : Bool
  alwaysMatches : Bool
  neverMatches : Bool
deriving Repr, DecidableEq

def policyVCs (enf : Asserts) (p : CPolicy) : PolicyVCs :=
  { neverErrors := checkUnsat (verifyNeverErrors enf p.term),
    alwaysMatches := checkUnsat (verifyAlwaysMatches enf p.term),
    neverMatches := checkUnsat (verifyNeverMatches enf p.term) }

def policyVCsOpt (enf : Asserts) (p : CPolicy) : PolicyVCs :=
  { neverErrors := checkUnsat (verifyNeverErrorsOpt enf p.term),
    alwaysMatches := checkUnsat (verifyAlwaysMatchesOpt enf p.term),
    neverMatches := checkUnsat (verifyNeverMatchesOpt enf p.term) }

structure SetVCs where
  alwaysAllows : Bool
  alwaysDenies : Bool
deriving Repr, DecidableEq

def setVCs (enf : Asserts) (ps : CPolicies) : SetVCs :=
  { alwaysAllows := checkUnsat (verifyAlwaysAllows enf ps), alwaysDenies := checkUnsat (verifyAlwaysDenies enf ps) }

def setVCsOpt (enf : Asserts) (ps : CPolicies) : SetVCs :=
  { alwaysAllows := checkUnsat (verifyAlwaysAllowsOpt enf ps), alwaysDenies := checkUnsat (verifyAlwaysDeniesOpt enf ps) }

structure PairVCs where
  implies : Bool
  equivalent : Bool
  disjoint : Bool
deriving Repr, DecidableEq

def pairVCs (enf : Asserts) (ps1 ps2 : CPolicies) : PairVCs :=
  { implies := checkUnsat (verifyImplies enf ps1 ps2),
    equivalent := checkUnsat (verifyEquivalent enf ps1 ps2),
    disjoint := checkUnsat (verifyDisjoint enf ps1 ps2) }

def pairVCsOpt (enf : Asserts) (ps1 ps2 : CPolicies) : PairVCs :=
  { implies := checkUnsat (verifyImpliesOpt enf ps1 ps2),
    equivalent := checkUnsat (verifyEquivalentOpt enf ps1 ps2),
    disjoint := checkUnsat (verifyDisjointOpt enf ps1 ps2) }

/-- policy-level pair conditions (`verify_matches_*`) -/
def matchVCs (enf : Asserts) (t1 t2 : Option Bool) : PairVCs :=
  { implies := checkUnsat (verifyMatchesImplies enf t1 t2),
    equivalent := checkUnsat (verifyMatchesEquivalent enf t1 t2),
    disjoint := checkUnsat (verifyMatchesDisjoint enf t1 t2) }

def matchVCsOpt (enf : Asserts) (t1 t2 : Option Bool) : PairVCs :=
  { implies := checkUnsat (verifyMatchesImpliesOpt enf t1 t2),
    equivalent := checkUnsat (verifyMatchesEquivalentOpt enf t1 t2),
    disjoint := checkUnsat (verifyMatchesDisjointOpt enf t1 t2) }

end Cedar.SymCC
