import CedarVerif.Cedar.NoPanic.Utf8
/-
C20 mirror of `parse_datetime` (cedar-policy-core/src/extensions/datetime.rs) with every `unwrap`, string slice and
checked arithmetic site kept as an explicit `.panic site` outcome. The regex captures are written out as recognisers
that return the capture *strings* (what `str::parse::<u32>()` is then applied to) and the matched prefix
(what `date_str.len()` / `hms_str.len()` measure, in bytes).
Also the capture-unwraps of `parse_duration` (which uses `.ok()`, not `unwrap`, so it has no panic site; mirrored in `Ext`).
Imports only model files.
-/
namespace Cedar
namespace NoPanic
open Cedar.Ext (isDigit natOfDigits)
open Cedar.Ext.Datetime (takeDigits expect dateOk daysFromCivil)

inductive DtOutcome where
  | ok (epochMs : Int)
  | err (e : String)
  | panic (site : String)
deriving Repr, DecidableEq

def u32Max : Nat := 4294967295

/-- `str::parse::<u32>()` restricted to what a `[0-9]{n}` capture can be: fails on the empty string, on a
non-digit, and on overflow of `u32` -/
def parseU32 (ds : List Char) : Option Nat :=
  if ds.isEmpty then none
  else if ds.any (fun c => !isDigit c) then none
  else if natOfDigits ds > u32Max then none
  else some (natOfDigits ds)

/-- `x.parse().unwrap()` -/
def unwrapU32 (site : String) (ds : List Char) (k : Nat → DtOutcome) : DtOutcome :=
  match parseU32 ds with
  | some n => k n
  | none => .panic site

/-- `DATE_PATTERN = ^([0-9]{4})-([0-9]{2})-([0-9]{2})`: (matched prefix, year, month, day) -/
def capDate (s : List Char) : Option (List Char × List Char × List Char × List Char) :=
  match takeDigits 4 s with
  | none => none
  | some (y, s1) => match expect '-' s1 with
    | none => none
    | some s2 => match takeDigits 2 s2 with
      | none => none
      | some (m, s3) => match expect '-' s3 with
        | none => none
        | some s4 => match takeDigits 2 s4 with
          | none => none
          | some (d, _) => some (y ++ '-' :: m ++ '-' :: d, y, m, d)

/-- `HMS_PATTERN = ^T([0-9]{2}):([0-9]{2}):([0-9]{2})` -/
def capHMS (s : List Char) : Option (List Char × List Char × List Char × List Char) :=
  match expect 'T' s with
  | none => none
  | some s1 => match takeDigits 2 s1 with
    | none => none
    | some (h, s2) => match expect ':' s2 with
      | none => none
      | some s3 => match takeDigits 2 s3 with
        | none => none
        | some (m, s4) => match expect ':' s4 with
          | none => none
          | some s5 => match takeDigits 2 s5 with
            | none => none
            | some (sec, _) => some ('T' :: h ++ ':' :: m ++ ':' :: sec, h, m, sec)

/-- `(Z|((\+|-)([0-9]{2})([0-9]{2})))$`: `none` = no match; `some none` = `Z`; `some (some (positive, hh, mm))` -/
def capOffset (s : List Char) : Option (Option (Bool × List Char × List Char)) :=
  match s with
  | ['Z'] => some none
  | sign :: r =>
    if sign == '+' || sign == '-' then
      match takeDigits 2 r with
      | none => none
      | some (hh, r1) => match takeDigits 2 r1 with
        | none => none
        | some (mm, r2) => if r2.isEmpty then some (some (sign == '+', hh, mm)) else none
    else none
  | [] => none

/-- `MS_AND_OFFSET_PATTERN = ^(\.([0-9]{3}))?(Z|((\+|-)([0-9]{2})([0-9]{2})))$`: (group 2, offset groups) -/
def capMsOffset (s : List Char) : Option (Option (List Char) × Option (Bool × List Char × List Char)) :=
  match s with
  | '.' :: r => match takeDigits 3 r with
    | none => none
    | some (ms, r1) => match capOffset r1 with
      | none => none
      | some o => some (some ms, o)
  | _ => match capOffset s with
    | none => none
    | some o => some (none, o)

/-- chrono: `TimeDelta::new(secs, 0)` is `Some` iff `|secs| <= i64::MAX / 1000` -/
def timeDeltaSecsMax : Int := 9223372036854775
/-- chrono: `NaiveDate::MIN` = -262143-01-01, `NaiveDate::MAX` = 262142-12-31, as days since 1970-01-01;
`NaiveDateTime + TimeDelta` panics when the sum leaves this range -/
def chronoMinDays : Int := -96465293
def chronoMaxDays : Int := 95026236

/-- `UTCOffset::to_seconds` (u32 arithmetic `hh * 3600 + mm * 60`, overflow checked in debug builds) followed by
`TimeDelta::new(-offset_in_secs, 0).unwrap()`; result: the TimeDelta in seconds -/
def offsetDelta (positive : Bool) (hh mm : Nat) (k : Int → DtOutcome) : DtOutcome :=
  if hh * 3600 + mm * 60 > u32Max then .panic "u32 overflow in UTCOffset::to_seconds"
  else
    let secs : Int := if positive then ((hh * 3600 + mm * 60 : Nat) : Int) else -((hh * 3600 + mm * 60 : Nat) : Int)
    if -secs < -timeDeltaSecsMax ∨ -secs > timeDeltaSecsMax then .panic "TimeDelta::new(-offset_in_secs, 0).unwrap()"
    else k (-secs)

def parseDatetime (s : List Char) : DtOutcome :=
  match capDate s with
  | none => .err "InvalidDatePattern"
  | some (dateStr, y, mo, d) =>
    -- the closure `date`
    let date (k : Int → DtOutcome) : DtOutcome :=
      unwrapU32 "year.parse().unwrap()" y fun y =>
      unwrapU32 "month.parse().unwrap()" mo fun mo =>
      unwrapU32 "day.parse().unwrap()" d fun d =>
      if dateOk y mo d then k (daysFromCivil y mo d) else .err "InvalidDate"
    if bytes dateStr == bytes s then date fun days => .ok (days * 86400000)
    else
      match sliceFrom s (bytes dateStr) with
      | none => .panic "&s[date_str.len()..]"
      | some s1 =>
        match capHMS s1 with
        | none => .err "InvalidHMSPattern"
        | some (hmsStr, h, m, sec) =>
          unwrapU32 "h.parse().unwrap()" h fun h =>
          unwrapU32 "m.parse().unwrap()" m fun m =>
          unwrapU32 "sec.parse().unwrap()" sec fun sec =>
          match sliceFrom s1 (bytes hmsStr) with
          | none => .panic "&s[hms_str.len()..]"
          | some s2 =>
            match capMsOffset s2 with
            | none => .err "InvalidMSOffsetPattern"
            | some (msCap, off) =>
              (match msCap with
                | some ds => unwrapU32 "captures[2].parse().unwrap()" ds
                | none => fun k => k 0) fun ms =>
              date fun days =>
              -- NaiveTime::from_hms_milli_opt
              if ¬ (h < 24 ∧ m < 60 ∧ sec < 60 ∧ ms < 1000) then
                match sliceFrom hmsStr 1 with
                | none => .panic "hms_str[1..]"
                | some _ => .err "InvalidHMS"
              else
                let finish (delta : Int) : DtOutcome :=
                  let total : Int := days * 86400 + ((h * 3600 + m * 60 + sec : Nat) : Int) + delta
                  if total < chronoMinDays * 86400 ∨ total ≥ (chronoMaxDays + 1) * 86400 then
                    .panic "`NaiveDateTime + TimeDelta` overflowed"
                  else .ok (total * 1000 + ms)
                match off with
                | none => finish 0
                | some (positive, hh, mm) =>
                  unwrapU32 "captures[6].parse().unwrap()" hh fun hh =>
                  unwrapU32 "captures[7].parse().unwrap()" mm fun mm =>
                  if hh < 24 ∧ mm < 60 then offsetDelta positive hh mm finish
                  else .err "InvalidOffset"

end NoPanic
end Cedar
