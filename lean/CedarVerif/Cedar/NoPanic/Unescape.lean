import CedarVerif.Cedar.NoPanic.Utf8
import CedarVerif.Cedar.Syntax.Escape
/-
C20 mirror of the byte-range arithmetic and slicing around string unescaping:

* `rustc_literal_escaper::Unescape::unescape` for `str` (v0.0.8, the version in /repo/Cargo.lock) with the `Chars` iterator as an
  explicit state (the remaining suffix), so that the ranges `start..end` handed to the callback are computed exactly as in
  the crate: `start = src.len() - chars.as_str().len() - c.len_utf8()`, `end = src.len() - chars.as_str().len()`
  (usize subtractions: an underflow is the outcome `.panic`); ALL callbacks are produced (after an error the loop goes on from
  wherever the sub-parser left the iterator), unlike `Cedar/Syntax/Escape.lean` which stops at the first error;
  `skip_ascii_whitespace`'s `rest.split_at(first_non_space)` is a site too;
* cedar-policy-core/src/parser/unescape.rs: `to_pattern`'s `&bytes[range.clone()]` (byte slice: `start <= end <= len`),
  and `impl Display for UnescapeError`'s `&self.input[self.range.clone()]` (str slice: additionally both ends on char
  boundaries) for every fatal error stored by `to_unescaped_string` / `to_pattern`.

The loop is by fuel (`src.length + 1` suffices; running out is the outcome `.fuel`).  Imports only model files.
-/
namespace Cedar
namespace NoPanic
open Cedar.Syntax (EscErr hexVal charOfCode isSkippedWs)
open Cedar.Ext.IPAddr (utf8Len)

/-! ### slices -/

/-- `s.get(..n)`: `Some(prefix)` iff `n <= len` and `n` is a char boundary -/
def sliceTo : List Char → Nat → Option (List Char)
  | _, 0 => some []
  | [], _ + 1 => none
  | x :: xs, n + 1 => if n + 1 < utf8Len x then none else (sliceTo xs (n + 1 - utf8Len x)).map (x :: ·)

/-- `s.get(a..b)` (`&s[a..b]` panics exactly when this is `None`) -/
def sliceRange (s : List Char) (a b : Nat) : Option (List Char) :=
  if a ≤ b then (sliceFrom s a).bind (sliceTo · (b - a)) else none

/-- `bytes.get(a..b)` on `s.as_bytes()`: only the bounds matter; the result is not modelled beyond its existence -/
def byteRangeOk (s : List Char) (a b : Nat) : Bool := decide (a ≤ b) && decide (b ≤ bytes s)

/-! ### the sub-parsers, returning the iterator they leave behind -/

abbrev Step := Except EscErr Char × List Char

/-- `hex_escape` + `hex2unit` -/
def hexEscape : List Char → Step
  | [] => (.error .TooShortHexEscape, [])
  | hi :: r1 =>
    match hexVal hi with
    | none => (.error .InvalidCharInHexEscape, r1)
    | some h =>
      match r1 with
      | [] => (.error .TooShortHexEscape, [])
      | lo :: r2 =>
        match hexVal lo with
        | none => (.error .InvalidCharInHexEscape, r2)
        | some l => (if h * 16 + l < 128 then .ok (Char.ofNat (h * 16 + l)) else .error .OutOfRangeHexEscape, r2)

/-- the digit loop of `unicode_escape`, then `unicode2unit` -/
def unicodeLoop (value nd : Nat) : List Char → Step
  | [] => (.error .UnclosedUnicodeEscape, [])
  | c :: r =>
    if c = '_' then unicodeLoop value nd r
    else if c = '}' then ((if nd > 6 then .error .OverlongUnicodeEscape else charOfCode value), r)
    else match hexVal c with
      | none => (.error .InvalidCharInUnicodeEscape, r)
      | some d => if nd + 1 > 6 then unicodeLoop value (nd + 1) r else unicodeLoop (value * 16 + d) (nd + 1) r

/-- `unicode_escape` -/
def unicodeEscape : List Char → Step
  | [] => (.error .NoBraceInUnicodeEscape, [])
  | b :: r =>
    if b ≠ '{' then (.error .NoBraceInUnicodeEscape, r)
    else match r with
      | [] => (.error .UnclosedUnicodeEscape, [])
      | d :: r2 =>
        if d = '_' then (.error .LeadingUnderscoreUnicodeEscape, r2)
        else if d = '}' then (.error .EmptyUnicodeEscape, r2)
        else match hexVal d with
          | none => (.error .InvalidCharInUnicodeEscape, r2)
          | some v => unicodeLoop v 1 r2

/-- `unescape_1` (the previous char was a backslash) -/
def unescape1 : List Char → Step
  | [] => (.error .LoneSlash, [])
  | c :: r =>
    if c = '0' then (.ok '\x00', r)
    else if c = '"' then (.ok '"', r)
    else if c = 'n' then (.ok '\n', r)
    else if c = 'r' then (.ok '\r', r)
    else if c = 't' then (.ok '\t', r)
    else if c = '\\' then (.ok '\\', r)
    else if c = '\'' then (.ok '\'', r)
    else if c = 'x' then hexEscape r
    else if c = 'u' then unicodeEscape r
    else (.error .InvalidEscape, r)

/-! ### the main loop with its ranges -/

structure Callback where
  start : Nat
  stop : Nat
  res : Except EscErr Char
deriving Repr

inductive UnescOutcome where
  | done (cbs : List Callback)
  | panic (site : String)
  | fuel
deriving Repr

/-- `while let Some(c) = chars.next() { … }` of `Unescape::unescape`; `chars` is `chars.as_str()` before the `next()` -/
def unescapeLoop (src : List Char) : Nat → List Char → UnescOutcome
  | 0, _ => .fuel
  | _ + 1, [] => .done []
  | n + 1, c :: rest =>
    -- `let start = src.len() - chars.as_str().len() - c.len_utf8();`
    if bytes src < bytes rest then .panic "src.len() - chars.as_str().len() (usize underflow)"
    else if bytes src - bytes rest < utf8Len c then .panic "… - c.len_utf8() (usize underflow)"
    else
      let start := bytes src - bytes rest - utf8Len c
      let emit (res : Except EscErr Char) (rest' : List Char) : UnescOutcome :=
        -- `let end = src.len() - chars.as_str().len();`
        if bytes src < bytes rest' then .panic "src.len() - chars.as_str().len() (usize underflow)"
        else match unescapeLoop src n rest' with
          | .done cbs => .done ({ start := start, stop := bytes src - bytes rest', res := res } :: cbs)
          | other => other
      if c = '\\' then
        match rest with
        | '\n' :: rest1 =>
          -- `skip_ascii_whitespace`: `first_non_space` counts bytes of the ASCII run; `rest.split_at(first_non_space)`
          let space := rest1.takeWhile isSkippedWs
          match sliceFrom rest1 (bytes space) with
          | none => .panic "rest.split_at(first_non_space)"
          | some rest2 => unescapeLoop src n rest2       -- `continue` (its two callbacks are warnings: not recorded here)
        | _ => let (res, rest') := unescape1 rest; emit res rest'
      else if c = '"' then emit (.error .EscapeOnlyChar) rest
      else if c = '\r' then emit (.error .BareCarriageReturn) rest
      else emit (.ok c) rest

def unescapeCallbacks (src : List Char) : UnescOutcome := unescapeLoop src (src.length + 1) src

/-! ### cedar-policy-core/src/parser/unescape.rs -/

inductive SliceOutcome where
  /-- `Ok` or `Err(errs)`: the texts `Display` shows for the stored errors, in order -/
  | ret (accepted : Bool) (shown : List (List Char))
  | panic (site : String)
  | fuel
deriving Repr, DecidableEq

/-- the callback of `to_pattern` (`pat = true`) / `to_unescaped_string` (`pat = false`) over all callbacks, followed by
`Display` of every stored `UnescapeError` -/
def consume (src : List Char) (pat : Bool) : List Callback → SliceOutcome
  | [] => .ret true []
  | cb :: cbs =>
    match cb.res with
    | .ok _ => consume src pat cbs
    | .error e =>
      -- `Err(EscapeError::InvalidEscape) if &bytes[range.clone()] == br"\*"` (only `to_pattern` has this arm)
      if pat && e == .InvalidEscape && !byteRangeOk src cb.start cb.stop then .panic "&bytes[range.clone()]"
      else if pat && e == .InvalidEscape && sliceRange src cb.start cb.stop == some ['\\', '*'] then consume src pat cbs
      else
        -- stored; `impl Display for UnescapeError`: `&self.input[self.range.clone()]`
        match sliceRange src cb.start cb.stop with
        | none => .panic "&self.input[self.range.clone()]"
        | some shown =>
          match consume src pat cbs with
          | .ret _ rest => .ret false (shown :: rest)
          | other => other

/-- `to_unescaped_string(s)` / `to_pattern(s)` and, on `Err`, `to_string()` of each error -/
def unescapeSlices (src : List Char) (pat : Bool) : SliceOutcome :=
  match unescapeCallbacks src with
  | .done cbs => consume src pat cbs
  | .panic s => .panic s
  | .fuel => .fuel

end NoPanic
end Cedar
