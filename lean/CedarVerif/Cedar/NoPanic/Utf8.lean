import CedarVerif.Cedar.Ext
/-
Byte-level model of a Rust `&str` for the C20 mirrors: a string is its list of chars; a char occupies
`utf8Len c` bytes (`char::len_utf8`); byte offsets are sums of the lengths of the preceding chars; the char
boundaries are exactly those sums. Mirrors of `str::find(char)`, `str::get(n..)` / `&s[n..]`, and of
`contains_at_least_two` (cedar-policy-core/src/extensions/ipaddr.rs) with its `unwrap` kept as an outcome.
Imports only the model file `Ext` (for `utf8Len`, `byteLen`).
-/
namespace Cedar
namespace NoPanic
open Cedar.Ext.IPAddr (utf8Len)

/-- byte length of a string -/
def bytes : List Char → Nat
  | [] => 0
  | c :: cs => utf8Len c + bytes cs

/-- `str::find(c: char)`: byte offset of the first occurrence -/
def find (c : Char) : List Char → Option Nat
  | [] => none
  | x :: xs => if x == c then some 0 else (find c xs).map (· + utf8Len x)

/-- `str::get(n..)`: `Some(suffix)` iff `n <= len` and `n` is a char boundary (`&s[n..]` panics exactly when this is `None`) -/
def sliceFrom : List Char → Nat → Option (List Char)
  | s, 0 => some s
  | [], _ + 1 => none
  | x :: xs, n + 1 => if n + 1 < utf8Len x then none else sliceFrom xs (n + 1 - utf8Len x)

inductive BoolOutcome where
  | result (b : Bool)
  | panic (site : String)
deriving Repr, DecidableEq

/-- ```
fn contains_at_least_two(s: &str, c: char) -> bool {
    match s.find(c) {
        Some(i) => { let idx = s.get(i + c.len_utf8()..).unwrap().find(c); idx.is_some() }
        None => false,
    }
}``` -/
def containsAtLeastTwo (s : List Char) (c : Char) : BoolOutcome :=
  match find c s with
  | none => .result false
  | some i =>
    match sliceFrom s (i + utf8Len c) with
    | none => .panic "s.get(i + c.len_utf8()..).unwrap()"
    | some rest => .result (find c rest).isSome

end NoPanic
end Cedar
