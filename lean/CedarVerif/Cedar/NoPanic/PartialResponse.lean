import CedarVerif.Cedar.Partial
/-
C20 mirror of the policy-constructing accessors of `PartialResponse` (cedar-policy-core/src/authorizer/partial_response.rs).
The file has no `unwrap`/`expect` of its own; every accessor that returns `Policy` objects goes through

    construct_policy((effect, id, expr, annotations))  =  Policy::from_when_clause_annos(effect, expr.clone(), id.clone(), …)
    Policy::from_when_clause_annos  =  Template::new_shared(.., any(), any(), any(), Some(when));  Policy::new(Arc::new(t), None, SlotEnv::new())
    Policy::new  =  #[cfg(debug_assertions)] Template::check_binding(&template, &values).expect("(values total map) does not hold!")

(cedar-policy-core/src/ast/policy.rs).  The template's slots are the slots of `when`; the slot environment is EMPTY: the
`expect` fails exactly when the residual expression still mentions a template slot.  That site IS reachable (recorded
finding C13-residual-slot-panic: the best-effort fall-back of `&&`/`||`/`if` keeps the ORIGINAL, unlinked operand); it is
kept here as the outcome `.panic`, per constructed policy.  The iterators are lazy in Rust; the mirror describes their full
consumption (`collect`): the first policy whose construction panics ends it.
`true_expr`/`false_expr` are `Expr::val(true/false)`.  Imports only model files; reuses `PartialResponse` of `Cedar/Partial.lean`.
-/
namespace Cedar
namespace NoPanic

def policyNewSite : String := "Policy::new: check_binding(..).expect(\"(values total map) does not hold!\")"

inductive PolOutcome where
  | policy (p : Policy)
  | panic (site : String)
deriving Repr

/-- `construct_policy` / `Policy::from_when_clause_annos` -/
def constructPolicy (eff : Effect) (id : String) (when : Expr) : PolOutcome :=
  -- `Template::check_binding(template, {})`: unbound = the template's slots = the slots of `when` (the scope is `any()`)
  if when.hasSlot then .panic policyNewSite
  else .policy { id := id, effect := eff, condition := residualCondition when, env := [] }

inductive PolsOutcome where
  | policies (ps : List Policy)
  | panic (site : String)
deriving Repr

/-- consuming an iterator of constructed policies -/
def collect : List PolOutcome → PolsOutcome
  | [] => .policies []
  | .panic s :: _ => .panic s
  | .policy p :: rest =>
    match collect rest with
    | .policies ps => .policies (p :: ps)
    | .panic s => .panic s

def trueExpr : Expr := .lit (.bool true)
def falseExpr : Expr := .lit (.bool false)

variable (pr : PartialResponse)

def definitelySatisfiedPermits : List PolOutcome := pr.satisfiedPermits.map (fun id => constructPolicy .permit id trueExpr)
def definitelySatisfiedForbids : List PolOutcome := pr.satisfiedForbids.map (fun id => constructPolicy .forbid id trueExpr)
def residualPermits : List PolOutcome := pr.residualPermits.map (fun x => constructPolicy .permit x.1 x.2)
def residualForbids : List PolOutcome := pr.residualForbids.map (fun x => constructPolicy .forbid x.1 x.2)

/-- `pub fn definitely_satisfied` -/
def definitelySatisfied : PolsOutcome := collect (definitelySatisfiedPermits pr ++ definitelySatisfiedForbids pr)

/-- `pub fn may_be_determining` -/
def mayBeDetermining : PolsOutcome :=
  if pr.satisfiedForbids.isEmpty then
    collect (definitelySatisfiedPermits pr ++ residualPermits pr ++ residualForbids pr)
  else collect (definitelySatisfiedForbids pr ++ residualForbids pr)

/-- `pub fn must_be_determining` -/
def mustBeDetermining : PolsOutcome :=
  if pr.satisfiedForbids.isEmpty && pr.residualForbids.isEmpty then collect (definitelySatisfiedPermits pr)
  else collect (definitelySatisfiedForbids pr)

/-- `pub fn nontrivial_residuals` -/
def nontrivialResiduals : PolsOutcome := collect (residualPermits pr ++ residualForbids pr)

/-- `all_permit_residuals().chain(all_forbid_residuals())` mapped through the constructor -/
def allResidualOutcomes : List PolOutcome :=
  pr.satisfiedPermits.map (fun id => constructPolicy .permit id trueExpr) ++
  pr.falsePermits.map (fun x => constructPolicy .permit x.1 falseExpr) ++
  pr.residualPermits.map (fun x => constructPolicy .permit x.1 x.2) ++
  pr.satisfiedForbids.map (fun id => constructPolicy .forbid id trueExpr) ++
  pr.falseForbids.map (fun x => constructPolicy .forbid x.1 falseExpr) ++
  pr.residualForbids.map (fun x => constructPolicy .forbid x.1 x.2)

/-- `pub fn all_residuals` -/
def allResiduals : PolsOutcome := collect (allResidualOutcomes pr)

/-- `get_permit`: `residual_permits.get(id).or_else(satisfied_permits.get(id) ↦ true_expr).or_else(false_permits.get(id) ↦ false_expr).map(construct_policy)` -/
def getPermit (id : String) : Option PolOutcome :=
  (match lookupKV pr.residualPermits id with
    | some e => some e
    | none =>
      if pr.satisfiedPermits.contains id then some trueExpr
      else match lookupKV pr.falsePermits id with
        | some _ => some falseExpr
        | none => none).map (constructPolicy .permit id)

def getForbid (id : String) : Option PolOutcome :=
  (match lookupKV pr.residualForbids id with
    | some e => some e
    | none =>
      if pr.satisfiedForbids.contains id then some trueExpr
      else match lookupKV pr.falseForbids id with
        | some _ => some falseExpr
        | none => none).map (constructPolicy .forbid id)

/-- `pub fn get` -/
def get (id : String) : Option PolOutcome :=
  match getPermit pr id with
  | some o => some o
  | none => getForbid pr id

inductive ReauthOutcome where
  | ok (pr : PartialResponse)
  | err (e : ReauthErr)            -- `ReauthorizationError` (never `ReauthErr.panic` here: that is the next constructor)
  | panic (site : String)
deriving Repr

/-- `pub fn reauthorize`: `all_residual_policies()?` (constructs every policy, then `PolicySet::try_from_iter`), `concretize_request(mapping)?`,
`is_authorized_core_internal` (policy ids in a response are pairwise distinct, so `try_from_iter` does not fail) -/
def reauthorize (m : Mapper) (es : PEntities) : ReauthOutcome :=
  match collect (allResidualOutcomes pr) with
  | .panic s => .panic s
  | .policies ps =>
    match pr.concretizeRequest m with
    | .error e => .err e
    | .ok req => .ok (isAuthorizedCore m req es ps)

end NoPanic
end Cedar
