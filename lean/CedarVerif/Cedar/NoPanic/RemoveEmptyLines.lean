import CedarVerif.Cedar.NoPanic.Unescape
/-
C20 mirror of `remove_empty_lines` (cedar-policy-formatter/src/pprint/utils.rs, `pub fn remove_empty_lines(text: &str)`),
the post-pass of the formatter over the pretty-printed text:

```
let mut index = 0;
while index < text.len() {
    let comment_match = regex_constants::COMMENT.find_at(text, index);      // r"//[^\n\r]*"
    let string_match  = regex_constants::STRING.find_at(text, index);       // r#""(\\.|[^"\\])*""#
    match (comment_match, string_match) {
        (Some(m1), Some(m2)) => { let m = std::cmp::min_by_key(m1, m2, |m| m.start());
            final_text.push_str(&remove_empty_interior_lines(&text[index..m.start()]));
            final_text.push_str(m.as_str()); index = m.end(); }
        (Some(m), None) | (None, Some(m)) => { … the same three statements … }
        (None, None) => { final_text.push_str(&remove_empty_interior_lines(&text[index..])); break; }
    }
}
```

The text is a `&str` in the byte-level model of `Utf8.lean` (`bytes`, `sliceFrom`, `sliceRange`: `none` = the slice panics, i.e.
out of range, inverted, or an end inside a multi-byte char).  The two regex searches are ORACLES `Nat → Option RMatch` (the
regex engine is not modelled); what the loop relies on is stated as the hypothesis `Contract` in
`Lemmas/NoPanicRemoveEmptyLines.lean`.  Sites kept explicit: `Regex::find_at` ("panics if `start > haystack.len()`"),
`&text[index..m.start()]`, `m.as_str()` (= `&haystack[start..end]` inside the regex crate), `&text[index..]`; the loop is by
fuel (`.fuel` = it would not have terminated within `fuel` iterations).  `remove_empty_interior_lines` and the final
`trim()` only use iterator adaptors (`split_inclusive`, `filter`, `join`): no panic site, not modelled — the mirror
records the PIECES pushed, tagged by whether they go through `remove_empty_interior_lines`.  The two `Some` arms of the
Rust `match` have identical bodies and are merged via `pick`.  Imports only model files.
-/
namespace Cedar
namespace NoPanic
namespace Rel

/-- a `regex::Match`: byte offsets `start()`, `end()` into the haystack -/
structure RMatch where
  start : Nat
  stop : Nat
deriving Repr, DecidableEq

/-- `re.find_at(text, index)` as an oracle in `index` (the haystack is fixed) -/
abbrev FindAt := Nat → Option RMatch

inductive Piece where
  /-- `&text[a..b]`, pushed through `remove_empty_interior_lines` -/
  | outside (s : List Char)
  /-- `m.as_str()`, pushed verbatim (a string literal or a comment) -/
  | verbatim (s : List Char)
deriving Repr, DecidableEq

def Piece.text : Piece → List Char
  | .outside s => s
  | .verbatim s => s

/-- concatenation of the slices, before `remove_empty_interior_lines` -/
def flat : List Piece → List Char
  | [] => []
  | p :: ps => p.text ++ flat ps

inductive Outcome where
  | done (pieces : List Piece)
  | panic (site : String)
  | fuel
deriving Repr, DecidableEq

/-- `n` is a char boundary of `s` (`str::is_char_boundary`: `0`, `len`, or the first byte of a char) -/
def isBoundary (s : List Char) (n : Nat) : Bool := (sliceFrom s n).isSome

/-- `(Some(m1), Some(m2)) => min_by_key(m1, m2, |m| m.start())` (returns `m1` on a tie), `(Some(m), None) | (None, Some(m)) => m` -/
def pick : Option RMatch → Option RMatch → Option RMatch
  | some m1, some m2 => if m1.start ≤ m2.start then some m1 else some m2
  | some m, none => some m
  | none, some m => some m
  | none, none => none

/-- the `while` loop: `loop text comment string fuel index` -/
def loop (text : List Char) (comment string : FindAt) : Nat → Nat → Outcome
  | 0, _ => .fuel
  | n + 1, index =>
    if index < bytes text then
      -- `Regex::find_at`: "Panics when `start >= haystack.len() + 1`"
      if bytes text < index then .panic "find_at(text, index): start > haystack.len()"
      else
        match pick (comment index) (string index) with
        | none =>
          match sliceFrom text index with
          | none => .panic "&text[index..]"
          | some rest => .done [.outside rest]          -- `break`
        | some m =>
          match sliceRange text index m.start with
          | none => .panic "&text[index..m.start()]"
          | some out =>
            match sliceRange text m.start m.stop with
            | none => .panic "m.as_str()"
            | some lit =>
              match loop text comment string n m.stop with  -- `index = m.end()`
              | .done ps => .done (.outside out :: .verbatim lit :: ps)
              | other => other
    else .done []

/-- `remove_empty_lines(text)`: `index = 0`, fuel `text.len() + 1` -/
def removeEmptyLines (text : List Char) (comment string : FindAt) : Outcome :=
  loop text comment string (bytes text + 1) 0

/-! a concrete, executable instance of the two oracles (leftmost match of `//[^\n\r]*` resp. `"(\\.|[^"\\])*"` at or after
byte offset `index`), used for the non-vacuity examples only — the theorems quantify over ALL oracles satisfying the contract -/

/-- length in chars of the comment body `[^\n\r]*` -/
def commentBody : List Char → List Char
  | [] => []
  | c :: cs => if c = '\n' ∨ c = '\r' then [] else c :: commentBody cs

/-- after the opening quote: the chars up to and including the closing quote, `none` if unterminated -/
def stringBody : List Char → Option (List Char)
  | [] => none
  | '"' :: _ => some ['"']
  | '\\' :: c :: cs => if c = '\n' then none else (stringBody cs).map ('\\' :: c :: ·)
  | '\\' :: [] => none
  | c :: cs => (stringBody cs).map (c :: ·)

/-- scan `s` (which starts at byte offset `off`), reporting the first match starting at an offset `≥ index` -/
def scanComment (index : Nat) : Nat → List Char → Option RMatch
  | _, [] => none
  | off, c :: cs =>
    match c, cs with
    | '/', '/' :: r =>
      if index ≤ off then some ⟨off, off + 2 + bytes (commentBody r)⟩ else scanComment index (off + Cedar.Ext.IPAddr.utf8Len c) cs
    | _, _ => scanComment index (off + Cedar.Ext.IPAddr.utf8Len c) cs

def scanString (index : Nat) : Nat → List Char → Option RMatch
  | _, [] => none
  | off, c :: cs =>
    if c = '"' ∧ index ≤ off then
      match stringBody cs with
      | some b => some ⟨off, off + 1 + bytes b⟩
      | none => scanString index (off + Cedar.Ext.IPAddr.utf8Len c) cs
    else scanString index (off + Cedar.Ext.IPAddr.utf8Len c) cs

def commentOracle (text : List Char) : FindAt := fun index => scanComment index 0 text
def stringOracle (text : List Char) : FindAt := fun index => scanString index 0 text

end Rel
end NoPanic
end Cedar
