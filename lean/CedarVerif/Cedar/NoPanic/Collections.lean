import CedarVerif.Cedar.SetRepr
import CedarVerif.Cedar.Partial
/-
C20 mirrors of the two "collection constructor" panic sites of the value / expression layer, each kept as an explicit
`.panic site` outcome:

* `impl FromIterator<Value> for Set` (cedar-policy-core/src/ast/value.rs): the iterator is partitioned into
  `literals` / `non_literals` (two `BTreeSet<Value>`); when `non_literals` is empty every element of `literals` is
  mapped `Value { value: ValueKind::Lit(lit), .. } => lit, _ => unreachable!()`.
* the `Record` arm of `Evaluator::partial_interpret_internal` and of `RestrictedEvaluator::partial_interpret_internal`
  (cedar-policy-core/src/evaluator.rs): `Expr::record(names.into_iter().zip(rs)).expect("can't have a duplicate key
  here because `names` is the set of keys of the input `BTreeMap`")`, with `ExprBuilder::record`
  (cedar-policy-core/src/ast/expr.rs: the `BTreeMap::entry` loop returning `DuplicateKeyError` on `Occupied`) and `split`
  (ast/partial_value.rs; mirrored as `splitPV` in `Cedar/Partial.lean`).

The order inside a `BTreeSet<Value>` (`Ord for Value`) is not modelled: `authoritative` is a list modulo order, as in
`Cedar/SetRepr.lean`.  Imports only model files.
-/
namespace Cedar
namespace NoPanic

/-! ### `impl FromIterator<Value> for Set` -/

inductive SetOutcome where
  | built (s : SetRepr)
  | panic (site : String)
deriving Repr

/-- `matches!(&v.value, ValueKind::Lit { .. })` -/
def isLit : Value → Bool
  | .prim _ => true
  | _ => false

/-- the closure mapped over `literals`: `Lit(lit) => lit`, `_ => unreachable!()`; `none` = the `unreachable!()` arm was hit -/
def litsOf : List Value → Option (List Prim)
  | [] => some []
  | .prim p :: vs => (litsOf vs).map (p :: ·)
  | _ :: _ => none

/-- `iter.collect::<HashSet<Literal>>()` -/
def dedupPrims : List Prim → List Prim
  | [] => []
  | p :: ps => let rest := dedupPrims ps; if rest.contains p then rest else p :: rest

/-- ```
let (literals, non_literals): (BTreeSet<_>, BTreeSet<_>) = iter.into_iter().partition(|v| matches!(&v.value, ValueKind::Lit { .. }));
if non_literals.is_empty() {
    Self::from_iter(literals.into_iter().map(|v| match v { Value { value: ValueKind::Lit(lit), .. } => lit, _ => unreachable!() }))
} else { all_items = non_literals; all_items.append(&mut literals); Self { authoritative: all_items, fast: None } }
```
and `impl FromIterator<Literal> for Set`: `fast = iter.collect::<HashSet<_>>()`, `authoritative = fast.iter().map(Into::into).collect()` -/
def setFromIter (vs : List Value) : SetOutcome :=
  let literals := Value.mkSet (vs.filter isLit)
  let nonLiterals := Value.mkSet (vs.filter (fun v => !isLit v))
  if nonLiterals.isEmpty then
    match litsOf literals with
    | none => .panic "unreachable!() in FromIterator<Value> for Set"
    | some lits =>
      let fast := dedupPrims lits
      .built { authoritative := fast.map Value.prim, fast := some fast }
  else .built { authoritative := nonLiterals ++ literals, fast := none }

/-! ### `Expr::record(names.zip(residuals)).expect(..)` -/

/-- `ExprBuilder::record`: the `for (k, v) in pairs { match map.entry(k) { Occupied => return Err(DuplicateKeyError{key}), Vacant(e) => e.insert(v) } }`
loop over a `BTreeMap` (a key-sorted association list) -/
def exprRecordGo : List (String × Expr) → List (String × Expr) → Except String (List (String × Expr))
  | [], map => .ok map
  | (k, v) :: rest, map =>
    match lookupKV map k with
    | some _ => .error k
    | none => exprRecordGo rest (insertKV k v map)

def exprRecord (pairs : List (String × Expr)) : Except String (List (String × Expr)) := exprRecordGo pairs []

inductive RecOutcome where
  /-- `Value::record(names.into_iter().zip(vals), loc)` (collects into a `BTreeMap`, no check) -/
  | value (kvs : List (String × Value))
  | residual (map : List (String × Expr))
  | panic (site : String)
deriving Repr

/-- the `ExprKind::Record(map)` arm after the fields have been interpreted (`map` = the `(key, PartialValue)` vector in the
iteration order of the input `BTreeMap`):
```
let (names, evalled): (Vec<SmolStr>, Vec<PartialValue>) = map.into_iter().unzip();
match split(evalled) {
    Either::Left(vals) => Ok(Value::record(names.into_iter().zip(vals), loc.cloned()).into()),
    Either::Right(rs) => Ok(Expr::record(names.into_iter().zip(rs)).expect("can't have a duplicate key here …").into()),
}``` -/
def recordArm (map : List (String × PartialValue)) : RecOutcome :=
  let names := map.map (·.1)
  let evalled := map.map (·.2)
  match splitPV evalled with
  | .inl vals => .value ((names.zip vals).foldl (fun acc kv => insertKV kv.1 kv.2 acc) [])
  | .inr rs =>
    match exprRecord (names.zip rs) with
    | .ok m => .residual m
    | .error _ => .panic "Expr::record(names.zip(rs)).expect(\"can't have a duplicate key here\")"

end NoPanic
end Cedar
