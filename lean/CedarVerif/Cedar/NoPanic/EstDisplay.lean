/-
C20 mirror of `fn display_cedarvaluejson(f, v: &CedarValueJson, n: Option<usize>)` (cedar-policy-core/src/est/expr.rs), the
printer behind `Display`/`BoundedDisplay` of EST expressions holding a JSON value — reachable from `from_json` of any policy
containing `{"Value": …}`.  Panic sites kept explicit:

* `ExtnEscape { __extn: FnAndArgs::Multi { ext_fn, args } }`, method style: `&args[0]` (receiver) and `&args[1..]` (arguments).
  Since /repo commit f169b51 the arm is guarded by `if !args.is_empty()` and an empty `args` falls through to the
  function-style arm; the mirror takes `fixed : Bool` (`true` = the code, `false` = the control flow before that commit) so
  that the pre-fix panic is a checkable fact about the same definition;
* `Set(v)` / `Record(r)`, untruncated: `if i < v.len() - 1` / `if i < r.len() - 1` inside the `enumerate()` loop (usize
  underflow when `len = 0` — only evaluated in a loop iteration).

`FnAndArgs::Single` and the truncating branches (`iter().take(n)`) have no site; they are mirrored because they recurse.  The
scalar arms (`Long`, `Bool`, `String`, `EntityEscape`, `ExprEscape`, `Null`) are `atom text` (no site; their text is not the
subject).  The call style found by `Extensions::all_available().all_funcs().find_map(..)` is the parameter
`style : String → Option Bool` (`some true` = `MethodStyle`).  `write!` errors (`?`) are not panics and not modelled.
Import-free.
-/
namespace Cedar
namespace NoPanic
namespace EstDisp

inductive CVJ where
  | atom (text : String)
  | extnSingle (fn : String) (arg : CVJ)
  | extnMulti (fn : String) (args : List CVJ)
  | set (vs : List CVJ)
  | record (kvs : List (String × CVJ))

inductive Out where
  | text (s : String)
  | panic (site : String)
deriving Repr, DecidableEq

/-- sequencing: a panic in a nested call is a panic of the whole -/
def Out.bind : Out → (String → Out) → Out
  | .text s, f => f s
  | .panic p, _ => .panic p

mutual
def display (fixed : Bool) (style : String → Option Bool) (n : Option Nat) : CVJ → Out
  | .atom t => .text t
  | .extnSingle fn arg =>
    match style fn with
    | some true => (display fixed style n arg).bind fun a => .text (a ++ "." ++ fn ++ "()")
    | _ => (display fixed style n arg).bind fun a => .text (fn ++ "(" ++ a ++ ")")
  | .extnMulti fn args =>
    -- `Some(MethodStyle) if !args.is_empty()` (the guard is what commit f169b51 added)
    if style fn == some true && (!fixed || !args.isEmpty) then
      match args with
      | [] => .panic "&args[0]"
      | a0 :: rest =>
        (display fixed style n a0).bind fun r =>
          -- `&args[1..]`: in range iff `1 ≤ args.len()`
          if 1 ≤ (a0 :: rest).length then
            (commaSep fixed style n rest).bind fun s => .text (r ++ "." ++ fn ++ "(" ++ s ++ ")")
          else .panic "&args[1..]"
    else
      -- `Some(FunctionStyle | MethodStyle) | None`
      (commaSep fixed style n args).bind fun s => .text (fn ++ "(" ++ s ++ ")")
  | .set vs =>
    match n with
    | some k =>
      if vs.length > k then (takeSep fixed style k k vs).bind fun s => .text ("[" ++ s ++ "..]")
      else (enumSep fixed style n vs.length 0 vs).bind fun s => .text ("[" ++ s ++ "]")
    | none => (enumSep fixed style n vs.length 0 vs).bind fun s => .text ("[" ++ s ++ "]")
  | .record kvs =>
    match n with
    | some k =>
      if kvs.length > k then (takeSepKV fixed style k k kvs).bind fun s => .text ("{" ++ s ++ "..}")
      else (enumSepKV fixed style n kvs.length 0 kvs).bind fun s => .text ("{" ++ s ++ "}")
    | none => (enumSepKV fixed style n kvs.length 0 kvs).bind fun s => .text ("{" ++ s ++ "}")

/-- `match &args[..] { [] => {}, [args @ .., last] => { for arg in args { …; ", " } …last } }` -/
def commaSep (fixed : Bool) (style : String → Option Bool) (n : Option Nat) : List CVJ → Out
  | [] => .text ""
  | [last] => display fixed style n last
  | a :: b :: rest =>
    (display fixed style n a).bind fun x => (commaSep fixed style n (b :: rest)).bind fun y => .text (x ++ ", " ++ y)

/-- `for val in v.iter().take(n) { display(val, Some(n)); ", " }`: `bound` = `n`, `k` = elements still to take -/
def takeSep (fixed : Bool) (style : String → Option Bool) (bound : Nat) : Nat → List CVJ → Out
  | 0, _ => .text ""
  | _ + 1, [] => .text ""
  | k + 1, v :: vs =>
    (display fixed style (some bound) v).bind fun x => (takeSep fixed style bound k vs).bind fun y => .text (x ++ ", " ++ y)

/-- `for (i, val) in v.iter().enumerate() { display(val, n); if i < v.len() - 1 { ", " } }` -/
def enumSep (fixed : Bool) (style : String → Option Bool) (n : Option Nat) (len : Nat) : Nat → List CVJ → Out
  | _, [] => .text ""
  | i, v :: vs =>
    (display fixed style n v).bind fun x =>
      if len = 0 then .panic "v.len() - 1 (usize underflow)"
      else (enumSep fixed style n len (i + 1) vs).bind fun y => .text (if i < len - 1 then x ++ ", " ++ y else x ++ y)

def takeSepKV (fixed : Bool) (style : String → Option Bool) (bound : Nat) : Nat → List (String × CVJ) → Out
  | 0, _ => .text ""
  | _ + 1, [] => .text ""
  | k + 1, (key, v) :: kvs =>
    (display fixed style (some bound) v).bind fun x =>
      (takeSepKV fixed style bound k kvs).bind fun y => .text ("\"" ++ key ++ "\": " ++ x ++ ", " ++ y)

def enumSepKV (fixed : Bool) (style : String → Option Bool) (n : Option Nat) (len : Nat) : Nat → List (String × CVJ) → Out
  | _, [] => .text ""
  | i, (key, v) :: kvs =>
    (display fixed style n v).bind fun x =>
      if len = 0 then .panic "r.len() - 1 (usize underflow)"
      else (enumSepKV fixed style n len (i + 1) kvs).bind fun y =>
        .text (if i < len - 1 then "\"" ++ key ++ "\": " ++ x ++ ", " ++ y else "\"" ++ key ++ "\": " ++ x ++ y)
end

/-- the call styles of the functions that matter here: `isIpv4`, `isInRange`, … are method style, `ip`, `decimal`, … function style -/
def stdStyle : String → Option Bool
  | "ip" | "decimal" | "datetime" | "duration" => some false
  | "isIpv4" | "isIpv6" | "isLoopback" | "isMulticast" | "isInRange" | "lessThan" | "lessThanOrEqual" | "greaterThan"
  | "greaterThanOrEqual" | "offset" | "durationSince" | "toDate" | "toTime" | "toMilliseconds" | "toSeconds" | "toMinutes"
  | "toHours" | "toDays" => some true
  | _ => none

end EstDisp
end NoPanic
end Cedar
