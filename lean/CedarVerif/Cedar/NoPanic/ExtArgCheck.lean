/-
C20 mirror of the extension-call arm of the typechecker and of the argument checks it calls:

* cedar-policy-core/src/validator/typecheck.rs, `Typechecker::typecheck` arm `ExprKind::ExtensionFunctionApp { .. } =>
  self.typecheck_extension(..)` and `fn typecheck_extension`: the `let ExprKind::ExtensionFunctionApp { fn_name, args } = … else
  { panic!(..) }`, the two arity tests that only RECORD `wrong_number_args` and set `failed`, the call
  `efunc.check_arguments(args)` that is made WHATEVER the number of arguments, the strict-mode literal test, and — when nothing
  failed — `args.iter().zip_longest(arg_tys)` with `Left(arg) => (arg, arg_tys.last().unwrap())` and
  `Right(_ty) => unreachable!("Previous checks ensure args.len() >= arg_tys.len()")`;
* cedar-policy-core/src/validator/extension_schema.rs, `ExtensionFunctionType::check_arguments` (`if let Some(f) = … { return
  f(args) } Ok(())`);
* cedar-policy-core/src/validator/extensions/{ipaddr.rs `validate_ip_string`, decimal.rs `validate_decimal_string`, datetime.rs
  `validate_datetime_string`, `validate_duration_string`}: four copies of
  `match exprs.iter().exactly_one().map(|a| a.expr_kind()) { Ok(Lit(String(s))) => eval_extension_constructor(name, s) …, _ => Ok(()) }`.
  Their doc comment says "we already checked that `exprs` contains correct number of arguments" — that is NOT what the caller
  does (it records the error and calls anyway), so the arity test inside (`exactly_one`) is what protects them; the mirror
  has the access as a parameter (`Access.exactlyOne` = the code, `Access.index0` = `exprs[0]`, what the comment would license)
  to make that visible.

Arguments are abstracted to what the code inspects (`Arg`: a string literal, another literal, a non-literal); the extension
constructor (`eval_extension_constructor` → the evaluator's `ip`/`decimal`/`datetime`/`duration`) is a parameter
`ctor : List Char → Bool` (`true` = `Ok`): its own panic sites are the subject of groups (b), (c).  The recursive typechecking
of the arguments (`typed_arg_exprs`, `expect_type`) is not part of this mirror.  Import-free.
-/
namespace Cedar
namespace NoPanic
namespace ExtArg

/-- an argument expression, as far as this code looks at it -/
inductive Arg where
  | strLit (s : List Char)
  | otherLit
  | nonLit
deriving Repr, DecidableEq

def Arg.isLit : Arg → Bool
  | .nonLit => false
  | _ => true

inductive Access where
  /-- `exprs.iter().exactly_one()` — the code -/
  | exactlyOne
  /-- `exprs[0]` — relying on "we already checked that `exprs` contains correct number of arguments" -/
  | index0
deriving Repr, DecidableEq

inductive CheckOutcome where
  | ok
  /-- `Err(ArgumentValidationError)` quoting the literal -/
  | err (lit : List Char)
  | panic (site : String)
deriving Repr, DecidableEq

/-- `validate_ip_string` / `validate_decimal_string` / `validate_datetime_string` / `validate_duration_string` -/
def validateCtorString (acc : Access) (ctor : List Char → Bool) (exprs : List Arg) : CheckOutcome :=
  match acc with
  | .exactlyOne =>
    match exprs with
    | [.strLit s] => if ctor s then .ok else .err s
    | _ => .ok                                            -- `Err(_)` of `exactly_one` (0 or ≥ 2 elements), or not a string literal
  | .index0 =>
    match exprs with
    | [] => .panic "exprs[0]"
    | .strLit s :: _ => if ctor s then .ok else .err s
    | _ :: _ => .ok

/-- `ExtensionFunctionType`: `argument_types.len()`, `is_variadic`, `check_arguments` -/
structure FnType where
  nArgTys : Nat
  variadic : Bool
  check : Option (List Char → Bool)

/-- `ExtensionFunctionType::check_arguments` -/
def checkArguments (acc : Access) (ft : FnType) (args : List Arg) : CheckOutcome :=
  match ft.check with
  | some ctor => validateCtorString acc ctor args
  | none => .ok

inductive TcErr where
  | wrongNumberArgs (expected actual : Nat)
  | functionArgumentValidation (lit : List Char)
  | nonLitExtConstructor
  | undefinedExtension
deriving Repr, DecidableEq

inductive TcOutcome where
  /-- `TypecheckAnswer::fail` with the errors pushed by this function (`RecursionLimit` comes from the arguments: not modelled) -/
  | fail (errs : List TcErr)
  /-- the `else` branch: every argument goes to `expect_type` against the type paired with it -/
  | checked (nPairs : Nat)
  | panic (site : String)
deriving Repr, DecidableEq

/-- `args.iter().zip_longest(arg_tys).map(|item| match item { Both.., Left.., Right.. })`: `k` = argument types left,
`hasLast` = `arg_tys.last().is_some()`; returns the number of pairs or the site -/
def zipLongest (hasLast : Bool) : List Arg → Nat → Except String Nat
  | [], 0 => .ok 0
  | [], _ + 1 => .error "Right(_ty) => unreachable!(\"Previous checks ensure args.len() >= arg_tys.len()\")"
  | _ :: as, k + 1 => (zipLongest hasLast as k).map (· + 1)
  | _ :: as, 0 =>
    if hasLast then (zipLongest hasLast as 0).map (· + 1) else .error "Left(arg) => (arg, arg_tys.last().unwrap())"

/-- the two arity tests (`failed = true` after either): variadic functions take at least `arg_tys.len()` arguments,
non-variadic ones exactly that many -/
def arityFailed (ft : FnType) (nArgs : Nat) : Bool :=
  (ft.variadic && decide (nArgs < ft.nArgTys)) || (!ft.variadic && nArgs != ft.nArgTys)

/-- `if failed { TypecheckAnswer::fail(..) } else { args.iter().zip_longest(arg_tys)… }` -/
def finish (ft : FnType) (args : List Arg) (failed : Bool) (errs : List TcErr) : TcOutcome :=
  if failed then .fail errs
  else
    match zipLongest (decide (0 < ft.nArgTys)) args ft.nArgTys with
    | .ok n => .checked n
    | .error s => .panic s

/-- `typecheck_extension` after a successful `lookup_extension_function` (`lookup = some ft`) or not (`none`) -/
def typecheckExtensionFn (acc : Access) (strict : Bool) (lookup : Option FnType) (args : List Arg) : TcOutcome :=
  match lookup with
  | none => .fail [.undefinedExtension]
  | some ft =>
    let f12 := arityFailed ft args.length
    let e12 := if f12 then [TcErr.wrongNumberArgs ft.nArgTys args.length] else []
    -- `if let Err(err) = efunc.check_arguments(args)`: called with `failed` already set or not
    match checkArguments acc ft args with
    | .panic s => .panic s
    | .err l =>
      let f4 := strict && ft.check.isSome && !args.all Arg.isLit
      finish ft args true (e12 ++ [.functionArgumentValidation l] ++ if f4 then [.nonLitExtConstructor] else [])
    | .ok =>
      let f4 := strict && ft.check.isSome && !args.all Arg.isLit
      finish ft args (f12 || f4) (e12 ++ if f4 then [.nonLitExtConstructor] else [])

/-- an expression kind, as far as the dispatch looks at it -/
inductive Kind where
  | extensionFunctionApp (fnKnown : Option FnType) (args : List Arg)
  | other
deriving Inhabited

/-- `fn typecheck_extension(.., ext_expr, ..)`: the `let … else { panic!(..) }` on the expression kind -/
def typecheckExtension (acc : Access) (strict : Bool) (k : Kind) : TcOutcome :=
  match k with
  | .extensionFunctionApp lookup args => typecheckExtensionFn acc strict lookup args
  | .other => .panic "`typecheck_extension` called with an expression kind other than `ExtensionFunctionApp`"

/-- the arm of `Typechecker::typecheck`: `ExprKind::ExtensionFunctionApp { .. } => self.typecheck_extension(..)`; every other
kind goes elsewhere (`none`) -/
def typecheckArm (acc : Access) (strict : Bool) (k : Kind) : Option TcOutcome :=
  match k with
  | .extensionFunctionApp .. => some (typecheckExtension acc strict k)
  | .other => none

end ExtArg
end NoPanic
end Cedar
