import CedarVerif.Cedar.Eval
/-
C20 mirror of the two-level operator dispatch of the `BinaryApp` arm of `Evaluator::partial_interpret_internal`
(cedar-policy-core/src/evaluator.rs) on two *values*, with the three `unreachable!("Should have already checked that op
was one of these")` sites kept as explicit `.panic site` outcomes:

* `pub fn binary_relation(op, arg1, arg2, extensions)`: `match op { Eq => …, Less | LessEq => …, _ => unreachable!() }`
* `pub fn binary_arith(op, arg1, arg2, loc)`: `arg1.get_as_long()?; arg2.get_as_long()?;` then
  `match op { Add => …, Sub => …, Mul => …, _ => unreachable!() }`
* the `GetTag | HasTag` arm: `arg1.get_as_entity()?; arg2.get_as_string()?;` then
  `match op { GetTag => …, HasTag => …, _ => unreachable!() }`

`binary_relation` and `binary_arith` are public functions: called directly with another operator they DO panic
(`binaryRelation_panics_iff`, `binaryArith_panics_iff` in Thm/C20.lean); the evaluator's outer `match op` is what
makes the sites unreachable.  The arms without a site reuse `applyBinary` of the concrete evaluator model (`Cedar/Eval.lean`).
Imports only model files.
-/
namespace Cedar
namespace NoPanic

inductive EvOutcome where
  | ret (r : Result Value)
  | panic (site : String)
deriving Repr

/-- `pub fn binary_relation` -/
def binaryRelation (op : BinaryOp) (v1 v2 : Value) : EvOutcome :=
  match op with
  | .eq => .ret (.ok (.prim (.bool (Value.beq v1 v2))))
  | .less | .lessEq =>
    -- `let long_op = if matches!(op, BinaryOp::Less) { |x, y| x < y } else { |x, y| x <= y };` (same for `ext_op`)
    .ret (applyCmp (op == .less) v1 v2)
  | _ => .panic "binary_relation: unreachable!(\"Should have already checked that op was one of these\")"

/-- `pub fn binary_arith` -/
def binaryArith (op : BinaryOp) (v1 v2 : Value) : EvOutcome :=
  match v1.asInt with
  | .error e => .ret (.error e)
  | .ok i1 =>
    match v2.asInt with
    | .error e => .ret (.error e)
    | .ok i2 =>
      match op with
      | .add => .ret (intOrErr (i1 + i2))
      | .sub => .ret (intOrErr (i1 - i2))
      | .mul => .ret (intOrErr (i1 * i2))
      | _ => .panic "binary_arith: unreachable!(\"Should have already checked that op was one of these\")"

/-- the `BinaryOp::GetTag | BinaryOp::HasTag` arm (concrete store: `Dereference::Residual` does not occur) -/
def tagArm (es : Entities) (op : BinaryOp) (v1 v2 : Value) : EvOutcome :=
  match v1.asEntity with
  | .error e => .ret (.error e)
  | .ok u =>
    match v2.asString with
    | .error e => .ret (.error e)
    | .ok t =>
      match op with
      | .getTag =>
        .ret (match es.find? u with
          | none => .error .entity
          | some d => match lookupKV d.tags t with
            | some v => .ok v
            | none => .error .attr)
      | .hasTag =>
        .ret (match es.find? u with
          | none => .ok (.prim (.bool false))
          | some d => .ok (.prim (.bool (lookupKV d.tags t).isSome)))
      | _ => .panic "GetTag|HasTag arm: unreachable!(\"Should have already checked that op was one of these\")"

/-- the outer `match op` of the `BinaryApp` arm, both operands being values -/
def binaryDispatch (es : Entities) (op : BinaryOp) (v1 v2 : Value) : EvOutcome :=
  match op with
  | .eq | .less | .lessEq => binaryRelation op v1 v2
  | .add | .sub | .mul => binaryArith op v1 v2
  | .mem => .ret (applyBinary es .mem v1 v2)
  | .contains => .ret (applyBinary es .contains v1 v2)
  | .containsAll => .ret (applyBinary es .containsAll v1 v2)
  | .containsAny => .ret (applyBinary es .containsAny v1 v2)
  | .getTag | .hasTag => tagArm es op v1 v2

end NoPanic
end Cedar
