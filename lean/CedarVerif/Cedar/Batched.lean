import CedarVerif.Cedar.Tpe
/-
Batched (loader-driven) authorization.  Mirrors `is_authorized_batched` (cedar-policy-core/src/batched_evaluator.rs):
the concrete request as a partial request, an initially EMPTY partial store (no action entities), the initial
interpretation of every typed policy condition, then at most `max_iters` rounds of
  collect `all_literal_uids` of the residuals → drop the ids already in the store → `loader.load_entities` →
  add EVERY returned pair (`Some(e)` ↦ the entity with all components known, `None` ↦ the EMPTY entity:
  "missing entities are equivalent to empty entities"); an id that is already loaded is a `Duplicate` error →
  re-interpret all residuals → stop when none is `Partial`;
finally `Response::new(..).decision()`: `Some(d)` ↦ `Ok(d)`, `None` ↦ `InsufficientIterationsError`.
Schema validation of loaded entities is not modelled (the stores submitted are conformant).  Import-free.
-/
namespace Cedar.Batched
open Cedar Cedar.Tpe

/-- `EntityLoader::load_entities`: for a set of ids, pairs id ↦ `Some(entity)` / `None`; may return more than asked -/
abbrev Loader := List EntityUID → List (EntityUID × Option EntityData)

inductive Outcome where
  | ok (d : Decision)
  | insufficient
  | error            -- any other `BatchedEvalError` (here: duplicate entity)
  | tpeError         -- `policy_residual_map` failed (slot / unknown in a policy)
deriving Repr, DecidableEq, Inhabited

/-- `PartialEntity::try_from(Entity)`; `Entity::with_uid` for a missing one -/
def pentityOf : Option EntityData → PEntity
  | some d => { attrs := some d.attrs, ancestors := some d.ancestors, tags := some d.tags }
  | none => { attrs := some [], ancestors := some [], tags := some [] }

structure State where
  entities : Tpe.PEntities
  residuals : List ResidualPolicy
deriving Inhabited

/-- a set of ids as a duplicate-free list (the order of a `HashSet` is not observable) -/
def dedup : List EntityUID → List EntityUID
  | [] => []
  | x :: xs => if xs.contains x then dedup xs else x :: dedup xs

/-- the ids requested in a round -/
def State.toLoad (st : State) : List EntityUID :=
  dedup ((st.residuals.flatMap (fun rp => rp.residual.uids)).filter (fun u => !st.entities.contains u))

/-- `add_entities` / `add_entity_trusted` for every returned pair, erroring on an id that is already present -/
def addLoaded : Tpe.PEntities → List (EntityUID × Option EntityData) → Option Tpe.PEntities
  | es, [] => some es
  | es, (u, d) :: rest => if es.contains u then none else addLoaded (es ++ [(u, pentityOf d)]) rest

def reinterpret (req : Tpe.PRequest) (es : Tpe.PEntities) (rp : ResidualPolicy) : ResidualPolicy :=
  { rp with residual := interpret req es rp.residual }

/-- one iteration of the `for` loop (without the `break` test) -/
def step (req : Tpe.PRequest) (loader : Loader) (st : State) : Option State :=
  match addLoaded st.entities (loader st.toLoad) with
  | none => none
  | some es => some { entities := es, residuals := st.residuals.map (reinterpret req es) }

def State.done (st : State) : Bool := st.residuals.all (fun rp => !rp.residual.isPartial)

/-- `for _i in 0..max_iters { …; if all done { break } }` -/
def loop (req : Tpe.PRequest) (loader : Loader) : Nat → State → Option State
  | 0, st => some st
  | n + 1, st =>
    match step req loader st with
    | none => none
    | some st' => if st'.done then some st' else loop req loader n st'

def State.decision (req : Tpe.PRequest) (st : State) : Option Decision :=
  (Tpe.Response.mk st.residuals req st.entities).decision

/-- `concrete_request_to_partial` -/
def prequestOf (q : Request) : Tpe.PRequest :=
  ⟨⟨q.principal.ty, some q.principal.eid⟩, q.action, ⟨q.resource.ty, some q.resource.eid⟩, some q.context⟩

def initState (req : Tpe.PRequest) (tps : List TPolicy) : Option State :=
  (mapM? (residualPolicyOf req ([] : Tpe.PEntities)) tps).map (fun rs => { entities := ([] : Tpe.PEntities), residuals := rs })

def runFrom (req : Tpe.PRequest) (loader : Loader) (budget : Nat) (st : State) : Outcome :=
  match loop req loader budget st with
  | none => .error
  | some st' =>
    match st'.decision req with
    | some d => .ok d
    | none => .insufficient

/-- `is_authorized_batched` -/
def run (budget : Nat) (loader : Loader) (q : Request) (tps : List TPolicy) : Outcome :=
  match initState (prequestOf q) tps with
  | none => .tpeError
  | some st => runFrom (prequestOf q) loader budget st

/-- the loader backed by a store that returns exactly what is asked -/
def storeLoader (es : Entities) : Loader := fun ids => ids.map (fun u => (u, es.find? u))

end Cedar.Batched
