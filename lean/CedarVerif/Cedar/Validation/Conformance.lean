import CedarVerif.Cedar.Validation.Schema
import CedarVerif.Cedar.Expr
/-
Schema conformance of values, entities, contexts and requests (C11; `InstanceOfType` is shared with C03).

MIRRORS (follow the Rust control flow; executable)
* `typecheckValue`  — `Type::typecheck_restricted_expr` / `typecheck_value` (validator/types.rs), used for contexts;
* `checkValue`      — `typecheck_restricted_expr_against_schematype` / `typecheck_value_against_schematype`
                      (entities/conformance.rs), used for entity attributes and tags after `Type → SchemaType`;
* `validateEuid`, `validateEuids` — `validate_euid`, `validate_euids_in_partial_value`;
* `checkEntity`     — `EntitySchemaConformanceChecker::validate_entity` (+ `validate_action`,
                      `validate_entity_attributes`, `validate_entity_ancestors`, `validate_tags`);
* `checkContext`, `checkScope`, `checkRequest` — `validate_context`, `validate_scope_variables`,
                      `validate_request` of `impl RequestSchema for ValidatorSchema` (validator/coreschema.rs).
Values are concrete (no unknowns/residuals: those Rust branches accept unconditionally and are outside C11).
An extension value stands for the call of its constructor, so its "return type" is its own extension type.
`expect(..)` on the `Type → SchemaType` conversion is kept as the explicit outcome `.panic`.

SPEC (declarative): `InstanceOfType`, `ValidUid`, `ConformsEntity`, `ConformsContext`, `ConformsRequest`.
Imports only model files.
-/
namespace Cedar

/-! ## values against types -/

/-- `attrs.iter().all(|(k, ty)| !ty.is_required || record.contains_key(k))` -/
def requiredPresent (attrs : Attrs) (kvs : List (String × Value)) : Bool :=
  attrs.all (fun a => !a.2.1 || kvs.any (fun kv => kv.1 == a.1))

mutual
/-- mirror of `Type::typecheck_restricted_expr` on (the restricted expression of) a value -/
def typecheckValue : Value → CedarType → Bool
  | .prim (.bool _), .bool .anyBool => true
  | .prim (.bool b), .bool .tt => b
  | .prim (.bool b), .bool .ff => !b
  | .prim (.int _), .long => true
  | .prim (.string _), .string => true
  | .set _, .set none => true
  | .set vs, .set (some t) => typecheckValues vs t
  | .prim (.entityUID u), .entity lub => lub.contains u.ty
  | .prim (.entityUID _), .anyEntity => true
  | .record kvs, .record attrs o => typecheckFields kvs attrs o && requiredPresent attrs kvs
  | .ext x, .ext n => x.typeName == n
  | _, _ => false
def typecheckValues : List Value → CedarType → Bool
  | [], _ => true
  | v :: vs, t => typecheckValue v t && typecheckValues vs t
def typecheckFields : List (String × Value) → Attrs → Bool → Bool
  | [], _, _ => true
  | (k, v) :: kvs, attrs, o =>
    (match Attrs.find? attrs k with
     | some (_, t) => typecheckValue v t
     | none => o) && typecheckFields kvs attrs o
end

/-- required attributes of a `SchemaType::Record` are present.  (Rust re-typechecks the present required
attributes here; the loop over all pairs below checks them again, so only presence matters for the verdict.) -/
def schemaRequiredPresent (attrs : SchemaAttrs) (kvs : List (String × Value)) : Bool :=
  attrs.all (fun a => !a.2.1 || kvs.any (fun kv => kv.1 == a.1))

mutual
/-- mirror of `typecheck_restricted_expr_against_schematype` on a value -/
def checkValue : Value → SchemaType → Bool
  -- `ExprKind::ExtensionFunctionApp`: decided by the function's return type before looking at the expected type
  | .ext x, .ext n => x.typeName == n
  | .ext _, _ => false
  | .prim (.bool _), .bool => true
  | .prim (.int _), .long => true
  | .prim (.string _), .string => true
  | .set vs, .emptySet => vs.isEmpty
  | .set vs, .set t => checkValues vs t
  | .record kvs, .record attrs o => schemaRequiredPresent attrs kvs && checkFields kvs attrs o
  | .prim (.entityUID u), .entity ty => u.ty == ty
  | _, _ => false
def checkValues : List Value → SchemaType → Bool
  | [], _ => true
  | v :: vs, t => checkValue v t && checkValues vs t
def checkFields : List (String × Value) → SchemaAttrs → Bool → Bool
  | [], _, _ => true
  | (k, v) :: kvs, attrs, o =>
    (match SchemaAttrs.find? attrs k with
     | some (_, t) => checkValue v t
     | none => o) && checkFields kvs attrs o
end

/-! ## entity uids inside values -/

mutual
/-- all entity-uid literals among the subexpressions of a value (`RestrictedExpr::from(val).subexpressions()`) -/
def Value.euids : Value → List EntityUID
  | .prim (.entityUID u) => [u]
  | .prim _ => []
  | .ext _ => []
  | .set vs => Value.euidsList vs
  | .record kvs => Value.euidsKVs kvs
def Value.euidsList : List Value → List EntityUID
  | [] => []
  | v :: vs => Value.euids v ++ Value.euidsList vs
def Value.euidsKVs : List (String × Value) → List EntityUID
  | [] => []
  | (_, v) :: kvs => Value.euids v ++ Value.euidsKVs kvs
end

/-! ## violations -/

inductive EntityViolation where
  | unexpectedType | enumId | undeclaredAction | actionMismatch | missingAttr | unexpectedAttr
  | typeMismatch | unexpectedTag | ancestorType
  /-- `expect("failed to convert validator type into Core SchemaType")` -/
  | panic
deriving Repr, DecidableEq, Inhabited

inductive RequestViolation where
  | undeclaredAction | undeclaredPrincipalType | undeclaredResourceType | principalType | resourceType
  | context | enumId
deriving Repr, DecidableEq, Inhabited

/-- `is_valid_enumerated_entity` for the declared enumerated types; other uids pass -/
def validEnumId (s : Schema) (u : EntityUID) : Bool :=
  match s.entityType? u.ty with
  | some et => (match et.enumIds with
    | some ids => ids.contains u.eid
    | none => true)
  | none => true

/-- the action half of `validate_euid` -/
def declaredIfAction (s : Schema) (u : EntityUID) : Bool :=
  !(isActionType u.ty && (s.action? u).isNone)

/-- `validate_euid` -/
def validateEuid (s : Schema) (u : EntityUID) : Except EntityViolation Unit :=
  if !validEnumId s u then .error .enumId
  else if !declaredIfAction s u then .error .undeclaredAction
  else .ok ()

/-- `validate_euids_in_subexpressions` -/
def validateEuids (s : Schema) : List EntityUID → Except EntityViolation Unit
  | [] => .ok ()
  | u :: us => validateEuid s u >>= fun _ => validateEuids s us

/-! ## entities -/

/-- `attr_type()` / `tag_type()` conversion followed by `typecheck_value_against_schematype` -/
def checkAttrValue (τ : CedarType) (v : Value) : Except EntityViolation Unit :=
  match τ.toSchemaType? with
  | none => .error .panic
  | some σ => if checkValue v σ then .ok () else .error .typeMismatch

/-- body of the second loop of `validate_entity_attributes`: undeclared attribute, or type of a declared one -/
def checkOneAttr (et : EntityTypeEntry) (k : String) (v : Value) : Except EntityViolation Unit :=
  match Attrs.find? et.attrs k with
  | none => if et.isOpen then .ok () else .error .unexpectedAttr
  | some (_, τ) => checkAttrValue τ v

/-- second loop of `validate_entity_attributes` -/
def validateAttrs (s : Schema) (et : EntityTypeEntry) : List (String × Value) → Except EntityViolation Unit
  | [] => .ok ()
  | (k, v) :: rest =>
    checkOneAttr et k v >>= fun _ =>
    validateEuids s v.euids >>= fun _ =>
    validateAttrs s et rest

/-- `validate_entity_attributes` -/
def validateEntityAttributes (s : Schema) (et : EntityTypeEntry) (attrs : List (String × Value)) :
    Except EntityViolation Unit :=
  if et.requiredAttrs.all (fun a => attrs.any (fun kv => kv.1 == a)) then validateAttrs s et attrs
  else .error .missingAttr

def checkAncestorType (s : Schema) (ty : EntityType) (a : EntityUID) : Except EntityViolation Unit :=
  if (s.allowedParentTypes ty).contains a.ty then .ok () else .error .ancestorType

/-- `validate_entity_ancestors` -/
def validateAncestors (s : Schema) (ty : EntityType) : List EntityUID → Except EntityViolation Unit
  | [] => .ok ()
  | a :: rest =>
    validateEuid s a >>= fun _ =>
    checkAncestorType s ty a >>= fun _ =>
    validateAncestors s ty rest

def checkTagValues (τ : CedarType) : List (String × Value) → Except EntityViolation Unit
  | [] => .ok ()
  | (_, v) :: rest => checkAttrValue τ v >>= fun _ => checkTagValues τ rest

def validateTagEuids (s : Schema) : List (String × Value) → Except EntityViolation Unit
  | [] => .ok ()
  | (_, v) :: rest => validateEuids s v.euids >>= fun _ => validateTagEuids s rest

/-- first half of `validate_tags` (`tag_type()` converts the type — and may panic — before any tag is looked at) -/
def checkTagTypes (et : EntityTypeEntry) (tags : List (String × Value)) : Except EntityViolation Unit :=
  match et.tags with
  | none => if tags.isEmpty then .ok () else .error .unexpectedTag
  | some τ =>
    match τ.toSchemaType? with
    | none => .error .panic
    | some _ => checkTagValues τ tags

/-- `validate_tags` -/
def validateTags (s : Schema) (et : EntityTypeEntry) (tags : List (String × Value)) : Except EntityViolation Unit :=
  checkTagTypes et tags >>= fun _ => validateTagEuids s tags

/-- ancestor sets are compared as sets (`deep_eq`) -/
def sameUidSet (a b : List EntityUID) : Bool :=
  a.all (fun u => b.contains u) && b.all (fun u => a.contains u)

/-- `validate_action`: declared, and `deep_eq` to the schema's action entity -/
def validateAction (s : Schema) (uid : EntityUID) (d : EntityData) : Except EntityViolation Unit :=
  match s.action? uid with
  | none => .error .undeclaredAction
  | some a =>
    if Value.beqKVs d.attrs a.attrs && d.tags.isEmpty && sameUidSet d.ancestors a.ancestors then .ok ()
    else .error .actionMismatch

/-- `EntitySchemaConformanceChecker::validate_entity` -/
def checkEntity (s : Schema) (uid : EntityUID) (d : EntityData) : Except EntityViolation Unit :=
  if isActionType uid.ty then validateAction s uid d
  else match s.entityType? uid.ty with
    | none => .error .unexpectedType
    | some et =>
      validateEuid s uid >>= fun _ =>
      validateEntityAttributes s et d.attrs >>= fun _ =>
      validateAncestors s uid.ty d.ancestors >>= fun _ =>
      validateTags s et d.tags

/-! ## requests -/

def liftEuid : Except EntityViolation Unit → Except RequestViolation Unit
  | .ok () => .ok ()
  | .error .undeclaredAction => .error .undeclaredAction
  | .error _ => .error .enumId

/-- `validate_context` -/
def checkContext (s : Schema) (action : EntityUID) (ctx : List (String × Value)) : Except RequestViolation Unit :=
  match s.action? action with
  | none => .error .undeclaredAction
  | some a =>
    liftEuid (validateEuids s (Value.euids (.record ctx))) >>= fun _ =>
    if typecheckValue (.record ctx) a.context then .ok () else .error .context

/-- principal / resource half of `validate_scope_variables`: declared type, valid enumerated id -/
def checkScopeEntity (s : Schema) (u : EntityUID) (undeclared : RequestViolation) : Except RequestViolation Unit :=
  match s.entityType? u.ty with
  | some _ => if validEnumId s u then .ok () else .error .enumId
  | none => .error undeclared

/-- action half of `validate_scope_variables`: declared, and applicable to the principal and resource types -/
def checkApplies (s : Schema) (p a r : EntityUID) : Except RequestViolation Unit :=
  match s.action? a with
  | none => .error .undeclaredAction
  | some act =>
    if act.principals.contains p.ty then
      (if act.resources.contains r.ty then .ok () else .error .resourceType)
    else .error .principalType

/-- `validate_scope_variables` (all three present) -/
def checkScope (s : Schema) (p a r : EntityUID) : Except RequestViolation Unit :=
  checkScopeEntity s p .undeclaredPrincipalType >>= fun _ =>
  checkScopeEntity s r .undeclaredResourceType >>= fun _ =>
  checkApplies s p a r

/-- `validate_request` -/
def checkRequest (s : Schema) (q : Request) : Except RequestViolation Unit :=
  checkScope s q.principal q.action q.resource >>= fun _ =>
  checkContext s q.action q.context

/-! ## declarative specification -/

/-- `v` is a value of type `τ` -/
inductive InstanceOfType : Value → CedarType → Prop
  | anyBool (b : Bool) : InstanceOfType (.prim (.bool b)) (.bool .anyBool)
  | tt : InstanceOfType (.prim (.bool true)) (.bool .tt)
  | ff : InstanceOfType (.prim (.bool false)) (.bool .ff)
  | long (i : Int) : InstanceOfType (.prim (.int i)) .long
  | string (s : String) : InstanceOfType (.prim (.string s)) .string
  | entity (u : EntityUID) (lub : List EntityType) : u.ty ∈ lub → InstanceOfType (.prim (.entityUID u)) (.entity lub)
  | anyEntity (u : EntityUID) : InstanceOfType (.prim (.entityUID u)) .anyEntity
  | ext (x : Ext) : InstanceOfType (.ext x) (.ext x.typeName)
  | anySet (vs : List Value) : InstanceOfType (.set vs) (.set none)
  | set (vs : List Value) (t : CedarType) :
      (∀ v, v ∈ vs → InstanceOfType v t) → InstanceOfType (.set vs) (.set (some t))
  | record (kvs : List (String × Value)) (attrs : Attrs) (o : Bool) :
      -- every field that the type declares has the declared type
      (∀ k v, (k, v) ∈ kvs → ∀ r t, Attrs.find? attrs k = some (r, t) → InstanceOfType v t) →
      -- no undeclared field unless the record type is open
      (∀ k v, (k, v) ∈ kvs → Attrs.find? attrs k = none → o = true) →
      -- every required attribute is present
      (∀ k t, (k, true, t) ∈ attrs → ∃ v, (k, v) ∈ kvs) →
      InstanceOfType (.record kvs) (.record attrs o)

/-- enumerated entity ids are among the declared choices, action uids are declared -/
def ValidUid (s : Schema) (u : EntityUID) : Prop :=
  (∀ et ids, s.entityType? u.ty = some et → et.enumIds = some ids → u.eid ∈ ids) ∧
  (isActionType u.ty = true → ∃ a, s.action? u = some a)

/-- the entity `(uid, d)` conforms to the schema -/
def ConformsEntity (s : Schema) (uid : EntityUID) (d : EntityData) : Prop :=
  if isActionType uid.ty = true then
    -- actions: declared and identical to their schema definition
    ∃ a, s.action? uid = some a ∧ Value.beqKVs d.attrs a.attrs = true ∧ d.tags = [] ∧
      (∀ u, u ∈ d.ancestors ↔ u ∈ a.ancestors)
  else
    ∃ et, s.entityType? uid.ty = some et ∧
      ValidUid s uid ∧
      -- required attributes present
      (∀ k t, (k, true, t) ∈ et.attrs → ∃ v, (k, v) ∈ d.attrs) ∧
      -- declared attributes have their declared types, no undeclared attributes
      (∀ k v, (k, v) ∈ d.attrs → ∀ r t, Attrs.find? et.attrs k = some (r, t) → InstanceOfType v t) ∧
      (∀ k v, (k, v) ∈ d.attrs → Attrs.find? et.attrs k = none → et.isOpen = true) ∧
      -- enumerated ids / actions wherever they occur in attribute values
      (∀ k v, (k, v) ∈ d.attrs → ∀ u, u ∈ v.euids → ValidUid s u) ∧
      -- ancestors: valid uids of permitted (transitively) member-of types
      (∀ a, a ∈ d.ancestors → ValidUid s a ∧ a.ty ∈ s.allowedParentTypes uid.ty) ∧
      -- tags: only if declared, of the declared type, with valid uids inside
      (∀ k v, (k, v) ∈ d.tags → ∃ t, et.tags = some t ∧ InstanceOfType v t) ∧
      (∀ k v, (k, v) ∈ d.tags → ∀ u, u ∈ v.euids → ValidUid s u)

/-- the context conforms to the context type of `action` -/
def ConformsContext (s : Schema) (action : EntityUID) (ctx : List (String × Value)) : Prop :=
  ∃ a, s.action? action = some a ∧
    (∀ u, u ∈ Value.euids (.record ctx) → ValidUid s u) ∧
    InstanceOfType (.record ctx) a.context

/-- the request conforms to the schema -/
def ConformsRequest (s : Schema) (q : Request) : Prop :=
  (∃ et, s.entityType? q.principal.ty = some et) ∧ validEnumId s q.principal = true ∧
  (∃ et, s.entityType? q.resource.ty = some et) ∧ validEnumId s q.resource = true ∧
  (∃ a, s.action? q.action = some a ∧ q.principal.ty ∈ a.principals ∧ q.resource.ty ∈ a.resources) ∧
  ConformsContext s q.action q.context

/-! ## well-formedness of a schema as far as conformance checking relies on it -/

mutual
/-- types that schema construction produces: representable as `SchemaType`, with no singleton booleans and no
"any set" (for these `SchemaType` and `Type` checking coincide) -/
def CedarType.schematic : CedarType → Bool
  | .bool .anyBool => true
  | .long => true
  | .string => true
  | .ext _ => true
  | .set (some t) => CedarType.schematic t
  | .record attrs _ => attrsSchematic attrs
  | .entity [_] => true
  | _ => false
def attrsSchematic : List (String × Bool × CedarType) → Bool
  | [] => true
  | (_, _, t) :: rest => CedarType.schematic t && attrsSchematic rest
end

/-- every attribute and tag type of every entity type is schematic -/
def Schema.schematic (s : Schema) : Bool :=
  s.ets.all (fun p => attrsSchematic p.2.attrs && (match p.2.tags with | some t => t.schematic | none => true))

end Cedar
