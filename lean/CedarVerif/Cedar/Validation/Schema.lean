import CedarVerif.Cedar.Validation.Types
/-
The *resolved* schema: what `ValidatorSchema` holds after parsing, namespace resolution, common-type inlining
and transitive closure (cedar-policy-core/src/validator/schema.rs, schema/entity_type.rs, schema/action.rs),
plus the lookups that `CoreSchema` / `EntityTypeDescription` (validator/coreschema.rs) derive from it.
Schema *construction* is not modelled: the correspondence harness serialises Rust's resolved schema.
Imports only model files.
-/
namespace Cedar

/-- `ValidatorEntityType` -/
structure EntityTypeEntry where
  /-- `attributes` -/
  attrs : Attrs
  /-- `open_attributes().is_open()` (always `false` for schemas without partial-schema support) -/
  isOpen : Bool
  /-- `tag_type()` -/
  tags : Option CedarType
  /-- `descendants` (transitively closed) -/
  descendants : List EntityType
  /-- `Some choices` for `ValidatorEntityTypeKind::Enum` -/
  enumIds : Option (List String)
deriving Repr, Inhabited

/-- `ValidatorActionId` together with the schema's action entity (`ValidatorSchema::actions`) -/
structure ActionEntry where
  /-- `applies_to_principals()` -/
  principals : List EntityType
  /-- `applies_to_resources()` -/
  resources : List EntityType
  /-- `context_type()` -/
  context : CedarType
  /-- `descendants` (transitively closed) -/
  descendants : List EntityUID
  /-- ancestors of the action entity (= all action groups it is transitively a member of) -/
  ancestors : List EntityUID
  /-- attributes of the action entity (key-sorted) -/
  attrs : List (String × Value)
deriving Repr, Inhabited

structure Schema where
  ets : List (EntityType × EntityTypeEntry)
  acts : List (EntityUID × ActionEntry)
deriving Repr, Inhabited

/-- `ValidatorSchema::get_entity_type` -/
def Schema.entityType? (s : Schema) (ty : EntityType) : Option EntityTypeEntry :=
  match s.ets.find? (fun p => p.1 == ty) with
  | some p => some p.2
  | none => none

/-- `ValidatorSchema::get_action_id` / `CoreSchema::action` -/
def Schema.action? (s : Schema) (uid : EntityUID) : Option ActionEntry :=
  match s.acts.find? (fun p => p.1 == uid) with
  | some p => some p.2
  | none => none

/-- `EntityTypeDescription::new`: the allowed (transitive) parent types of `ty` are the declared types that
list `ty` among their descendants -/
def Schema.allowedParentTypes (s : Schema) (ty : EntityType) : List EntityType :=
  (s.ets.filter (fun p => p.2.descendants.contains ty)).map (·.1)

/-- characters after the last `::` (structural, so that closed instances evaluate in the kernel) -/
def basenameChars : List Char → List Char → List Char
  | [], acc => acc.reverse
  | ':' :: ':' :: rest, _ => basenameChars rest []
  | c :: rest, acc => basenameChars rest (c :: acc)

/-- last `::`-separated component of a type name (`Name::basename`) -/
def basename (ty : EntityType) : String :=
  String.ofList (basenameChars ty.toList [])

/-- `EntityType::is_action`: the basename is `Action`, whatever the namespace -/
def isActionType (ty : EntityType) : Bool := basenameChars ty.toList [] == ['A', 'c', 't', 'i', 'o', 'n']

/-- `EntityTypeDescription::required_attrs` -/
def EntityTypeEntry.requiredAttrs (et : EntityTypeEntry) : List String :=
  (et.attrs.filter (fun a => a.2.1)).map (·.1)

end Cedar
