import CedarVerif.Cedar.ExprBeq
import CedarVerif.Cedar.Validation.Schema
import CedarVerif.Cedar.Expr
import CedarVerif.Cedar.Ext
/-
The policy typechecker (C03).  MIRROR of cedar-policy-core/src/validator/typecheck.rs
(`SingleEnvTypechecker::typecheck`, `expect_type`/`expect_one_of_types`, `typecheck_unary/binary/in/extension`,
`Typechecker::{single_env_typechecking, link_request_env, possible_slot_links, typecheck_policy}`) and of the type
operations of validator/types.rs (`is_subtype`, `least_upper_bound`, `are_types_disjoint`, `lookup_attribute_type`,
`may_have_attr`, `EntityLUB::get_attribute_types`) for the modes `Strict` and `Permissive`.

Answers.  Rust's `TypecheckAnswer` is `Success(type, capabilities) | Fail(recovery type)`; failure is sticky
(`then_typecheck`/`sequence_all_then_typecheck` turn every later answer into a failure), so the model answers in
`Except`: `.error .fail` as soon as Rust's answer can no longer be `TypecheckSuccess`.
`.error .outside` marks inputs outside the mirrored fragment — the driver prints `(outside-model)`:
  * `unknown` expressions;
  * entity literals whose type / action id the schema does not declare (Rust fails these *without* an error, leaving
    the report to another pass — `PolicyCheck` then does not determine the typechecker's own verdict);
  * `AnyEntity`-typed operands of `getAttr`/`has`/tags (only produced by partial-schema validation).
Capabilities are kept as lists; only membership (modulo expression shape, `ExprShapeOnly`) is observable.
Imports only model files.
-/
namespace Cedar

inductive ValidationMode where | strict | permissive
deriving Repr, DecidableEq, Inhabited

/-! ## expression shape equality (`ExprShapeOnly`) -/

-- `Expr.beq` is defined in Cedar/ExprBeq.lean

/-! ## capabilities (validator/types/capability.rs) -/

inductive CapKind where | attr | tag
deriving Repr, DecidableEq, Inhabited

/-- `Capability { on_expr, attribute_or_tag, kind }`; an attribute name `a` is the key `Expr.lit (.string a)` -/
structure Capability where
  on : Expr
  key : Expr
  kind : CapKind
deriving Repr, Inhabited

def Capability.beq (a b : Capability) : Bool :=
  a.kind == b.kind && Expr.beq a.on b.on && Expr.beq a.key b.key

def Capability.attr (e : Expr) (a : String) : Capability := ⟨e, .lit (.string a), .attr⟩
def Capability.tag (e k : Expr) : Capability := ⟨e, k, .tag⟩

abbrev Capabilities := List Capability

def Capabilities.has (cs : Capabilities) (c : Capability) : Bool := cs.any (fun c' => Capability.beq c' c)
def Capabilities.union (a b : Capabilities) : Capabilities := a ++ b
def Capabilities.inter (a b : Capabilities) : Capabilities := a.filter (fun c => b.has c)

/-! ## type operations (validator/types.rs) -/

mutual
def CedarType.beq : CedarType → CedarType → Bool
  | .never, .never => true
  | .bool a, .bool b => a == b
  | .long, .long => true
  | .string, .string => true
  | .set none, .set none => true
  | .set (some a), .set (some b) => CedarType.beq a b
  | .record as o, .record bs o' => o == o' && CedarType.beqAttrs as bs
  | .entity a, .entity b => a == b
  | .anyEntity, .anyEntity => true
  | .ext a, .ext b => a == b
  | _, _ => false
def CedarType.beqAttrs : List (String × Bool × CedarType) → List (String × Bool × CedarType) → Bool
  | [], [] => true
  | (k, r, t) :: as, (k', r', t') :: bs => k == k' && r == r' && CedarType.beq t t' && CedarType.beqAttrs as bs
  | _, _ => false
end

/-- same key sets (attribute lists are key-sorted with unique keys) -/
def sameKeys (a b : Attrs) : Bool := a.map (·.1) == b.map (·.1)

/-- `BTreeSet::is_subset` on entity-type sets -/
def lubSubset (a b : List EntityType) : Bool := a.all (fun x => b.contains x)

/-- insertion into a sorted duplicate-free list (`BTreeSet::insert`) -/
def insertSortedTy (x : EntityType) : List EntityType → List EntityType
  | [] => [x]
  | y :: ys => if x < y then x :: y :: ys else if x == y then y :: ys else y :: insertSortedTy x ys

/-- `EntityLUB::least_upper_bound`: union of the two sets -/
def lubUnion (a b : List EntityType) : List EntityType := a.foldl (fun acc x => insertSortedTy x acc) b

def ValidationMode.isStrict : ValidationMode → Bool
  | .strict => true
  | .permissive => false

-- `Type::is_subtype` (structural recursion on the second argument)
mutual
def isSubtype (m : ValidationMode) : CedarType → CedarType → Bool
  | .never, _ => true
  | .bool b0, .bool b1 => (b1 == .anyBool) || b0 == b1
  | .long, .long => true
  | .string, .string => true
  | .set _, .set none => true
  | .set none, .set (some _) => false
  | .set (some e0), .set (some e1) => isSubtype m e0 e1
  | .record a0 o0, .record a1 o1 =>
    (!o0 || o1) && ((o1 && !m.isStrict && attrsSubtype m a0 a1) || (sameKeys a0 a1 && attrsSubtype m a0 a1))
  | .entity l0, .entity l1 => if m.isStrict then l0 == l1 else lubSubset l0 l1
  | .anyEntity, .anyEntity => true
  | .entity _, .anyEntity => !m.isStrict
  | .ext a, .ext b => a == b
  | _, _ => false
/-- `Attributes::is_subtype`: every attribute of the second is present in the first with a sub-attribute-type -/
def attrsSubtype (m : ValidationMode) (a0 : Attrs) : Attrs → Bool
  | [] => true
  | (k, r1, t1) :: rest =>
    (match Attrs.find? a0 k with
     | some (r0, t0) => (if m.isStrict then r0 == r1 else (r0 || !r1)) && isSubtype m t0 t1
     | none => false) && attrsSubtype m a0 rest
end

-- `Type::least_upper_bound` (structural recursion on the first argument); `none` = `Err(LubHelp)`
mutual
def lub (m : ValidationMode) : CedarType → CedarType → Option CedarType
  | t0, t1 =>
    if isSubtype m t0 t1 then some t1
    else if isSubtype m t1 t0 then some t0
    else match t0, t1 with
      | .bool _, .bool _ => some (.bool .anyBool)
      | .set none, .set _ => some (.set none)
      | .set _, .set none => some (.set none)
      | .set (some e0), .set (some e1) => (lub m e0 e1).map (fun t => .set (some t))
      | .record a0 o0, .record a1 o1 =>
        (if m.isStrict then (if sameKeys a0 a1 then lubAttrsStrict m a0 a1 else none) else some (lubAttrsPermissive m a0 a1)).map
          (fun attrs =>
            -- open if either is open or the lub lost a key of either record
            let keys := attrs.map (·.1)
            .record attrs (o0 || o1 || !(a0.all (fun a => keys.contains a.1) && a1.all (fun a => keys.contains a.1))))
      | .entity l0, .entity l1 => if m.isStrict then none else some (.entity (lubUnion l0 l1))
      | .anyEntity, .entity _ => if m.isStrict then none else some .anyEntity
      | .entity _, .anyEntity => if m.isStrict then none else some .anyEntity
      | _, _ => none
/-- `Attributes::strict_least_upper_bound` (same key sets already checked) -/
def lubAttrsStrict (m : ValidationMode) : Attrs → Attrs → Option Attrs
  | [], _ => some []
  | (k, r0, t0) :: rest, a1 =>
    match Attrs.find? a1 k with
    | none => none
    | some (r1, t1) =>
      match lub m t0 t1, lubAttrsStrict m rest a1 with
      | some t, some rest' => if r0 == r1 then some ((k, r0 && r1, t) :: rest') else none
      | _, _ => none
/-- `Attributes::permissive_least_upper_bound`: attributes without a lub are dropped -/
def lubAttrsPermissive (m : ValidationMode) : Attrs → Attrs → Attrs
  | [], _ => []
  | (k, r0, t0) :: rest, a1 =>
    match Attrs.find? a1 k with
    | none => lubAttrsPermissive m rest a1
    | some (r1, t1) =>
      match lub m t0 t1 with
      | some t => (k, r0 && r1, t) :: lubAttrsPermissive m rest a1
      | none => lubAttrsPermissive m rest a1
end

/-- `Type::reduce_to_least_upper_bound` -/
def lubAll (m : ValidationMode) (ts : List CedarType) : Option CedarType :=
  ts.foldl (fun acc t => acc.bind (fun a => lub m a t)) (some .never)

/-- `Type::are_types_disjoint` -/
def typesDisjoint : CedarType → CedarType → Bool
  | .entity l0, .entity l1 => !(l0.any (fun x => l1.contains x))
  | _, _ => false

/-- `EntityLUB::get_attribute_types` (permissive lub of the attribute maps of the elements; an undeclared element
contributes the empty map) -/
def lubAttrs (s : Schema) (lub : List EntityType) : Attrs :=
  let attrsOf (t : EntityType) : Attrs := match s.entityType? t with
    | some et => et.attrs
    | none => []
  match lub with
  | [] => []
  | t :: rest => rest.foldl (fun acc t' => lubAttrsPermissive .permissive acc (attrsOf t')) (attrsOf t)

/-- `EntityKind::has_open_attributes_record` for `Entity(lub)` -/
def lubHasOpenAttrs (s : Schema) (lub : List EntityType) : Bool :=
  lub.any (fun t => !isActionType t && (match s.entityType? t with
    | some et => et.isOpen
    | none => true))

/-- `Type::lookup_attribute_type` on record and entity-lub types -/
def lookupAttr (s : Schema) : CedarType → String → Option (Bool × CedarType)
  | .record attrs _, a => Attrs.find? attrs a
  | .entity lub, a => Attrs.find? (lubAttrs s lub) a
  | _, _ => none

/-- `Type::may_have_attr` -/
def mayHaveAttr (s : Schema) : CedarType → String → Bool
  | .never, _ => true
  | .anyEntity, _ => true
  | .entity lub, a => lubHasOpenAttrs s lub || lub.any (fun t => match s.entityType? t with
      | some et => (Attrs.find? et.attrs a).isSome
      | none => false)
  | .record attrs o, a => o || (Attrs.find? attrs a).isSome
  | _, _ => false

/-- `SingleEnvTypechecker::tag_types` for `Entity(lub)` -/
def tagTypes (s : Schema) (lub : List EntityType) : List CedarType :=
  lub.filterMap (fun t => match s.entityType? t with
    | some et => et.tags
    | none => none)

/-- `schema.get_entity_types_in(rhs).contains(lhs) || check_action_in_entity_type(lhs, rhs)` -/
def mayBeDescendant (s : Schema) (l r : EntityType) : Bool :=
  (match s.entityType? r with
   | some et => et.descendants.contains l
   | none => false) || l == r ||
  s.acts.any (fun p => p.1.ty == r && p.2.descendants.any (fun d => d.ty == l))

/-- `any_entity_type_decedent_of` -/
def anyDescendantOf (s : Schema) (lhs rhs : List EntityType) : Bool :=
  lhs.any (fun l => rhs.any (fun r => mayBeDescendant s l r))

/-! ## extension function signatures (validator/extensions/*.rs) -/

structure ExtSig where
  args : List CedarType
  ret : CedarType
  /-- `has_argument_check()`: the constructors -/
  isConstructor : Bool

def extSig (fn : String) : Option ExtSig :=
  let dec := CedarType.ext "decimal"
  let ip := CedarType.ext "ipaddr"
  let dt := CedarType.ext "datetime"
  let du := CedarType.ext "duration"
  let b := CedarType.bool .anyBool
  match fn with
  | "decimal" => some ⟨[.string], dec, true⟩
  | "ip" => some ⟨[.string], ip, true⟩
  | "datetime" => some ⟨[.string], dt, true⟩
  | "duration" => some ⟨[.string], du, true⟩
  | "lessThan" | "lessThanOrEqual" | "greaterThan" | "greaterThanOrEqual" => some ⟨[dec, dec], b, false⟩
  | "isIpv4" | "isIpv6" | "isLoopback" | "isMulticast" => some ⟨[ip], b, false⟩
  | "isInRange" => some ⟨[ip, ip], b, false⟩
  | "offset" => some ⟨[dt, du], dt, false⟩
  | "durationSince" => some ⟨[dt, dt], du, false⟩
  | "toDate" => some ⟨[dt], dt, false⟩
  | "toTime" => some ⟨[dt], du, false⟩
  | "toMilliseconds" | "toSeconds" | "toMinutes" | "toHours" | "toDays" => some ⟨[du], .long, false⟩
  | _ => none

/-- `check_arguments`: a constructor applied to exactly one string literal must parse -/
def constructorArgOk (fn : String) (args : List Expr) : Bool :=
  match args with
  | [.lit (.string s)] => (match callExt fn [.prim (.string s)] with
    | .ok _ => true
    | .error _ => false)
  | _ => true

def isLit : Expr → Bool
  | .lit _ => true
  | _ => false

/-- extension types with `<`/`<=` overloads (`has_type_with_operator_overloading`) -/
def isComparable : CedarType → Bool
  | .long => true
  | .ext n => n == "datetime" || n == "duration"
  | _ => false

/-! ## request environments (validator/types/request_env.rs) -/

structure RequestEnv where
  principal : EntityType
  action : EntityUID
  resource : EntityType
  context : CedarType
  principalSlot : Option EntityType
  resourceSlot : Option EntityType
deriving Repr, Inhabited

inductive TcError where
  | fail
  | outside
deriving Repr, DecidableEq, Inhabited

abbrev TcResult := Except TcError (CedarType × Capabilities)

/-- `Type::euid_literal` -/
def euidLiteralType (s : Schema) (u : EntityUID) : Option CedarType :=
  if isActionType u.ty then (s.action? u).map (fun _ => .entity [u.ty])
  else (s.entityType? u.ty).map (fun _ => .entity [u.ty])

/-- `replace_action_var_with_euid` followed by "is a literal": the literal an operand stands for -/
def asLiteral (env : RequestEnv) : Expr → Option Prim
  | .lit p => some p
  | .var .action => some (.entityUID env.action)
  | _ => none

/-- `euid_from_euid_literal_or_action` -/
def asEuid (env : RequestEnv) (e : Expr) : Option EntityUID :=
  match asLiteral env e with
  | some (.entityUID u) => some u
  | _ => none

/-- `euids_from_euid_literals_or_actions` -/
def asEuids (env : RequestEnv) (e : Expr) : Option (List EntityUID) :=
  match asEuid env e with
  | some u => some [u]
  | none => match e with
    | .set es => es.mapM (asEuid env)
    | _ => none

/-- `type_of_action_in_entity_literals` / `type_of_action_in_actions` (all uids are declared here: undeclared
literals are outside the model) -/
def typeOfActionIn (s : Schema) (lhs : EntityUID) (rhs : List EntityUID) : CedarType :=
  let rhsActions := rhs.filter (fun u => isActionType u.ty)
  if rhsActions.isEmpty then .bool .ff
  else
    let inSet := rhsActions.any (fun r => r == lhs || (match s.action? r with
      | some a => a.descendants.contains lhs
      | none => false))
    .bool (if inSet then .tt else .ff)

/-- the entity-lub of an `in` operand: `Entity(lub)` or `Set<Entity(lub)>` -/
def rhsEntityLub : CedarType → Option (List EntityType)
  | .entity l => some l
  | .set (some (.entity l)) => some l
  | _ => none

/-- `enforce_strict_equality` given the annotated type -/
def strictEqualityOk (m : ValidationMode) (annot : CedarType) (lhs rhs : Option CedarType) : Bool :=
  match annot with
  | .bool .tt => true
  | .bool .ff => true
  | _ => match lhs, rhs with
    | some l, some r => (lub m l r).isSome
    | _, _ => true

def ok (τ : CedarType) (c : Capabilities := []) : TcResult := .ok (τ, c)

/-- the check of `expect_one_of_types` (always with permissive subtyping) -/
def expectOneOf (r : TcResult) (expected : List CedarType) : TcResult :=
  match r with
  | .error e => .error e
  | .ok (τ, c) => if expected.any (fun t => isSubtype .permissive τ t) then .ok (τ, c) else .error .fail

def anyRecord : CedarType := .record [] true
def boolT : CedarType := .bool .anyBool

/-- two operands, both typechecked whatever the other's answer (`then_typecheck` runs its continuation on failures
too): `outside` wins over `fail`; the continuation sees the two types -/
def both (ra rb : TcResult) (k : CedarType → Capabilities → CedarType → Capabilities → TcResult) : TcResult :=
  match ra, rb with
  | .ok (τa, ca), .ok (τb, cb) => k τa ca τb cb
  | .error .outside, _ => .error .outside
  | _, .error .outside => .error .outside
  | .error err, _ => .error err
  | _, .error err => .error err

/-- `<` / `<=` on the operand types -/
def cmpType (τa τb : CedarType) : TcResult :=
  match τa, τb with
  | .never, .never => .error .fail
  | .never, t => if isComparable t then ok boolT else .error .fail
  | t, .never => if isComparable t then ok boolT else .error .fail
  | t1, t2 => if CedarType.beq t1 t2 && isComparable t1 then ok boolT else .error .fail

/-- the non-syntactic part of `typecheck_in` -/
def typeOfInGeneral (s : Schema) (τa τb : CedarType) : TcResult :=
  match τa, rhsEntityLub τb with
  | .entity l, some r => if !anyDescendantOf s l r then ok (.bool .ff) else ok boolT
  | _, _ => ok boolT

/-- `type_of_equality` -/
def eqType (env : RequestEnv) (a b : Expr) (τa τb : CedarType) : CedarType :=
  if typesDisjoint τa τb then .bool .ff
  else match asLiteral env a, asLiteral env b with
    | some la, some lb => .bool (if la == lb then .tt else .ff)
    | _, _ => boolT

def CedarType.isRecord : CedarType → Bool
  | .record _ _ => true
  | _ => false
def CedarType.isTrue : CedarType → Bool
  | .bool .tt => true
  | _ => false
def CedarType.isFalse : CedarType → Bool
  | .bool .ff => true
  | _ => false

/-- result type of `&&` once both operands are typed (rows in the order of the Rust `match`) -/
def andType (τa τb : CedarType) : CedarType :=
  match τa, τb with
  | _, .bool .ff => .bool .ff
  | τa, .bool .tt => τa
  | .bool .tt, τb => τb
  | _, _ => boolT
/-- result capabilities of `&&` (the `(True, Some(_))` row really is `capability_right.union(&capability_right)`) -/
def andCaps (τa τb : CedarType) (ca cb : Capabilities) : Capabilities :=
  match τa, τb with
  | _, .bool .ff => []
  | _, .bool .tt => ca.union cb
  | .bool .tt, _ => cb.union cb
  | _, _ => ca.union cb

/-- result type of `||` -/
def orType (τa τb : CedarType) : CedarType :=
  match τa, τb with
  | _, .bool .tt => .bool .tt
  | τa, .bool .ff => τa
  | .bool .ff, τb => τb
  | _, _ => boolT
/-- result capabilities of `||`: the right operand's when it is typed `True` (even though it may never be
evaluated), the other operand's when one is typed `False`, else the intersection -/
def orCaps (τa τb : CedarType) (ca cb : Capabilities) : Capabilities :=
  match τa, τb with
  | _, .bool .tt => cb
  | _, .bool .ff => ca
  | .bool .ff, _ => cb
  | _, _ => cb.inter ca

/-! ## `SingleEnvTypechecker::typecheck` -/

mutual
def typeOf (m : ValidationMode) (s : Schema) (env : RequestEnv) : Expr → Capabilities → TcResult
  | .lit (.bool true), _ => ok (.bool .tt)
  | .lit (.bool false), _ => ok (.bool .ff)
  | .lit (.int _), _ => ok .long
  | .lit (.string _), _ => ok .string
  | .lit (.entityUID u), _ =>
    match euidLiteralType s u with
    | some τ => ok τ
    | none => .error .outside
  | .var .principal, _ => ok (.entity [env.principal])
  | .var .action, _ =>
    match euidLiteralType s env.action with
    | some τ => ok τ
    | none => .error .fail
  | .var .resource, _ => ok (.entity [env.resource])
  | .var .context, _ => ok env.context
  | .unknown _ _, _ => .error .outside
  | .slot .principal, _ => ok (match env.principalSlot with | some t => .entity [t] | none => .anyEntity)
  | .slot .resource, _ => ok (match env.resourceSlot with | some t => .entity [t] | none => .anyEntity)
  | .ite c t e, caps =>
    match expectOneOf (typeOf m s env c caps) [boolT] with
    | .error err => .error err
    | .ok (τc, cc) =>
      if τc.isTrue then
        -- only the `then` branch is typechecked, with the capabilities of the test
        (match typeOf m s env t (caps.union cc) with
         | .error err => .error err
         | .ok (τt, ct) => .ok (τt, ct.union cc))
      else if τc.isFalse then typeOf m s env e caps
      else
        both (typeOf m s env t (caps.union cc)) (typeOf m s env e caps) (fun τt ct τe ce =>
          match lub m τt τe with
          | some τ => .ok (τ, ce.inter (ct.union cc))
          | none => .error .fail)
  | .and a b, caps =>
    match expectOneOf (typeOf m s env a caps) [boolT] with
    | .error err => .error err
    | .ok (τa, ca) =>
      -- a left operand typed `False` short-circuits *without* typechecking the right operand
      if τa.isFalse then ok (.bool .ff)
      else match expectOneOf (typeOf m s env b (caps.union ca)) [boolT] with
        | .error err => .error err
        | .ok (τb, cb) => .ok (andType τa τb, andCaps τa τb ca cb)
  | .or a b, caps =>
    match expectOneOf (typeOf m s env a caps) [boolT] with
    | .error err => .error err
    | .ok (τa, ca) =>
      -- a left operand typed `True` short-circuits, keeping its capabilities
      if τa.isTrue then .ok (.bool .tt, ca)
      else match expectOneOf (typeOf m s env b caps) [boolT] with
        | .error err => .error err
        | .ok (τb, cb) => .ok (orType τa τb, orCaps τa τb ca cb)
  | .unaryApp .not a, caps =>
    match expectOneOf (typeOf m s env a caps) [boolT] with
    | .error err => .error err
    | .ok (.bool .tt, _) => ok (.bool .ff)
    | .ok (.bool .ff, _) => ok (.bool .tt)
    | .ok _ => ok boolT
  | .unaryApp .neg a, caps =>
    match expectOneOf (typeOf m s env a caps) [.long] with
    | .error err => .error err
    | .ok _ => ok .long
  | .unaryApp .isEmpty a, caps =>
    match expectOneOf (typeOf m s env a caps) [.set none] with
    | .error err => .error err
    | .ok _ => ok boolT
  | .binaryApp .eq a b, caps =>
    both (typeOf m s env a caps) (typeOf m s env b caps) (fun τa _ τb _ =>
      let τ := eqType env a b τa τb
      if m.isStrict && !strictEqualityOk m τ (some τa) (some τb) then .error .fail else ok τ)
  | .binaryApp .less a b, caps => both (typeOf m s env a caps) (typeOf m s env b caps) (fun τa _ τb _ => cmpType τa τb)
  | .binaryApp .lessEq a b, caps => both (typeOf m s env a caps) (typeOf m s env b caps) (fun τa _ τb _ => cmpType τa τb)
  | .binaryApp .add a b, caps =>
    both (expectOneOf (typeOf m s env a caps) [.long]) (expectOneOf (typeOf m s env b caps) [.long]) (fun _ _ _ _ => ok .long)
  | .binaryApp .sub a b, caps =>
    both (expectOneOf (typeOf m s env a caps) [.long]) (expectOneOf (typeOf m s env b caps) [.long]) (fun _ _ _ _ => ok .long)
  | .binaryApp .mul a b, caps =>
    both (expectOneOf (typeOf m s env a caps) [.long]) (expectOneOf (typeOf m s env b caps) [.long]) (fun _ _ _ _ => ok .long)
  | .binaryApp .mem a b, caps =>
    both (expectOneOf (typeOf m s env a caps) [.anyEntity])
         (expectOneOf (typeOf m s env b caps) [.set (some .anyEntity), .anyEntity]) (fun τa _ τb _ =>
      match asEuid env a, asEuids env b with
      | some l, some rs =>
        if isActionType l.ty then ok (typeOfActionIn s l rs)
        else typeOfInGeneral s τa τb
      | _, _ => typeOfInGeneral s τa τb)
  | .binaryApp .contains a b, caps =>
    both (expectOneOf (typeOf m s env a caps) [.set none]) (typeOf m s env b caps) (fun τa _ τb _ =>
      let elem : Option CedarType := match τa with
        | .set (some t) => some t
        | _ => none
      if m.isStrict && !strictEqualityOk m boolT elem (some τb) then .error .fail else ok boolT)
  | .binaryApp .containsAll a b, caps =>
    both (expectOneOf (typeOf m s env a caps) [.set none]) (expectOneOf (typeOf m s env b caps) [.set none]) (fun τa _ τb _ =>
      if m.isStrict && !strictEqualityOk m boolT (some τa) (some τb) then .error .fail else ok boolT)
  | .binaryApp .containsAny a b, caps =>
    both (expectOneOf (typeOf m s env a caps) [.set none]) (expectOneOf (typeOf m s env b caps) [.set none]) (fun τa _ τb _ =>
      if m.isStrict && !strictEqualityOk m boolT (some τa) (some τb) then .error .fail else ok boolT)
  | .binaryApp .hasTag a b, caps =>
    both (expectOneOf (typeOf m s env a caps) [.anyEntity]) (expectOneOf (typeOf m s env b caps) [.string]) (fun τa _ _ _ =>
      match τa with
      | .entity lub =>
        let τ : CedarType :=
          if (tagTypes s lub).isEmpty then .bool .ff
          else if caps.has (Capability.tag a b) then .bool .tt
          else boolT
        .ok (τ, [Capability.tag a b])
      | _ => .error .outside)
  | .binaryApp .getTag a b, caps =>
    both (expectOneOf (typeOf m s env a caps) [.anyEntity]) (expectOneOf (typeOf m s env b caps) [.string]) (fun τa _ _ _ =>
      match τa with
      | .entity lub =>
        if caps.has (Capability.tag a b) then
          match tagTypes s lub with
          | [] => .error .fail
          | ts => match lubAll m ts with
            | some τ => ok τ
            | none => .error .fail
        else .error .fail
      | _ => .error .outside)
  | .call fn args, caps =>
    match extSig fn with
    | none =>
      -- `undefined_extension`; the arguments are still typechecked (for the recursion-limit answer only)
      (match typeOfList m s env args caps with
       | .error .outside => .error .outside
       | _ => .error .fail)
    | some sig =>
      let failed := args.length != sig.args.length || !constructorArgOk fn args ||
        (m.isStrict && sig.isConstructor && !args.all isLit)
      match typeOfList m s env args caps with
      | .error err => .error err
      | .ok τs =>
        if failed then .error .fail
        else if (τs.zip sig.args).all (fun p => isSubtype .permissive p.1 p.2) then ok sig.ret
        else .error .fail
  | .getAttr e a, caps =>
    match expectOneOf (typeOf m s env e caps) [.anyEntity, anyRecord] with
    | .error err => .error err
    | .ok (.anyEntity, _) => .error .outside
    | .ok (τ, _) =>
      match lookupAttr s τ a with
      | some (req, τa) => if req || caps.has (Capability.attr e a) then ok τa else .error .fail
      | none => .error .fail
  | .hasAttr e a, caps =>
    match expectOneOf (typeOf m s env e caps) [.anyEntity, anyRecord] with
    | .error err => .error err
    | .ok (.anyEntity, _) => .error .outside
    | .ok (τ, _) =>
      match lookupAttr s τ a with
      | some (true, _) =>
        .ok (if τ.isRecord || caps.has (Capability.attr e a) then .bool .tt else boolT, [Capability.attr e a])
      | some (false, _) =>
        .ok (if caps.has (Capability.attr e a) then .bool .tt else boolT, [Capability.attr e a])
      | none => ok (if mayHaveAttr s τ a then boolT else .bool .ff)
  | .like e _, caps =>
    match expectOneOf (typeOf m s env e caps) [.string] with
    | .error err => .error err
    | .ok _ => ok boolT
  | .is e ty, caps =>
    match expectOneOf (typeOf m s env e caps) [.anyEntity] with
    | .error err => .error err
    | .ok (.entity lub, _) =>
      ok (if !lub.contains ty then .bool .ff else if lub == [ty] then .bool .tt else boolT)
    | .ok (.anyEntity, _) => ok boolT
    | .ok _ => .error .fail
  | .set es, caps =>
    match typeOfList m s env es caps with
    | .error err => .error err
    | .ok τs =>
      if m.isStrict && es.isEmpty then .error .fail
      else match lubAll m τs with
        | some τ => ok (.set (some τ))
        | none => .error .fail
  | .record kvs, caps =>
    match typeOfKVs m s env kvs caps with
    | .error err => .error err
    | .ok attrs => ok (.record attrs false)
/-- all elements, each with the prior capabilities; `outside` wins over `fail` (Rust checks every element) -/
def typeOfList (m : ValidationMode) (s : Schema) (env : RequestEnv) : List Expr → Capabilities → Except TcError (List CedarType)
  | [], _ => .ok []
  | e :: es, caps =>
    match typeOf m s env e caps, typeOfList m s env es caps with
    | .error .outside, _ => .error .outside
    | _, .error .outside => .error .outside
    | .error err, _ => .error err
    | _, .error err => .error err
    | .ok (τ, _), .ok τs => .ok (τ :: τs)
def typeOfKVs (m : ValidationMode) (s : Schema) (env : RequestEnv) : List (String × Expr) → Capabilities → Except TcError Attrs
  | [], _ => .ok []
  | (k, e) :: es, caps =>
    match typeOf m s env e caps, typeOfKVs m s env es caps with
    | .error .outside, _ => .error .outside
    | _, .error .outside => .error .outside
    | .error err, _ => .error err
    | _, .error err => .error err
    | .ok (τ, _), .ok attrs => .ok ((k, true, τ) :: attrs)
end

/-! ## per-environment driver (`Typechecker`) -/

/-- canonical outcome of `single_env_typechecking`: `Success` with the kind of boolean, `Irrelevant` = `ff` -/
inductive Verdict where
  | tt | ff | bool | fail
deriving Repr, DecidableEq, Inhabited

/-- `single_env_typechecking`: `expect_type(.., Bool)` from the empty capability set; `none` = outside the model -/
def checkEnv (m : ValidationMode) (s : Schema) (env : RequestEnv) (cond : Expr) : Option Verdict :=
  match expectOneOf (typeOf m s env cond []) [boolT] with
  | .ok (.bool .tt, _) => some .tt
  | .ok (.bool .ff, _) => some .ff
  | .ok _ => some .bool
  | .error .fail => some .fail
  | .error .outside => none

/-- `unlinked_request_envs` (strict / permissive): action × principal types × resource types -/
def Schema.unlinkedEnvs (s : Schema) : List RequestEnv :=
  s.acts.flatMap (fun p => p.2.principals.flatMap (fun pt => p.2.resources.map (fun rt =>
    { principal := pt, action := p.1, resource := rt, context := p.2.context, principalSlot := none, resourceSlot := none })))

/-- how a slot occurs in the scope (`possible_slot_links`) -/
inductive SlotUse where
  | absent | eq | mem | other
deriving Repr, DecidableEq, Inhabited

/-- `possible_slot_links` -/
def possibleSlotLinks (s : Schema) (u : SlotUse) (var : EntityType) : List (Option EntityType) :=
  match u with
  | .absent => [none]
  | .eq => [some var]
  | .mem => (s.ets.filter (fun p => p.2.descendants.contains var)).map (fun p => some p.1) ++ [some var]
  | .other => s.ets.map (fun p => some p.1)

/-- `link_request_env` -/
def linkEnv (s : Schema) (pu ru : SlotUse) (env : RequestEnv) : List RequestEnv :=
  (possibleSlotLinks s pu env.principal).flatMap (fun ps => (possibleSlotLinks s ru env.resource).map (fun rs =>
    { env with principalSlot := ps, resourceSlot := rs }))

/-- all linked environments of a template -/
def Schema.envs (s : Schema) (pu ru : SlotUse) : List RequestEnv :=
  s.unlinkedEnvs.flatMap (linkEnv s pu ru)

/-- `typecheck_by_request_env`; `none` when some environment is outside the model -/
def checkPolicy (m : ValidationMode) (s : Schema) (pu ru : SlotUse) (cond : Expr) : Option (List (RequestEnv × Verdict)) :=
  (s.envs pu ru).mapM (fun env => (checkEnv m s env cond).map (fun v => (env, v)))

/-- the typechecker accepts: no environment fails -/
def accepted (vs : List (RequestEnv × Verdict)) : Bool := vs.all (fun p => p.2 != .fail)

/-- `typecheck_policy`'s impossible-policy rule: every environment is typed `False` -/
def impossible (vs : List (RequestEnv × Verdict)) : Bool := vs.all (fun p => p.2 == .ff)

end Cedar
