import CedarVerif.Cedar.Validation.Typecheck
/-
Level validation (RFC 76, C16).  MIRROR of cedar-policy-core/src/validator/level_validate.rs
(`LevelChecker::check_expr_level`, `LevelChecker::check_entity_deref_target_level`,
`Validator::validate_policy_with_level`) together with the part of validator/typecheck.rs that the level checker
consumes: the *type-annotated AST* returned by `SingleEnvTypechecker::typecheck`.

The typed AST (`TExpr`).  The level checker never looks at the policy condition itself but at the expression the
typechecker hands back (`PolicyCheck::Success(e) | Irrelevant(_, e)`).  That expression differs from the condition in
exactly three places (typecheck.rs, cases `If`, `And`, `Or`):
  * `if c then t else e` with `c` typed `True`  is returned as `if c then t else t`, with `c` typed `False` as
    `if c then e else e` (the other branch is never typechecked);
  * `a && b` with `a` typed `False` is returned as (the typed) `a` alone;  `a || b` with `a` typed `True` likewise.
Everything else is rebuilt node by node.  Of the type annotations the level checker reads only `expr.data()` of the
target of a `GetAttr`/`HasAttr`, and only whether it is `Type::Entity(EntityKind::Entity{..})`, `Type::Record{..}` or
anything else; `TExpr` stores exactly that (`TKind`).  `annotate` computes the typed AST with the typechecker model
`typeOf` (same capability threading as `typeOf` itself).

The checker.  Rust's `check_entity_deref_target_level` returns a level *and* inserts errors into a set; here these are
the two functions `derefLevel` (return value; independent of the maximum level) and `derefErrs` (side effect).
The access path is a stack (`Vec::push`/`Vec::pop`): a list whose head is the top.
Record literals are `BTreeMap`s in Rust (unique keys); on an association list with a repeated key the *last* binding
is the record's field, as in `evaluate` (`insertKV` overwrites), so `derefLevelKVs`/`derefErrsKVs` select the last one.
Nothing is totalised away: `InternalInvariantViolation` sites are the error `.internal`.
Imports only model files.
-/
namespace Cedar.Level
open Cedar

/-- what `check_*` read off `expr.data()`: `Some(Type::Entity(EntityKind::Entity{..}))`, `Some(Type::Record{..})`, other -/
inductive TKind where
  | entity | record | other
deriving Repr, DecidableEq, Inhabited

def kindOf : CedarType → TKind
  | .entity _ => .entity
  | .record _ _ => .record
  | _ => .other

/-- the type-annotated AST as far as level validation reads it -/
inductive TExpr where
  | lit (p : Prim)
  | var (v : Var)
  | slot (s : SlotId)
  | unknown (name : String) (ty : Option TyAnn)
  | ite (c t e : TExpr)
  | and (a b : TExpr)
  | or (a b : TExpr)
  | unaryApp (op : UnaryOp) (a : TExpr)
  | binaryApp (op : BinaryOp) (a b : TExpr)
  | call (fn : String) (args : List TExpr)
  | getAttr (k : TKind) (e : TExpr) (attr : String)
  | hasAttr (k : TKind) (e : TExpr) (attr : String)
  | like (e : TExpr) (p : Pattern)
  | is (e : TExpr) (ty : EntityType)
  | set (es : List TExpr)
  | record (kvs : List (String × TExpr))
deriving Repr, Inhabited

-- the expression the evaluator sees (`into_expr`)
mutual
def TExpr.erase : TExpr → Expr
  | .lit p => .lit p
  | .var v => .var v
  | .slot s => .slot s
  | .unknown n t => .unknown n t
  | .ite c t e => .ite c.erase t.erase e.erase
  | .and a b => .and a.erase b.erase
  | .or a b => .or a.erase b.erase
  | .unaryApp op a => .unaryApp op a.erase
  | .binaryApp op a b => .binaryApp op a.erase b.erase
  | .call fn args => .call fn (eraseList args)
  | .getAttr _ e a => .getAttr e.erase a
  | .hasAttr _ e a => .hasAttr e.erase a
  | .like e p => .like e.erase p
  | .is e ty => .is e.erase ty
  | .set es => .set (eraseList es)
  | .record kvs => .record (eraseKVs kvs)
def eraseList : List TExpr → List Expr
  | [] => []
  | e :: es => e.erase :: eraseList es
def eraseKVs : List (String × TExpr) → List (String × Expr)
  | [] => []
  | (k, e) :: es => (k, e.erase) :: eraseKVs es
end

/-! ## the typed AST returned by `SingleEnvTypechecker::typecheck` -/

-- `annotate m s env e caps`: the expression in `TypecheckAnswer::TypecheckSuccess { expr_type, .. }` for `e` under
-- the prior capabilities `caps`; an error where the typechecker model does not answer `Success`
mutual
def annotate (m : ValidationMode) (s : Schema) (env : RequestEnv) : Expr → Capabilities → Except TcError TExpr
  | .lit p, _ => .ok (.lit p)
  | .var v, _ => .ok (.var v)
  | .slot sl, _ => .ok (.slot sl)
  | .unknown _ _, _ => .error .outside
  | .ite c t e, caps =>
    match typeOf m s env c caps, annotate m s env c caps with
    | .error err, _ => .error err
    | _, .error err => .error err
    | .ok (τc, cc), .ok tc =>
      if τc.isTrue then
        match annotate m s env t (caps.union cc) with
        | .error err => .error err
        | .ok tt => .ok (.ite tc tt tt)
      else if τc.isFalse then
        match annotate m s env e caps with
        | .error err => .error err
        | .ok te => .ok (.ite tc te te)
      else
        match annotate m s env t (caps.union cc), annotate m s env e caps with
        | .error err, _ => .error err
        | _, .error err => .error err
        | .ok tt, .ok te => .ok (.ite tc tt te)
  | .and a b, caps =>
    match typeOf m s env a caps, annotate m s env a caps with
    | .error err, _ => .error err
    | _, .error err => .error err
    | .ok (τa, ca), .ok ta =>
      if τa.isFalse then .ok ta
      else match annotate m s env b (caps.union ca) with
        | .error err => .error err
        | .ok tb => .ok (.and ta tb)
  | .or a b, caps =>
    match typeOf m s env a caps, annotate m s env a caps with
    | .error err, _ => .error err
    | _, .error err => .error err
    | .ok (τa, _), .ok ta =>
      if τa.isTrue then .ok ta
      else match annotate m s env b caps with
        | .error err => .error err
        | .ok tb => .ok (.or ta tb)
  | .unaryApp op a, caps =>
    match annotate m s env a caps with
    | .error err => .error err
    | .ok ta => .ok (.unaryApp op ta)
  | .binaryApp op a b, caps =>
    match annotate m s env a caps, annotate m s env b caps with
    | .error err, _ => .error err
    | _, .error err => .error err
    | .ok ta, .ok tb => .ok (.binaryApp op ta tb)
  | .call fn args, caps =>
    match annotateList m s env args caps with
    | .error err => .error err
    | .ok ts => .ok (.call fn ts)
  | .getAttr e a, caps =>
    match typeOf m s env e caps, annotate m s env e caps with
    | .error err, _ => .error err
    | _, .error err => .error err
    | .ok (τ, _), .ok te => .ok (.getAttr (kindOf τ) te a)
  | .hasAttr e a, caps =>
    match typeOf m s env e caps, annotate m s env e caps with
    | .error err, _ => .error err
    | _, .error err => .error err
    | .ok (τ, _), .ok te => .ok (.hasAttr (kindOf τ) te a)
  | .like e p, caps =>
    match annotate m s env e caps with
    | .error err => .error err
    | .ok te => .ok (.like te p)
  | .is e ty, caps =>
    match annotate m s env e caps with
    | .error err => .error err
    | .ok te => .ok (.is te ty)
  | .set es, caps =>
    match annotateList m s env es caps with
    | .error err => .error err
    | .ok ts => .ok (.set ts)
  | .record kvs, caps =>
    match annotateKVs m s env kvs caps with
    | .error err => .error err
    | .ok ts => .ok (.record ts)
def annotateList (m : ValidationMode) (s : Schema) (env : RequestEnv) : List Expr → Capabilities → Except TcError (List TExpr)
  | [], _ => .ok []
  | e :: es, caps =>
    match annotate m s env e caps, annotateList m s env es caps with
    | .error err, _ => .error err
    | _, .error err => .error err
    | .ok t, .ok ts => .ok (t :: ts)
def annotateKVs (m : ValidationMode) (s : Schema) (env : RequestEnv) : List (String × Expr) → Capabilities → Except TcError (List (String × TExpr))
  | [], _ => .ok []
  | (k, e) :: es, caps =>
    match annotate m s env e caps, annotateKVs m s env es caps with
    | .error err, _ => .error err
    | _, .error err => .error err
    | .ok t, .ok ts => .ok ((k, t) :: ts)
end

/-! ## `LevelChecker` -/

/-- `ValidationError::{maximum_level_exceeded (with `actual_level`), literal_dereference_target,
internal_invariant_violation}` -/
inductive LevelErr where
  | maxExceeded (actual : Nat)
  | litDeref
  | internal
deriving Repr, DecidableEq, Inhabited

/-- does the association list bind `a`? (keys only) -/
def hasKey (a : String) (kvs : List (String × TExpr)) : Bool := kvs.any (fun kv => kv.1 == a)

/-- the operators `check_expr_level` treats as entity dereferences of their first argument -/
def isDerefOp : BinaryOp → Bool
  | .mem => true
  | .hasTag => true
  | .getTag => true
  | _ => false

-- `check_entity_deref_target_level`: the returned `EntityDerefLevel`.
-- `act` is `env.action_entity_uid()`; the path's head is the top of Rust's `access_path` stack.
mutual
def derefLevel (act : EntityUID) : TExpr → List String → Nat
  | .var _, _ => 0
  | .slot _, _ => 0
  | .lit _, _ => 0
  | .ite _ t e, p => max (derefLevel act t p) (derefLevel act e p)
  | .getAttr k e a, p =>
    match k with
    | .entity => derefLevel act e p + 1
    | .record => derefLevel act e (a :: p)
    | .other => 0
  | .binaryApp op a _, p =>
    match op with
    | .getTag => derefLevel act a p + 1
    | _ => 0
  | .record kvs, p =>
    match p with
    | [] => 0
    | a :: p' =>
      match derefLevelKVs act a p' kvs with
      | some l => l
      | none => 0
  | .unknown _ _, _ => 0
  | .and _ _, _ => 0
  | .or _ _, _ => 0
  | .unaryApp _ _, _ => 0
  | .call _ _, _ => 0
  | .hasAttr _ _ _, _ => 0
  | .like _ _, _ => 0
  | .is _ _, _ => 0
  | .set _, _ => 0
/-- level of the (last) binding of `a`, checked with the rest of the path; `none` = `attrs.get_key_value(a)` is `None` -/
def derefLevelKVs (act : EntityUID) (a : String) (p : List String) : List (String × TExpr) → Option Nat
  | [] => none
  | (k, e) :: rest =>
    match derefLevelKVs act a p rest with
    | some l => some l
    | none => if k == a then some (derefLevel act e p) else none
end

/-- the `maximum_level_exceeded` check: `deref_target_lvl >= self.max_level`, reported with `deref_target_lvl.increment()` -/
def exceeds (n lvl : Nat) : List LevelErr := if lvl ≥ n then [.maxExceeded (lvl + 1)] else []

-- the errors `check_entity_deref_target_level` / `check_expr_level` insert, for maximum level `n`
mutual
def derefErrs (n : Nat) (act : EntityUID) : TExpr → List String → List LevelErr
  | .var _, _ => []
  | .slot _, _ => [.litDeref]
  | .lit l, _ =>
    match l with
    | .entityUID u => if u == act then [] else [.litDeref]
    | _ => [.internal]
  | .ite c t e, p => checkExpr n act c ++ (derefErrs n act t p ++ derefErrs n act e p)
  | .getAttr k e a, p =>
    match k with
    | .entity => derefErrs n act e p
    | .record => derefErrs n act e (a :: p)
    | .other => [.internal]
  | .binaryApp op a b, p =>
    match op with
    | .getTag => derefErrs n act a p ++ checkExpr n act b
    | _ => [.internal]
  | .record kvs, p =>
    match p with
    | [] => [.internal]
    | a :: p' => if hasKey a kvs then derefErrsKVs n act a p' kvs else [.internal]
  | .unknown _ _, _ => [.internal]
  | .and _ _, _ => [.internal]
  | .or _ _, _ => [.internal]
  | .unaryApp _ _, _ => [.internal]
  | .call _ _, _ => [.internal]
  | .hasAttr _ _ _, _ => [.internal]
  | .like _ _, _ => [.internal]
  | .is _ _, _ => [.internal]
  | .set _, _ => [.internal]
/-- the accessed (last) binding of `a` as a dereference target, every other binding as an ordinary expression -/
def derefErrsKVs (n : Nat) (act : EntityUID) (a : String) (p : List String) : List (String × TExpr) → List LevelErr
  | [] => []
  | (k, e) :: rest =>
    (if k == a && !hasKey a rest then derefErrs n act e p else checkExpr n act e) ++ derefErrsKVs n act a p rest
/-- `check_expr_level` -/
def checkExpr (n : Nat) (act : EntityUID) : TExpr → List LevelErr
  | .lit _ => []
  | .var _ => []
  | .slot _ => []
  | .unknown _ _ => []
  | .ite c t e => checkExpr n act c ++ (checkExpr n act t ++ checkExpr n act e)
  | .and a b => checkExpr n act a ++ checkExpr n act b
  | .or a b => checkExpr n act a ++ checkExpr n act b
  | .unaryApp _ a => checkExpr n act a
  | .binaryApp op a b =>
    if isDerefOp op then derefErrs n act a [] ++ (exceeds n (derefLevel act a []) ++ checkExpr n act b)
    else checkExpr n act a ++ checkExpr n act b
  | .call _ args => checkList n act args
  | .getAttr k e _ =>
    match k with
    | .entity => derefErrs n act e [] ++ exceeds n (derefLevel act e [])
    | .record => checkExpr n act e
    | .other => [.internal]
  | .hasAttr k e _ =>
    match k with
    | .entity => derefErrs n act e [] ++ exceeds n (derefLevel act e [])
    | .record => checkExpr n act e
    | .other => [.internal]
  | .like e _ => checkExpr n act e
  | .is e _ => checkExpr n act e
  | .set es => checkList n act es
  | .record kvs => checkKVs n act kvs
def checkList (n : Nat) (act : EntityUID) : List TExpr → List LevelErr
  | [] => []
  | e :: es => checkExpr n act e ++ checkList n act es
def checkKVs (n : Nat) (act : EntityUID) : List (String × TExpr) → List LevelErr
  | [] => []
  | (_, e) :: es => checkExpr n act e ++ checkKVs n act es
end

/-- the verdict of the level checker on one typed expression -/
def checkLevel (n : Nat) (act : EntityUID) (te : TExpr) : Bool := (checkExpr n act te).isEmpty

/-! ## `Validator::validate_policy_with_level` (the level part) -/

/-- one request environment: `PolicyCheck::Success(e) | Irrelevant(_, e)` are level-checked, `Fail` is skipped
(its errors are the typechecker's); `none` = outside the typechecker model -/
def levelEnv (n : Nat) (m : ValidationMode) (s : Schema) (env : RequestEnv) (cond : Expr) : Option (List LevelErr) :=
  match expectOneOf (typeOf m s env cond []) [boolT] with
  | .error .outside => none
  | .error .fail => some []
  | .ok _ =>
    match annotate m s env cond [] with
    | .ok te => some (checkExpr n env.action te)
    | .error .outside => none
    | .error .fail => some []

/-- all linked request environments of the policy (`typecheck_by_request_env`) -/
def levelPolicy (n : Nat) (m : ValidationMode) (s : Schema) (pu ru : SlotUse) (cond : Expr) : Option (List LevelErr) :=
  ((s.envs pu ru).mapM (fun env => levelEnv n m s env cond)).map List.flatten

end Cedar.Level
