import CedarVerif.Cedar.Data
/-
The validator's type language.  Mirrors cedar-policy-core/src/validator/types.rs (`Type`, `BoolType`,
`EntityKind`/`EntityLUB`, `Attributes`/`AttributeType`, `OpenTag`) and the entity-store schema types of
cedar-policy-core/src/entities/json/schema_types.rs (`SchemaType`, `AttributeType`), together with the
conversion `impl TryFrom<Type> for CoreSchemaType`.  Shared by C03 (typechecker) and C11 (conformance).
Imports only model files.
-/
namespace Cedar

/-- `BoolType`: the primitive boolean type and the two singleton types -/
inductive BoolType where
  | anyBool | tt | ff
deriving Repr, DecidableEq, Inhabited

/-- `validator::types::Type`.
* `set none` is `Set { element_type: None }` (the "any set" type used in subtype checks only);
* `record attrs isOpen`: `attrs` is the `BTreeMap` of `Attributes` as a key-sorted list of
  `(name, required, type)`; `isOpen` is `OpenTag::OpenAttributes`;
* `entity lub`: `EntityKind::Entity(EntityLUB)`, the lub elements as a list (a singleton in every type that
  schema construction or strict typing produces);
* `ext name`: `ExtensionType { name }` with `name ∈ {decimal, ipaddr, datetime, duration}`. -/
inductive CedarType where
  | never
  | bool (b : BoolType)
  | long
  | string
  | set (elem : Option CedarType)
  | record (attrs : List (String × Bool × CedarType)) (isOpen : Bool)
  | entity (lub : List EntityType)
  | anyEntity
  | ext (name : String)
deriving Repr, Inhabited

/-- one attribute of a record / entity type: `(name, required, type)` -/
abbrev AttrDecl := String × Bool × CedarType
abbrev Attrs := List AttrDecl

def AttrDecl.name (a : AttrDecl) : String := a.1
def AttrDecl.required (a : AttrDecl) : Bool := a.2.1
def AttrDecl.ty (a : AttrDecl) : CedarType := a.2.2

/-- `Attributes::get_attr` -/
def Attrs.find? : Attrs → String → Option (Bool × CedarType)
  | [], _ => none
  | (k, qt) :: rest, a => if k == a then some qt else Attrs.find? rest a

/-- `entities::SchemaType` (cedar-policy-core/src/entities/json/schema_types.rs) -/
inductive SchemaType where
  | bool
  | long
  | string
  | set (elem : SchemaType)
  | emptySet
  | record (attrs : List (String × Bool × SchemaType)) (isOpen : Bool)
  | entity (ty : EntityType)
  | ext (name : String)
deriving Repr, Inhabited

abbrev SchemaAttrs := List (String × Bool × SchemaType)

def SchemaAttrs.find? : SchemaAttrs → String → Option (Bool × SchemaType)
  | [], _ => none
  | (k, qt) :: rest, a => if k == a then some qt else SchemaAttrs.find? rest a

-- `impl TryFrom<Type> for CoreSchemaType`: `none` where Rust returns `Err` (Never, AnyEntity, non-singleton lub)
mutual
def CedarType.toSchemaType? : CedarType → Option SchemaType
  | .never => none
  | .bool _ => some .bool
  | .long => some .long
  | .string => some .string
  | .set (some t) => (CedarType.toSchemaType? t).map .set
  | .set none => some .emptySet
  | .anyEntity => none
  | .record attrs o => (attrsToSchema? attrs).map (fun as => .record as o)
  | .entity [t] => some (.entity t)
  | .entity _ => none
  | .ext n => some (.ext n)
def attrsToSchema? : List (String × Bool × CedarType) → Option SchemaAttrs
  | [] => some []
  | (k, r, t) :: rest =>
    match CedarType.toSchemaType? t, attrsToSchema? rest with
    | some t', some rest' => some ((k, r, t') :: rest')
    | _, _ => none
end

/-- name of the extension type an extension value belongs to (the return type of its constructor) -/
def Ext.typeName : Ext → String
  | .decimal _ => "decimal"
  | .ipaddr _ _ _ => "ipaddr"
  | .datetime _ => "datetime"
  | .duration _ => "duration"

end Cedar
