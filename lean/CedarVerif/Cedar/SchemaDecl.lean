import CedarVerif.Cedar.SchemaSyntax
/-
C09, declaration level: STANDARD ENTITY DECLARATIONS of the Cedar schema syntax as data, the printer of fmt.rs
(`impl Display for json_schema::StandardEntityType` preceded by `entity <name>` and followed by `;` as written by
`NamespaceDefinition`'s `Display`) and the parser of grammar.lalrpop

    Entity   := 'entity' Idents ['in' EntTypes] [['='] '{' [AttrDecls] '}'] ['tags' Type] ';'
    Idents   := Ident {',' Ident}                      (NonEmptyComma: no trailing comma)
    EntTypes := Path | '[' [Path {',' Path}] ']'       (Comma: no trailing comma)

over the token type of `Cedar/SchemaSyntax.lean` (`;`, `=`, `[`, `]` are `Tok.other`; keywords are identifier tokens).
The shape is the attribute-declaration list of a record type (`AttrsC`: name, required?, type — optional fields are `?`),
`memberOf` a list of qualified names, `tags` an optional type.  Import-free (only model files).
A declared name `__cedar` is refused as to_json_schema.rs does (`UnreservedId`).
Outside: enum entities, action / common-type / namespace declarations, annotations, the lexer.
-/
namespace Cedar.SchemaSyntax

/-- `StandardEntityDecl` (cedar_schema/ast.rs) / `json_schema::StandardEntityType` with its names -/
structure EntityDecl where
  names : List String
  memberOf : List QName
  attrs : AttrsC
  tags : Option TyCedar

def tSemi : Tok := .other ";"
def tEq : Tok := .other "="
def tLbrack : Tok := .other "["
def tRbrack : Tok := .other "]"

/-- `fmt_non_empty_slice` without the brackets: `head, e, e` -/
def printNames : List QName → List Tok
  | [] => []
  | [q] => printName q
  | q :: rest => printName q ++ .comma :: printNames rest

def printIdents : List String → List Tok
  | [] => []
  | [s] => [.id s]
  | s :: rest => .id s :: .comma :: printIdents rest

/-- fmt.rs: ` in [..]` only for a non-empty `member_of_types` -/
def printInPart : List QName → List Tok
  | [] => []
  | ms => .id "in" :: tLbrack :: printNames ms ++ [tRbrack]

/-- ` = {..}` only for a non-empty record ("Don't print `= { }`") -/
def printShapePart : AttrsC → List Tok
  | .nil => []
  | as => tEq :: printC (.record as)

/-- ` tags T` when present -/
def printTagsPart : Option TyCedar → List Tok
  | none => []
  | some t => .id "tags" :: printC t

def printEntity (d : EntityDecl) : List Tok :=
  .id "entity" :: (printIdents d.names ++ (printInPart d.memberOf ++ (printShapePart d.attrs ++ (printTagsPart d.tags ++ [tSemi]))))

/-- `Idents` -/
def parseIdents : List Tok → Option (List String × List Tok)
  | .id s :: .comma :: r =>
    if validId s then
      match parseIdents r with
      | some (ns, r') => some (s :: ns, r')
      | none => none
    else none
  | .id s :: r => if validId s then some ([s], r) else none
  | _ => none

/-- `Path {',' Path} ']'` (at least one path; fuel bounds the number of paths) -/
def parsePathsTail : Nat → List Tok → Option (List QName × List Tok)
  | 0, _ => none
  | fuel + 1, .id s :: r =>
    match parsePath s r with
    | some (.ident q, .comma :: r') =>
      (match parsePathsTail fuel r' with
        | some (qs, r'') => some (q :: qs, r'')
        | none => none)
    | some (.ident q, .other "]" :: r') => some ([q], r')
    | _ => none
  | _ + 1, _ => none

/-- `EntTypes` -/
def parseEntTypes (fuel : Nat) : List Tok → Option (List QName × List Tok)
  | .other "[" :: .other "]" :: r => some ([], r)
  | .other "[" :: r => parsePathsTail fuel r
  | .id s :: r =>
    match parsePath s r with
    | some (.ident q, r') => some ([q], r')
    | _ => none
  | _ => none

/-- `['in' EntTypes]` -/
def parseInPart (fuel : Nat) (r1 : List Tok) : Option (List QName × List Tok) :=
  match r1 with
  | .id "in" :: r' => parseEntTypes fuel r'
  | _ => some ([], r1)

/-- `[['='] '{' [AttrDecls] '}']` (an absent block and `{}` both give the empty shape) -/
def parseShapePart (fuel : Nat) (r2 : List Tok) : Option (AttrsC × List Tok) :=
  match r2 with
  | .other "=" :: .lb :: r' =>
    (match parseC fuel (.lb :: r') with
      | some (.record as, r'') => some (as, r'')
      | _ => none)
  | .lb :: r' =>
    (match parseC fuel (.lb :: r') with
      | some (.record as, r'') => some (as, r'')
      | _ => none)
  | .other "=" :: _ => none
  | _ => some (AttrsC.nil, r2)

/-- `['tags' Type]` -/
def parseTagsPart (fuel : Nat) (r3 : List Tok) : Option (Option TyCedar × List Tok) :=
  match r3 with
  | .id "tags" :: r' =>
    (match parseC fuel r' with
      | some (t, r'') => some (some t, r'')
      | none => none)
  | _ => some (none, r3)

/-- `Entity` (standard form) -/
def parseEntity (fuel : Nat) : List Tok → Option (EntityDecl × List Tok)
  | .id "entity" :: r =>
    match parseIdents r with
    | none => none
    | some (names, r1) =>
      match parseInPart fuel r1 with
      | none => none
      | some (memberOf, r2) =>
        match parseShapePart fuel r2 with
        | none => none
        | some (attrs, r3) =>
          match parseTagsPart fuel r3 with
          | some (tags, .other ";" :: r5) =>
            -- to_json_schema.rs `convert_id`: a declared name must be an `UnreservedId` (`__cedar` is refused: `reserved_name`)
            if names.contains "__cedar" then none else some ({ names, memberOf, attrs, tags }, r5)
          | _ => none
  | _ => none

/-- parse one complete declaration -/
def parseEntityDecl (toks : List Tok) : Option EntityDecl :=
  match parseEntity (toks.length + 1) toks with
  | some (d, []) => some d
  | _ => none

/-! ## the JSON side: `json_schema::StandardEntityType` (one entry of `entityTypes`) -/

structure EntityTypeJ where
  memberOf : List QName
  shape : AttrsJ            -- the attributes of the `shape` record type (BTreeMap order)
  tags : Option TyJson

/-- JSON → Cedar (fmt.rs prints one declaration per entity type) -/
def EntityTypeJ.toDecl (name : String) (e : EntityTypeJ) : EntityDecl :=
  { names := [name], memberOf := e.memberOf, attrs := toCedarAttrs e.shape, tags := e.tags.map toCedar }

/-- Cedar → JSON (to_json_schema.rs: one `entityTypes` entry per declared name, all with the same body) -/
def EntityDecl.toJsonTypes (d : EntityDecl) : List (String × EntityTypeJ) :=
  d.names.map (fun n => (n, { memberOf := d.memberOf, shape := collectJ .nil d.attrs, tags := d.tags.map toJson }))

end Cedar.SchemaSyntax
