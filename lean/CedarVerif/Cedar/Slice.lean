import CedarVerif.Cedar.Expr
/-
The level-n slice of an entity store (C16): SPEC of what the property talks about.

`atLevel n req es` keeps exactly the entities of `es` whose uid is reachable from the request's principal, action,
resource and the entity uids occurring (at any depth) in the context, within at most `n` hops, where one hop goes from
an entity *present in the store* to an entity uid occurring (at any depth) in one of its attribute values or tag
values.  Ancestors are not hops.  Every kept entity is kept whole: its attributes, tags and ancestor set.
Imports only model files.
-/
namespace Cedar.Slice
open Cedar

-- all entity uids occurring in a value
mutual
def uidsOf : Value → List EntityUID
  | .prim (.entityUID u) => [u]
  | .prim _ => []
  | .ext _ => []
  | .set vs => uidsOfList vs
  | .record kvs => uidsOfKVs kvs
def uidsOfList : List Value → List EntityUID
  | [] => []
  | v :: vs => uidsOf v ++ uidsOfList vs
def uidsOfKVs : List (String × Value) → List EntityUID
  | [] => []
  | (_, v) :: kvs => uidsOf v ++ uidsOfKVs kvs
end

/-- hop 0: principal, action, resource and the uids in the context -/
def roots (req : Request) : List EntityUID :=
  req.principal :: req.action :: req.resource :: uidsOfKVs req.context

/-- the uids one hop away from `u`: those in the attribute and tag values of `u`'s entity, if the store has one -/
def successors (es : Entities) (u : EntityUID) : List EntityUID :=
  match es.find? u with
  | some d => uidsOfKVs d.attrs ++ uidsOfKVs d.tags
  | none => []

/-- uids within at most `n` hops of the roots -/
def reach (es : Entities) (req : Request) : Nat → List EntityUID
  | 0 => roots req
  | n + 1 => reach es req n ++ (reach es req n).flatMap (successors es)

/-- the level-`n` slice -/
def atLevel (n : Nat) (req : Request) (es : Entities) : Entities :=
  es.filter (fun p => (reach es req n).contains p.1)

end Cedar.Slice
