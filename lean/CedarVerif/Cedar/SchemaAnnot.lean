import CedarVerif.Cedar.SchemaCollect
/-
C09, part 5: ANNOTATIONS of the Cedar schema syntax.

JSON side (json_schema.rs): `NamespaceDefinition`, `CommonType`, `EntityType`, `ActionType` and `TypeOfAttribute` each carry
`annotations: est::Annotations` = `BTreeMap<AnyId, Option<Annotation>>` (serialised as an `"annotations"` object, omitted when empty; a
`null` value is `None`; the EMPTY namespace may not carry annotations: `deserialize_schema_fragment` refuses them).  `AnnsJ` is that
map as its entry list in key order.

Printer (est/annotation.rs `Annotations::fmt_indented`, called by fmt.rs before `namespace N {`, before every `type` / `entity` /
`action` declaration and before every record attribute): one `@key("value")` per entry (`value.escape_debug()`; tokens carry the
unescaped string, escaping belongs to the lexer, which is not modelled), `@key` for a `None` value.

Parser (grammar.lalrpop): `Annotation := '@' AnyIdent ['(' STR ')']`, `Annotated<E> := Annotation* E`, then
cedar_schema/ast.rs `deduplicate_annotations`: a repeated key is `UserError::DuplicateAnnotations`, the rest is collected into a
`BTreeMap` and an absent value becomes `""` (`Annotation::with_optional_value`); `.into()` to `est::Annotations` wraps every value in
`Some`.  Hence `@key` (JSON `null`) comes back as `""`: `normAnns`.

Modelled here: annotation lists, annotated declarations and annotated declaration lists (`Annotated<Decl>*`, a namespace body).
Whole annotated fragments (`FragmentA`, `printFragmentA`, `parseItemsA`: annotations on `namespace` blocks too) are defined; see
`annotated_fragment_roundtrip` in Thm/C09.lean.
NOT modelled: annotations on record ATTRIBUTES (they live inside `TyJson` / `AttrsC`) and string escaping.
-/
namespace Cedar.SchemaSyntax

/-- `est::Annotations` in `BTreeMap` order -/
abbrev AnnsJ := List (String × Option String)

/-- `Annotations::fmt_indented` -/
def printAnns : AnnsJ → List Tok
  | [] => []
  | (k, none) :: rest => .other "@" :: .id k :: printAnns rest
  | (k, some v) :: rest => .other "@" :: .id k :: .other "(" :: .str v :: .other ")" :: printAnns rest

/-- `Annotation*` in source order (`AnyIdent`: any identifier-shaped token, keywords included) -/
def parseAnns : List Tok → Option (AnnsJ × List Tok)
  | .other "@" :: .id k :: .other "(" :: .str v :: .other ")" :: r =>
    if identShape k then
      (match parseAnns r with
        | some (as, r') => some ((k, some v) :: as, r')
        | none => none)
    else none
  | .other "@" :: .id k :: r =>
    if identShape k then
      (match parseAnns r with
        | some (as, r') => some ((k, none) :: as, r')
        | none => none)
    else none
  | .other "@" :: _ => none
  | toks => some ([], toks)

/-- an absent value is `""` -/
def normAnns (a : AnnsJ) : AnnsJ := a.map fun x => (x.1, some (x.2.getD ""))

/-- `deduplicate_annotations` + `From<ast::Annotations> for est::Annotations`: `none` = `DuplicateAnnotations` -/
def dedupAnns (a : AnnsJ) : Option AnnsJ :=
  if hasDupKeys (a.map (·.1)) then none else some (sortKeys strKeyLt (normAnns a))

/-- `Annotation*` followed by deduplication -/
def parseAnnotations (toks : List Tok) : Option (AnnsJ × List Tok) :=
  match parseAnns toks with
  | some (a, r) =>
    (match dedupAnns a with
      | some a' => some (a', r)
      | none => none)
  | none => none

/-- `Annotated<Decl>` -/
def parseAnnotatedDecl (toks : List Tok) : Option ((AnnsJ × DeclC) × List Tok) :=
  match parseAnnotations toks with
  | some (a, r) =>
    (match parseDecl r with
      | some (d, r') => some ((a, d), r')
      | none => none)
  | none => none

/-- `Annotated<Decl>*` (the body of a namespace; fuel bounds the number of declarations) -/
def parseDeclListA : Nat → List Tok → Option (List (AnnsJ × DeclC) × List Tok)
  | 0, _ => none
  | fuel + 1, toks =>
    match parseAnnotations toks with
    | none => none
    | some (a, r) =>
      if isDeclStart r then
        match parseDecl r with
        | some (d, r') =>
          (match parseDeclListA fuel r' with
            | some (ds, r'') => some ((a, d) :: ds, r'')
            | none => none)
        | none => none
      else if a.isEmpty then some ([], toks) else none

/-- an annotated namespace body on the JSON side: every declaration with its annotations -/
structure NamespaceA where
  commons : List (AnnsJ × String × TyJson)
  entities : List (AnnsJ × String × EntityKindJ)
  actions : List (AnnsJ × String × ActionJ)

def printCommonsA : List (AnnsJ × String × TyJson) → List Tok
  | [] => []
  | (a, n, t) :: rest => printAnns a ++ (printCommonJ n t ++ printCommonsA rest)

def printEntitiesA : List (AnnsJ × String × EntityKindJ) → List Tok
  | [] => []
  | (a, n, e) :: rest => printAnns a ++ (printEntityKindJ n e ++ printEntitiesA rest)

def printActionsA : List (AnnsJ × String × ActionJ) → List Tok
  | [] => []
  | (a, n, x) :: rest => printAnns a ++ (printActionJ n x ++ printActionsA rest)

/-- `NamespaceDefinition::fmt_indented` with the annotations -/
def printNsA (d : NamespaceA) : List Tok :=
  printCommonsA d.commons ++ (printEntitiesA d.entities ++ printActionsA d.actions)

/-- forget the annotations -/
def NamespaceA.strip (d : NamespaceA) : NamespaceJ :=
  ⟨d.commons.map (·.2), d.entities.map (·.2), d.actions.map (·.2)⟩

/-- an annotated fragment: the empty namespace carries no annotations of its own (`deserialize_schema_fragment` refuses them) -/
structure FragmentA where
  empty : Option NamespaceA
  named : List (QName × AnnsJ × NamespaceA)

def printNamedA : List (QName × AnnsJ × NamespaceA) → List Tok
  | [] => []
  | (q, a, d) :: rest => printAnns a ++ (.id "namespace" :: (printName q ++ .lb :: (printNsA d ++ .rb :: printNamedA rest)))

/-- `impl Display for Fragment` with the annotations -/
def printFragmentA (f : FragmentA) : List Tok :=
  (match f.empty with | some d => printNsA d | none => []) ++ printNamedA f.named

/-- a top-level item with its annotations -/
inductive ItemA where
  | ns (anns : AnnsJ) (name : QName) (decls : List (AnnsJ × DeclC))
  | decl (anns : AnnsJ) (d : DeclC)

/-- `Schema := Namespace*`, `Namespace := Annotated<Namedspace> | Annotated<Decl>` -/
def parseItemsA : Nat → List Tok → Option (List ItemA)
  | 0, _ => none
  | _ + 1, [] => some []
  | fuel + 1, toks =>
    match parseAnnotations toks with
    | none => none
    | some (a, .id "namespace" :: .id s :: r) =>
      (match parsePath s r with
        | some (.ident q, .lb :: r1) =>
          (match parseDeclListA fuel r1 with
            | some (ds, .rb :: r2) =>
              if q.isReserved then none
              else (match parseItemsA fuel r2 with
                | some its => some (.ns a q ds :: its)
                | none => none)
            | _ => none)
        | _ => none)
    | some (a, r) =>
      match parseDecl r with
      | some (d, r') =>
        (match parseItemsA fuel r' with
          | some its => some (.decl a d :: its)
          | none => none)
      | none => none

/-- forget the annotations: the items of the un-annotated grammar -/
def ItemA.strip : ItemA → ItemC
  | .ns _ q ds => .ns q (ds.map (·.2))
  | .decl _ d => .decl d

def FragmentA.strip (f : FragmentA) : FragmentJ :=
  ⟨f.empty.map NamespaceA.strip, f.named.map fun x => (x.1, x.2.2.strip)⟩

end Cedar.SchemaSyntax
