/-
`like` patterns. Mirrors cedar-policy-core/src/ast/pattern.rs.
 * `M`     — declarative recursive matcher (the specification: `*` matches any sequence of scalar values)
 * `wm`    — suffix-form mirror of the loop in `Pattern::wildcard_match` (same control flow, fuel)
 * `wmIdx` — index-form mirror (arrays, `i j star_idx tmp_idx contains_star`) with the indexing
             sites `pattern[j]` / `text[i]` kept explicit as `IdxOutcome.panic`
Import-free.
-/
namespace Cedar

inductive PatElem where
  | char (c : Char)
  | star
deriving Repr, DecidableEq, Inhabited

abbrev Pattern := List PatElem

def M : Pattern → List Char → Bool
  | [], [] => true
  | [], _ :: _ => false
  | .star :: ps, [] => M ps []
  | .star :: ps, c :: cs => M ps (c :: cs) || M (.star :: ps) cs
  | .char _ :: _, [] => false
  | .char p :: ps, c :: cs => p == c && M ps cs
termination_by p s => p.length + s.length

def skipStars : Pattern → Pattern
  | .star :: ps => skipStars ps
  | ps => ps

/-- suffix-form mirror of the Rust loop. `none` = early `return false`. -/
def loopS : Nat → List Char → Pattern → Option (Pattern × List Char) → Option Pattern
  | 0, _, pj, _ => some pj
  | _+1, [], pj, _ => some pj
  | f+1, c :: ti', pj, st =>
    match st with
    | some ([], _) => some pj
    | _ =>
      match pj with
      | .star :: pj' => loopS f (c :: ti') pj' (some (pj', c :: ti'))
      | .char p :: pj' =>
        if p == c then loopS f ti' pj' st
        else match st with
          | none => none
          | some (_, []) => none
          | some (ps, _ :: tt') => loopS f tt' ps (some (ps, tt'))
      | [] =>
        match st with
          | none => none
          | some (_, []) => none
          | some (ps, _ :: tt') => loopS f tt' ps (some (ps, tt'))

def wm (P : Pattern) (T : List Char) : Bool :=
  match loopS ((T.length + 1) * (P.length + 1) + 1) T P none with
  | none => false
  | some pj => (skipStars pj).isEmpty

/-! ### index-form mirror -/

structure WmSt where
  i : Nat
  j : Nat
  starIdx : Nat
  tmpIdx : Nat
  hasStar : Bool
deriving Repr

inductive IdxOutcome where
  | result (b : Bool)
  | panic (site : String)
  | fuel
deriving Repr, DecidableEq

def PatElem.isStar : PatElem → Bool
  | .star => true
  | _ => false

def PatElem.matchChar : PatElem → Char → Bool
  | .char c, t => c == t
  | .star, _ => true

/-- main loop with fuel. Rust:
```
while i < text.len() && (!contains_star || star_idx != pattern.len() - 1) {
    if j < pattern.len() && pattern[j].is_wildcard() { contains_star = true; star_idx = j; tmp_idx = i; j += 1; }
    else if j < pattern.len() && pattern[j].match_char(text[i]) { i += 1; j += 1; }
    else if contains_star { j = star_idx + 1; i = tmp_idx + 1; tmp_idx = i; }
    else { return false; }
}
while j < pattern.len() && pattern[j].is_wildcard() { j += 1; }
j == pattern.len()
``` -/
def wmIdxLoop (pat : Array PatElem) (text : Array Char) : Nat → WmSt → Except IdxOutcome WmSt
  | 0, _ => .error .fuel
  | fuel+1, st =>
    if st.i < text.size && (!st.hasStar || st.starIdx != pat.size - 1) then
      if st.j < pat.size then
        match pat[st.j]?, text[st.i]? with
        | none, _ => .error (.panic "pattern[j]")
        | some pe, ti =>
          if pe.isStar then
            wmIdxLoop pat text fuel { st with hasStar := true, starIdx := st.j, tmpIdx := st.i, j := st.j + 1 }
          else match ti with
            | none => .error (.panic "text[i]")
            | some t =>
              if pe.matchChar t then wmIdxLoop pat text fuel { st with i := st.i + 1, j := st.j + 1 }
              else if st.hasStar then
                wmIdxLoop pat text fuel { st with j := st.starIdx + 1, i := st.tmpIdx + 1, tmpIdx := st.tmpIdx + 1 }
              else .error (.result false)
      else if st.hasStar then
        wmIdxLoop pat text fuel { st with j := st.starIdx + 1, i := st.tmpIdx + 1, tmpIdx := st.tmpIdx + 1 }
      else .error (.result false)
    else .ok st

def wmIdxSkip (pat : Array PatElem) : Nat → Nat → Except IdxOutcome Nat
  | 0, _ => .error .fuel
  | fuel+1, j =>
    if j < pat.size then
      match pat[j]? with
      | none => .error (.panic "pattern[j]")
      | some pe => if pe.isStar then wmIdxSkip pat fuel (j+1) else .ok j
    else .ok j

def wmIdx (pat : Pattern) (text : List Char) : IdxOutcome :=
  if pat.isEmpty then .result text.isEmpty else
  let p := pat.toArray; let t := text.toArray
  match wmIdxLoop p t ((t.size + 1) * (p.size + 1) + 1) ⟨0,0,0,0,false⟩ with
  | .error o => o
  | .ok st =>
    match wmIdxSkip p (p.size + 1) st.j with
    | .error o => o
    | .ok j => .result (j == p.size)

end Cedar
